package main

import (
	"fmt"
	"go/ast"
	"go/token"
	"os"
	"path/filepath"
	"sort"
	"strings"
)

// Typed: facts the C19 models need from the type-aware read path.
//
//	myType*            type codes used by the MySQL data encoder (decryptor/mysql/base/type.go)
//	myEncoders         RegisterMySQLDataTypeIDEncoder(uint32(base_mysql.TypeX), &YEncoder{}) of decryptor/mysql/types/*.go
//	pgEncoders         RegisterPostgreSQLDataTypeIDEncoder(pgtype.XOID, &YEncoder{}) of decryptor/postgresql/types/*.go
//	parseIntBits       per encoder type: bit sizes of every strconv.ParseInt(_, 10, N) in Encode / encodeDefault / ValidateDefaultValue
//	*EncryptedTypeIDs  the config maps data_type → database type id (encryptor/base/config/common/encryptedTypes.go)
//	onFail*            the response_on_fail strings
//	*SubscribeOrder    order of SubscribeOnAllColumnsDecryption(...) calls in decryptor/{postgresql,mysql}/proxy.go
func init() { generators = append(generators, genTyped) }

func genTyped() {
	lf := newLean("Typed", "Sources: decryptor/{mysql,postgresql}/types/*.go, decryptor/{mysql,postgresql}/proxy.go, decryptor/mysql/base/type.go, encryptor/base/config/common/encryptedTypes.go, encryptor/base/config/encryptionSettings.go, masking/common.")
	menv := newConstEnv("decryptor/mysql/base/type.go")
	for _, n := range []string{"TypeTiny", "TypeShort", "TypeLong", "TypeFloat", "TypeDouble", "TypeNull", "TypeLongLong", "TypeInt24", "TypeYear", "TypeBlob", "TypeString", "TypeVarString", "TypeVarchar"} {
		lf.def("my"+n, "Nat", fmt.Sprint(menv.need(n, "decryptor/mysql/base/type.go")), "base."+n)
	}

	type enc struct{ id, name, file string }
	collect := func(dir string, files []string, regFn string) []enc {
		var out []enc
		for _, f := range files {
			rel := dir + "/" + f
			file := parseFile(rel)
			if file == nil {
				continue
			}
			found := false
			ast.Inspect(file, func(n ast.Node) bool {
				c, ok := n.(*ast.CallExpr)
				if !ok || len(c.Args) != 2 {
					return true
				}
				sel, ok := c.Fun.(*ast.SelectorExpr)
				if !ok || sel.Sel.Name != regFn {
					return true
				}
				id := ""
				switch a := c.Args[0].(type) {
				case *ast.SelectorExpr:
					id = a.Sel.Name
				case *ast.CallExpr: // uint32(base_mysql.TypeLong)
					if len(a.Args) == 1 {
						if s, ok := a.Args[0].(*ast.SelectorExpr); ok {
							id = s.Sel.Name
						}
					}
				}
				name := ""
				if u, ok := c.Args[1].(*ast.UnaryExpr); ok {
					if cl, ok := u.X.(*ast.CompositeLit); ok {
						if t, ok := cl.Type.(*ast.Ident); ok {
							name = t.Name
						}
					}
				}
				if id == "" || name == "" {
					fail("%s: %s call has an unexpected shape", rel, regFn)
					return true
				}
				out = append(out, enc{id, name, rel})
				found = true
				return true
			})
			if !found {
				fail("%s: no %s call found", rel, regFn)
			}
		}
		return out
	}
	myEnc := collect("decryptor/mysql/types", []string{"long.go", "long_long.go", "string.go", "blob.go"}, "RegisterMySQLDataTypeIDEncoder")
	pgEnc := collect("decryptor/postgresql/types", []string{"int4.go", "int8.go", "text.go", "bytea.go"}, "RegisterPostgreSQLDataTypeIDEncoder")
	show := func(es []enc) string {
		var rows []string
		for _, e := range es {
			rows = append(rows, fmt.Sprintf("(%q, %q)", e.id, e.name))
		}
		return "[" + strings.Join(rows, ", ") + "]"
	}
	lf.def("myEncoders", "List (String × String)", show(myEnc), "RegisterMySQLDataTypeIDEncoder(type, encoder) in decryptor/mysql/types")
	lf.def("pgEncoders", "List (String × String)", show(pgEnc), "RegisterPostgreSQLDataTypeIDEncoder(oid, encoder) in decryptor/postgresql/types")

	// bit sizes of strconv.ParseInt per encoder method
	var bitRows []string
	for _, e := range append(append([]enc{}, myEnc...), pgEnc...) {
		file := parseFile(e.file)
		if file == nil {
			continue
		}
		for _, d := range file.Decls {
			fd, ok := d.(*ast.FuncDecl)
			if !ok || fd.Recv == nil || recvName(fd.Recv.List[0].Type) != e.name {
				continue
			}
			var bits []uint64
			ast.Inspect(fd.Body, func(n ast.Node) bool {
				c, ok := n.(*ast.CallExpr)
				if !ok || len(c.Args) != 3 {
					return true
				}
				if sel, ok := c.Fun.(*ast.SelectorExpr); ok && sel.Sel.Name == "ParseInt" {
					if menv.intOf(c.Args[1], e.file) != 10 {
						fail("%s: %s.%s: ParseInt base is not 10", e.file, e.name, fd.Name.Name)
					}
					bits = append(bits, menv.intOf(c.Args[2], e.file))
				}
				return true
			})
			if len(bits) > 0 {
				bitRows = append(bitRows, fmt.Sprintf("(%q, %q, %s)", e.name, fd.Name.Name, natList(bits)))
			}
		}
	}
	sort.Strings(bitRows)
	lf.def("parseIntBits", "List (String × String × List Nat)", "[\n  "+strings.Join(bitRows, ",\n  ")+"]", "(encoder, method, bit sizes of its strconv.ParseInt(_, 10, N) calls)")

	// config maps
	const cfg = "encryptor/base/config/common/encryptedTypes.go"
	cvars := packageVars(cfg)
	for _, mp := range []string{"MySQLEncryptedTypeDataTypeIDs", "PostgreSQLEncryptedTypeDataTypeIDs"} {
		e, ok := cvars[mp]
		if !ok {
			fail("%s: %s not found", cfg, mp)
			continue
		}
		cl, ok := e.(*ast.CompositeLit)
		if !ok {
			fail("%s: %s is not a literal", cfg, mp)
			continue
		}
		var rows []string
		for _, el := range cl.Elts {
			kv := el.(*ast.KeyValueExpr)
			k, _ := kv.Key.(*ast.Ident)
			v := ""
			switch a := kv.Value.(type) {
			case *ast.SelectorExpr:
				v = a.Sel.Name
			case *ast.CallExpr:
				if len(a.Args) == 1 {
					if s, ok := a.Args[0].(*ast.SelectorExpr); ok {
						v = s.Sel.Name
					}
				}
			}
			if k == nil || v == "" {
				fail("%s: %s entry has an unexpected shape", cfg, mp)
				continue
			}
			rows = append(rows, fmt.Sprintf("(%q, %q)", k.Name, v))
		}
		sort.Strings(rows)
		name := "my"
		if strings.HasPrefix(mp, "Postgre") {
			name = "pg"
		}
		lf.def(name+"EncryptedTypeIDs", "List (String × String)", "["+strings.Join(rows, ", ")+"]", "common."+mp)
	}
	cenv := newConstEnv(cfg)
	for _, n := range []string{"ResponseOnFailEmpty", "ResponseOnFailCiphertext", "ResponseOnFailDefault", "ResponseOnFailError"} {
		v, ok := cenv.vals[n]
		if !ok {
			fail("%s: %s not found", cfg, n)
			continue
		}
		lf.def("on"+strings.TrimPrefix(n, "ResponseOn"), "String", v.ExactString(), "common."+n)
	}

	// wiring: order of SubscribeOnAllColumnsDecryption calls in the proxy factories
	for _, db := range []string{"postgresql", "mysql"} {
		rel := "decryptor/" + db + "/proxy.go"
		fd := funcDecl(rel, "proxyFactory", "New")
		if fd == nil {
			continue
		}
		var order []string
		ast.Inspect(fd.Body, func(n ast.Node) bool {
			c, ok := n.(*ast.CallExpr)
			if !ok || len(c.Args) != 1 {
				return true
			}
			sel, ok := c.Fun.(*ast.SelectorExpr)
			if !ok || sel.Sel.Name != "SubscribeOnAllColumnsDecryption" {
				return true
			}
			switch a := c.Args[0].(type) {
			case *ast.Ident:
				order = append(order, a.Name)
			case *ast.CallExpr:
				if id, ok := a.Fun.(*ast.Ident); ok {
					order = append(order, id.Name+"()")
				} else {
					order = append(order, "?")
				}
			default:
				order = append(order, "?")
			}
			return true
		})
		if len(order) < 2 {
			fail("%s: proxyFactory.New: fewer than two SubscribeOnAllColumnsDecryption calls", rel)
		}
		name := "pg"
		if db == "mysql" {
			name = "my"
		}
		lf.def(name+"SubscribeOrder", "List String", strList(order), "arguments of the SubscribeOnAllColumnsDecryption calls of "+rel+" in source order")
	}
	_ = token.ADD
	genTypeAware(lf)
	genRowLoops(lf)
}

// genTypeAware: which column settings are "type aware" (description rewrite of the PostgreSQL proxy) and which
// combinations of options BasicColumnEncryptionSetting.Init accepts – encryptor/base/config/encryptionSettings.go.
//
//	settingFlags            the SettingMask bit of every Setting…Flag constant
//	validSettingMasks       the keys of `validSettings` (every accepted combination), evaluated, ascending
//	onlyEncryptionMask      the mask OnlyEncryption() tests against zero
//	typeAwareDisjuncts      the disjuncts of HasTypeAwareSupport's return expression (method names / local names)
//	maskingSupportRequires  what the local `maskingSupport` of HasTypeAwareSupport demands
//	binaryOpDisjuncts       the disjuncts of IsBinaryDataOperation
//	maskingDataTypes        data types ValidateMaskingParams accepts (masking/common)
//	tokenTypeDataTypes      TokenTypeToEncryptedDataType
//	typeAwareCallSites      functions of decryptor/postgresql/pg_decryptor.go that consult HasTypeAwareSupport
func genTypeAware(lf *leanFile) {
	const rel = "encryptor/base/config/encryptionSettings.go"
	env := newConstEnv(rel)
	f := parseFile(rel)
	if f == nil {
		return
	}
	// --- flags, in declaration order
	var flagRows []string
	flagVals := map[string]uint64{}
	for _, d := range f.Decls {
		gd, ok := d.(*ast.GenDecl)
		if !ok || gd.Tok != token.CONST {
			continue
		}
		for _, s := range gd.Specs {
			for _, n := range s.(*ast.ValueSpec).Names {
				if strings.HasPrefix(n.Name, "Setting") && strings.HasSuffix(n.Name, "Flag") {
					flagRows = append(flagRows, fmt.Sprintf("(%q, %d)", n.Name, env.need(n.Name, rel)))
					flagVals[n.Name] = env.need(n.Name, rel)
				}
			}
		}
	}
	if len(flagRows) == 0 {
		fail("%s: no Setting…Flag constants found", rel)
	}
	// the flags the model of Init / OnlyEncryption / IsSearchable names individually
	for _, n := range []string{"SettingReEncryptionFlag", "SettingMaskingFlag", "SettingMaskingPlaintextLengthFlag", "SettingMaskingPlaintextSideFlag",
		"SettingTokenizationFlag", "SettingTokenTypeFlag", "SettingSearchFlag", "SettingClientIDFlag", "SettingAcraBlockEncryptionFlag",
		"SettingAcraStructEncryptionFlag", "SettingDataTypeFlag", "SettingDefaultDataValueFlag", "SettingOnFailFlag", "SettingDataTypeIDFlag"} {
		v, ok := flagVals[n]
		if !ok {
			fail("%s: constant %s not found", rel, n)
		}
		lf.def(strings.ToLower(n[:1])+n[1:], "Nat", fmt.Sprint(v), "config."+n)
	}
	lf.def("settingFlags", "List (String × Nat)", "[\n  "+strings.Join(flagRows, ",\n  ")+"]", "config.Setting…Flag (SettingMask bits) in declaration order")

	// --- validSettings
	var masks []uint64
	if e, ok := packageVars(rel)["validSettings"]; !ok {
		fail("%s: validSettings not found", rel)
	} else if cl, ok := e.(*ast.CompositeLit); !ok {
		fail("%s: validSettings is not a literal", rel)
	} else {
		for _, el := range cl.Elts {
			kv, ok := el.(*ast.KeyValueExpr)
			if !ok {
				fail("%s: validSettings entry has an unexpected shape", rel)
				continue
			}
			masks = append(masks, env.intOf(kv.Key, rel))
		}
	}
	sort.Slice(masks, func(i, j int) bool { return masks[i] < masks[j] })
	if len(masks) == 0 {
		fail("%s: validSettings is empty", rel)
	}
	lf.def("validSettingMasks", "List Nat", natList(masks), "keys of config.validSettings (accepted option combinations), ascending")

	// --- OnlyEncryption: `return s.settingMask&(A|B|C) == 0`
	if fd := funcDecl(rel, "BasicColumnEncryptionSetting", "OnlyEncryption"); fd != nil {
		ok := false
		if len(fd.Body.List) == 1 {
			if rs, isRet := fd.Body.List[0].(*ast.ReturnStmt); isRet && len(rs.Results) == 1 {
				if cmp, isBin := rs.Results[0].(*ast.BinaryExpr); isBin && cmp.Op == token.EQL {
					if and, isAnd := cmp.X.(*ast.BinaryExpr); isAnd && and.Op == token.AND {
						if zero, isLit := cmp.Y.(*ast.BasicLit); isLit && zero.Value == "0" {
							if sel, isSel := and.X.(*ast.SelectorExpr); isSel && sel.Sel.Name == "settingMask" {
								lf.def("onlyEncryptionMask", "Nat", fmt.Sprint(env.intOf(and.Y, rel)), "OnlyEncryption(): settingMask & this == 0")
								ok = true
							}
						}
					}
				}
			}
		}
		if !ok {
			fail("%s: OnlyEncryption is no longer `return s.settingMask&(…) == 0`", rel)
		}
	}

	// disjuncts of a `||` chain: method calls on the setting → method name; identifiers → name; `x == C` / `len(x()) != 0` → text
	var disj func(e ast.Expr) []string
	term := func(e ast.Expr) string {
		switch t := e.(type) {
		case *ast.Ident:
			return t.Name
		case *ast.CallExpr:
			if sel, ok := t.Fun.(*ast.SelectorExpr); ok && len(t.Args) == 0 {
				return sel.Sel.Name
			}
		case *ast.BinaryExpr:
			side := func(x ast.Expr) string {
				switch u := x.(type) {
				case *ast.BasicLit:
					return u.Value
				case *ast.SelectorExpr:
					return u.Sel.Name
				case *ast.CallExpr:
					if sel, ok := u.Fun.(*ast.SelectorExpr); ok && len(u.Args) == 0 {
						return sel.Sel.Name
					}
					if id, ok := u.Fun.(*ast.Ident); ok && id.Name == "len" && len(u.Args) == 1 {
						if c, ok := u.Args[0].(*ast.CallExpr); ok {
							if sel, ok := c.Fun.(*ast.SelectorExpr); ok {
								return "len " + sel.Sel.Name
							}
						}
					}
				}
				return "?"
			}
			return side(t.X) + " " + t.Op.String() + " " + side(t.Y)
		}
		return "?"
	}
	disj = func(e ast.Expr) []string {
		if p, ok := e.(*ast.ParenExpr); ok {
			return disj(p.X)
		}
		if b, ok := e.(*ast.BinaryExpr); ok && b.Op == token.LOR {
			return append(disj(b.X), disj(b.Y)...)
		}
		return []string{term(e)}
	}

	// --- HasTypeAwareSupport
	if fd := funcDecl(rel, "", "HasTypeAwareSupport"); fd != nil {
		// expected shape: maskingSupport := setting.GetMaskingPattern() != ""; if setting.GetDBDataTypeID() == 0 { maskingSupport = false }; return a || b || …
		var ret *ast.ReturnStmt
		var requires []string
		locals := map[string]bool{}
		for _, st := range fd.Body.List {
			switch t := st.(type) {
			case *ast.AssignStmt:
				if len(t.Lhs) == 1 && len(t.Rhs) == 1 && t.Tok == token.DEFINE {
					if id, ok := t.Lhs[0].(*ast.Ident); ok {
						locals[id.Name] = true
						if id.Name == "maskingSupport" {
							requires = append(requires, term(t.Rhs[0]))
						}
					}
				}
			case *ast.IfStmt:
				// if <cond> { maskingSupport = false }  ⇒ maskingSupport additionally requires ¬cond
				okShape := false
				if t.Else == nil && t.Init == nil && len(t.Body.List) == 1 {
					if as, ok := t.Body.List[0].(*ast.AssignStmt); ok && as.Tok == token.ASSIGN && len(as.Lhs) == 1 && len(as.Rhs) == 1 {
						l, _ := as.Lhs[0].(*ast.Ident)
						r, _ := as.Rhs[0].(*ast.Ident)
						if l != nil && r != nil && l.Name == "maskingSupport" && r.Name == "false" {
							requires = append(requires, "not "+term(t.Cond))
							okShape = true
						}
					}
				}
				if !okShape {
					fail("%s: HasTypeAwareSupport: unexpected if statement", rel)
				}
			case *ast.ReturnStmt:
				ret = t
			default:
				fail("%s: HasTypeAwareSupport: unexpected statement", rel)
			}
		}
		if ret == nil || len(ret.Results) != 1 {
			fail("%s: HasTypeAwareSupport: no single return expression", rel)
		} else {
			ds := disj(ret.Results[0])
			for _, d := range ds {
				if d == "?" {
					fail("%s: HasTypeAwareSupport: a disjunct of the return expression has an unexpected shape", rel)
				}
			}
			lf.def("typeAwareDisjuncts", "List String", strList(ds), "HasTypeAwareSupport: `return d1 || d2 || …` (setting methods by name, locals by name)")
			lf.def("maskingSupportRequires", "List String", strList(requires), "HasTypeAwareSupport: conditions under which the local `maskingSupport` is true")
		}
	}

	// --- IsBinaryDataOperation: hasBinaryOperation := a; hasBinaryOperation = hasBinaryOperation || b || c; …; return hasBinaryOperation
	if fd := funcDecl(rel, "", "IsBinaryDataOperation"); fd != nil {
		var ds []string
		for _, st := range fd.Body.List {
			switch t := st.(type) {
			case *ast.AssignStmt:
				if len(t.Rhs) != 1 {
					fail("%s: IsBinaryDataOperation: unexpected assignment", rel)
					continue
				}
				for _, d := range disj(t.Rhs[0]) {
					if d != "hasBinaryOperation" {
						ds = append(ds, d)
					}
				}
			case *ast.ReturnStmt:
			default:
				fail("%s: IsBinaryDataOperation: unexpected statement", rel)
			}
		}
		for _, d := range ds {
			if strings.Contains(d, "?") {
				fail("%s: IsBinaryDataOperation: a disjunct has an unexpected shape (%s)", rel, d)
			}
		}
		lf.def("binaryOpDisjuncts", "List String", strList(ds), "IsBinaryDataOperation: the accumulated disjuncts")
	}

	// --- ValidateMaskingParams: the data types of the accepting `case`
	const mrel = "masking/common/common.go"
	mfile := mrel
	if parseFileQuiet(mrel) == nil {
		mfile = findFuncFile("masking/common", "ValidateMaskingParams")
	}
	if mfile == "" {
		fail("masking/common: ValidateMaskingParams not found")
	} else if fd := funcDecl(mfile, "", "ValidateMaskingParams"); fd != nil {
		var types []string
		ast.Inspect(fd.Body, func(n ast.Node) bool {
			sw, ok := n.(*ast.SwitchStmt)
			if !ok {
				return true
			}
			for _, c := range sw.Body.List {
				cc := c.(*ast.CaseClause)
				if cc.List == nil {
					continue
				}
				accepts := true
				for _, st := range cc.Body {
					if _, isRet := st.(*ast.ReturnStmt); isRet {
						accepts = false
					}
				}
				if accepts {
					for _, e := range cc.List {
						if sel, ok := e.(*ast.SelectorExpr); ok {
							types = append(types, sel.Sel.Name)
						}
					}
				}
			}
			return false
		})
		if len(types) == 0 {
			fail("%s: ValidateMaskingParams: no accepting case of the data type switch found", mfile)
		}
		lf.def("maskingDataTypes", "List String", strList(types), "ValidateMaskingParams: data types masking may be combined with")
	}

	// --- TokenTypeToEncryptedDataType
	const trel = "encryptor/base/config/common/encryptedTypes.go"
	if fd := funcDecl(trel, "", "TokenTypeToEncryptedDataType"); fd != nil {
		var rows []string
		ast.Inspect(fd.Body, func(n ast.Node) bool {
			cc, ok := n.(*ast.CaseClause)
			if !ok || len(cc.Body) != 1 {
				return true
			}
			rs, ok := cc.Body[0].(*ast.ReturnStmt)
			if !ok || len(rs.Results) != 1 {
				return true
			}
			to, _ := rs.Results[0].(*ast.Ident)
			for _, e := range cc.List {
				if sel, ok := e.(*ast.SelectorExpr); ok && to != nil {
					rows = append(rows, fmt.Sprintf("(%q, %q)", sel.Sel.Name, to.Name))
				}
			}
			return true
		})
		if len(rows) == 0 {
			fail("%s: TokenTypeToEncryptedDataType: no cases found", trel)
		}
		lf.def("tokenTypeDataTypes", "List (String × String)", "["+strings.Join(rows, ", ")+"]", "common.TokenTypeToEncryptedDataType")
	}

	// --- who asks HasTypeAwareSupport in the PostgreSQL proxy, and what is written when it holds
	const prel = "decryptor/postgresql/pg_decryptor.go"
	if pf := parseFile(prel); pf != nil {
		var sites []string
		for _, d := range pf.Decls {
			fd, ok := d.(*ast.FuncDecl)
			if !ok || fd.Body == nil {
				continue
			}
			ast.Inspect(fd.Body, func(n ast.Node) bool {
				is, ok := n.(*ast.IfStmt)
				if !ok {
					return true
				}
				c, ok := is.Cond.(*ast.CallExpr)
				if !ok {
					return true
				}
				if sel, ok := c.Fun.(*ast.SelectorExpr); ok && sel.Sel.Name == "HasTypeAwareSupport" {
					sites = append(sites, fd.Name.Name)
				}
				return true
			})
		}
		sort.Strings(sites)
		lf.def("typeAwareCallSites", "List String", strList(sites), "functions of "+prel+" with `if config.HasTypeAwareSupport(setting) {…}`")
	}
}

// parseFileQuiet: parseFile without recording a failure when the file does not exist
func parseFileQuiet(rel string) *ast.File {
	if _, err := os.Stat(filepath.Join(repo, rel)); err != nil {
		return nil
	}
	return parseFile(rel)
}

// findFuncFile: the file of a directory that declares a top-level function
func findFuncFile(dir, name string) string {
	ents, err := os.ReadDir(filepath.Join(repo, dir))
	if err != nil {
		return ""
	}
	for _, e := range ents {
		if e.IsDir() || !strings.HasSuffix(e.Name(), ".go") || strings.HasSuffix(e.Name(), "_test.go") {
			continue
		}
		rel := dir + "/" + e.Name()
		f := parseFile(rel)
		if f == nil {
			continue
		}
		for _, d := range f.Decls {
			if fd, ok := d.(*ast.FuncDecl); ok && fd.Recv == nil && fd.Name.Name == name {
				return rel
			}
		}
	}
	return ""
}
