package main

import (
	"fmt"
	"go/ast"
	"go/token"
	"sort"
	"strings"
)

// Typed: facts the C19 models need from the type-aware read path.
//
//	myType*            type codes used by the MySQL data encoder (decryptor/mysql/base/type.go)
//	myEncoders         RegisterMySQLDataTypeIDEncoder(uint32(base_mysql.TypeX), &YEncoder{}) of decryptor/mysql/types/*.go
//	pgEncoders         RegisterPostgreSQLDataTypeIDEncoder(pgtype.XOID, &YEncoder{}) of decryptor/postgresql/types/*.go
//	parseIntBits       per encoder type: bit sizes of every strconv.ParseInt(_, 10, N) in Encode / encodeDefault / ValidateDefaultValue
//	*EncryptedTypeIDs  the config maps data_type → database type id (encryptor/base/config/common/encryptedTypes.go)
//	onFail*            the response_on_fail strings
//	*SubscribeOrder    order of SubscribeOnAllColumnsDecryption(...) calls in decryptor/{postgresql,mysql}/proxy.go
func init() { generators = append(generators, genTyped) }

func genTyped() {
	lf := newLean("Typed", "Sources: decryptor/{mysql,postgresql}/types/*.go, decryptor/{mysql,postgresql}/proxy.go, decryptor/mysql/base/type.go, encryptor/base/config/common/encryptedTypes.go.")
	menv := newConstEnv("decryptor/mysql/base/type.go")
	for _, n := range []string{"TypeTiny", "TypeShort", "TypeLong", "TypeFloat", "TypeDouble", "TypeNull", "TypeLongLong", "TypeInt24", "TypeYear", "TypeBlob", "TypeString", "TypeVarString", "TypeVarchar"} {
		lf.def("my"+n, "Nat", fmt.Sprint(menv.need(n, "decryptor/mysql/base/type.go")), "base."+n)
	}

	type enc struct{ id, name, file string }
	collect := func(dir string, files []string, regFn string) []enc {
		var out []enc
		for _, f := range files {
			rel := dir + "/" + f
			file := parseFile(rel)
			if file == nil {
				continue
			}
			found := false
			ast.Inspect(file, func(n ast.Node) bool {
				c, ok := n.(*ast.CallExpr)
				if !ok || len(c.Args) != 2 {
					return true
				}
				sel, ok := c.Fun.(*ast.SelectorExpr)
				if !ok || sel.Sel.Name != regFn {
					return true
				}
				id := ""
				switch a := c.Args[0].(type) {
				case *ast.SelectorExpr:
					id = a.Sel.Name
				case *ast.CallExpr: // uint32(base_mysql.TypeLong)
					if len(a.Args) == 1 {
						if s, ok := a.Args[0].(*ast.SelectorExpr); ok {
							id = s.Sel.Name
						}
					}
				}
				name := ""
				if u, ok := c.Args[1].(*ast.UnaryExpr); ok {
					if cl, ok := u.X.(*ast.CompositeLit); ok {
						if t, ok := cl.Type.(*ast.Ident); ok {
							name = t.Name
						}
					}
				}
				if id == "" || name == "" {
					fail("%s: %s call has an unexpected shape", rel, regFn)
					return true
				}
				out = append(out, enc{id, name, rel})
				found = true
				return true
			})
			if !found {
				fail("%s: no %s call found", rel, regFn)
			}
		}
		return out
	}
	myEnc := collect("decryptor/mysql/types", []string{"long.go", "long_long.go", "string.go", "blob.go"}, "RegisterMySQLDataTypeIDEncoder")
	pgEnc := collect("decryptor/postgresql/types", []string{"int4.go", "int8.go", "text.go", "bytea.go"}, "RegisterPostgreSQLDataTypeIDEncoder")
	show := func(es []enc) string {
		var rows []string
		for _, e := range es {
			rows = append(rows, fmt.Sprintf("(%q, %q)", e.id, e.name))
		}
		return "[" + strings.Join(rows, ", ") + "]"
	}
	lf.def("myEncoders", "List (String × String)", show(myEnc), "RegisterMySQLDataTypeIDEncoder(type, encoder) in decryptor/mysql/types")
	lf.def("pgEncoders", "List (String × String)", show(pgEnc), "RegisterPostgreSQLDataTypeIDEncoder(oid, encoder) in decryptor/postgresql/types")

	// bit sizes of strconv.ParseInt per encoder method
	var bitRows []string
	for _, e := range append(append([]enc{}, myEnc...), pgEnc...) {
		file := parseFile(e.file)
		if file == nil {
			continue
		}
		for _, d := range file.Decls {
			fd, ok := d.(*ast.FuncDecl)
			if !ok || fd.Recv == nil || recvName(fd.Recv.List[0].Type) != e.name {
				continue
			}
			var bits []uint64
			ast.Inspect(fd.Body, func(n ast.Node) bool {
				c, ok := n.(*ast.CallExpr)
				if !ok || len(c.Args) != 3 {
					return true
				}
				if sel, ok := c.Fun.(*ast.SelectorExpr); ok && sel.Sel.Name == "ParseInt" {
					if menv.intOf(c.Args[1], e.file) != 10 {
						fail("%s: %s.%s: ParseInt base is not 10", e.file, e.name, fd.Name.Name)
					}
					bits = append(bits, menv.intOf(c.Args[2], e.file))
				}
				return true
			})
			if len(bits) > 0 {
				bitRows = append(bitRows, fmt.Sprintf("(%q, %q, %s)", e.name, fd.Name.Name, natList(bits)))
			}
		}
	}
	sort.Strings(bitRows)
	lf.def("parseIntBits", "List (String × String × List Nat)", "[\n  "+strings.Join(bitRows, ",\n  ")+"]", "(encoder, method, bit sizes of its strconv.ParseInt(_, 10, N) calls)")

	// config maps
	const cfg = "encryptor/base/config/common/encryptedTypes.go"
	cvars := packageVars(cfg)
	for _, mp := range []string{"MySQLEncryptedTypeDataTypeIDs", "PostgreSQLEncryptedTypeDataTypeIDs"} {
		e, ok := cvars[mp]
		if !ok {
			fail("%s: %s not found", cfg, mp)
			continue
		}
		cl, ok := e.(*ast.CompositeLit)
		if !ok {
			fail("%s: %s is not a literal", cfg, mp)
			continue
		}
		var rows []string
		for _, el := range cl.Elts {
			kv := el.(*ast.KeyValueExpr)
			k, _ := kv.Key.(*ast.Ident)
			v := ""
			switch a := kv.Value.(type) {
			case *ast.SelectorExpr:
				v = a.Sel.Name
			case *ast.CallExpr:
				if len(a.Args) == 1 {
					if s, ok := a.Args[0].(*ast.SelectorExpr); ok {
						v = s.Sel.Name
					}
				}
			}
			if k == nil || v == "" {
				fail("%s: %s entry has an unexpected shape", cfg, mp)
				continue
			}
			rows = append(rows, fmt.Sprintf("(%q, %q)", k.Name, v))
		}
		sort.Strings(rows)
		name := "my"
		if strings.HasPrefix(mp, "Postgre") {
			name = "pg"
		}
		lf.def(name+"EncryptedTypeIDs", "List (String × String)", "["+strings.Join(rows, ", ")+"]", "common."+mp)
	}
	cenv := newConstEnv(cfg)
	for _, n := range []string{"ResponseOnFailEmpty", "ResponseOnFailCiphertext", "ResponseOnFailDefault", "ResponseOnFailError"} {
		v, ok := cenv.vals[n]
		if !ok {
			fail("%s: %s not found", cfg, n)
			continue
		}
		lf.def("on"+strings.TrimPrefix(n, "ResponseOn"), "String", v.ExactString(), "common."+n)
	}

	// wiring: order of SubscribeOnAllColumnsDecryption calls in the proxy factories
	for _, db := range []string{"postgresql", "mysql"} {
		rel := "decryptor/" + db + "/proxy.go"
		fd := funcDecl(rel, "proxyFactory", "New")
		if fd == nil {
			continue
		}
		var order []string
		ast.Inspect(fd.Body, func(n ast.Node) bool {
			c, ok := n.(*ast.CallExpr)
			if !ok || len(c.Args) != 1 {
				return true
			}
			sel, ok := c.Fun.(*ast.SelectorExpr)
			if !ok || sel.Sel.Name != "SubscribeOnAllColumnsDecryption" {
				return true
			}
			switch a := c.Args[0].(type) {
			case *ast.Ident:
				order = append(order, a.Name)
			case *ast.CallExpr:
				if id, ok := a.Fun.(*ast.Ident); ok {
					order = append(order, id.Name+"()")
				} else {
					order = append(order, "?")
				}
			default:
				order = append(order, "?")
			}
			return true
		})
		if len(order) < 2 {
			fail("%s: proxyFactory.New: fewer than two SubscribeOnAllColumnsDecryption calls", rel)
		}
		name := "pg"
		if db == "mysql" {
			name = "my"
		}
		lf.def(name+"SubscribeOrder", "List String", strList(order), "arguments of the SubscribeOnAllColumnsDecryption calls of "+rel+" in source order")
	}
	_ = token.ADD
}
