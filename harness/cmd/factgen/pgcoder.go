package main

import (
	"go/ast"
	"sort"
	"strconv"
	"strings"
)

// PgCoder: the shapes the C04 model of the literal coders and of the row handler relies on –
//
//   - utils.DecodeEscaped: per return statement the branch it sits in and WHICH slice travels next to the error
//     (PgQueryDBDataCoder.Decode uses the slice returned next to ErrDecodeOctalString: "not escaped bytea, take
//     the string as it is");
//   - PgQueryDBDataCoder.Decode (string-literal branch), postgresql.UpdateExpressionValue,
//     mysql.DBDataCoder.Decode / mysql.UpdateExpressionValue (literal case): the statements in source order;
//   - PgProxy: its fields, and which of them (and which methods) handleQueryDataPacket refers to – the model's
//     row processing is a function of (registry, pending statement); a new per-connection field read there is
//     state the model does not have;
//   - PreparedStatementsQuery.onPrepare / onExecute / onDeallocate: the registry calls in source order.
func init() { generators = append(generators, genPgCoder) }

// isLogCall: logging statements carry no data flow the model cares about.
func isLogCall(e ast.Expr) bool {
	c, ok := e.(*ast.CallExpr)
	if !ok {
		return false
	}
	t := srcText(c.Fun)
	return strings.HasPrefix(t, "logrus.") || strings.HasPrefix(t, "logger.") || strings.HasPrefix(t, "log.")
}

// linear renders a statement list as one token per statement, nested blocks bracketed by "if …"/"else"/"end",
// "switch …"/"case …"/"end". Log calls are dropped; everything else is kept, so an added statement shows.
func linear(stmts []ast.Stmt) []string {
	var out []string
	for _, s := range stmts {
		switch x := s.(type) {
		case *ast.AssignStmt:
			var l, r []string
			for _, e := range x.Lhs {
				l = append(l, srcText(e))
			}
			for _, e := range x.Rhs {
				r = append(r, srcText(e))
			}
			out = append(out, "assign "+strings.Join(l, ",")+x.Tok.String()+strings.Join(r, ","))
		case *ast.ReturnStmt:
			var r []string
			for _, e := range x.Results {
				r = append(r, srcText(e))
			}
			out = append(out, "return "+strings.Join(r, ","))
		case *ast.IfStmt:
			head := "if "
			if x.Init != nil {
				head += strings.Join(linear([]ast.Stmt{x.Init}), ";") + "; "
			}
			out = append(out, head+srcText(x.Cond))
			out = append(out, linear(x.Body.List)...)
			for el := x.Else; el != nil; {
				switch e := el.(type) {
				case *ast.BlockStmt:
					out = append(out, "else")
					out = append(out, linear(e.List)...)
					el = nil
				case *ast.IfStmt:
					out = append(out, "else if "+srcText(e.Cond))
					out = append(out, linear(e.Body.List)...)
					el = e.Else
				default:
					el = nil
				}
			}
			out = append(out, "end")
		case *ast.SwitchStmt:
			tag := ""
			if x.Tag != nil {
				tag = srcText(x.Tag)
			}
			out = append(out, "switch "+tag)
			for _, c := range x.Body.List {
				cc := c.(*ast.CaseClause)
				var ls []string
				for _, e := range cc.List {
					ls = append(ls, srcText(e))
				}
				if len(ls) == 0 {
					ls = []string{"default"}
				}
				out = append(out, "case "+strings.Join(ls, ","))
				out = append(out, linear(cc.Body)...)
			}
			out = append(out, "end")
		case *ast.TypeSwitchStmt:
			out = append(out, "typeswitch "+strings.Join(linear([]ast.Stmt{x.Assign}), ";"))
			for _, c := range x.Body.List {
				cc := c.(*ast.CaseClause)
				var ls []string
				for _, e := range cc.List {
					ls = append(ls, srcText(e))
				}
				if len(ls) == 0 {
					ls = []string{"default"}
				}
				out = append(out, "case "+strings.Join(ls, ","))
				out = append(out, linear(cc.Body)...)
			}
			out = append(out, "end")
		case *ast.ExprStmt:
			if isLogCall(x.X) {
				continue
			}
			out = append(out, "expr "+srcText(x.X))
		case *ast.ForStmt:
			out = append(out, "for")
			out = append(out, linear(x.Body.List)...)
			out = append(out, "end")
		case *ast.RangeStmt:
			out = append(out, "range "+srcText(x.X))
			out = append(out, linear(x.Body.List)...)
			out = append(out, "end")
		case *ast.BranchStmt:
			out = append(out, x.Tok.String())
		case *ast.DeclStmt:
			gd, ok := x.Decl.(*ast.GenDecl)
			if !ok {
				out = append(out, "decl")
				continue
			}
			for _, sp := range gd.Specs {
				vs, ok := sp.(*ast.ValueSpec)
				if !ok {
					out = append(out, "decl")
					continue
				}
				var l, r []string
				for _, n := range vs.Names {
					l = append(l, n.Name)
				}
				for _, e := range vs.Values {
					r = append(r, srcText(e))
				}
				out = append(out, "var "+strings.Join(l, ",")+"="+strings.Join(r, ","))
			}
		case *ast.IncDecStmt:
			out = append(out, "incdec "+srcText(x.X))
		default:
			out = append(out, "stmt")
		}
	}
	return out
}

// decodeEscapedReturns classifies every return of utils.DecodeEscaped: the hex branch is the body of the
// `\x`-prefix test, a return under an `err != nil` test is the error return of its branch.
func decodeEscapedReturns() [][3]string {
	const rel = "utils/dbByteArrayEncoders.go"
	fd := funcDecl(rel, "", "DecodeEscaped")
	if fd == nil {
		return nil
	}
	var out [][3]string
	var walk func(stmts []ast.Stmt, branch string, underErr bool)
	walk = func(stmts []ast.Stmt, branch string, underErr bool) {
		for _, s := range stmts {
			switch x := s.(type) {
			case *ast.ReturnStmt:
				if len(x.Results) != 2 {
					fail("%s: DecodeEscaped: return with %d results", rel, len(x.Results))
					continue
				}
				b := branch
				if underErr {
					b += ".err"
				}
				out = append(out, [3]string{b, srcText(x.Results[0]), srcText(x.Results[1])})
			case *ast.IfStmt:
				cond := srcText(x.Cond)
				switch {
				case cond == "err!=nil":
					walk(x.Body.List, branch, true)
				case strings.Contains(cond, `[]byte{'\\','x'}`) && branch == "octal" && !underErr:
					walk(x.Body.List, "hex", false)
				default:
					fail("%s: DecodeEscaped: unexpected condition %s", rel, cond)
				}
				if x.Else != nil {
					fail("%s: DecodeEscaped: unexpected else", rel)
				}
			}
		}
	}
	walk(fd.Body.List, "octal", false)
	seen := map[string]bool{}
	for _, r := range out {
		if seen[r[0]] {
			fail("%s: DecodeEscaped: two returns in branch %s", rel, r[0])
		}
		seen[r[0]] = true
	}
	for _, b := range []string{"hex.err", "hex", "octal.err", "octal"} {
		if !seen[b] {
			fail("%s: DecodeEscaped: no return found for branch %s", rel, b)
		}
	}
	return out
}

// svalBranch returns the body of `if sval := aConst.GetSval(); sval != nil { … }` in PgQueryDBDataCoder.Decode.
func svalBranch() []ast.Stmt {
	const rel = "encryptor/postgresql/dbDataCoder.go"
	fd := funcDecl(rel, "PgQueryDBDataCoder", "Decode")
	if fd == nil {
		return nil
	}
	for _, s := range fd.Body.List {
		if x, ok := s.(*ast.IfStmt); ok && x.Init != nil && strings.Contains(srcText(x.Cond), "sval!=nil") {
			return x.Body.List
		}
	}
	fail("%s: PgQueryDBDataCoder.Decode: string-literal branch not found", rel)
	return nil
}

// literalCase returns the body of the case of mysql.UpdateExpressionValue that handles literal values.
func mysqlLiteralCase() (labels string, body []ast.Stmt) {
	const rel = "encryptor/mysql/utils.go"
	fd := funcDecl(rel, "", "UpdateExpressionValue")
	if fd == nil {
		return "", nil
	}
	ast.Inspect(fd.Body, func(n ast.Node) bool {
		sw, ok := n.(*ast.SwitchStmt)
		if !ok || sw.Tag == nil || srcText(sw.Tag) != "val.Type" {
			return true
		}
		for _, c := range sw.Body.List {
			cc := c.(*ast.CaseClause)
			var ls []string
			for _, e := range cc.List {
				ls = append(ls, srcText(e))
			}
			labels, body = strings.Join(ls, ","), cc.Body
		}
		return false
	})
	if body == nil {
		fail("%s: UpdateExpressionValue: switch val.Type not found", rel)
	}
	return
}

// proxyRefs lists the distinct `proxy.<name>` selectors of a PgProxy method.
func proxyRefs(rel, fn string) []string {
	fd := funcDecl(rel, "PgProxy", fn)
	if fd == nil {
		return nil
	}
	recv := ""
	if len(fd.Recv.List[0].Names) == 1 {
		recv = fd.Recv.List[0].Names[0].Name
	}
	set := map[string]bool{}
	ast.Inspect(fd.Body, func(n ast.Node) bool {
		if se, ok := n.(*ast.SelectorExpr); ok {
			if id, ok := se.X.(*ast.Ident); ok && id.Name == recv {
				set[se.Sel.Name] = true
			}
		}
		return true
	})
	var out []string
	for k := range set {
		out = append(out, k)
	}
	sort.Strings(out)
	if len(out) == 0 {
		fail("%s: PgProxy.%s refers to nothing of the proxy", rel, fn)
	}
	return out
}

func pgStructFieldNames(rel, name string) []string {
	f := parseFile(rel)
	if f == nil {
		return nil
	}
	var out []string
	ast.Inspect(f, func(n ast.Node) bool {
		ts, ok := n.(*ast.TypeSpec)
		if !ok || ts.Name.Name != name {
			return true
		}
		st, ok := ts.Type.(*ast.StructType)
		if !ok {
			return false
		}
		for _, fl := range st.Fields.List {
			if len(fl.Names) == 0 {
				out = append(out, srcText(fl.Type))
			}
			for _, n := range fl.Names {
				out = append(out, n.Name)
			}
		}
		return false
	})
	if len(out) == 0 {
		fail("%s: struct %s not found", rel, name)
	}
	return out
}

// registryCalls lists the calls on `encryptor.registry` / `encryptor.queryObserver` of a PreparedStatementsQuery
// method in source order, each with the kind of statement it sits in ("if-init" for `if _, err := call; …`).
func registryCalls(fn string) []string {
	const rel = "decryptor/postgresql/prepared_statements_sql_observer.go"
	fd := funcDecl(rel, "PreparedStatementsQuery", fn)
	if fd == nil {
		return nil
	}
	var out []string
	ast.Inspect(fd.Body, func(n ast.Node) bool {
		if c, ok := n.(*ast.CallExpr); ok {
			name := callName(c)
			if strings.HasPrefix(name, "encryptor.registry.") || strings.HasPrefix(name, "encryptor.queryObserver.") {
				out = append(out, strings.TrimPrefix(name, "encryptor."))
			}
		}
		return true
	})
	if len(out) == 0 {
		fail("%s: PreparedStatementsQuery.%s: no registry calls", rel, fn)
	}
	return out
}

func genPgCoder() {
	lf := newLean("PgCoder", "Sources: utils/dbByteArrayEncoders.go, encryptor/postgresql/{dbDataCoder,utils}.go, encryptor/mysql/{dbDataCoder,utils}.go, decryptor/postgresql/{pg_decryptor,prepared_statements_sql_observer}.go.")
	var rows []string
	for _, r := range decodeEscapedReturns() {
		rows = append(rows, "("+strconv.Quote(r[0])+", "+strconv.Quote(r[1])+", "+strconv.Quote(r[2])+")")
	}
	lf.def("decodeEscapedReturns", "List (String × String × String)", "["+strings.Join(rows, ", ")+"]",
		"utils/dbByteArrayEncoders.go: DecodeEscaped – per return statement (branch, slice returned, error returned); branch hex = after the `\\\\x` prefix, .err = under `err != nil`")
	lf.def("pgDecodeSval", "List String", strList(linear(svalBranch())),
		"encryptor/postgresql/dbDataCoder.go: PgQueryDBDataCoder.Decode – the statements of the string-literal branch in source order (log calls dropped)")
	if fd := funcDecl("encryptor/postgresql/utils.go", "", "UpdateExpressionValue"); fd != nil {
		lf.def("pgUpdateExpressionValue", "List String", strList(linear(fd.Body.List)),
			"encryptor/postgresql/utils.go: UpdateExpressionValue – statements in source order (log calls dropped)")
	}
	if fd := funcDecl("encryptor/mysql/dbDataCoder.go", "DBDataCoder", "Decode"); fd != nil {
		lf.def("myDecode", "List String", strList(linear(fd.Body.List)),
			"encryptor/mysql/dbDataCoder.go: DBDataCoder.Decode – statements in source order (log calls dropped)")
	}
	labels, body := mysqlLiteralCase()
	lf.def("myUpdateLiteralKinds", "String", strconv.Quote(labels),
		"encryptor/mysql/utils.go: UpdateExpressionValue – the literal kinds of the case that decodes, transforms and re-encodes a value")
	lf.def("myUpdateLiteralCase", "List String", strList(linear(body)),
		"encryptor/mysql/utils.go: UpdateExpressionValue – statements of that case in source order (log calls dropped)")
	const prel = "decryptor/postgresql/pg_decryptor.go"
	lf.def("pgProxyFields", "List String", strList(pgStructFieldNames(prel, "PgProxy")), prel+": fields of PgProxy in source order")
	lf.def("pgRowHandlerRefs", "List String", strList(proxyRefs(prel, "handleQueryDataPacket")),
		prel+": PgProxy.handleQueryDataPacket – the distinct proxy.<field|method> it refers to (sorted)")
	for _, fn := range []string{"onPrepare", "onExecute", "onDeallocate"} {
		lf.def("sql"+strings.ToUpper(fn[2:3])+fn[3:]+"Calls", "List String", strList(registryCalls(fn)),
			"decryptor/postgresql/prepared_statements_sql_observer.go: PreparedStatementsQuery."+fn+" – calls on the registry / the inner query observer in source order")
	}
	if fd := funcDecl("decryptor/postgresql/prepared_statements_sql_observer.go", "PreparedStatementsQuery", "onPrepare"); fd != nil {
		lf.def("sqlPrepare", "List String", strList(linear(fd.Body.List)),
			"decryptor/postgresql/prepared_statements_sql_observer.go: PreparedStatementsQuery.onPrepare – statements in source order (log calls dropped)")
	}
	// the statement resolution of the row handler: from the pending query text to the column settings
	if fd := funcDecl(prel, "PgProxy", "handleQueryDataPacket"); fd != nil {
		var part []ast.Stmt
		on := false
		for _, st := range fd.Body.List {
			if as, ok := st.(*ast.AssignStmt); ok && len(as.Lhs) == 1 && srcText(as.Lhs[0]) == "sqlQuery" {
				on = true
			}
			if _, ok := st.(*ast.ForStmt); ok && on {
				break
			}
			if on {
				part = append(part, st)
			}
		}
		// when the handler no longer resolves the statement in place (no `sqlQuery := …`) the list is empty: the fact
		// theorem of C04 then fails, and the other facts are still regenerated
		lf.def("pgRowResolution", "List String", strList(linear(part)),
			prel+": PgProxy.handleQueryDataPacket – the statements from `sqlQuery := …` up to the loop over the columns (log calls dropped); empty when the handler has no such part")
	}
	if fd := funcDecl("decryptor/postgresql/prepared_statements_sql_observer.go", "PreparedStatementsQuery", "onDeallocate"); fd != nil {
		lf.def("sqlDeallocate", "List String", strList(linear(fd.Body.List)),
			"decryptor/postgresql/prepared_statements_sql_observer.go: PreparedStatementsQuery.onDeallocate – statements in source order (log calls dropped)")
	}
}
