package main

import (
	"fmt"
	"go/ast"
	"go/token"
	"go/types"
	"strings"
)

// Row loops (C19): what the column loops of the two proxies do with the context and – PostgreSQL – where the result
// format of a column comes from. Emitted into Generated/Typed.lean and interpreted by Typed/Row.lean.
//
//	decryptor/postgresql/pg_decryptor.go  handleQueryDataPacket: the loop that calls proxy.onColumnDecryption –
//	    the variable compared with dataFormatBinary in the call, its default, the one assignment to it inside the loop
//	    (guards, expression: GetParameterFormatByIndex(i, S) or S[i]; S = bindPacket.resultFormats or the resolved
//	    columnFormats), whether the loop passes its own ctx parameter and never assigns it;
//	    onColumnDecryption: the context returned by the subscribers is dropped (`_`).
//	decryptor/mysql/response_proxy.go  processTextDataRow / processBinaryDataRow: the context passed to
//	    handler.onColumnDecryption, the variable the returned context is bound to (declared inside the loop body?),
//	    the variable the roll-back test reads, any assignment to the passed context inside the loop.

func exprStr(e ast.Expr) string { return types.ExprString(e) }

// loopCalling finds the innermost for/range statement of fd whose body contains a call of method `name`.
func loopCalling(fd *ast.FuncDecl, name string) (body *ast.BlockStmt, loopVar string) {
	ast.Inspect(fd.Body, func(n ast.Node) bool {
		var b *ast.BlockStmt
		v := ""
		switch t := n.(type) {
		case *ast.ForStmt:
			b = t.Body
			if as, ok := t.Init.(*ast.AssignStmt); ok && len(as.Lhs) == 1 {
				if id, ok := as.Lhs[0].(*ast.Ident); ok {
					v = id.Name
				}
			}
		case *ast.RangeStmt:
			b = t.Body
			if id, ok := t.Key.(*ast.Ident); ok {
				v = id.Name
			}
		default:
			return true
		}
		has := false
		ast.Inspect(b, func(m ast.Node) bool {
			if c, ok := m.(*ast.CallExpr); ok {
				if sel, ok := c.Fun.(*ast.SelectorExpr); ok && sel.Sel.Name == name {
					has = true
				}
			}
			return !has
		})
		if has {
			body, loopVar = b, v // keep descending: the innermost loop wins
		}
		return true
	})
	return
}

// callOf finds the call of method `name` in a block and the assignment statement it is the right-hand side of (if any).
func callOf(b *ast.BlockStmt, name string) (call *ast.CallExpr, assign *ast.AssignStmt) {
	ast.Inspect(b, func(n ast.Node) bool {
		if as, ok := n.(*ast.AssignStmt); ok && len(as.Rhs) == 1 {
			if c, ok := as.Rhs[0].(*ast.CallExpr); ok {
				if sel, ok := c.Fun.(*ast.SelectorExpr); ok && sel.Sel.Name == name {
					call, assign = c, as
					return false
				}
			}
		}
		if c, ok := n.(*ast.CallExpr); ok && call == nil {
			if sel, ok := c.Fun.(*ast.SelectorExpr); ok && sel.Sel.Name == name {
				call = c
			}
		}
		return true
	})
	return
}

// assignedIn reports whether identifier `name` is the target of an assignment (= or :=, any position) in the block.
func assignedIn(b *ast.BlockStmt, name string) bool {
	found := false
	ast.Inspect(b, func(n ast.Node) bool {
		if as, ok := n.(*ast.AssignStmt); ok {
			for _, l := range as.Lhs {
				if id, ok := l.(*ast.Ident); ok && id.Name == name {
					found = true
				}
			}
		}
		return true
	})
	return found
}

// declaredDirectlyIn reports whether `name` is declared by a statement of the block itself (var decl or :=).
func declaredDirectlyIn(b *ast.BlockStmt, name string) bool {
	for _, st := range b.List {
		switch t := st.(type) {
		case *ast.DeclStmt:
			if gd, ok := t.Decl.(*ast.GenDecl); ok && gd.Tok == token.VAR {
				for _, s := range gd.Specs {
					for _, n := range s.(*ast.ValueSpec).Names {
						if n.Name == name {
							return true
						}
					}
				}
			}
		case *ast.AssignStmt:
			if t.Tok == token.DEFINE {
				for _, l := range t.Lhs {
					if id, ok := l.(*ast.Ident); ok && id.Name == name {
						return true
					}
				}
			}
		}
	}
	return false
}

func firstParamName(fd *ast.FuncDecl) string {
	if fd.Type.Params != nil && len(fd.Type.Params.List) > 0 && len(fd.Type.Params.List[0].Names) > 0 {
		return fd.Type.Params.List[0].Names[0].Name
	}
	return ""
}

func splitConj(e ast.Expr) []string {
	if p, ok := e.(*ast.ParenExpr); ok {
		return splitConj(p.X)
	}
	if be, ok := e.(*ast.BinaryExpr); ok && be.Op == token.LAND {
		return append(splitConj(be.X), splitConj(be.Y)...)
	}
	return []string{exprStr(e)}
}

func genRowLoops(lf *leanFile) {
	// ---------------- MySQL ----------------
	const myRel = "decryptor/mysql/response_proxy.go"
	for _, w := range []struct{ fn, prefix string }{{"processTextDataRow", "myTextRow"}, {"processBinaryDataRow", "myBinaryRow"}} {
		fd := funcDecl(myRel, "Handler", w.fn)
		if fd == nil {
			continue
		}
		body, _ := loopCalling(fd, "onColumnDecryption")
		if body == nil {
			fail("%s: %s: no loop calling handler.onColumnDecryption", myRel, w.fn)
			continue
		}
		call, assign := callOf(body, "onColumnDecryption")
		if call == nil || assign == nil || len(call.Args) < 1 || len(assign.Lhs) != 3 {
			fail("%s: %s: `<ctx>, value, err (:)= handler.onColumnDecryption(<ctx>, …)` not found", myRel, w.fn)
			continue
		}
		passed := exprStr(call.Args[0])
		bound := exprStr(assign.Lhs[0])
		// the roll-back test: base.IsErrorConvertedDataTypeFromContext(X)
		rollbackReads := ""
		ast.Inspect(body, func(n ast.Node) bool {
			if c, ok := n.(*ast.CallExpr); ok && len(c.Args) == 1 {
				if sel, ok := c.Fun.(*ast.SelectorExpr); ok && sel.Sel.Name == "IsErrorConvertedDataTypeFromContext" {
					rollbackReads = exprStr(c.Args[0])
				}
			}
			return true
		})
		if rollbackReads == "" {
			fail("%s: %s: the roll-back test base.IsErrorConvertedDataTypeFromContext(…) is gone", myRel, w.fn)
		}
		if passed != firstParamName(fd) {
			fail("%s: %s: onColumnDecryption is no longer called with the function's context parameter (got %s)", myRel, w.fn, passed)
		}
		fresh := bound != passed && declaredDirectlyIn(body, bound)
		// the context the next column starts from is the returned one when the returned context is assigned to the
		// variable that is passed, directly or by a later `ctx = decrCtx`
		carried := bound == passed || assignedIn(body, passed)
		lf.def(w.prefix+"CtxBinding", "String × String × String", fmt.Sprintf("(%q, %q, %q)", passed, bound, rollbackReads),
			w.fn+": (context passed to onColumnDecryption, variable bound to the returned context, variable the roll-back test reads)")
		lf.def(w.prefix+"CtxFresh", "Bool", boolStr(fresh), w.fn+": the returned context is bound to a variable declared inside the loop body, different from the one passed")
		lf.def(w.prefix+"CtxCarried", "Bool", boolStr(carried), w.fn+": the context passed to onColumnDecryption is assigned inside the loop (the next column would start from the previous column's context)")
		lf.def(w.prefix+"RollbackReadsReturned", "Bool", boolStr(rollbackReads == bound), w.fn+": the roll-back test reads the context returned for THIS column")
	}
	// MySQL onColumnDecryption hands the parent context to the subscribers and returns what they return
	if fd := funcDecl(myRel, "Handler", "onColumnDecryption"); fd != nil {
		ok := false
		if n := len(fd.Body.List); n > 0 {
			if ret, isRet := fd.Body.List[n-1].(*ast.ReturnStmt); isRet && len(ret.Results) == 1 {
				if c, isCall := ret.Results[0].(*ast.CallExpr); isCall && len(c.Args) == 3 {
					if sel, isSel := c.Fun.(*ast.SelectorExpr); isSel && sel.Sel.Name == "OnColumnDecryption" && exprStr(c.Args[0]) == firstParamName(fd) {
						ok = true
					}
				}
			}
		}
		lf.def("myOnColumnReturnsSubscriberCtx", "Bool", boolStr(ok), "mysql onColumnDecryption: `return handler.decryptionObserver.OnColumnDecryption(parentCtx, column, data)`")
	}

	// ---------------- PostgreSQL ----------------
	const pgRel = "decryptor/postgresql/pg_decryptor.go"
	env := newConstEnv(pgRel, "decryptor/postgresql/packet_handler.go", "decryptor/postgresql/utils.go")
	if fd := funcDecl(pgRel, "PgProxy", "onColumnDecryption"); fd != nil {
		dropped := false
		_, assign := callOf(fd.Body, "OnColumnDecryption")
		if assign != nil && len(assign.Lhs) == 3 {
			if id, ok := assign.Lhs[0].(*ast.Ident); ok && id.Name == "_" {
				dropped = true
			}
		}
		nres := 0
		if fd.Type.Results != nil {
			for _, f := range fd.Type.Results.List {
				if len(f.Names) == 0 {
					nres++
				} else {
					nres += len(f.Names)
				}
				if exprStr(f.Type) == "context.Context" {
					dropped = false
				}
			}
		}
		lf.def("pgOnColumnCtxDropped", "Bool", boolStr(dropped && nres == 2), "postgresql onColumnDecryption: the context returned by the subscribers is discarded (`_`) and the function returns (data, error) only")
	}
	fd := funcDecl(pgRel, "PgProxy", "handleQueryDataPacket")
	if fd == nil {
		return
	}
	body, loopVar := loopCalling(fd, "onColumnDecryption")
	if body == nil || loopVar == "" {
		fail("%s: handleQueryDataPacket: no `for i := …` loop calling proxy.onColumnDecryption", pgRel)
		return
	}
	call, _ := callOf(body, "onColumnDecryption")
	if call == nil || len(call.Args) != 5 {
		fail("%s: handleQueryDataPacket: proxy.onColumnDecryption(ctx, i, data, binary, setting) not found", pgRel)
		return
	}
	passed := exprStr(call.Args[0])
	carried := passed != firstParamName(fd) || assignedIn(body, passed)
	lf.def("pgRowCtxCarried", "Bool", boolStr(carried), "handleQueryDataPacket: the loop does not pass its own `ctx` parameter unchanged to every onColumnDecryption")
	if exprStr(call.Args[1]) != loopVar {
		fail("%s: handleQueryDataPacket: onColumnDecryption is not called with the loop index", pgRel)
	}
	// 4th argument: <var> == dataFormatBinary
	be, ok := call.Args[3].(*ast.BinaryExpr)
	if !ok || be.Op != token.EQL {
		fail("%s: handleQueryDataPacket: the binary-format argument is no longer `format == dataFormatBinary`", pgRel)
		return
	}
	fvar, ok := be.X.(*ast.Ident)
	if !ok {
		fail("%s: handleQueryDataPacket: the binary-format argument does not compare a variable", pgRel)
		return
	}
	lf.def("pgRowBinaryArg", "String", fmt.Sprintf("%q", exprStr(call.Args[3])), "handleQueryDataPacket: 4th argument of onColumnDecryption")
	lf.def("pgDataFormatBinary", "Nat", fmt.Sprint(env.intOf(be.Y, pgRel)), "the constant the format is compared with (dataFormatBinary)")
	// default: `format := <const>` directly in the loop body
	defFound := false
	for _, st := range body.List {
		if as, ok := st.(*ast.AssignStmt); ok && as.Tok == token.DEFINE && len(as.Lhs) == 1 && len(as.Rhs) == 1 {
			if id, ok := as.Lhs[0].(*ast.Ident); ok && id.Name == fvar.Name {
				lf.def("pgRowFormatDefault", "Nat", fmt.Sprint(env.intOf(as.Rhs[0], pgRel)), "handleQueryDataPacket: `"+fvar.Name+" := …` at the top of the loop body (text)")
				defFound = true
			}
		}
	}
	if !defFound {
		fail("%s: handleQueryDataPacket: `%s := <constant>` not found in the column loop", pgRel, fvar.Name)
	}
	// the one plain assignment `format = …` inside the loop, with the conditions of the enclosing ifs
	type asg struct {
		rhs   ast.Expr
		conds []string
		blk   *ast.BlockStmt
	}
	var asgs []asg
	var walk func(b *ast.BlockStmt, conds []string)
	walk = func(b *ast.BlockStmt, conds []string) {
		for _, st := range b.List {
			switch t := st.(type) {
			case *ast.AssignStmt:
				if t.Tok == token.ASSIGN && len(t.Lhs) == 1 && len(t.Rhs) == 1 {
					if id, ok := t.Lhs[0].(*ast.Ident); ok && id.Name == fvar.Name {
						asgs = append(asgs, asg{t.Rhs[0], conds, b})
					}
				}
			case *ast.IfStmt:
				walk(t.Body, append(append([]string{}, conds...), splitConj(t.Cond)...))
				if eb, ok := t.Else.(*ast.BlockStmt); ok {
					walk(eb, append(append([]string{}, conds...), "!("+exprStr(t.Cond)+")"))
				}
			case *ast.BlockStmt:
				walk(t, conds)
			}
		}
	}
	walk(body, nil)
	if len(asgs) != 1 {
		fail("%s: handleQueryDataPacket: expected exactly one assignment to `%s` in the column loop, found %d", pgRel, fvar.Name, len(asgs))
		return
	}
	a := asgs[0]
	rhs, _ := convChain(a.rhs)
	errReturned := false
	if id, ok := rhs.(*ast.Ident); ok {
		// v, err := CALL in the same block, followed by `if err != nil { … return err }`
		for k, st := range a.blk.List {
			if as, ok := st.(*ast.AssignStmt); ok && as.Tok == token.DEFINE && len(as.Rhs) == 1 && len(as.Lhs) >= 1 {
				if l, ok := as.Lhs[0].(*ast.Ident); ok && l.Name == id.Name {
					rhs = as.Rhs[0]
					if k+1 < len(a.blk.List) {
						if ifs, ok := a.blk.List[k+1].(*ast.IfStmt); ok && exprStr(ifs.Cond) == "err != nil" {
							ast.Inspect(ifs.Body, func(n ast.Node) bool {
								if r, ok := n.(*ast.ReturnStmt); ok && len(r.Results) == 1 && exprStr(r.Results[0]) == "err" {
									errReturned = true
								}
								return true
							})
						}
					}
				}
			}
		}
	}
	op, sliceExpr := -1, ""
	switch t := rhs.(type) {
	case *ast.CallExpr:
		if name, args, ok := wCall(t); ok && name == "GetParameterFormatByIndex" && len(args) == 2 && exprStr(args[0]) == loopVar {
			op, sliceExpr = 0, exprStr(args[1])
		}
	case *ast.IndexExpr:
		if exprStr(t.Index) == loopVar {
			op, sliceExpr = 1, exprStr(t.X)
		}
	}
	if op < 0 {
		fail("%s: handleQueryDataPacket: the result format of a column is neither GetParameterFormatByIndex(%s, S) nor S[%s]: %s", pgRel, loopVar, loopVar, exprStr(rhs))
		return
	}
	// which slice: the Bind packet's declared codes, or the slice resolved by GetResultFormats in front of the loop
	slice := -1
	if strings.HasSuffix(sliceExpr, ".resultFormats") {
		slice = 0
	} else {
		// an identifier assigned from <bind>.GetResultFormats()
		ast.Inspect(fd.Body, func(n ast.Node) bool {
			if as, ok := n.(*ast.AssignStmt); ok && len(as.Rhs) == 1 && len(as.Lhs) >= 1 && exprStr(as.Lhs[0]) == sliceExpr {
				if name, _, ok := wCall(as.Rhs[0]); ok && name == "GetResultFormats" {
					slice = 1
				}
			}
			return true
		})
	}
	if slice < 0 {
		fail("%s: handleQueryDataPacket: cannot tell what the slice `%s` of the format lookup holds", pgRel, sliceExpr)
		return
	}
	idxGuard, bindGuard := false, false
	for _, c := range a.conds {
		switch strings.ReplaceAll(c, " ", "") {
		case strings.ReplaceAll(loopVar+" < len("+sliceExpr+")", " ", ""):
			idxGuard = true
		case "bindPacket!=nil":
			bindGuard = true
		default:
			fail("%s: handleQueryDataPacket: unknown condition `%s` around the assignment of the column format", pgRel, c)
		}
	}
	if !bindGuard {
		fail("%s: handleQueryDataPacket: the column format is no longer taken from the Bind packet only when there is one (`bindPacket != nil`)", pgRel)
	}
	benv := newConstEnv("decryptor/base/bound_value.go")
	lf.def("baseTextFormat", "Nat", fmt.Sprint(benv.need("TextFormat", "decryptor/base/bound_value.go")), "base.TextFormat")
	lf.def("baseBinaryFormat", "Nat", fmt.Sprint(benv.need("BinaryFormat", "decryptor/base/bound_value.go")), "base.BinaryFormat")
	lf.def("pgRowFormatExpr", "String", fmt.Sprintf("%q", exprStr(rhs)), "handleQueryDataPacket: the expression the result format of column i is taken from")
	lf.def("pgRowFormatConds", "List String", strList(a.conds), "handleQueryDataPacket: conditions around that assignment")
	lf.def("pgRowFormatOp", "Nat", fmt.Sprint(op), "0 = GetParameterFormatByIndex(i, S), 1 = S[i]")
	lf.def("pgRowFormatSlice", "Nat", fmt.Sprint(slice), "S: 0 = bindPacket.resultFormats (the declared codes), 1 = the slice resolved by GetResultFormats()")
	lf.def("pgRowFormatIndexGuard", "Bool", boolStr(idxGuard), "the assignment is guarded by `i < len(S)` (otherwise the default stays)")
	lf.def("pgRowFormatErrReturned", "Bool", boolStr(errReturned || op == 1), "an error of the lookup ends the row (`return err`)")
}
