package main

import (
	"go/ast"
	"go/token"
	"strconv"
	"strings"
)

// KeyState: keystore/v2/keystore/api/key.go – the nested switch of KeyStateTransitionValid as a table
// of (old, new) state names, the state names in declaration order with their numeric values, and
// whether the function ends with `return false`.
func init() { generators = append(generators, genKeyState) }

func genKeyState() {
	const rel = "keystore/v2/keystore/api/key.go"
	const relAsn = "keystore/v2/keystore/asn1/asn1.go"
	lf := newLean("KeyState", "Source: "+rel+" (KeyStateTransitionValid), "+relAsn+" (KeyState values).")
	envAsn := newConstEnv(relAsn)
	f := parseFile(rel)
	if f == nil {
		return
	}
	// state constants of package api: `KeyX = KeyState(asn1.KeyX)`
	var names []string
	var values []uint64
	for _, d := range f.Decls {
		gd, ok := d.(*ast.GenDecl)
		if !ok || gd.Tok != token.CONST {
			continue
		}
		for _, s := range gd.Specs {
			vs := s.(*ast.ValueSpec)
			if len(vs.Values) != 1 {
				continue
			}
			call, ok := vs.Values[0].(*ast.CallExpr)
			if !ok {
				continue
			}
			if id, ok := call.Fun.(*ast.Ident); !ok || id.Name != "KeyState" || len(call.Args) != 1 {
				continue
			}
			sel, ok := call.Args[0].(*ast.SelectorExpr)
			if !ok {
				fail("%s: unexpected KeyState constant %s", rel, vs.Names[0].Name)
				continue
			}
			v := envAsn.vals[sel.Sel.Name]
			if v == nil {
				fail("%s: cannot evaluate asn1.%s", rel, sel.Sel.Name)
				continue
			}
			names = append(names, vs.Names[0].Name)
			values = append(values, envAsn.intOf(sel, rel))
		}
	}
	if len(names) == 0 {
		fail("%s: no KeyState constants found", rel)
	}
	fd := funcDecl(rel, "", "KeyStateTransitionValid")
	if fd == nil {
		return
	}
	if len(fd.Body.List) != 2 {
		fail("%s: KeyStateTransitionValid: expected `switch … ; return false`", rel)
		return
	}
	sw, ok := fd.Body.List[0].(*ast.SwitchStmt)
	ret, ok2 := fd.Body.List[1].(*ast.ReturnStmt)
	if !ok || !ok2 || len(ret.Results) != 1 {
		fail("%s: KeyStateTransitionValid: unexpected shape", rel)
		return
	}
	if id, ok := sw.Tag.(*ast.Ident); !ok || id.Name != "oldState" {
		fail("%s: KeyStateTransitionValid: outer switch is not on oldState", rel)
	}
	defaultFalse := false
	if id, ok := ret.Results[0].(*ast.Ident); ok && id.Name == "false" {
		defaultFalse = true
	}
	var rows []string
	for _, c := range sw.Body.List {
		cc := c.(*ast.CaseClause)
		if len(cc.List) != 1 || len(cc.Body) != 1 {
			fail("%s: KeyStateTransitionValid: unexpected outer case", rel)
			continue
		}
		from, ok := cc.List[0].(*ast.Ident)
		inner, ok2 := cc.Body[0].(*ast.SwitchStmt)
		if !ok || !ok2 {
			fail("%s: KeyStateTransitionValid: unexpected outer case body", rel)
			continue
		}
		if id, ok := inner.Tag.(*ast.Ident); !ok || id.Name != "newState" {
			fail("%s: KeyStateTransitionValid: inner switch is not on newState", rel)
		}
		for _, ic := range inner.Body.List {
			icc := ic.(*ast.CaseClause)
			okBody := len(icc.Body) == 1
			if okBody {
				r, ok := icc.Body[0].(*ast.ReturnStmt)
				okBody = ok && len(r.Results) == 1
				if okBody {
					id, ok := r.Results[0].(*ast.Ident)
					okBody = ok && id.Name == "true"
				}
			}
			if !okBody || icc.List == nil {
				fail("%s: KeyStateTransitionValid: inner case of %s is not `case …: return true`", rel, from.Name)
				continue
			}
			for _, e := range icc.List {
				to, ok := e.(*ast.Ident)
				if !ok {
					fail("%s: KeyStateTransitionValid: unexpected inner case label", rel)
					continue
				}
				rows = append(rows, "("+strconv.Quote(from.Name)+", "+strconv.Quote(to.Name)+")")
			}
		}
	}
	lf.def("stateNames", "List String", strList(names), "const block of "+rel)
	lf.def("stateValues", "List Nat", natList(values), "values of the asn1 constants they convert")
	lf.def("validTransitions", "List (String × String)", "["+strings.Join(rows, ", ")+"]", "KeyStateTransitionValid: every (oldState, newState) with `return true`")
	lf.def("defaultInvalid", "Bool", boolStr(defaultFalse), "KeyStateTransitionValid ends with `return false`")
}
