package main

// censornil.go – nil handling of the acra-censor comparators that take POINTER operands (C14; Censor/NilGuard.lean).
//
// The pattern matcher (acra-censor/common/matching_logic.go) compares the client's parse tree with a pattern's parse
// tree field by field. Fields of pointer type can be nil on one side only (`Select.Where`, `Limit`,
// `AliasedTableExpr.Hints`, `ConvertType.Length` / `.Scale` …): a comparator that receives such a pair must return
// before it looks through a nil pointer, or AcraCensor.HandleQuery panics in the client's connection handler.
//
//   nilGuards      per comparator whose two parameters are pointers: what the body does when the query operand, the
//                  pattern operand or both are nil – `true` / `false` (it returns that value before any dereference),
//                  `deref` (it reaches a selector / index / call that looks through the nil pointer) or `other`
//                  (returns something the analysis cannot evaluate, without a dereference). Obtained by executing the
//                  body abstractly for each of the three combinations: `x == nil`, `x != nil`, `!`, `&&`, `||` are
//                  evaluated, an `if` whose condition is decided takes that branch, a call that receives a nil
//                  operand is a dereference unless the callee is itself a comparator of this table (then its own
//                  entry for that combination is used) or reflect.DeepEqual.
//   ptrFieldCalls  every call `comparator(x.F, y.F)` in matching_logic.go whose operands are fields read from two
//                  parse-tree nodes: (caller, callee, struct type of x, field F) – the places where a nil field
//                  reaches a pointer comparator.
//   ptrFields      sqlparser/ast.go: (struct, field, pointee) for every field of pointer type.

import (
	"fmt"
	"go/ast"
	"go/token"
	"sort"
	"strings"
)

func init() { generators = append(generators, genCensorNil) }

type nilCtx struct {
	q, p       string // parameter names
	qNil, pNil bool
	funcs      map[string]*ast.FuncDecl
	memo       map[string]string
	busy       map[string]bool
}

func (c *nilCtx) isNilParam(e ast.Expr) bool {
	if id, ok := e.(*ast.Ident); ok {
		return (id.Name == c.q && c.qNil) || (id.Name == c.p && c.pNil)
	}
	return false
}

func ptrParams(fd *ast.FuncDecl) (q, p, typ string, ok bool) {
	var names []string
	var types []string
	for _, f := range fd.Type.Params.List {
		for _, n := range f.Names {
			names = append(names, n.Name)
			types = append(types, render(f.Type))
		}
	}
	if len(names) != 2 || types[0] != types[1] || !strings.HasPrefix(types[0], "*") {
		return "", "", "", false
	}
	return names[0], names[1], strings.TrimPrefix(strings.TrimPrefix(types[0], "*"), "sqlparser."), true
}

// nilOutcome of calling comparator `name` with (qNil, pNil)
func nilOutcomeOf(name string, qNil, pNil bool, funcs map[string]*ast.FuncDecl, memo map[string]string, busy map[string]bool) string {
	if !qNil && !pNil {
		return "other"
	}
	key := fmt.Sprintf("%s/%v/%v", name, qNil, pNil)
	if v, ok := memo[key]; ok {
		return v
	}
	if busy[key] {
		return "deref" // recursion through a nil operand: conservative
	}
	fd := funcs[name]
	if fd == nil || fd.Body == nil {
		return "deref"
	}
	q, p, _, ok := ptrParams(fd)
	if !ok {
		return "deref"
	}
	busy[key] = true
	c := &nilCtx{q: q, p: p, qNil: qNil, pNil: pNil, funcs: funcs, memo: memo, busy: busy}
	res, done := c.block(fd.Body.List)
	if !done {
		res = "other"
	}
	delete(busy, key)
	memo[key] = res
	return res
}

// derefs: does evaluating e look through a nil parameter?
func (c *nilCtx) derefs(e ast.Node) bool {
	found := false
	ast.Inspect(e, func(n ast.Node) bool {
		if found {
			return false
		}
		switch t := n.(type) {
		case *ast.SelectorExpr:
			if c.isNilParam(t.X) {
				found = true
			}
		case *ast.StarExpr:
			if c.isNilParam(t.X) {
				found = true
			}
		case *ast.IndexExpr:
			if c.isNilParam(t.X) {
				found = true
			}
		case *ast.CallExpr:
			anyNil := false
			for _, a := range t.Args {
				if c.isNilParam(a) {
					anyNil = true
				}
			}
			if !anyNil {
				return true
			}
			name := render(t.Fun)
			if name == "reflect.DeepEqual" {
				return true
			}
			if _, isCmp := c.funcs[name]; isCmp && len(t.Args) == 2 {
				a0, a1 := c.isNilParam(t.Args[0]), c.isNilParam(t.Args[1])
				if nilOutcomeOf(name, a0, a1, c.funcs, c.memo, c.busy) != "deref" {
					// the operands themselves are plain identifiers: nothing else to look at
					return false
				}
			}
			found = true
		}
		return true
	})
	return found
}

// eval3: "true" | "false" | "unknown"
func (c *nilCtx) eval3(e ast.Expr) string {
	switch t := e.(type) {
	case *ast.ParenExpr:
		return c.eval3(t.X)
	case *ast.Ident:
		if t.Name == "true" || t.Name == "false" {
			return t.Name
		}
	case *ast.UnaryExpr:
		if t.Op == token.NOT {
			switch c.eval3(t.X) {
			case "true":
				return "false"
			case "false":
				return "true"
			}
		}
	case *ast.BinaryExpr:
		switch t.Op {
		case token.EQL, token.NEQ:
			var side ast.Expr
			if id, ok := t.Y.(*ast.Ident); ok && id.Name == "nil" {
				side = t.X
			} else if id, ok := t.X.(*ast.Ident); ok && id.Name == "nil" {
				side = t.Y
			}
			if id, ok := side.(*ast.Ident); ok && (id.Name == c.q || id.Name == c.p) {
				isNil := (id.Name == c.q && c.qNil) || (id.Name == c.p && c.pNil)
				if (t.Op == token.EQL) == isNil {
					return "true"
				}
				return "false"
			}
		case token.LAND:
			l := c.eval3(t.X)
			if l == "false" {
				return "false"
			}
			r := c.eval3(t.Y)
			if l == "true" {
				return r
			}
			if r == "false" && !c.derefs(t.X) {
				return "false"
			}
		case token.LOR:
			l := c.eval3(t.X)
			if l == "true" {
				return "true"
			}
			r := c.eval3(t.Y)
			if l == "false" {
				return r
			}
			if r == "true" && !c.derefs(t.X) {
				return "true"
			}
		}
	case *ast.CallExpr:
		name := render(t.Fun)
		if _, isCmp := c.funcs[name]; isCmp && len(t.Args) == 2 {
			if _, ok0 := t.Args[0].(*ast.Ident); ok0 {
				if _, ok1 := t.Args[1].(*ast.Ident); ok1 {
					o := nilOutcomeOf(name, c.isNilParam(t.Args[0]), c.isNilParam(t.Args[1]), c.funcs, c.memo, c.busy)
					if o == "true" || o == "false" {
						return o
					}
				}
			}
		}
	}
	return "unknown"
}

// derefsShort: like derefs, but honours the short circuit of && and || whose left side is decided
func (c *nilCtx) derefsShort(e ast.Expr) bool {
	if b, ok := e.(*ast.BinaryExpr); ok && (b.Op == token.LAND || b.Op == token.LOR) {
		if c.derefsShort(b.X) {
			return true
		}
		l := c.eval3(b.X)
		if (b.Op == token.LAND && l == "false") || (b.Op == token.LOR && l == "true") {
			return false
		}
		return c.derefsShort(b.Y)
	}
	if p, ok := e.(*ast.ParenExpr); ok {
		return c.derefsShort(p.X)
	}
	return c.derefs(e)
}

// block executes a statement list; done = a return (or a dereference) was reached
func (c *nilCtx) block(list []ast.Stmt) (string, bool) {
	unknownSeen := false
	for _, st := range list {
		switch s := st.(type) {
		case *ast.IfStmt:
			if s.Init != nil && c.derefs(s.Init) {
				return "deref", true
			}
			if c.derefsShort(s.Cond) {
				return "deref", true
			}
			switch c.eval3(s.Cond) {
			case "true":
				if r, done := c.block(s.Body.List); done {
					if unknownSeen && r != "deref" {
						return "other", true
					}
					return r, true
				}
			case "false":
				if s.Else != nil {
					var r string
					var done bool
					switch e := s.Else.(type) {
					case *ast.BlockStmt:
						r, done = c.block(e.List)
					case *ast.IfStmt:
						r, done = c.block([]ast.Stmt{e})
					}
					if done {
						if unknownSeen && r != "deref" {
							return "other", true
						}
						return r, true
					}
				}
			default:
				// undecided: either branch may run
				if r, done := c.block(s.Body.List); done && r == "deref" {
					return "deref", true
				} else if done {
					unknownSeen = true
				}
				if s.Else != nil && c.derefs(s.Else) {
					return "deref", true
				}
			}
		case *ast.ReturnStmt:
			for _, r := range s.Results {
				if c.derefsShort(r) {
					return "deref", true
				}
			}
			if unknownSeen || len(s.Results) != 1 {
				return "other", true
			}
			v := c.eval3(s.Results[0])
			if v == "unknown" {
				return "other", true
			}
			return v, true
		default:
			if c.derefs(st) {
				return "deref", true
			}
		}
	}
	return "", false
}

func genCensorNil() {
	const mlRel = "acra-censor/common/matching_logic.go"
	const astRel = "sqlparser/ast.go"
	lf := newLean("CensorNil", "Sources: "+mlRel+" (nil handling of the comparators with pointer operands, call sites that pass pointer fields), "+astRel+" (fields of pointer type).")
	f := parseFile(mlRel)
	if f == nil {
		return
	}
	funcs := map[string]*ast.FuncDecl{}
	var order []string
	for _, d := range f.Decls {
		fd, ok := d.(*ast.FuncDecl)
		if !ok || fd.Recv != nil || fd.Body == nil {
			continue
		}
		if _, _, _, isPtr := ptrParams(fd); isPtr && (strings.HasPrefix(fd.Name.Name, "areEqual") || strings.HasPrefix(fd.Name.Name, "handle")) {
			funcs[fd.Name.Name] = fd
			order = append(order, fd.Name.Name)
		}
	}
	if len(order) < 20 {
		fail("%s: expected the areEqual* comparators with two pointer parameters, found %d", mlRel, len(order))
	}
	for _, must := range []string{"areEqualWhere", "areEqualLimit", "areEqualIndexHints", "areEqualOptionalSQLVal", "areEqualConvertType"} {
		if funcs[must] == nil {
			fail("%s: comparator %s (two pointer parameters) not found", mlRel, must)
		}
	}
	memo, busy := map[string]string{}, map[string]bool{}
	var rows []string
	for _, n := range order {
		_, _, typ, _ := ptrParams(funcs[n])
		rows = append(rows, fmt.Sprintf("(%q, %q, %q, %q, %q)", n, typ,
			nilOutcomeOf(n, true, true, funcs, memo, busy), nilOutcomeOf(n, true, false, funcs, memo, busy), nilOutcomeOf(n, false, true, funcs, memo, busy)))
	}
	lf.def("nilGuards", "List (String × String × String × String × String)", "[\n  "+strings.Join(rows, ",\n  ")+"]",
		mlRel+": per comparator with two pointer parameters (function, pointee type, outcome when both operands are nil, when only the query operand is nil, when only the pattern operand is nil); outcomes: true / false = returns that value before any dereference, deref = looks through the nil pointer, other = returns without a dereference a value the analysis does not evaluate")

	// ---- call sites that pass fields
	rows = nil
	for _, d := range f.Decls {
		fd, ok := d.(*ast.FuncDecl)
		if !ok || fd.Recv != nil || fd.Body == nil {
			continue
		}
		// static types of the identifiers: parameters and `x, ok := e.(*sqlparser.K)` / `x := e.(*sqlparser.K)`
		typeOf := map[string]string{}
		for _, p := range fd.Type.Params.List {
			for _, n := range p.Names {
				typeOf[n.Name] = strings.TrimPrefix(strings.TrimPrefix(render(p.Type), "*"), "sqlparser.")
			}
		}
		ast.Inspect(fd.Body, func(n ast.Node) bool {
			switch t := n.(type) {
			case *ast.AssignStmt:
				if len(t.Rhs) == 1 && len(t.Lhs) >= 1 {
					if ta, isTA := t.Rhs[0].(*ast.TypeAssertExpr); isTA && ta.Type != nil {
						if id, isID := t.Lhs[0].(*ast.Ident); isID {
							typeOf[id.Name] = strings.TrimPrefix(strings.TrimPrefix(render(ta.Type), "*"), "sqlparser.")
						}
					}
				}
			}
			return true
		})
		ast.Inspect(fd.Body, func(n ast.Node) bool {
			call, ok := n.(*ast.CallExpr)
			if !ok || len(call.Args) != 2 {
				return true
			}
			callee := render(call.Fun)
			if funcs[callee] == nil {
				return true
			}
			s0, ok0 := call.Args[0].(*ast.SelectorExpr)
			s1, ok1 := call.Args[1].(*ast.SelectorExpr)
			if !ok0 || !ok1 {
				return true
			}
			if s0.Sel.Name != s1.Sel.Name {
				fail("%s: %s calls %s with different fields (%s, %s)", mlRel, fd.Name.Name, callee, render(s0), render(s1))
				return true
			}
			baseType := func(x ast.Expr) string {
				switch b := x.(type) {
				case *ast.Ident:
					return typeOf[b.Name]
				case *ast.IndexExpr:
					// query[index] of a named slice type (OnDup → UpdateExprs → []*UpdateExpr)
					if id, isID := b.X.(*ast.Ident); isID {
						return sliceElem(typeOf[id.Name])
					}
				case *ast.TypeAssertExpr:
					if b.Type != nil {
						return strings.TrimPrefix(strings.TrimPrefix(render(b.Type), "*"), "sqlparser.")
					}
				case *ast.ParenExpr:
					if ta, isTA := b.X.(*ast.TypeAssertExpr); isTA && ta.Type != nil {
						return strings.TrimPrefix(strings.TrimPrefix(render(ta.Type), "*"), "sqlparser.")
					}
				}
				return "?"
			}
			k0, k1 := baseType(s0.X), baseType(s1.X)
			if k0 == "" {
				k0 = "?"
			}
			if k0 != k1 {
				k0 = "?"
			}
			rows = append(rows, fmt.Sprintf("(%q, %q, %q, %q)", fd.Name.Name, callee, k0, s0.Sel.Name))
			return true
		})
	}
	if len(rows) < 5 {
		fail("%s: expected call sites passing pointer fields to comparators (Where, Limit, Hints, Length, Scale …), found %d", mlRel, len(rows))
	}
	lf.def("ptrFieldCalls", "List (String × String × String × String)", "[\n  "+strings.Join(rows, ",\n  ")+"]",
		mlRel+": every call `comparator(x.F, y.F)` of a comparator with pointer parameters whose operands are fields: (caller, callee, struct type of x and y or ? when it is not evident, field)")

	// ---- pointer fields of the parse tree
	if af := parseFile(astRel); af != nil {
		var prow []string
		for _, d := range af.Decls {
			gd, ok := d.(*ast.GenDecl)
			if !ok || gd.Tok != token.TYPE {
				continue
			}
			for _, sp := range gd.Specs {
				ts := sp.(*ast.TypeSpec)
				st, ok := ts.Type.(*ast.StructType)
				if !ok {
					continue
				}
				for _, fld := range st.Fields.List {
					star, isPtr := fld.Type.(*ast.StarExpr)
					if !isPtr {
						continue
					}
					for _, n := range fld.Names {
						prow = append(prow, fmt.Sprintf("(%q, %q, %q)", ts.Name.Name, n.Name, render(star.X)))
					}
				}
			}
		}
		sort.Strings(prow)
		if len(prow) < 10 {
			fail("%s: expected the pointer-typed fields of the parse tree, found %d", astRel, len(prow))
		}
		lf.def("ptrFields", "List (String × String × String)", "[\n  "+strings.Join(prow, ",\n  ")+"]", astRel+": (struct, field, pointee type) for every struct field of pointer type")
	}
}

// sliceElem: element type of a named slice type of sqlparser/ast.go, following `type A B` chains ("" when it is none)
func sliceElem(name string) string {
	af := parseFile("sqlparser/ast.go")
	if af == nil {
		return ""
	}
	for depth := 0; depth < 5 && name != ""; depth++ {
		var spec *ast.TypeSpec
		for _, d := range af.Decls {
			if gd, ok := d.(*ast.GenDecl); ok && gd.Tok == token.TYPE {
				for _, sp := range gd.Specs {
					if ts := sp.(*ast.TypeSpec); ts.Name.Name == name {
						spec = ts
					}
				}
			}
		}
		if spec == nil {
			return ""
		}
		switch t := spec.Type.(type) {
		case *ast.Ident:
			name = t.Name
		case *ast.ArrayType:
			return strings.TrimPrefix(render(t.Elt), "*")
		default:
			return ""
		}
	}
	return ""
}
