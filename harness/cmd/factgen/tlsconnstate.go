package main

import (
	"fmt"
	"go/ast"
	"go/token"
	"os"
	"path/filepath"
	"sort"
	"strings"
)

// TlsConnState: which certificate of a finished TLS handshake becomes the identity of the connection.
//
// A `tls.ConnectionState` offers two certificate lists: `PeerCertificates` (everything the peer SENT, leaf first,
// then whatever else it chose to append – only the first one is proved by the handshake signature, the others are
// mere hints for chain building) and `VerifiedChains` (the chains crypto/x509 built and verified against the
// trusted roots; element [i][0] is always the leaf). This extractor lists
//   - every read of either field anywhere in the non-test sources (function, normalised expression),
//   - every function of package network that takes an *x509.Certificate and what it does with it (calls, in order),
//   - the identity sinks: `ExtractClientID` and every network function that hands its certificate parameter to a sink,
//   - every call of a sink in package network: where its certificate argument comes from
//     (`VerifiedChains[0][0]`, `PeerCertificates[len(PeerCertificates)-1]`, `param:<name>` …) and the guards
//     (conditions of returning `if`s that mention the two fields) in front of it.
// Used by C02 (`fact_identity_certificate_is_verified_leaf`, `connection_identity_is_leaf`).
func init() { generators = append(generators, genTlsConnState) }

var connStateFields = []string{"VerifiedChains", "PeerCertificates"}

// connField: the ConnectionState field an expression denotes – a selector chain ending in one of the two field
// names, or a local variable defined (once) as such a chain.
func connField(e ast.Expr, aliases map[string]string) string {
	switch t := e.(type) {
	case *ast.SelectorExpr:
		for _, f := range connStateFields {
			if t.Sel.Name == f {
				return f
			}
		}
	case *ast.Ident:
		return aliases[t.Name]
	case *ast.ParenExpr:
		return connField(t.X, aliases)
	}
	return ""
}

// normConn renders an expression over the two fields with the path to the state (and local aliases) stripped:
// `tlsAuthInfo.State.VerifiedChains[0][0]` → `VerifiedChains[0][0]`; "" when the expression does not involve them.
func normConn(e ast.Expr, aliases map[string]string) string {
	if f := connField(e, aliases); f != "" {
		return f
	}
	switch t := e.(type) {
	case *ast.IndexExpr:
		if b := normConn(t.X, aliases); b != "" {
			return b + "[" + normIdx(t.Index, aliases) + "]"
		}
	case *ast.SliceExpr:
		if b := normConn(t.X, aliases); b != "" {
			lo, hi := "", ""
			if t.Low != nil {
				lo = normIdx(t.Low, aliases)
			}
			if t.High != nil {
				hi = normIdx(t.High, aliases)
			}
			return b + "[" + lo + ":" + hi + "]"
		}
	case *ast.CallExpr:
		if isIdent(t.Fun, "len") && len(t.Args) == 1 {
			if b := normConn(t.Args[0], aliases); b != "" {
				return "len(" + b + ")"
			}
		}
	case *ast.ParenExpr:
		return normConn(t.X, aliases)
	}
	return ""
}

func normIdx(e ast.Expr, aliases map[string]string) string {
	if s := normConn(e, aliases); s != "" {
		return s
	}
	switch t := e.(type) {
	case *ast.BasicLit:
		return t.Value
	case *ast.BinaryExpr:
		return normIdx(t.X, aliases) + t.Op.String() + normIdx(t.Y, aliases)
	case *ast.ParenExpr:
		return "(" + normIdx(t.X, aliases) + ")"
	}
	return strings.ReplaceAll(srcString(e), " ", "")
}

// normCond renders a condition: comparisons / boolean connectives over normalised operands.
func normCond(e ast.Expr, aliases map[string]string) string {
	switch t := e.(type) {
	case *ast.BinaryExpr:
		if t.Op == token.LOR || t.Op == token.LAND {
			return normCond(t.X, aliases) + " " + t.Op.String() + " " + normCond(t.Y, aliases)
		}
		return normIdx(t.X, aliases) + t.Op.String() + normIdx(t.Y, aliases)
	case *ast.ParenExpr:
		return "(" + normCond(t.X, aliases) + ")"
	}
	return normIdx(e, aliases)
}

// connAliases: local variables of a function defined exactly once, as one of the two fields.
func connAliases(fd *ast.FuncDecl) map[string]string {
	count := map[string]int{}
	field := map[string]string{}
	ast.Inspect(fd.Body, func(x ast.Node) bool {
		as, ok := x.(*ast.AssignStmt)
		if !ok || len(as.Lhs) != len(as.Rhs) {
			return true
		}
		for i, l := range as.Lhs {
			id, ok := l.(*ast.Ident)
			if !ok {
				continue
			}
			count[id.Name]++
			if f := connField(as.Rhs[i], nil); f != "" {
				field[id.Name] = f
			}
		}
		return true
	})
	out := map[string]string{}
	for n, f := range field {
		if count[n] == 1 {
			out[n] = f
		}
	}
	return out
}

// mentionsConn reports whether a node reads one of the two fields (directly or through an alias).
func mentionsConn(n ast.Node, aliases map[string]string) bool {
	found := false
	ast.Inspect(n, func(x ast.Node) bool {
		if e, ok := x.(ast.Expr); ok && connField(e, aliases) != "" {
			found = true
		}
		return !found
	})
	return found
}

// connReads: the maximal expressions over the two fields inside a function body, in source order
// (the definition of an alias itself is listed as `alias=<field>`).
func connReads(fd *ast.FuncDecl, aliases map[string]string) []string {
	var out []string
	var visit func(n ast.Node) bool
	visit = func(n ast.Node) bool {
		if as, ok := n.(*ast.AssignStmt); ok && len(as.Lhs) == len(as.Rhs) {
			for i, l := range as.Lhs {
				if id, ok := l.(*ast.Ident); ok && aliases[id.Name] != "" && connField(as.Rhs[i], nil) != "" {
					out = append(out, "alias="+aliases[id.Name])
					return false
				}
			}
		}
		if e, ok := n.(ast.Expr); ok {
			if s := normConn(e, aliases); s != "" {
				out = append(out, s)
				return false
			}
		}
		return true
	}
	ast.Inspect(fd.Body, visit)
	return out
}

func hasCertParam(fd *ast.FuncDecl) (name string, pos int) {
	i := 0
	for _, f := range fd.Type.Params.List {
		isCert := strings.ReplaceAll(srcString(f.Type), " ", "") == "*x509.Certificate"
		if len(f.Names) == 0 {
			i++
			continue
		}
		for _, n := range f.Names {
			if isCert {
				return n.Name, i
			}
			i++
		}
	}
	return "", -1
}

func lastSel(path string) string {
	if i := strings.LastIndex(path, "."); i >= 0 {
		return path[i+1:]
	}
	return path
}

// disjuncts splits a condition at its top-level `||` into normalised atoms (anything that is not a plain
// comparison over the two fields is kept as `other:<source>`).
func disjuncts(e ast.Expr, aliases map[string]string) []string {
	switch t := e.(type) {
	case *ast.ParenExpr:
		return disjuncts(t.X, aliases)
	case *ast.BinaryExpr:
		if t.Op == token.LOR {
			return append(disjuncts(t.X, aliases), disjuncts(t.Y, aliases)...)
		}
		if t.Op == token.LAND {
			return []string{"other:" + normCond(e, aliases)}
		}
	}
	return []string{normCond(e, aliases)}
}

// guardsBefore: the conditions of `if … { …return… }` statements in front of `pos` (same function, any depth)
// that mention the two fields, each as the list of its `||` disjuncts.
func guardsBefore(fd *ast.FuncDecl, pos token.Pos, aliases map[string]string) [][]string {
	var out [][]string
	ast.Inspect(fd.Body, func(x ast.Node) bool {
		is, ok := x.(*ast.IfStmt)
		if !ok || is.End() > pos || !mentionsConn(is.Cond, aliases) || len(is.Body.List) == 0 {
			return true
		}
		if _, ret := is.Body.List[len(is.Body.List)-1].(*ast.ReturnStmt); ret {
			out = append(out, disjuncts(is.Cond, aliases))
		}
		return true
	})
	return out
}

func strListOfLists(ls [][]string) string {
	s := make([]string, len(ls))
	for i, l := range ls {
		s[i] = strList(l)
	}
	return "[" + strings.Join(s, ", ") + "]"
}

func genTlsConnState() {
	lf := newLean("TlsConnState", "Sources: every non-test .go file (reads of tls.ConnectionState certificate lists), network/*.go (certificate functions, identity sinks and their call sites).")
	type fn struct {
		rel string
		fd  *ast.FuncDecl
	}
	var network []fn
	var reads []string
	for _, rel := range goSourceFiles() {
		src, err := os.ReadFile(filepath.Join(repo, rel))
		if err != nil {
			continue
		}
		inNetwork := filepath.ToSlash(filepath.Dir(rel)) == "network"
		mentions := strings.Contains(string(src), "VerifiedChains") || strings.Contains(string(src), "PeerCertificates")
		if !inNetwork && !mentions {
			continue
		}
		f := parseFile(rel)
		if f == nil {
			continue
		}
		for _, d := range f.Decls {
			fd, ok := d.(*ast.FuncDecl)
			if !ok || fd.Body == nil {
				continue
			}
			if inNetwork {
				network = append(network, fn{rel, fd})
			}
			if mentions {
				al := connAliases(fd)
				for _, r := range connReads(fd, al) {
					reads = append(reads, fmt.Sprintf("(%q, %q)", methodLabel(rel, fd), r))
				}
			}
		}
	}
	lf.def("connStateReads", "List (String × String)", "[\n  "+strings.Join(reads, ",\n  ")+"]",
		"every read of ConnectionState.VerifiedChains / .PeerCertificates in the non-test sources: (file:function, expression with the path to the state stripped), in source order")

	// ---- functions of package network that take a certificate, and what they hand it to
	certFns := map[string]fn{} // by function name (the last declaration wins: used for the parameter position of a sink only)
	var certFnList []fn
	for _, n := range network {
		if p, _ := hasCertParam(n.fd); p != "" {
			certFns[n.fd.Name.Name] = n
			certFnList = append(certFnList, n)
		}
	}
	sort.Slice(certFnList, func(i, j int) bool {
		return methodLabel(certFnList[i].rel, certFnList[i].fd) < methodLabel(certFnList[j].rel, certFnList[j].fd)
	})
	// calls inside f that receive its certificate parameter
	passes := func(n fn) (rows []string, callees []string) {
		p, _ := hasCertParam(n.fd)
		names, calls := callsIn(n.fd.Body)
		for i, c := range calls {
			for j, a := range c.Args {
				if isIdent(a, p) {
					rows = append(rows, fmt.Sprintf("%s#%d", names[i], j))
					callees = append(callees, lastSel(names[i]))
				}
			}
		}
		return
	}
	var fnRows []string
	for _, n := range certFnList {
		rows, _ := passes(n)
		fnRows = append(fnRows, fmt.Sprintf("(%q, %s)", methodLabel(n.rel, n.fd), strList(rows)))
	}
	lf.def("certificateFunctions", "List (String × List String)", "[\n  "+strings.Join(fnRows, ",\n  ")+"]",
		"network/*.go: every function with an *x509.Certificate parameter and the calls that receive that parameter (callee#argument index), in source order")
	// ---- identity sinks: ExtractClientID and whatever hands its certificate parameter to a sink
	sinks := map[string]bool{"ExtractClientID": true}
	for changed := true; changed; {
		changed = false
		for _, n := range certFnList {
			name := n.fd.Name.Name
			if sinks[name] {
				continue
			}
			_, callees := passes(n)
			for _, c := range callees {
				if sinks[c] {
					sinks[name] = true
					changed = true
				}
			}
		}
	}
	var sinkNames []string
	for s := range sinks {
		sinkNames = append(sinkNames, s)
	}
	sort.Strings(sinkNames)
	lf.def("identitySinks", "List String", strList(sinkNames), "network/*.go: ExtractClientID and every function that hands its certificate parameter to one of these (closure)")
	if _, ok := certFns["ExtractClientID"]; !ok {
		fail("network: no function ExtractClientID with an *x509.Certificate parameter")
	}
	// ---- call sites of the sinks in package network
	var siteRows []string
	nSites := 0
	for _, n := range network {
		al := connAliases(n.fd)
		names, calls := callsIn(n.fd.Body)
		for i, c := range calls {
			callee := lastSel(names[i])
			if !sinks[callee] || names[i] == "" {
				continue
			}
			// the certificate argument: the position of the callee's certificate parameter when it is a network function
			argPos := 0
			if cf, ok := certFns[callee]; ok {
				_, argPos = hasCertParam(cf.fd)
			}
			if argPos >= len(c.Args) {
				fail("%s: call of %s has no certificate argument", n.rel, names[i])
				continue
			}
			var origin []string
			for _, d := range resolveValue(n.fd, c.Args[argPos]) {
				switch d.cond {
				case "param":
					origin = append(origin, "param:"+d.expr)
				case "init":
					origin = append(origin, originOf(n.fd, c.Args[argPos], al))
				default:
					origin = append(origin, d.cond+" => "+originOf(n.fd, c.Args[argPos], al))
				}
			}
			nSites++
			siteRows = append(siteRows, fmt.Sprintf("(%q, %q, %s, %s)", methodLabel(n.rel, n.fd), names[i], strList(origin), strListOfLists(guardsBefore(n.fd, c.Pos(), al))))
		}
	}
	if nSites == 0 {
		fail("network: no call of an identity sink found")
	}
	lf.def("identityCertSites", "List (String × String × List String × List (List String))", "[\n  "+strings.Join(siteRows, ",\n  ")+"]",
		"network/*.go: every call of an identity sink: (file:function, callee, where the certificate argument comes from, the returning guards over the ConnectionState in front of the call, each as its `||` disjuncts)")
}

// originOf: the normalised definition(s) of a certificate argument: the expression itself when it is one over the
// ConnectionState, otherwise – for a local variable – the normalised right-hand sides of its definitions.
func originOf(fd *ast.FuncDecl, arg ast.Expr, aliases map[string]string) string {
	if s := normConn(arg, aliases); s != "" {
		return s
	}
	id, ok := arg.(*ast.Ident)
	if !ok {
		return "other:" + srcString(arg)
	}
	var parts []string
	ast.Inspect(fd.Body, func(x ast.Node) bool {
		as, ok := x.(*ast.AssignStmt)
		if !ok || len(as.Lhs) != len(as.Rhs) {
			return true
		}
		for i, l := range as.Lhs {
			if isIdent(l, id.Name) {
				if s := normConn(as.Rhs[i], aliases); s != "" {
					parts = append(parts, s)
				} else {
					parts = append(parts, "other:"+srcString(as.Rhs[i]))
				}
			}
		}
		return true
	})
	if len(parts) == 0 {
		return "other:" + id.Name
	}
	return strings.Join(parts, " | ")
}
