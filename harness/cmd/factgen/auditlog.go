package main

import (
	"go/ast"
	"go/token"
	"strconv"
	"strings"
)

// AuditLog: logging/{log_entry_parser.go,logging.go,audit_log.go,integrity_verifier.go}.
//
// The marker constants, how the plaintext / CEF parsers cut a line at the split token (strings.Split
// with `len != 2` → "no integrity", or strings.LastIndex), whether the CEF parser trims the tag part,
// how many trailing bytes each PostFormat hook removes before appending the integrity, the order of
// the two h.Write calls of calculateHmac, and the errors VerifyIntegrityCheck skips.
func init() { generators = append(generators, genAuditLog) }

// callsSel reports whether the function body contains a call pkg.fn(…).
func callsSel(fd *ast.FuncDecl, pkg, fn string) bool {
	found := false
	ast.Inspect(fd, func(n ast.Node) bool {
		c, ok := n.(*ast.CallExpr)
		if !ok {
			return true
		}
		if s, ok := c.Fun.(*ast.SelectorExpr); ok && s.Sel.Name == fn {
			if id, ok := s.X.(*ast.Ident); ok && id.Name == pkg {
				found = true
			}
		}
		return true
	})
	return found
}

func genAuditLog() {
	const prs = "logging/log_entry_parser.go"
	const lg = "logging/logging.go"
	const al = "logging/audit_log.go"
	const iv = "logging/integrity_verifier.go"
	lf := newLean("AuditLog", "Sources: "+prs+", "+lg+", "+al+", "+iv+".")
	env := newConstEnv(prs)
	for _, p := range [][2]string{{"DataSplitToken", "dataSplitToken"}, {"NewAuditLogChainSuffix", "newChainSuffix"}, {"EndOfAuditLogChainSuffix", "endChainSuffix"},
		{"EndOfAuditLogChainMessage", "endOfChainMessage"}, {"SpaceDelimiter", "spaceDelimiter"}, {"IntegrityKey", "integrityKey"}, {"AuditLogChainKey", "chainKey"},
		{"NewAuditLogChainValue", "newChainValue"}, {"EndAuditLogChainValue", "endChainValue"}, {"JSONKeyValueDelimiter", "jsonDelimiter"}} {
		lf.def(p[1], "String", strconv.Quote(strConst(env, prs, p[0])), prs+": "+p[0])
	}
	// split mode of the two text parsers
	for _, p := range [][2]string{{"PlaintextLogParser", "plaintext"}, {"CefLogParser", "cef"}} {
		fd := funcDecl(prs, p[0], "ParseEntry")
		if fd == nil {
			continue
		}
		split, last := callsSel(fd, "strings", "Split"), callsSel(fd, "strings", "LastIndex")
		mode := ""
		switch {
		case split && !last:
			// must be guarded by `len(…) != 2`
			ok := false
			ast.Inspect(fd, func(n ast.Node) bool {
				if be, ok2 := n.(*ast.BinaryExpr); ok2 && be.Op == token.NEQ {
					if c, ok3 := be.X.(*ast.CallExpr); ok3 {
						if id, ok4 := c.Fun.(*ast.Ident); ok4 && id.Name == "len" {
							if bl, ok5 := be.Y.(*ast.BasicLit); ok5 && bl.Value == "2" {
								ok = true
							}
						}
					}
				}
				return true
			})
			if !ok {
				fail("%s: %s.ParseEntry: strings.Split without the `len != 2` guard", prs, p[0])
			}
			mode = "split2"
		case last && !split:
			mode = "last"
		default:
			fail("%s: %s.ParseEntry: neither strings.Split nor strings.LastIndex (or both) – unknown cutting rule", prs, p[0])
		}
		lf.def(p[1]+"SplitMode", "String", strconv.Quote(mode), prs+": "+p[0]+".ParseEntry cuts the line with strings.Split (exactly two parts) or at strings.LastIndex")
		lf.def(p[1]+"TrimsTag", "Bool", boolStr(callsSel(fd, "strings", "TrimSpace")), prs+": "+p[0]+".ParseEntry applies strings.TrimSpace to the part after the split token")
	}
	// PostFormat truncation
	for _, p := range [][2]string{{"PlaintextFormatterHook", "plaintext"}, {"CefFormatterHook", "cef"}} {
		fd := funcDecl(lg, p[0], "PostFormat")
		if fd == nil {
			continue
		}
		var cut uint64
		nTrunc := 0
		ast.Inspect(fd, func(n ast.Node) bool {
			c, ok := n.(*ast.CallExpr)
			if !ok || len(c.Args) != 1 {
				return true
			}
			if s, ok := c.Fun.(*ast.SelectorExpr); ok && s.Sel.Name == "Truncate" {
				if be, ok := c.Args[0].(*ast.BinaryExpr); ok && be.Op == token.SUB {
					cut = env.intOf(be.Y, lg)
					nTrunc++
				}
			}
			return true
		})
		if nTrunc != 1 || !callsSel2(fd, "appendIntegrity") {
			fail("%s: %s.PostFormat: expected one Truncate(Len()-k) followed by appendIntegrity", lg, p[0])
		}
		lf.def(p[1]+"HookCut", "Nat", strconv.FormatUint(cut, 10), lg+": "+p[0]+".PostFormat removes this many trailing bytes before appendIntegrity")
	}
	// calculateHmac: order of writes
	var writes []string
	if fd := funcDecl(al, "LogEntryIntegrityCalculator", "calculateHmac"); fd != nil {
		ast.Inspect(fd, func(n ast.Node) bool {
			c, ok := n.(*ast.CallExpr)
			if !ok || len(c.Args) != 1 {
				return true
			}
			if s, ok := c.Fun.(*ast.SelectorExpr); ok && s.Sel.Name == "Write" {
				switch a := c.Args[0].(type) {
				case *ast.Ident:
					writes = append(writes, a.Name)
				case *ast.SelectorExpr:
					writes = append(writes, a.Sel.Name)
				default:
					writes = append(writes, "?")
				}
			}
			return true
		})
	}
	lf.def("hmacWrites", "List String", strList(writes), al+": calculateHmac – arguments of h.Write in order")
	// VerifyIntegrityCheck: errors that make the verifier skip a line
	var skipped []string
	if fd := funcDecl(iv, "IntegrityCheckVerifier", "VerifyIntegrityCheck"); fd != nil {
		ast.Inspect(fd, func(n ast.Node) bool {
			ifs, ok := n.(*ast.IfStmt)
			if !ok {
				return true
			}
			var names []string
			var walk func(e ast.Expr) bool
			walk = func(e ast.Expr) bool {
				be, ok := e.(*ast.BinaryExpr)
				if !ok {
					return false
				}
				if be.Op == token.LOR {
					return walk(be.X) && walk(be.Y)
				}
				if be.Op == token.EQL {
					x, ok1 := be.X.(*ast.Ident)
					y, ok2 := be.Y.(*ast.Ident)
					if ok1 && ok2 && x.Name == "err" {
						names = append(names, y.Name)
						return true
					}
				}
				return false
			}
			if walk(ifs.Cond) && len(names) > 0 && len(ifs.Body.List) > 0 {
				if _, ok := ifs.Body.List[len(ifs.Body.List)-1].(*ast.BranchStmt); ok {
					skipped = names
				}
			}
			return true
		})
	}
	if len(skipped) == 0 {
		fail("%s: VerifyIntegrityCheck: the `err == Err…IntegrityExtract … continue` branch was not found", iv)
	}
	// processLogFile: bufio.Scanner (64 KiB token limit, error not looked at) or bufio.Reader.ReadString (no limit)
	if fd := funcDecl(lg, "", "processLogFile"); fd != nil {
		sc, rd := callsSel(fd, "bufio", "NewScanner"), callsSel(fd, "bufio", "NewReader")
		kind := ""
		switch {
		case sc && !rd:
			kind = "scanner"
		case rd && !sc:
			// the loop must read with ReadString('\n') and return read errors other than io.EOF
			okRead := false
			ast.Inspect(fd, func(n ast.Node) bool {
				if c, ok := n.(*ast.CallExpr); ok && len(c.Args) == 1 {
					if s, ok := c.Fun.(*ast.SelectorExpr); ok && s.Sel.Name == "ReadString" {
						if bl, ok := c.Args[0].(*ast.BasicLit); ok && bl.Value == `'\n'` {
							okRead = true
						}
					}
				}
				return true
			})
			if !okRead {
				fail("%s: processLogFile: bufio.Reader without ReadString('\\n')", lg)
			}
			kind = "reader"
		default:
			fail("%s: processLogFile: neither bufio.NewScanner nor bufio.NewReader (or both)", lg)
		}
		lf.def("lineReader", "String", strconv.Quote(kind), lg+": processLogFile reads lines with a bufio.Scanner (64 KiB limit) or a bufio.Reader (no limit)")
		loop, trims := readerLoopBody(lg, fd, kind)
		lf.def("readerLoop", "List String", strList(loop), lg+": processLogFile – the statements of the read loop IN ORDER: `read` (line, readErr := reader.ReadString('\\n')), `return-err` (a read error other than io.EOF ends the function), `return-any-err` (any read error incl. io.EOF ends it), `deliver` (a non-empty line is sent to the output channel), `return-eof` (io.EOF ends the function). ReadString returns the bytes read so far TOGETHER with io.EOF, so `deliver` has to come before `return-eof` for an unterminated last line to be handed to the verifier")
		lf.def("readerTrims", "List String", strList(trims), lg+": processLogFile – the suffixes removed from a line before it is delivered (strings.TrimSuffix), in order")
	}
	lf.def("verifierSkips", "List String", strList(skipped), iv+": VerifyIntegrityCheck – parse errors after which the line is skipped (`continue`)")
	genAuditLogJSON(lf, prs, lg)
}

// JSON format: what getBytes applies to a value, how convertMapToBytes concatenates, how the entry is decoded
// (decoder calls of unmarshalLogEntry) and that hook and parser both decode with it.
func genAuditLogJSON(lf *leanFile, prs, lg string) {
	gb := funcDecl(prs, "", "getBytes")
	if gb == nil || gb.Body == nil {
		fail("%s: getBytes not found", prs)
	}
	var stmts []string
	for _, st := range gb.Body.List {
		stmts = append(stmts, render(st))
	}
	lf.def("getBytesBody", "List String", strList(stmts), prs+": the statements of getBytes (the value serializer shared by the JSON hook and the JSON parser)")
	cm := funcDecl(prs, "", "convertMapToBytes")
	if cm == nil {
		fail("%s: convertMapToBytes not found", prs)
	}
	var appended []string
	ast.Inspect(cm, func(n ast.Node) bool {
		rs, ok := n.(*ast.RangeStmt)
		if !ok || render(rs.X) != "keys" {
			return true
		}
		ast.Inspect(rs.Body, func(m ast.Node) bool {
			if c, ok := m.(*ast.CallExpr); ok {
				if id, ok := c.Fun.(*ast.Ident); ok && id.Name == "append" && len(c.Args) == 2 && render(c.Args[0]) == "rawDataBytes" {
					appended = append(appended, render(c.Args[1]))
				}
			}
			return true
		})
		return false
	})
	if len(appended) == 0 {
		fail("%s: convertMapToBytes: the `for … range keys` loop appending to rawDataBytes was not found", prs)
	}
	lf.def("convAppends", "List String", strList(appended), prs+": convertMapToBytes – what is appended to rawDataBytes for every key, in order")
	lf.def("convSortsKeys", "Bool", boolStr(callsSel(cm, "sort", "Strings")), prs+": convertMapToBytes sorts the keys with sort.Strings")
	valueFrom := ""
	ast.Inspect(cm, func(n ast.Node) bool {
		if as, ok := n.(*ast.AssignStmt); ok && len(as.Lhs) == 2 && render(as.Lhs[0]) == "valueBytes" && len(as.Rhs) == 1 {
			valueFrom = render(as.Rhs[0])
		}
		return true
	})
	lf.def("convValueBytes", "String", strconv.Quote(valueFrom), prs+": convertMapToBytes – where valueBytes comes from")
	um := funcDecl(prs, "", "unmarshalLogEntry")
	var calls []string
	if um != nil {
		ast.Inspect(um, func(n ast.Node) bool {
			if c, ok := n.(*ast.CallExpr); ok {
				if s, ok := c.Fun.(*ast.SelectorExpr); ok {
					if id, ok := s.X.(*ast.Ident); ok && (id.Name == "json" || id.Name == "decoder") {
						calls = append(calls, id.Name+"."+s.Sel.Name)
					}
				}
			}
			return true
		})
	}
	lf.def("jsonDecodeCalls", "List String", strList(calls), prs+": unmarshalLogEntry – calls on encoding/json and on the decoder, in order (empty: the function does not exist)")
	for _, p := range [][4]string{{lg, "JSONFormatterHook", "PostFormat", "jsonHookDecodesWith"}, {prs, "JSONLogParser", "ParseEntry", "jsonParserDecodesWith"}} {
		fd := funcDecl(p[0], p[1], p[2])
		if fd == nil {
			fail("%s: %s.%s not found", p[0], p[1], p[2])
		}
		with := ""
		switch {
		case callsSel2(fd, "unmarshalLogEntry") && !callsSel(fd, "json", "Unmarshal"):
			with = "unmarshalLogEntry"
		case callsSel(fd, "json", "Unmarshal") && !callsSel2(fd, "unmarshalLogEntry"):
			with = "json.Unmarshal"
		default:
			fail("%s: %s.%s: cannot tell how the entry is decoded", p[0], p[1], p[2])
		}
		lf.def(p[3], "String", strconv.Quote(with), p[0]+": "+p[1]+"."+p[2]+" decodes the entry with")
	}
}

func callsSel2(fd *ast.FuncDecl, fn string) bool {
	found := false
	ast.Inspect(fd, func(n ast.Node) bool {
		if c, ok := n.(*ast.CallExpr); ok {
			if id, ok := c.Fun.(*ast.Ident); ok && id.Name == fn {
				found = true
			}
		}
		return true
	})
	return found
}

// readerLoopBody classifies the statements of processLogFile's `for { … }` loop (bufio.Reader variant) in order and
// returns the suffixes trimmed from a delivered line. For the bufio.Scanner variant the loop has another shape
// (for scanner.Scan() { deliver }): it is reported as ["scan", "deliver"].
func readerLoopBody(lg string, fd *ast.FuncDecl, kind string) (loop, trims []string) {
	var fs *ast.ForStmt
	nFor := 0
	ast.Inspect(fd, func(n ast.Node) bool {
		if f, ok := n.(*ast.ForStmt); ok {
			if nFor == 0 {
				fs = f
			}
			nFor++
			return false
		}
		return true
	})
	if fs == nil || nFor != 1 {
		fail("%s: processLogFile: expected exactly one for loop, found %d", lg, nFor)
	}
	collectTrims := func(body *ast.BlockStmt) {
		ast.Inspect(body, func(n ast.Node) bool {
			if c, ok := n.(*ast.CallExpr); ok && len(c.Args) == 2 {
				if s, ok := c.Fun.(*ast.SelectorExpr); ok && s.Sel.Name == "TrimSuffix" {
					bl, ok := c.Args[1].(*ast.BasicLit)
					if !ok || bl.Kind != token.STRING {
						fail("%s: processLogFile: TrimSuffix with a non-literal suffix %s", lg, render(c.Args[1]))
					}
					v, err := strconv.Unquote(bl.Value)
					if err != nil {
						fail("%s: processLogFile: %v", lg, err)
					}
					trims = append(trims, v)
				} else if ok && (s.Sel.Name == "TrimSpace" || s.Sel.Name == "TrimRight" || s.Sel.Name == "Trim" || s.Sel.Name == "TrimFunc") {
					fail("%s: processLogFile: the line is trimmed with %s – not modelled", lg, render(c.Fun))
				}
			}
			return true
		})
	}
	hasSend := func(body *ast.BlockStmt) bool {
		found := false
		ast.Inspect(body, func(n ast.Node) bool {
			if _, ok := n.(*ast.SendStmt); ok {
				found = true
			}
			return true
		})
		return found
	}
	if kind == "scanner" {
		if !hasSend(fs.Body) {
			fail("%s: processLogFile: the scanner loop does not send to the output channel", lg)
		}
		collectTrims(fs.Body)
		return []string{"scan", "deliver"}, trims
	}
	if fs.Init != nil || fs.Cond != nil || fs.Post != nil {
		fail("%s: processLogFile: the read loop is expected to be `for { … }`, found `for %s; %s; %s`", lg, render(fs.Init), render(fs.Cond), render(fs.Post))
	}
	for _, st := range fs.Body.List {
		switch s := st.(type) {
		case *ast.AssignStmt:
			if len(s.Lhs) == 2 && len(s.Rhs) == 1 && render(s.Lhs[0]) == "line" && render(s.Lhs[1]) == "readErr" && strings.HasSuffix(render(s.Rhs[0]), ".ReadString('\\n')") {
				loop = append(loop, "read")
				continue
			}
		case *ast.IfStmt:
			if s.Init == nil && s.Else == nil && len(s.Body.List) > 0 {
				cond := render(s.Cond)
				ret, isRet := s.Body.List[len(s.Body.List)-1].(*ast.ReturnStmt)
				switch {
				case isRet && len(s.Body.List) == 1 && cond == "readErr == io.EOF" && len(ret.Results) == 1 && render(ret.Results[0]) == "nil":
					loop = append(loop, "return-eof")
					continue
				case isRet && len(s.Body.List) == 1 && (cond == "readErr != nil && readErr != io.EOF" || cond == "readErr != io.EOF && readErr != nil") && len(ret.Results) == 1 && render(ret.Results[0]) == "readErr":
					loop = append(loop, "return-err")
					continue
				case isRet && len(s.Body.List) == 1 && cond == "readErr != nil" && len(ret.Results) == 1 && render(ret.Results[0]) == "readErr":
					loop = append(loop, "return-any-err")
					continue
				case !isRet && cond == "len(line) > 0" && hasSend(s.Body):
					// nothing in the branch may leave the loop
					ast.Inspect(s.Body, func(n ast.Node) bool {
						switch n.(type) {
						case *ast.ReturnStmt, *ast.BranchStmt:
							fail("%s: processLogFile: the delivering branch contains %s – not modelled", lg, render(n))
						}
						return true
					})
					collectTrims(s.Body)
					loop = append(loop, "deliver")
					continue
				}
			}
		}
		fail("%s: processLogFile: statement of the read loop not understood: %s", lg, render(st))
	}
	cnt := map[string]int{}
	for _, l := range loop {
		cnt[l]++
	}
	if cnt["read"] != 1 || loop[0] != "read" || cnt["deliver"] != 1 || cnt["return-eof"]+cnt["return-any-err"] < 1 {
		fail("%s: processLogFile: the read loop is expected to read once (first), deliver once and end on io.EOF; found %v", lg, loop)
	}
	return loop, trims
}
