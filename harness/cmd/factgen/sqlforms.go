package main

// sqlforms.go – statement forms for C13 (lean/AcraModel/Sql/Forms.lean, harness/internal/c13/forms.go).
//
// For every statement node of sqlparser/ast.go (every struct type with an `iStatement` method) it regenerates
//
// stmtKinds    : the statement node types in declaration order
// stmtFields   : per kind its fields (name, class) with class ∈ node | string | bool | other
//                (node: the field's type is an SQLNode type or a slice/pointer of one – a clause, list or operand)
// printPaths   : per kind the alternative print paths of its `Format` method. The body is executed symbolically:
//                an `if` / `switch` whose branches print (or return) forks the path, the condition is recorded as
//                (field, rel, arg) with rel ∈ zero | nonzero | eq | notin | dialect | opaque, and every field of the
//                receiver that reaches a print call (directly, through a local alias like `opt := node.ShowTablesOpt`
//                or `exists := ""; if node.IfExists { exists = … }`, or as the range of a printing loop) is a
//                printed field of the path. Also the format strings of the path in order (the skeleton).
// productions  : per kind the grammar alternatives of sql.y that build the node: `$$ = &Kind{F: v, …}` directly, or
//                `x := $n[.(*Kind)]; x.F = v; …; $$ = x` (then the alternatives of the rule of `$n` that build the
//                node are spliced in). Per production: rule, alternative, whether the rule is a statement of `command`
//                (top) or only a part (insert_data, base_select), the right-hand side symbols with the field each one
//                fills and whether the symbol may derive the empty string, and per assigned field the "zeroness" of
//                the assigned value: nonzero | maybe | zero (abstract evaluation of the action: `$n` of an optional
//                rule may be nil, `NewWhere(_, $n)` is nil iff `$n` is, composite literals and appends are non-nil …).
//
// The Lean side states: on every print path, every field that a production compatible with the path's conditions can
// fill is printed (or fixed by the path's conditions). A `Format` that stops printing a field on one path, or a
// grammar alternative that starts filling a field its print path does not print, breaks `fact_format_prints_all_fields`.

import (
	"fmt"
	"go/ast"
	"go/parser"
	"go/printer"
	"go/token"
	"os"
	"path/filepath"
	"regexp"
	"sort"
	"strconv"
	"strings"
)

func init() { generators = append(generators, genSqlForms) }

type fCond struct{ field, rel, arg string }

type fPath struct {
	conds   []fCond
	printed []string
	formats []string
	done    bool
}

func (p *fPath) clone() *fPath {
	return &fPath{conds: append([]fCond{}, p.conds...), printed: append([]string{}, p.printed...), formats: append([]string{}, p.formats...), done: p.done}
}

func (p *fPath) addPrinted(fs []string) {
	for _, f := range fs {
		dup := false
		for _, g := range p.printed {
			if g == f {
				dup = true
			}
		}
		if !dup {
			p.printed = append(p.printed, f)
		}
	}
}

// formWalker executes one Format body symbolically.
type formWalker struct {
	kind  string
	recv  string
	buf   string              // name of the *TrackedBuffer parameter
	alias map[string][]string // local variable → receiver fields it derives from
	where string
	// tolerant: a statement that is not understood makes the walker give up on this method (clause nodes)
	// instead of failing the whole run (statement nodes)
	tolerant bool
	gaveUp   bool
}

func (w *formWalker) notUnderstood(format string, a ...any) {
	if w.tolerant {
		w.gaveUp = true
		return
	}
	fail(format, a...)
}

// fieldsIn: receiver fields mentioned in e (node.F…, or through aliases).
func (w *formWalker) fieldsIn(e ast.Node) []string {
	var out []string
	seen := map[string]bool{}
	add := func(f string) {
		if !seen[f] {
			seen[f] = true
			out = append(out, f)
		}
	}
	ast.Inspect(e, func(n ast.Node) bool {
		switch t := n.(type) {
		case *ast.SelectorExpr:
			if id, ok := t.X.(*ast.Ident); ok && id.Name == w.recv {
				add(t.Sel.Name)
				return false
			}
		case *ast.Ident:
			for _, f := range w.alias[t.Name] {
				add(f)
			}
			if t.Name == w.recv {
				add("*") // the receiver as a whole is handed on
			}
		}
		return true
	})
	return out
}

// isPrintCall: a call that writes to the buffer: buf.Myprintf(…), buf.WriteString(…), buf.astPrintf(…), x.Format(buf).
func (w *formWalker) isPrintCall(c *ast.CallExpr) bool {
	if sel, ok := c.Fun.(*ast.SelectorExpr); ok {
		if id, ok := sel.X.(*ast.Ident); ok && id.Name == w.buf {
			return true
		}
		if sel.Sel.Name == "Format" {
			for _, a := range c.Args {
				if id, ok := a.(*ast.Ident); ok && id.Name == w.buf {
					return true
				}
			}
		}
	}
	return false
}

func (w *formWalker) containsPrintOrReturn(n ast.Node) bool {
	found := false
	ast.Inspect(n, func(x ast.Node) bool {
		switch t := x.(type) {
		case *ast.CallExpr:
			if w.isPrintCall(t) {
				found = true
			}
		case *ast.ReturnStmt:
			found = true
		}
		return !found
	})
	return found
}

func firstStringLit(e ast.Node) (string, bool) {
	var s string
	ok := false
	ast.Inspect(e, func(n ast.Node) bool {
		if ok {
			return false
		}
		if bl, isLit := n.(*ast.BasicLit); isLit && bl.Kind == token.STRING {
			if v, err := strconv.Unquote(bl.Value); err == nil {
				s, ok = v, true
			}
		}
		return !ok
	})
	return s, ok
}

func (w *formWalker) doPrint(c *ast.CallExpr, live []*fPath) {
	var fs []string
	for _, a := range c.Args {
		fs = append(fs, w.fieldsIn(a)...)
	}
	if sel, ok := c.Fun.(*ast.SelectorExpr); ok && sel.Sel.Name == "Format" {
		fs = append(fs, w.fieldsIn(sel.X)...)
	}
	format, hasFmt := "", false
	if len(c.Args) > 0 {
		format, hasFmt = firstStringLit(c.Args[0])
	}
	for _, p := range live {
		if p.done {
			continue
		}
		p.addPrinted(fs)
		if hasFmt {
			p.formats = append(p.formats, format)
		}
	}
}

// atomCond: node.F == nil, len(node.F) != 0, !node.F, node.F == Const, alias.X != "" …
func (w *formWalker) atomCond(e ast.Expr) (fCond, bool) {
	// the subject: node.F[.x…] → "F" ; alias.X → "<F>.X" ; len(subject)
	var subject func(x ast.Expr) (string, bool)
	subject = func(x ast.Expr) (string, bool) {
		switch t := x.(type) {
		case *ast.ParenExpr:
			return subject(t.X)
		case *ast.SelectorExpr:
			if id, ok := t.X.(*ast.Ident); ok {
				if id.Name == w.recv {
					return t.Sel.Name, true
				}
				if fs := w.alias[id.Name]; len(fs) == 1 {
					return fs[0] + "." + t.Sel.Name, true
				}
				return "", false
			}
			// node.F.x : a property of field F
			if s, ok := subject(t.X); ok {
				return s, true
			}
		case *ast.CallExpr:
			if id, ok := t.Fun.(*ast.Ident); ok && id.Name == "len" && len(t.Args) == 1 {
				return subject(t.Args[0])
			}
		}
		return "", false
	}
	isZeroLit := func(x ast.Expr) bool {
		switch t := x.(type) {
		case *ast.Ident:
			return t.Name == "nil" || t.Name == "false"
		case *ast.BasicLit:
			return t.Value == `""` || t.Value == "0" || t.Value == "``"
		}
		return false
	}
	switch t := e.(type) {
	case *ast.ParenExpr:
		return w.atomCond(t.X)
	case *ast.CallExpr:
		// node.F.IsEmpty()
		if sel, ok := t.Fun.(*ast.SelectorExpr); ok && sel.Sel.Name == "IsEmpty" && len(t.Args) == 0 {
			// node.IsEmpty(): the receiver holds nothing – like a nil receiver
			if id, isId := sel.X.(*ast.Ident); isId && id.Name == w.recv && len(w.alias[id.Name]) == 0 {
				return fCond{"*", "zero", ""}, true
			}
			if s, ok := subject(sel.X); ok {
				return fCond{s, "zero", ""}, true
			}
		}
	case *ast.UnaryExpr:
		if t.Op == token.NOT {
			if c, ok := w.atomCond(t.X); ok {
				return negCond(c), true
			}
		}
	case *ast.SelectorExpr:
		if s, ok := subject(t); ok {
			return fCond{s, "nonzero", ""}, true
		}
	case *ast.BinaryExpr:
		// node == nil : the receiver itself
		if id, isId := t.X.(*ast.Ident); isId && id.Name == w.recv && len(w.alias[id.Name]) == 0 && isZeroLit(t.Y) {
			if t.Op == token.EQL {
				return fCond{"*", "zero", ""}, true
			}
			if t.Op == token.NEQ {
				return fCond{"*", "nonzero", ""}, true
			}
		}
		s, ok := subject(t.X)
		if !ok {
			break
		}
		switch {
		case isZeroLit(t.Y) && t.Op == token.EQL:
			return fCond{s, "zero", ""}, true
		case isZeroLit(t.Y) && (t.Op == token.NEQ || t.Op == token.GTR):
			return fCond{s, "nonzero", ""}, true
		case t.Op == token.EQL || t.Op == token.NEQ:
			arg := ""
			switch y := t.Y.(type) {
			case *ast.Ident:
				arg = y.Name
			case *ast.BasicLit:
				arg = y.Value
			default:
				return fCond{}, false
			}
			if t.Op == token.EQL {
				return fCond{s, "eq", arg}, true
			}
			return fCond{s, "notin", arg}, true
		}
	}
	return fCond{}, false
}

func negCond(c fCond) fCond {
	switch c.rel {
	case "zero":
		return fCond{c.field, "nonzero", ""}
	case "nonzero":
		return fCond{c.field, "zero", ""}
	case "eq":
		return fCond{c.field, "notin", c.arg}
	case "notin":
		if !strings.Contains(c.arg, ",") {
			return fCond{c.field, "eq", c.arg}
		}
	}
	return fCond{"", "opaque", "not(" + c.field + " " + c.rel + " " + c.arg + ")"}
}

// conds of the branch taken when e holds / does not hold
func (w *formWalker) condOf(e ast.Expr) (pos, neg []fCond) {
	if b, ok := e.(*ast.BinaryExpr); ok && (b.Op == token.LAND || b.Op == token.LOR) {
		lp, ln := w.condOf(b.X)
		rp, rn := w.condOf(b.Y)
		if b.Op == token.LAND {
			return append(append([]fCond{}, lp...), rp...), []fCond{{"", "opaque", "not(" + srcText(e) + ")"}}
		}
		return []fCond{{"", "opaque", srcText(e)}}, append(append([]fCond{}, ln...), rn...)
	}
	if p, ok := e.(*ast.ParenExpr); ok {
		return w.condOf(p.X)
	}
	if c, ok := w.atomCond(e); ok {
		return []fCond{c}, []fCond{negCond(c)}
	}
	return []fCond{{"", "opaque", srcText(e)}}, []fCond{{"", "opaque", "not(" + srcText(e) + ")"}}
}

// fork runs `branch` on a copy of every unfinished path, extended by the conditions cs; finished paths are dropped
// (the caller keeps them).
func stripParens(e ast.Expr) ast.Expr {
	for {
		p, ok := e.(*ast.ParenExpr)
		if !ok {
			return e
		}
		e = p.X
	}
}

func fork(p *fPath, cs []fCond) *fPath {
	q := p.clone()
	q.conds = append(q.conds, cs...)
	return q
}

func (w *formWalker) assign(lhs []ast.Expr, rhs []ast.Expr, extra []string) {
	for i, l := range lhs {
		id, ok := l.(*ast.Ident)
		if !ok || id.Name == "_" {
			continue
		}
		var fs []string
		if i < len(rhs) {
			fs = w.fieldsIn(rhs[i])
		}
		fs = append(fs, extra...)
		have := map[string]bool{}
		for _, f := range w.alias[id.Name] {
			have[f] = true
		}
		for _, f := range fs {
			if !have[f] && f != "*" {
				have[f] = true
				w.alias[id.Name] = append(w.alias[id.Name], f)
			}
		}
	}
}

// flat: statements inside a loop or a non-forking `if` – every print goes to every live path, assignments make
// aliases (carrying the fields of the enclosing conditions `extra`).
func (w *formWalker) flat(n ast.Node, live []*fPath, extra []string) {
	ast.Inspect(n, func(x ast.Node) bool {
		switch t := x.(type) {
		case *ast.AssignStmt:
			w.assign(t.Lhs, t.Rhs, extra)
		case *ast.IfStmt:
			if t.Init != nil {
				w.flat(t.Init, live, extra)
			}
			inner := append(append([]string{}, extra...), w.fieldsIn(t.Cond)...)
			w.flat(t.Body, live, inner)
			if t.Else != nil {
				w.flat(t.Else, live, inner)
			}
			return false
		case *ast.CallExpr:
			if w.isPrintCall(t) {
				w.doPrint(t, live)
				for _, p := range live {
					if !p.done {
						p.addPrinted(extra)
					}
				}
				return false
			}
		}
		return true
	})
}

func (w *formWalker) walk(stmts []ast.Stmt, live []*fPath) []*fPath {
	for _, s := range stmts {
		switch t := s.(type) {
		case *ast.ExprStmt:
			if c, ok := t.X.(*ast.CallExpr); ok {
				if w.isPrintCall(c) {
					w.doPrint(c, live)
					continue
				}
				if id, ok := c.Fun.(*ast.Ident); ok && id.Name == "panic" {
					for _, p := range live {
						if !p.done {
							p.done = true
							p.formats = append(p.formats, "<panic>")
						}
					}
					continue
				}
			}
			w.notUnderstood("%s: statement kind not understood in a Format body: %s", w.where, srcStmt(s))
		case *ast.AssignStmt:
			w.assign(t.Lhs, t.Rhs, nil)
		case *ast.DeclStmt:
			// var x T – nothing to track
		case *ast.ReturnStmt:
			for _, p := range live {
				p.done = true
			}
		case *ast.BlockStmt:
			live = w.walk(t.List, live)
		case *ast.IfStmt:
			if t.Init != nil {
				if as, ok := t.Init.(*ast.AssignStmt); ok {
					w.assign(as.Lhs, as.Rhs, nil)
				}
			}
			if !w.containsPrintOrReturn(t) {
				w.flat(t, live, nil)
				continue
			}
			// `if A || B {S} else {E}` ≡ `if A {S} else if B {S} else {E}` ; `if A && B {S} else {E}` ≡
			// `if A { if B {S} else {E} } else {E}` – so that every path carries atomic conditions
			if b, ok := stripParens(t.Cond).(*ast.BinaryExpr); ok && (b.Op == token.LOR || b.Op == token.LAND) {
				var rewritten *ast.IfStmt
				if b.Op == token.LOR {
					inner := &ast.IfStmt{If: t.If, Cond: b.Y, Body: t.Body, Else: t.Else}
					rewritten = &ast.IfStmt{If: t.If, Cond: b.X, Body: t.Body, Else: inner}
				} else {
					inner := &ast.IfStmt{If: t.If, Cond: b.Y, Body: t.Body, Else: t.Else}
					rewritten = &ast.IfStmt{If: t.If, Cond: b.X, Body: &ast.BlockStmt{List: []ast.Stmt{inner}}, Else: t.Else}
				}
				live = w.walk([]ast.Stmt{rewritten}, live)
				continue
			}
			pos, neg := w.condOf(t.Cond)
			var out []*fPath
			for _, p := range live {
				if p.done {
					out = append(out, p)
					continue
				}
				out = append(out, w.walk(t.Body.List, []*fPath{fork(p, pos)})...)
				switch e := t.Else.(type) {
				case nil:
					out = append(out, fork(p, neg))
				case *ast.BlockStmt:
					out = append(out, w.walk(e.List, []*fPath{fork(p, neg)})...)
				case *ast.IfStmt:
					out = append(out, w.walk([]ast.Stmt{e}, []*fPath{fork(p, neg)})...)
				}
			}
			live = out
		case *ast.SwitchStmt:
			if t.Tag == nil {
				w.notUnderstood("%s: tagless switch in a Format body", w.where)
				continue
			}
			subj := w.fieldsIn(t.Tag)
			if len(subj) != 1 {
				w.notUnderstood("%s: switch tag %s is not one receiver field", w.where, srcText(t.Tag))
				continue
			}
			var all []string
			hasDefault := false
			for _, cc := range t.Body.List {
				for _, v := range cc.(*ast.CaseClause).List {
					all = append(all, srcText(v))
				}
			}
			var out []*fPath
			for _, p := range live {
				if p.done {
					out = append(out, p)
					continue
				}
				for _, cc := range t.Body.List {
					c := cc.(*ast.CaseClause)
					var cs []fCond
					if c.List == nil {
						hasDefault = true
						cs = []fCond{{subj[0], "notin", strings.Join(all, ",")}}
					} else {
						var vs []string
						for _, v := range c.List {
							vs = append(vs, srcText(v))
						}
						cs = []fCond{{subj[0], "eq", strings.Join(vs, ",")}}
					}
					out = append(out, w.walk(c.Body, []*fPath{fork(p, cs)})...)
				}
				if !hasDefault {
					out = append(out, fork(p, []fCond{{subj[0], "notin", strings.Join(all, ",")}}))
				}
			}
			live = out
		case *ast.TypeSwitchStmt:
			// switch buf.dialect.(type) { case *mysql.MySQLDialect: … }
			var out []*fPath
			for _, p := range live {
				if p.done {
					out = append(out, p)
					continue
				}
				for _, cc := range t.Body.List {
					c := cc.(*ast.CaseClause)
					var vs []string
					for _, v := range c.List {
						vs = append(vs, strings.TrimPrefix(srcText(v), "*"))
					}
					name := strings.Join(vs, ",")
					if c.List == nil {
						name = "default"
					}
					out = append(out, w.walk(c.Body, []*fPath{fork(p, []fCond{{"", "dialect", name}})})...)
				}
			}
			live = out
		case *ast.RangeStmt:
			// the loop variables stand for the ranged fields
			fs := w.fieldsIn(t.X)
			for _, v := range []ast.Expr{t.Key, t.Value} {
				if id, ok := v.(*ast.Ident); ok && id.Name != "_" {
					for _, f := range fs {
						if f != "*" {
							w.alias[id.Name] = append(w.alias[id.Name], f)
						}
					}
				}
			}
			w.flat(t.Body, live, nil)
		case *ast.ForStmt:
			w.flat(t.Body, live, nil)
		default:
			w.notUnderstood("%s: statement kind not understood in a Format body: %s", w.where, srcStmt(s))
		}
	}
	return live
}

func srcStmt(s ast.Stmt) string {
	pos := fset.Position(s.Pos())
	return fmt.Sprintf("%s:%d", filepath.Base(pos.Filename), pos.Line)
}

// ---------- grammar side ----------

type gField struct{ name, zero, text string }

type gSym struct {
	sym      string
	field    string
	nullable bool
}

type gProd struct {
	kind, rule string
	alt        int
	top        bool
	syms       []gSym
	fields     []gField
}

var dollarN = regexp.MustCompile(`\$(\d+)`)

func parseAction(action string) *ast.BlockStmt {
	if action == "" {
		return nil
	}
	src := strings.ReplaceAll(action, "$$", "yyVAL")
	src = dollarN.ReplaceAllString(src, "yyD$1")
	f, err := parser.ParseFile(token.NewFileSet(), "action.go", "package p\nfunc _() "+src+"\n", 0)
	if err != nil {
		return nil
	}
	return f.Decls[0].(*ast.FuncDecl).Body
}

func dollarIndex(e ast.Expr) int {
	if id, ok := e.(*ast.Ident); ok && strings.HasPrefix(id.Name, "yyD") {
		n, err := strconv.Atoi(id.Name[3:])
		if err == nil {
			return n
		}
	}
	return 0
}

func dollarsIn(e ast.Node) []int {
	var out []int
	ast.Inspect(e, func(n ast.Node) bool {
		if x, ok := n.(ast.Expr); ok {
			if k := dollarIndex(x); k > 0 {
				out = append(out, k)
			}
		}
		return true
	})
	return out
}

type formsGrammar struct {
	g        *yGrammar
	blocks   map[string][]*ast.BlockStmt // rule → parsed action per alternative (nil: none / not Go)
	zeroMemo map[string]string
	nullMemo map[string]int // 0 unknown, 1 in progress, 2 no, 3 yes
	consts   *constEnv
	pkg      *sqlPkg
}

func joinZero(a, b string) string {
	if a == "" {
		return b
	}
	if b == "" || a == b {
		return a
	}
	return "maybe"
}

// zeroness of a value expression inside the action of alternative `alt`
func (fg *formsGrammar) zeroOf(e ast.Expr, alt yAlt) string {
	switch t := e.(type) {
	case *ast.ParenExpr:
		return fg.zeroOf(t.X, alt)
	case *ast.Ident:
		if k := dollarIndex(t); k > 0 {
			if k > len(alt.syms) {
				return "maybe"
			}
			return fg.ruleZero(alt.syms[k-1])
		}
		switch t.Name {
		case "nil", "false":
			return "zero"
		case "true":
			return "nonzero"
		}
		if v, ok := fg.consts.vals[t.Name]; ok {
			if s, err := strconv.Unquote(v.ExactString()); err == nil {
				if s == "" {
					return "zero"
				}
				return "nonzero"
			}
		}
		return "maybe"
	case *ast.BasicLit:
		if t.Value == `""` || t.Value == "``" || t.Value == "0" {
			return "zero"
		}
		return "nonzero"
	case *ast.CompositeLit:
		return "nonzero"
	case *ast.UnaryExpr:
		if t.Op == token.AND {
			return "nonzero"
		}
	case *ast.TypeAssertExpr:
		return fg.zeroOf(t.X, alt)
	case *ast.CallExpr:
		name := ""
		switch f := t.Fun.(type) {
		case *ast.Ident:
			name = f.Name
		}
		switch {
		case name == "append":
			return "nonzero"
		case name == "NewWhere" && len(t.Args) == 2:
			return fg.zeroOf(t.Args[1], alt)
		case name != "" && len(t.Args) == 1 && (fg.isTypeName(name) || name == "string"):
			return fg.zeroOf(t.Args[0], alt) // conversion
		case strings.HasPrefix(name, "New") && len(t.Args) >= 1:
			if fg.ctorNonNil(name) {
				return "nonzero"
			}
			return "maybe"
		}
	}
	return "maybe"
}

// ctorNonNil: a constructor of the package whose every return statement returns `&T{…}` (NewIntVal, NewStrVal …)
func (fg *formsGrammar) ctorNonNil(name string) bool {
	fd := fg.pkg.funcs[name]
	if fd == nil || fd.Body == nil {
		return false
	}
	n, all := 0, true
	ast.Inspect(fd.Body, func(x ast.Node) bool {
		if _, isLit := x.(*ast.FuncLit); isLit {
			return false
		}
		if rs, ok := x.(*ast.ReturnStmt); ok {
			n++
			good := false
			if len(rs.Results) == 1 {
				if u, ok := rs.Results[0].(*ast.UnaryExpr); ok && u.Op == token.AND {
					_, good = u.X.(*ast.CompositeLit)
				}
			}
			all = all && good
		}
		return true
	})
	return n > 0 && all
}

var sqlTypeNames map[string]bool

func (fg *formsGrammar) isTypeName(n string) bool { return sqlTypeNames[n] }

// ruleZero: can the value of a symbol be nil / "" / false?  terminals carry their text: nonzero.
func (fg *formsGrammar) ruleZero(sym string) string {
	alts, isRule := fg.g.rules[sym]
	if !isRule {
		return "nonzero"
	}
	if z, ok := fg.zeroMemo[sym]; ok {
		if z == "" {
			return "nonzero" // recursive reference: least fixed point
		}
		return z
	}
	fg.zeroMemo[sym] = ""
	res := ""
	for i, a := range alts {
		blk := fg.blocks[sym][i]
		var assigned []ast.Expr
		if blk != nil {
			ast.Inspect(blk, func(n ast.Node) bool {
				if as, ok := n.(*ast.AssignStmt); ok && len(as.Lhs) == 1 && len(as.Rhs) == 1 {
					if id, ok := as.Lhs[0].(*ast.Ident); ok && id.Name == "yyVAL" {
						assigned = append(assigned, as.Rhs[0])
					}
				}
				return true
			})
		}
		switch {
		case len(assigned) > 0:
			for _, e := range assigned {
				res = joinZero(res, fg.zeroOf(e, a))
			}
		case a.action != "" && blk == nil:
			res = joinZero(res, "maybe") // action that is not plain Go
		case len(a.syms) == 0:
			res = joinZero(res, "zero") // empty alternative without `$$ =`
		default:
			res = joinZero(res, fg.ruleZero(a.syms[0])) // yacc default `$$ = $1`
		}
	}
	if res == "" {
		res = "maybe"
	}
	fg.zeroMemo[sym] = res
	return res
}

// nullable: the symbol may derive the empty string
func (fg *formsGrammar) nullable(sym string) bool {
	alts, isRule := fg.g.rules[sym]
	if !isRule {
		return false
	}
	switch fg.nullMemo[sym] {
	case 1, 2:
		return false
	case 3:
		return true
	}
	fg.nullMemo[sym] = 1
	res := false
	for _, a := range alts {
		all := true
		for _, s := range a.syms {
			if !fg.nullable(s) {
				all = false
				break
			}
		}
		if all {
			res = true
			break
		}
	}
	if res {
		fg.nullMemo[sym] = 3
	} else {
		fg.nullMemo[sym] = 2
	}
	return res
}

// kvFields reads `&Kind{F: v, …}` into fields + symbol links.
func (fg *formsGrammar) kvFields(cl *ast.CompositeLit, alt yAlt, where string, decl []sqlField) (fields []gField, link map[int]string) {
	link = map[int]string{}
	for pos, el := range cl.Elts {
		kv, ok := el.(*ast.KeyValueExpr)
		if !ok {
			// positional literal: fields in declaration order
			if pos >= len(decl) {
				fail("sql.y %s: positional composite literal with more elements than the struct has fields", where)
				continue
			}
			kv = &ast.KeyValueExpr{Key: ast.NewIdent(decl[pos].name), Value: el}
		}
		name := kv.Key.(*ast.Ident).Name
		fields = append(fields, gField{name, fg.zeroOf(kv.Value, alt), actionText(kv.Value)})
		for _, k := range dollarsIn(kv.Value) {
			if _, dup := link[k]; !dup {
				link[k] = name
			}
		}
	}
	return
}

func actionText(e ast.Expr) string {
	s := srcTextPlain(e)
	s = strings.ReplaceAll(s, "yyVAL", "$$")
	return regexp.MustCompile(`yyD(\d+)`).ReplaceAllString(s, "$$$1")
}

func srcTextPlain(e ast.Expr) string { return srcTextPlainNode(e) }

func srcTextPlainNode(n ast.Node) string {
	var b strings.Builder
	if err := printer.Fprint(&b, token.NewFileSet(), n); err != nil {
		return "?"
	}
	return strings.Join(strings.Fields(b.String()), "")
}

func genSqlForms() {
	p := loadSQLPkg()
	srcB, err := os.ReadFile(filepath.Join(repo, sqlDir, "sql.y"))
	if err != nil {
		fail("%s/sql.y: %v", sqlDir, err)
		return
	}
	g, err := parseYacc(string(srcB))
	if err != nil {
		fail("sql.y: %v", err)
		return
	}
	lf := newLean("SqlForms", "Sources: sqlparser/ast.go (statement node types and their fields), sqlparser/ast_methods.go (the print paths of their Format methods), sqlparser/sql.y (the grammar alternatives that build them).")

	// ---- statement kinds and their fields
	var kinds []string
	for _, t := range p.order {
		if _, isStruct := p.types[t].(*ast.StructType); isStruct && p.hasMethod(t, "iStatement") {
			kinds = append(kinds, t)
		}
	}
	for _, must := range []string{"Select", "Union", "ParenSelect", "Insert", "Update", "Delete", "Set", "DDL", "Show"} {
		found := false
		for _, k := range kinds {
			found = found || k == must
		}
		if !found {
			fail("ast.go: statement node type %s (struct with iStatement) not found", must)
		}
	}
	lf.def("stmtKinds", "List String", strList(kinds), "ast.go: the struct types with an `iStatement` method, in declaration order")
	stmtKindCount := len(kinds)
	// clause nodes: every other struct type that is an SQLNode (Format + walkSubtree)
	isStmt := map[string]bool{}
	for _, k := range kinds {
		isStmt[k] = true
	}
	for _, t := range p.order {
		if _, isStruct := p.types[t].(*ast.StructType); isStruct && !isStmt[t] && p.hasMethod(t, "Format") && p.hasMethod(t, "walkSubtree") {
			kinds = append(kinds, t)
		}
	}
	isKind := map[string]bool{}
	for _, k := range kinds {
		isKind[k] = true
	}

	classOf := func(typ ast.Expr) string {
		if id, ok := typ.(*ast.Ident); ok {
			switch id.Name {
			case "bool":
				return "bool"
			case "string":
				return "string"
			}
		}
		if b := baseIdent(typ); b != "" && p.isNodeName(b) {
			return "node"
		}
		return "other"
	}
	fieldClass := map[string]map[string]string{}
	var rows []string
	for _, k := range kinds {
		fieldClass[k] = map[string]string{}
		var fs []string
		for _, f := range p.structFields(k) {
			c := classOf(f.typ)
			fieldClass[k][f.name] = c
			fs = append(fs, fmt.Sprintf("(%q, %q)", f.name, c))
		}
		rows = append(rows, fmt.Sprintf("(%q, [%s])", k, strings.Join(fs, ", ")))
	}
	lf.def("stmtFields", "List (String × List (String × String))", "[\n  "+strings.Join(rows, ",\n  ")+"]",
		"ast.go: per statement node and per clause node (struct with Format and walkSubtree) its fields (name, class) – node: an SQLNode type or a slice/pointer of one; string; bool; other")

	// ---- print paths
	rows = nil
	var condArgs []string
	var analysed, notAnalysed []string
	pathCount := map[string]int{}
	for _, k := range kinds {
		fd := p.methods[k]["Format"]
		if fd == nil || fd.Body == nil {
			fail("ast_methods.go: %s has no Format method", k)
			continue
		}
		w := &formWalker{kind: k, alias: map[string][]string{}, where: k + ".Format", tolerant: !isStmt[k]}
		if len(fd.Recv.List[0].Names) == 1 {
			w.recv = fd.Recv.List[0].Names[0].Name
		}
		if ps := fd.Type.Params.List; len(ps) == 1 && len(ps[0].Names) == 1 {
			w.buf = ps[0].Names[0].Name
		}
		if len(fd.Body.List) > 0 && (w.buf == "" || (w.recv == "" && len(p.structFields(k)) > 0)) {
			fail("ast_methods.go: %s.Format: receiver or buffer parameter has no name", k)
			continue
		}
		paths := w.walk(fd.Body.List, []*fPath{{}})
		if w.gaveUp {
			notAnalysed = append(notAnalysed, k)
			continue
		}
		analysed = append(analysed, k)
		// `if node == nil { return }`: the path of the nil receiver prints nothing and holds nothing
		{
			var keep []*fPath
			for _, pp := range paths {
				nilRecv := false
				var cs []fCond
				for _, c := range pp.conds {
					if c.field == "*" {
						nilRecv = nilRecv || c.rel == "zero"
						continue
					}
					cs = append(cs, c)
				}
				pp.conds = cs
				if !nilRecv {
					keep = append(keep, pp)
				}
			}
			paths = keep
		}
		pathCount[k] = len(paths)
		for i, pp := range paths {
			var cs []string
			for _, c := range pp.conds {
				cs = append(cs, fmt.Sprintf("(%q, %q, %q)", c.field, c.rel, c.arg))
				if c.rel == "eq" || c.rel == "notin" {
					condArgs = append(condArgs, c.arg)
				}
			}
			for _, f := range pp.printed {
				if f != "*" && fieldClass[k][f] == "" {
					fail("ast_methods.go: %s.Format prints %s.%s which is not a field of the struct", k, w.recv, f)
				}
			}
			rows = append(rows, fmt.Sprintf("(%q, %d, [%s], %s, %s)", k, i, strings.Join(cs, ", "), strList(pp.printed), strList(pp.formats)))
		}
	}
	if pathCount["Delete"] < 2 || pathCount["Insert"] < 2 {
		fail("ast_methods.go: expected at least two print paths for Delete (single-table / multi-table) and Insert (rows / default values), found %d and %d", pathCount["Delete"], pathCount["Insert"])
	}
	// the constants the path conditions compare with: (text in the condition, string value)
	{
		env := newConstEnv(filepath.Join(sqlDir, "ast.go"))
		seenC := map[string]bool{}
		var crow []string
		for _, c := range condArgs {
			for _, name := range strings.Split(c, ",") {
				if name == "" || seenC[name] {
					continue
				}
				seenC[name] = true
				if strings.HasPrefix(name, "\"") {
					if v, err := strconv.Unquote(name); err == nil {
						crow = append(crow, fmt.Sprintf("(%q, %q)", name, v))
					}
					continue
				}
				v, ok := env.vals[name]
				if !ok {
					continue // not a constant of ast.go (a variable, a literal of another kind)
				}
				sv, err := strconv.Unquote(v.ExactString())
				if err != nil {
					sv = v.ExactString() // integer constants (Limit.Type): their decimal value
				}
				crow = append(crow, fmt.Sprintf("(%q, %q)", name, sv))
			}
		}
		{
			seenA := map[string]bool{}
			var arow []string
			for _, c := range condArgs {
				if !seenA[c] {
					seenA[c] = true
					arow = append(arow, fmt.Sprintf("(%q, %s)", c, strList(strings.Split(c, ","))))
				}
			}
			lf.def("condArgLists", "List (String × List String)", "["+strings.Join(arow, ", ")+"]",
				"the argument of every `eq` / `notin` condition of printPaths split into its constants")
		}
		lf.def("condConsts", "List (String × String)", "["+strings.Join(crow, ", ")+"]",
			"ast.go: the constants the print-path conditions compare fields with – (text in the condition, string value)")
	}
	lf.def("printPaths", "List (String × Nat × List (String × String × String) × List String × List String)", "[\n  "+strings.Join(rows, ",\n  ")+"]",
		"ast_methods.go: per statement node the print paths of Format – (kind, path, conditions (field, rel, arg), receiver fields printed, format strings in order)")

	lf.def("clauseKinds", "List String", strList(analysed[minInt(stmtKindCount, len(analysed)):]), "ast_methods.go: the clause nodes (structs with Format and walkSubtree that are not statements) whose Format method the path analysis understands")
	lf.def("clauseKindsNotAnalysed", "List String", strList(notAnalysed), "ast_methods.go: clause nodes whose Format method has a shape the path analysis does not understand (no print paths for them)")

	// ---- grammar productions
	sqlTypeNames = map[string]bool{}
	for t := range p.types {
		sqlTypeNames[t] = true
	}
	fg := &formsGrammar{g: g, blocks: map[string][]*ast.BlockStmt{}, zeroMemo: map[string]string{}, nullMemo: map[string]int{}, consts: newConstEnv(filepath.Join(sqlDir, "ast.go")), pkg: p}
	for _, r := range g.order {
		for _, a := range g.rules[r] {
			fg.blocks[r] = append(fg.blocks[r], parseAction(a.action))
		}
	}
	if nw := p.funcs["NewWhere"]; nw == nil || !strings.Contains(srcTextPlainNode(nw.Body), "ifexpr==nil{returnnil}") {
		fail("ast.go: NewWhere no longer starts with `if expr == nil { return nil }` (the zeroness analysis of the grammar actions relies on it)")
	}
	// statement rules: the single-symbol alternatives of `command` (and of rules reached that way)
	top := map[string]bool{}
	var markTop func(r string)
	markTop = func(r string) {
		if top[r] {
			return
		}
		top[r] = true
	}
	if len(g.rules["command"]) == 0 {
		fail("sql.y: rule `command` not found")
	}
	for _, a := range g.rules["command"] {
		if len(a.syms) == 1 {
			markTop(a.syms[0])
		}
	}

	// direct productions per rule
	direct := map[string][]gProd{}
	type pending struct {
		rule   string
		alt    int
		sym    int // $n spliced
		kind   string
		extra  []gField
		links  map[int]string
		altDef yAlt
	}
	var pend []pending
	for _, r := range g.order {
		for i, a := range g.rules[r] {
			blk := fg.blocks[r][i]
			where := fmt.Sprintf("%s alternative %d", r, i+1)
			if blk == nil {
				if a.action != "" {
					for k := range isKind {
						if strings.Contains(a.action, "&"+k+"{") {
							fail("sql.y %s: action builds a %s but is not plain Go after $-substitution", where, k)
						}
					}
				}
				continue
			}
			// every composite literal of a node type: `$$ = &Kind{…}`, also nested (`TableExprs{&AliasedTableExpr{…}}`)
			ast.Inspect(blk, func(n ast.Node) bool {
				cl, ok := n.(*ast.CompositeLit)
				if !ok {
					return true
				}
				if id, ok := cl.Type.(*ast.Ident); ok && isKind[id.Name] {
					fields, link := fg.kvFields(cl, a, where, p.structFields(id.Name))
					pr := gProd{kind: id.Name, rule: r, alt: i + 1, top: top[r] && isStmt[id.Name], fields: fields}
					for j, s := range a.syms {
						pr.syms = append(pr.syms, gSym{s, link[j+1], fg.nullable(s)})
					}
					direct[r] = append(direct[r], pr)
				}
				return true
			})
			// `$$ = &Kind{…}` followed by `$$.F = v`: further fields of that literal
			{
				var lit *ast.CompositeLit
				ast.Inspect(blk, func(n ast.Node) bool {
					as, ok := n.(*ast.AssignStmt)
					if !ok || len(as.Lhs) != 1 || len(as.Rhs) != 1 {
						return true
					}
					if id, ok := as.Lhs[0].(*ast.Ident); ok && id.Name == "yyVAL" {
						e := as.Rhs[0]
						if u, ok := e.(*ast.UnaryExpr); ok && u.Op == token.AND {
							e = u.X
						}
						lit, _ = e.(*ast.CompositeLit)
						return true
					}
					sel, ok := as.Lhs[0].(*ast.SelectorExpr)
					if !ok || lit == nil {
						return true
					}
					if id, ok := sel.X.(*ast.Ident); !ok || id.Name != "yyVAL" {
						return true
					}
					kid, ok := lit.Type.(*ast.Ident)
					if !ok || !isKind[kid.Name] {
						return true
					}
					// the production of this literal is the last one recorded for this alternative with that kind
					for k := len(direct[r]) - 1; k >= 0; k-- {
						q := &direct[r][k]
						if q.alt == i+1 && q.kind == kid.Name {
							q.fields = append(q.fields, gField{sel.Sel.Name, fg.zeroOf(as.Rhs[0], a), actionText(as.Rhs[0])})
							for _, d := range dollarsIn(as.Rhs[0]) {
								if d >= 1 && d <= len(q.syms) && q.syms[d-1].field == "" {
									q.syms[d-1].field = sel.Sel.Name
								}
							}
							break
						}
					}
					return true
				})
			}
			// local variables bound to `$n` / `$n.(*Kind)`
			locals := map[string]int{}
			localKind := map[string]string{}
			assigned := map[string][]gField{}
			alinks := map[string]map[int]string{}
			ast.Inspect(blk, func(n ast.Node) bool {
				as, ok := n.(*ast.AssignStmt)
				if !ok || len(as.Lhs) != 1 || len(as.Rhs) != 1 {
					return true
				}
				switch l := as.Lhs[0].(type) {
				case *ast.Ident:
					rhs := as.Rhs[0]
					if l.Name == "yyVAL" {
						// `$$ = x` with x a local bound to `$n`
						if id, ok := rhs.(*ast.Ident); ok {
							if n, isLocal := locals[id.Name]; isLocal {
								pend = append(pend, pending{rule: r, alt: i + 1, sym: n, kind: localKind[id.Name], extra: assigned[id.Name], links: alinks[id.Name], altDef: a})
							}
						}
						return true
					}
					if as.Tok == token.DEFINE {
						e := rhs
						kind := ""
						if ta, ok := e.(*ast.TypeAssertExpr); ok {
							e = ta.X
							kind = baseIdent(ta.Type)
						}
						if k := dollarIndex(e); k > 0 {
							locals[l.Name] = k
							localKind[l.Name] = kind
							alinks[l.Name] = map[int]string{}
						}
					}
				case *ast.SelectorExpr:
					if id, ok := l.X.(*ast.Ident); ok {
						if _, isLocal := locals[id.Name]; isLocal {
							assigned[id.Name] = append(assigned[id.Name], gField{l.Sel.Name, fg.zeroOf(as.Rhs[0], a), actionText(as.Rhs[0])})
							for _, k := range dollarsIn(as.Rhs[0]) {
								if _, dup := alinks[id.Name][k]; !dup {
									alinks[id.Name][k] = l.Sel.Name
								}
							}
						}
					}
				}
				return true
			})
		}
	}
	// spliced productions
	absorbed := map[string]bool{}
	var prods []gProd
	for _, pd := range pend {
		if pd.sym > len(pd.altDef.syms) {
			continue
		}
		inner := pd.altDef.syms[pd.sym-1]
		var cands []gProd
		for _, q := range direct[inner] {
			if pd.kind == "" || pd.kind == q.kind {
				cands = append(cands, q)
			}
		}
		if len(cands) == 0 {
			continue // a local of another type (not a statement node)
		}
		absorbed[inner] = true
		for _, q := range cands {
			np := gProd{kind: q.kind, rule: pd.rule, alt: pd.alt, top: top[pd.rule]}
			for j, s := range pd.altDef.syms {
				if j == pd.sym-1 {
					np.syms = append(np.syms, q.syms...)
					continue
				}
				np.syms = append(np.syms, gSym{s, pd.links[j+1], fg.nullable(s)})
			}
			over := map[string]bool{}
			for _, f := range pd.extra {
				over[f.name] = true
			}
			for _, f := range q.fields {
				if !over[f.name] {
					np.fields = append(np.fields, f)
				}
			}
			np.fields = append(np.fields, pd.extra...)
			for _, f := range np.fields {
				if fieldClass[np.kind][f.name] == "" {
					fail("sql.y %s alternative %d: assigns %s.%s which is not a field of the struct", pd.rule, pd.alt, np.kind, f.name)
				}
			}
			prods = append(prods, np)
		}
	}
	for _, r := range g.order {
		for _, q := range direct[r] {
			for _, f := range q.fields {
				if fieldClass[q.kind][f.name] == "" {
					fail("sql.y %s alternative %d: assigns %s.%s which is not a field of the struct", q.rule, q.alt, q.kind, f.name)
				}
			}
			if absorbed[r] {
				q.top = false
			}
			prods = append(prods, q)
		}
	}
	// a field assigned `$n.F` where the rule of `$n` builds a struct literal per alternative (decimal_length_opt:
	// LengthScaleOption{} | {Length} | {Length, Scale}): one production per alternative of that rule, so that the
	// correlation between the fields (no Scale without Length) is kept
	{
		selRe := regexp.MustCompile(`^\$(\d+)\.([A-Za-z_][A-Za-z0-9_]*)$`)
		var expanded []gProd
		for _, q := range prods {
			splitOn := 0
			for _, f := range q.fields {
				if m := selRe.FindStringSubmatch(f.text); m != nil {
					splitOn, _ = strconv.Atoi(m[1])
					break
				}
			}
			// positions refer to the alternative's own right-hand side: only for unspliced productions
			alts := g.rules[q.rule]
			if splitOn == 0 || q.alt > len(alts) || len(alts[q.alt-1].syms) != len(q.syms) || splitOn > len(q.syms) {
				expanded = append(expanded, q)
				continue
			}
			inner := q.syms[splitOn-1].sym
			type variant struct {
				vals map[string]string
				syms []gSym
			}
			var vs []variant
			ok := len(g.rules[inner]) > 0
			for ai, ia := range g.rules[inner] {
				blk := fg.blocks[inner][ai]
				if blk == nil {
					ok = false
					break
				}
				var lit *ast.CompositeLit
				ast.Inspect(blk, func(n ast.Node) bool {
					if as, isAs := n.(*ast.AssignStmt); isAs && len(as.Lhs) == 1 && len(as.Rhs) == 1 {
						if id, isId := as.Lhs[0].(*ast.Ident); isId && id.Name == "yyVAL" {
							e := as.Rhs[0]
							if u, isU := e.(*ast.UnaryExpr); isU && u.Op == token.AND {
								e = u.X
							}
							lit, _ = e.(*ast.CompositeLit)
						}
					}
					return true
				})
				if lit == nil {
					ok = false
					break
				}
				v := variant{vals: map[string]string{}}
				for _, el := range lit.Elts {
					kv, isKV := el.(*ast.KeyValueExpr)
					if !isKV {
						ok = false
						break
					}
					v.vals[kv.Key.(*ast.Ident).Name] = fg.zeroOf(kv.Value, ia)
				}
				for _, sy := range ia.syms {
					v.syms = append(v.syms, gSym{sy, "", fg.nullable(sy)})
				}
				vs = append(vs, v)
			}
			if !ok {
				expanded = append(expanded, q)
				continue
			}
			for _, v := range vs {
				np := gProd{kind: q.kind, rule: q.rule, alt: q.alt, top: q.top}
				for j, sy := range q.syms {
					if j == splitOn-1 {
						np.syms = append(np.syms, v.syms...)
						continue
					}
					np.syms = append(np.syms, sy)
				}
				for _, f := range q.fields {
					if m := selRe.FindStringSubmatch(f.text); m != nil && m[1] == strconv.Itoa(splitOn) {
						z, has := v.vals[m[2]]
						if !has {
							z = "zero"
						}
						np.fields = append(np.fields, gField{f.name, z, f.text})
						continue
					}
					np.fields = append(np.fields, f)
				}
				expanded = append(expanded, np)
			}
		}
		prods = expanded
	}
	sort.SliceStable(prods, func(i, j int) bool {
		ki, kj := indexOfStr(kinds, prods[i].kind), indexOfStr(kinds, prods[j].kind)
		if ki != kj {
			return ki < kj
		}
		if prods[i].top != prods[j].top {
			return prods[i].top
		}
		return false
	})
	have := map[string]int{}
	rows = nil
	for _, q := range prods {
		have[q.kind]++
		var ss, fs []string
		for _, s := range q.syms {
			ss = append(ss, fmt.Sprintf("(%q, %q, %s)", s.sym, s.field, boolStr(s.nullable)))
		}
		for _, f := range q.fields {
			fs = append(fs, fmt.Sprintf("(%q, %q, %q)", f.name, f.zero, f.text))
		}
		rows = append(rows, fmt.Sprintf("(%q, %q, %d, %s, [%s], [%s])", q.kind, q.rule, q.alt, boolStr(q.top), strings.Join(ss, ", "), strings.Join(fs, ", ")))
	}
	{
		seenN := map[string]bool{}
		var names []string
		for _, q := range prods {
			for _, f := range q.fields {
				if _, isConst := fg.consts.vals[f.text]; isConst && !seenN[f.text] {
					seenN[f.text] = true
					names = append(names, f.text)
				}
			}
		}
		lf.def("constNames", "List String", strList(names), "ast.go: the constants that grammar actions assign to node fields (value texts of `productions` that are plain constant names)")
	}
	for _, must := range []string{"Select", "Union", "ParenSelect", "Insert", "Update", "Delete"} {
		if have[must] == 0 {
			fail("sql.y: no grammar alternative building a %s found", must)
		}
	}
	if have["Delete"] < 3 || have["Insert"] < 3 {
		fail("sql.y: expected at least three alternatives building a Delete and an Insert, found %d and %d", have["Delete"], have["Insert"])
	}
	// ---- literal-class tokens that an alternative reads and its action never mentions
	{
		var litTokens []string
		for _, l := range strings.Split(string(srcB), "\n") {
			if strings.HasPrefix(l, "%token") && strings.Contains(l, " INTEGRAL") && strings.Contains(l, " ID ") {
				for _, t := range strings.Fields(l)[1:] {
					if !strings.HasPrefix(t, "<") && t != "COMMENT_KEYWORD" {
						litTokens = append(litTokens, t)
					}
				}
			}
		}
		if len(litTokens) < 8 {
			fail("sql.y: the %%token line declaring the lexeme classes (ID … INTEGRAL … LIST_ARG) was not found")
		}
		isLit := map[string]bool{}
		for _, t := range litTokens {
			isLit[t] = true
		}
		lf.def("literalTokens", "List String", strList(litTokens), "sql.y: the tokens that carry a lexeme (identifier, literal, placeholder, comment) – the %token line that declares ID and INTEGRAL")
		var urows []string
		for _, r := range g.order {
			for i, a := range g.rules[r] {
				for j, sy := range a.syms {
					if !isLit[sy] || (a.action == "" && j == 0) { // no action: yacc's default `$$ = $1`
						continue
					}
					if !regexp.MustCompile(`\$` + strconv.Itoa(j+1) + `\b`).MatchString(a.action) {
						urows = append(urows, fmt.Sprintf("(%q, %d, %q)", r, i+1, sy))
					}
				}
			}
		}
		lf.def("unusedLiteralTokens", "List (String × Nat × String)", "["+strings.Join(urows, ", ")+"]",
			"sql.y: (rule, alternative, token) – a lexeme-carrying token on the right-hand side that the alternative's action never mentions (`$n`): its text is dropped by the parser")
	}
	lf.def("productions", "List (String × String × Nat × Bool × List (String × String × Bool) × List (String × String × String))", "[\n  "+strings.Join(rows, ",\n  ")+"]",
		"sql.y: the alternatives that build a statement node – (kind, rule, alternative, rule is a statement of `command`, right-hand side (symbol, field it fills, may be empty), assigned fields (field, zeroness of the value: nonzero|maybe|zero, value text))")
}

func indexOfStr(xs []string, x string) int {
	for i, y := range xs {
		if y == x {
			return i
		}
	}
	return len(xs)
}

func minInt(a, b int) int {
	if a < b {
		return a
	}
	return b
}
