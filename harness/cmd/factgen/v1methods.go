package main

// Facts for the confinement of the v1 key store's id-taking methods and for the permission
// discipline of both key store formats (lean/AcraModel/KeystoreSec/{V1Methods,Perms}.lean):
//
//   - V1Methods: every exported method of KeyStore (server_keystore.go) and TranslatorFileSystemKeyStore
//     (translator_keystore.go) that hands a caller-supplied []byte id to one of the file-name
//     functions of filenames.go / key_names.go, and whether its FIRST statement is the
//     `keystore.ValidateID` guard; the exported methods that take file names / paths as strings.
//   - KeyPerms: the permission constants, the mode argument of every MkdirAll / WriteFile / TempFile /
//     TempDir / OpenFile / Create / Chmod call of keystore/filesystem and of the v2 directory back end,
//     the conditions of the permission checks on open / load, and every call that could create or
//     resolve a symbolic link.

import (
	"go/ast"
	"go/token"
	"os"
	"path/filepath"
	"sort"
	"strconv"
	"strings"
)

func init() { generators = append(generators, genV1Methods, genKeyPerms) }

// idNameFunctions: the top-level functions of the given files that take a `[]byte` parameter and
// return a string – the file-name builders.
func idNameFunctions(rels ...string) map[string]bool {
	out := map[string]bool{}
	for _, rel := range rels {
		f := parseFile(rel)
		if f == nil {
			continue
		}
		for _, d := range f.Decls {
			fd, ok := d.(*ast.FuncDecl)
			if !ok || fd.Recv != nil || fd.Type.Results == nil || len(fd.Type.Results.List) != 1 {
				continue
			}
			if nodeText(fd.Type.Results.List[0].Type) != "string" {
				continue
			}
			for _, p := range fd.Type.Params.List {
				if nodeText(p.Type) == "[]byte" {
					out[fd.Name.Name] = true
				}
			}
		}
	}
	return out
}

func genV1Methods() {
	lf := newLean("V1Methods", "Sources: keystore/filesystem/{server_keystore.go, translator_keystore.go, filenames.go, key_names.go}.")
	const sk = "keystore/filesystem/server_keystore.go"
	const tk = "keystore/filesystem/translator_keystore.go"
	nameFns := idNameFunctions("keystore/filesystem/filenames.go", "keystore/filesystem/key_names.go")
	if len(nameFns) < 5 {
		fail("keystore/filesystem/filenames.go: expected the file-name functions taking a []byte id, found %d", len(nameFns))
	}
	var nf []string
	for n := range nameFns {
		nf = append(nf, n)
	}
	sort.Strings(nf)
	lf.def("v1NameFunctions", "List String", strList(nf), "filenames.go, key_names.go: the functions that build a file name from a []byte id")

	var rows, paths, others []string
	for _, src := range []struct{ rel, recv string }{{sk, "KeyStore"}, {tk, "TranslatorFileSystemKeyStore"}} {
		f := parseFile(src.rel)
		if f == nil {
			continue
		}
		for _, d := range f.Decls {
			fd, ok := d.(*ast.FuncDecl)
			if !ok || fd.Recv == nil || len(fd.Recv.List) != 1 || recvName(fd.Recv.List[0].Type) != src.recv || !fd.Name.IsExported() || fd.Body == nil {
				continue
			}
			var byteParams, strParams []string
			for _, p := range fd.Type.Params.List {
				for _, n := range p.Names {
					switch nodeText(p.Type) {
					case "[]byte":
						byteParams = append(byteParams, n.Name)
					case "string":
						strParams = append(strParams, n.Name)
					}
				}
			}
			// which name functions receive which []byte parameter (directly, at any nesting depth)
			idParam := ""
			var used []string
			ast.Inspect(fd.Body, func(n ast.Node) bool {
				ce, ok := n.(*ast.CallExpr)
				if !ok || !nameFns[calleeName(ce.Fun)] {
					return true
				}
				for _, a := range ce.Args {
					if id, ok := a.(*ast.Ident); ok {
						for _, bp := range byteParams {
							if id.Name == bp {
								if idParam != "" && idParam != bp {
									fail("%s: %s builds file names from two different parameters", src.rel, fd.Name.Name)
								}
								idParam = bp
								used = append(used, calleeName(ce.Fun))
							}
						}
					}
				}
				return true
			})
			if idParam != "" {
				guard := false
				if len(fd.Body.List) > 0 {
					if is, ok := fd.Body.List[0].(*ast.IfStmt); ok && is.Init == nil && is.Else == nil &&
						nodeText(is.Cond) == "!keystore.ValidateID("+idParam+")" && len(is.Body.List) == 1 {
						if rs, ok := is.Body.List[0].(*ast.ReturnStmt); ok && len(rs.Results) > 0 &&
							nodeText(rs.Results[len(rs.Results)-1]) == "keystore.ErrInvalidClientID" {
							guard = true
						}
					}
				}
				sort.Strings(used)
				used = uniq(used)
				rows = append(rows, "("+strconv.Quote(src.recv+"."+fd.Name.Name)+", "+boolStr(guard)+", "+strList(used)+")")
			} else if len(byteParams) > 0 {
				others = append(others, src.recv+"."+fd.Name.Name)
			}
			if len(strParams) > 0 {
				paths = append(paths, src.recv+"."+fd.Name.Name+"("+strings.Join(strParams, ",")+")")
			}
		}
	}
	if len(rows) < 15 {
		fail("%s: expected the id-taking methods of the v1 key store, found %d", sk, len(rows))
	}
	lf.def("v1IdMethods", "List (String × Bool × List String)", "[\n  "+strings.Join(rows, ",\n  ")+"]",
		"every exported method that builds a file name from a caller-supplied []byte id (source order): (receiver.method, its first statement is `if !keystore.ValidateID(id) { return …, keystore.ErrInvalidClientID }`, the name functions applied to the id)")
	const bk = "keystore/filesystem/filesystem_backup.go"
	lf.def("v1ImportCalls", "List String", strList(callSeq(funcDecl(bk, "KeyBackuper", "Import"), "isInsideFolder", "MkdirAll", "TempFile", "WriteFile", "Rename")), bk+": KeyBackuper.Import – the containment check of the names and the storage calls, in source order")
	lf.def("v1IsInsideFolderBody", "List String", strList(bodyStmts(funcDecl(bk, "", "isInsideFolder"))), bk+": isInsideFolder")
	lf.def("v1OtherByteMethods", "List String", strList(others), "exported methods with a []byte parameter that is not turned into a file name")
	lf.def("v1PathMethods", "List String", strList(paths), "exported methods that take file names / paths / cache keys as strings (plumbing used inside the package and by the backup code)")
}

func uniq(xs []string) []string {
	var out []string
	for i, x := range xs {
		if i == 0 || x != xs[i-1] {
			out = append(out, x)
		}
	}
	return out
}

// ---------- permissions ----------

// fileModeConst: `const X = os.FileMode(0NNN)` (optionally `| os.ModeDir`) → the permission bits
func fileModeConsts(rel string) map[string]uint64 {
	out := map[string]uint64{}
	f := parseFile(rel)
	if f == nil {
		return out
	}
	for _, d := range f.Decls {
		gd, ok := d.(*ast.GenDecl)
		if !ok || gd.Tok != token.CONST {
			continue
		}
		for _, s := range gd.Specs {
			vs := s.(*ast.ValueSpec)
			for i, n := range vs.Names {
				if i >= len(vs.Values) {
					continue
				}
				e := vs.Values[i]
				if be, ok := e.(*ast.BinaryExpr); ok && be.Op == token.OR {
					e = be.X
				}
				ce, ok := e.(*ast.CallExpr)
				if !ok || calleeName(ce.Fun) != "os.FileMode" || len(ce.Args) != 1 {
					continue
				}
				lit, ok := ce.Args[0].(*ast.BasicLit)
				if !ok || lit.Kind != token.INT {
					continue
				}
				v, err := strconv.ParseUint(lit.Value, 0, 32)
				if err != nil {
					fail("%s: constant %s: %v", rel, n.Name, err)
					continue
				}
				out[n.Name] = v
			}
		}
	}
	return out
}

// creating / mode-changing / link calls: callee suffix → index of the mode argument (-1: none)
var permCallees = []struct {
	suffix string
	arg    int
}{
	{"MkdirAll", 1}, {"Mkdir", 1}, {"WriteFile", 2}, {"TempFile", 1}, {"TempDir", 1}, {"OpenFile", 2},
	{"os.Create", -1}, {"Chmod", -1}, {"Symlink", -1}, {"Readlink", -1}, {"EvalSymlinks", -1}, {"Lstat", -1},
	{"WritePrivateKey", -1}, {"WritePublicKey", -1}, {"WriteKeyFile", 2},
}

func genKeyPerms() {
	lf := newLean("KeyPerms", "Sources: keystore/filesystem/*.go (not tests), keystore/v2/keystore/filesystem/backend/*.go (not tests).")
	v1 := fileModeConsts("keystore/filesystem/server_keystore.go")
	v2 := fileModeConsts("keystore/v2/keystore/filesystem/backend/filesystem.go")
	want := func(m map[string]uint64, rel, name, lean string) {
		v, ok := m[name]
		if !ok {
			fail("%s: constant %s = os.FileMode(…) not found", rel, name)
			return
		}
		lf.def(lean, "Nat", strconv.FormatUint(v, 10), rel+": "+name+" = 0"+strconv.FormatUint(v, 8))
	}
	want(v1, "keystore/filesystem/server_keystore.go", "PrivateFileMode", "v1PrivateFileMode")
	want(v1, "keystore/filesystem/server_keystore.go", "publicFileMode", "v1PublicFileMode")
	want(v1, "keystore/filesystem/server_keystore.go", "keyDirMode", "v1KeyDirMode")
	want(v2, "keystore/v2/keystore/filesystem/backend/filesystem.go", "keyDirPerm", "v2KeyDirPerm")
	want(v2, "keystore/v2/keystore/filesystem/backend/filesystem.go", "keyFilePerm", "v2KeyFilePerm")
	want(v2, "keystore/v2/keystore/filesystem/backend/filesystem.go", "versionPerm", "v2VersionPerm")

	var rows []string
	for _, dir := range []string{"keystore/filesystem", "keystore/v2/keystore/filesystem/backend"} {
		ents, err := os.ReadDir(filepath.Join(repo, dir))
		if err != nil {
			fail("%s: %v", dir, err)
			continue
		}
		n := 0
		for _, e := range ents {
			name := e.Name()
			if e.IsDir() || !strings.HasSuffix(name, ".go") || strings.HasSuffix(name, "_test.go") || strings.HasPrefix(name, "verif_hooks") {
				continue
			}
			rel := dir + "/" + name
			f := parseFile(rel)
			if f == nil {
				continue
			}
			for _, d := range f.Decls {
				fd, ok := d.(*ast.FuncDecl)
				if !ok || fd.Body == nil {
					continue
				}
				fn := fd.Name.Name
				if fd.Recv != nil && len(fd.Recv.List) == 1 {
					fn = recvName(fd.Recv.List[0].Type) + "." + fn
				}
				ast.Inspect(fd.Body, func(m ast.Node) bool {
					ce, ok := m.(*ast.CallExpr)
					if !ok {
						return true
					}
					callee := calleeName(ce.Fun)
					for _, pc := range permCallees {
						if callee != pc.suffix && !strings.HasSuffix(callee, "."+pc.suffix) {
							continue
						}
						arg := ""
						if strings.HasPrefix(callee, "ioutil.Temp") || strings.HasPrefix(callee, "os.CreateTemp") || strings.HasPrefix(callee, "os.MkdirTemp") {
							// the standard library's temporary files/directories take no mode: 0600 / 0700
						} else if pc.arg >= 0 && pc.arg < len(ce.Args) {
							arg = nodeText(ce.Args[pc.arg])
						}
						rows = append(rows, "("+strconv.Quote(name)+", "+strconv.Quote(fn)+", "+strconv.Quote(callee)+", "+strconv.Quote(arg)+")")
						n++
						break
					}
					return true
				})
			}
		}
		if n == 0 {
			fail("%s: no file-creating calls found", dir)
		}
	}
	lf.def("permCalls", "List (String × String × String × String)", "[\n  "+strings.Join(rows, ",\n  ")+"]",
		"every call (source order per file) that creates a file or directory, changes a mode or touches a symbolic link: (file, enclosing function, callee, text of the mode argument – empty when the call has none)")

	// the checks on existing directories / files
	conds := func(rel, recv, fn, needle string) []string {
		var out []string
		fd := funcDecl(rel, recv, fn)
		if fd == nil {
			return out
		}
		ast.Inspect(fd.Body, func(n ast.Node) bool {
			if is, ok := n.(*ast.IfStmt); ok && strings.Contains(nodeText(is.Cond), needle) {
				out = append(out, nodeText(is.Cond))
			}
			return true
		})
		if len(out) == 0 {
			fail("%s: %s has no condition on %s", rel, fn, needle)
		}
		return out
	}
	const sk = "keystore/filesystem/server_keystore.go"
	const be = "keystore/v2/keystore/filesystem/backend/filesystem.go"
	lf.def("v1OpenPermConds", "List String", strList(conds(sk, "", "newFilesystemKeyStore", "Perm()")), sk+": newFilesystemKeyStore – the condition on the private key folder's permissions")
	lf.def("v1ExpectedPermission", "List String", strList(assignmentsOrConsts(funcDecl(sk, "", "newFilesystemKeyStore"), "expectedPermission")), sk+": newFilesystemKeyStore – expectedPermission")
	lf.def("v1LoadPrivateKeyPermConds", "List String", strList(conds(sk, "KeyStore", "loadPrivateKey", "Perm()")), sk+": loadPrivateKey – the condition on the key file's permissions")
	lf.def("v2CreatePermConds", "List String", strList(conds(be, "", "CreateDirectoryBackend", "Perm()")), be+": CreateDirectoryBackend")
	lf.def("v2OpenPermConds", "List String", strList(conds(be, "", "OpenDirectoryBackend", "Perm()")), be+": OpenDirectoryBackend")
	// FileStorage.TempFile: create (0600 by ioutil.TempFile) then Chmod to the requested mode
	lf.def("v1TempFileCalls", "List String", strList(callSeq(funcDecl("keystore/filesystem/storage.go", "FileStorage", "TempFile"), "TempFile", "Chmod")), "keystore/filesystem/storage.go: FileStorage.TempFile – create, then chmod")
	lf.def("v1ImportFilePermission", "List String", strList(assignmentsText(funcDecl("keystore/filesystem/filesystem_backup.go", "KeyBackuper", "Import"), "filePermission")), "keystore/filesystem/filesystem_backup.go: KeyBackuper.Import – the assignments of filePermission (private mode only inside `if isPrivateKey`)")
	lf.def("v1CopyPerm", "List String", strList(assignmentsText(funcDecl("keystore/filesystem/storage.go", "FileStorage", "Copy"), "perm")), "keystore/filesystem/storage.go: FileStorage.Copy – the mode of the copy")
}

// assignmentsOrConsts: the value text of local `const name = …` / `name := …` inside fd
func assignmentsOrConsts(fd *ast.FuncDecl, name string) []string {
	var out []string
	if fd == nil || fd.Body == nil {
		return out
	}
	ast.Inspect(fd.Body, func(n ast.Node) bool {
		switch t := n.(type) {
		case *ast.ValueSpec:
			for i, nm := range t.Names {
				if nm.Name == name && i < len(t.Values) {
					out = append(out, nodeText(t.Values[i]))
				}
			}
		case *ast.AssignStmt:
			if len(t.Lhs) == 1 && len(t.Rhs) == 1 && calleeName(t.Lhs[0]) == name {
				out = append(out, nodeText(t.Rhs[0]))
			}
		}
		return true
	})
	return out
}
