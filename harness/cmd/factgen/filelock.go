package main

import (
	"go/ast"
	"go/constant"
	"go/token"
	"strconv"
	"strings"
)

// FileLock: the life cycle of the directory back end's lock file (`<key directory>/.lock`) that the C17
// lock life-cycle model (KeystoreSec/FileLock.lean) follows:
//
//   - `newFileLock(path)` opens the path with `os.Create` (GOROOT: O_RDWR|O_CREATE|O_TRUNC – creates the
//     file when it is missing, otherwise opens the inode the path names) and keeps the descriptor;
//   - both constructors of DirectoryBackend call it once, on `filepath.Join(root, lockFile)`;
//   - `fileLock.Close` closes the descriptor – the list of calls it makes is what decides whether the
//     model's close step also unlinks the path (`os.Remove` …);
//   - `Lock/RLock` = `lockSync.Lock()`, then `syscall.Flock(fd, LOCK_EX / LOCK_SH)`;
//     `Unlock/RUnlock` = deferred `lockSync.Unlock()`, `syscall.Flock(fd, LOCK_UN)`;
//   - `DirectoryBackend.{Close,Lock,Unlock,RLock,RUnlock}` delegate to the fileLock and `KeyStore.Close`
//     closes its back end;
//   - which functions of the package mention the lock's path at all.
func init() { generators = append(generators, genFileLock) }

// allCalls returns every call of the body in source order ("defer:" prefix for deferred ones).
func allCalls(fd *ast.FuncDecl) []string { return callSeq(fd) }

// flockModes returns the rendering of argument #1 of every `syscall.Flock` call of the body.
func flockModes(fd *ast.FuncDecl) []string { return callArgs(fd, "syscall.Flock", 1) }

// flockFds returns the rendering of argument #0 of every `syscall.Flock` call (descriptor expression).
func flockFds(fd *ast.FuncDecl) []string {
	var out []string
	if fd == nil || fd.Body == nil {
		return out
	}
	ast.Inspect(fd.Body, func(n ast.Node) bool {
		c, ok := n.(*ast.CallExpr)
		if ok && calleeName(c.Fun) == "syscall.Flock" && len(c.Args) > 0 {
			out = append(out, ksCreateText(c.Args[0]))
		}
		return true
	})
	return out
}

// mentions reports whether the body contains the selector `recv.field` (field access) or, with recv == "",
// the plain identifier `field`.
func mentions(fd *ast.FuncDecl, recv, field string) bool {
	if fd == nil || fd.Body == nil {
		return false
	}
	found := false
	ast.Inspect(fd.Body, func(n ast.Node) bool {
		switch t := n.(type) {
		case *ast.SelectorExpr:
			if recv != "" && t.Sel.Name == field {
				if id, ok := t.X.(*ast.Ident); ok && id.Name == recv {
					found = true
				}
			}
		case *ast.Ident:
			if recv == "" && t.Name == field {
				found = true
			}
		}
		return !found
	})
	return found
}

// funcsMentioning lists the functions/methods of a file whose body mentions the thing, in source order.
// For a method the receiver variable's own name is used when recvField is true.
func funcsMentioning(rel, field string, recvField bool) []string {
	f := parseFile(rel)
	var out []string
	if f == nil {
		return out
	}
	for _, d := range f.Decls {
		fd, ok := d.(*ast.FuncDecl)
		if !ok {
			continue
		}
		recv := ""
		if recvField {
			if fd.Recv == nil || len(fd.Recv.List) != 1 || len(fd.Recv.List[0].Names) != 1 {
				continue
			}
			recv = fd.Recv.List[0].Names[0].Name
		}
		if mentions(fd, recv, field) {
			name := fd.Name.Name
			if fd.Recv != nil && len(fd.Recv.List) == 1 {
				name = recvName(fd.Recv.List[0].Type) + "." + name
			}
			out = append(out, name)
		}
	}
	return out
}

func genFileLock() {
	const bdir = "keystore/v2/keystore/filesystem/backend/"
	const lockRel = bdir + "file_lock.go"
	const fsRel = bdir + "filesystem.go"
	lf := newLean("FileLock", "Sources: "+lockRel+", "+fsRel+", keystore/v2/keystore/filesystem/keyStore.go; GOROOT/src/os/file.go (os.Create).")
	strs := func(name string, xs []string, src string) { lf.def(name, "List String", strList(xs), src) }

	// --- the lock file's name
	env := newConstEnv(fsRel)
	name := ""
	if v, ok := env.vals["lockFile"]; ok && v.Kind() == constant.String {
		name = constant.StringVal(v)
	}
	if name == "" {
		fail("%s: string constant lockFile not found", fsRel)
	}
	lf.def("lockFileName", "String", strconv.Quote(name), fsRel+": const lockFile")

	// --- newFileLock: how the lock file is opened
	nfl := funcDecl(lockRel, "", "newFileLock")
	calls := allCalls(nfl)
	if len(calls) == 0 {
		fail("%s: newFileLock makes no call (expected os.Create / os.OpenFile of the path)", lockRel)
	}
	strs("newFileLockCalls", calls, lockRel+": newFileLock – every call, in source order")
	var openArgs []string
	for _, c := range calls {
		openArgs = append(openArgs, callArgs(nfl, c, 0)...)
	}
	strs("newFileLockOpenArg", openArgs, lockRel+": newFileLock – first argument of each of those calls (the parameter is `path`)")
	var params []string
	if nfl != nil {
		for _, p := range nfl.Type.Params.List {
			for _, n := range p.Names {
				params = append(params, n.Name)
			}
		}
	}
	strs("newFileLockParams", params, lockRel+": newFileLock – parameter names")
	var fields []string
	found := false
	if nfl != nil {
		ast.Inspect(nfl.Body, func(n ast.Node) bool {
			cl, ok := n.(*ast.CompositeLit)
			if !ok || found {
				return !found
			}
			if id, ok := cl.Type.(*ast.Ident); ok && id.Name == "fileLock" {
				found = true
				for _, el := range cl.Elts {
					if kv, ok := el.(*ast.KeyValueExpr); ok {
						fields = append(fields, ksCreateText(kv.Key)+"="+ksCreateText(kv.Value))
					}
				}
				return false
			}
			return true
		})
	}
	if !found {
		fail("%s: newFileLock no longer builds a fileLock literal", lockRel)
	}
	strs("newFileLockFields", fields, lockRel+": newFileLock – fields of the fileLock literal it returns")
	strs("newFileLockAssigns", assignmentsText(nfl, "lock"), lockRel+": newFileLock – what `lock` is assigned")

	// GOROOT: os.Create = OpenFile(name, O_RDWR|O_CREATE|O_TRUNC, 0666)
	var flags []string
	if f, path := gorootFile("os", "file.go"); f != nil {
		ok := false
		for _, d := range f.Decls {
			fd, isF := d.(*ast.FuncDecl)
			if !isF || fd.Name.Name != "Create" || fd.Recv != nil || fd.Body == nil {
				continue
			}
			ast.Inspect(fd.Body, func(n ast.Node) bool {
				c, isC := n.(*ast.CallExpr)
				if !isC || calleeName(c.Fun) != "OpenFile" || len(c.Args) != 3 {
					return true
				}
				var walk func(e ast.Expr)
				walk = func(e ast.Expr) {
					switch t := e.(type) {
					case *ast.BinaryExpr:
						if t.Op != token.OR {
							flags = append(flags, "?"+t.Op.String())
						}
						walk(t.X)
						walk(t.Y)
					case *ast.ParenExpr:
						walk(t.X)
					default:
						flags = append(flags, calleeName(e))
					}
				}
				walk(c.Args[1])
				ok = true
				return false
			})
		}
		if !ok {
			fail("%s: os.Create is no longer `OpenFile(name, <flags>, <perm>)`", path)
		}
	}
	strs("osCreateFlags", flags, "GOROOT os/file.go: Create – the flags it passes to OpenFile")

	// --- the constructors of DirectoryBackend: which path the lock is anchored at
	for _, c := range []struct{ def, fn string }{{"createBackendLockPath", "CreateDirectoryBackend"}, {"openBackendLockPath", "OpenDirectoryBackend"}} {
		fd := funcDecl(fsRel, "", c.fn)
		var args []string
		if fd != nil {
			ast.Inspect(fd.Body, func(n ast.Node) bool {
				call, ok := n.(*ast.CallExpr)
				if ok && calleeName(call.Fun) == "newFileLock" {
					for _, a := range call.Args {
						args = append(args, ksCreateText(a))
					}
				}
				return true
			})
		}
		if len(args) == 0 {
			fail("%s: %s no longer calls newFileLock", fsRel, c.fn)
		}
		strs(c.def, args, fsRel+": "+c.fn+" – arguments of its newFileLock call(s)")
	}

	// --- Close
	cl := funcDecl(lockRel, "fileLock", "Close")
	closeCalls := allCalls(cl)
	if len(closeCalls) == 0 {
		fail("%s: fileLock.Close makes no call (expected l.lockFile.Close)", lockRel)
	}
	strs("fileLockCloseCalls", closeCalls, lockRel+": fileLock.Close – every call, in source order")
	strs("backendCloseCalls", allCalls(funcDecl(fsRel, "DirectoryBackend", "Close")), fsRel+": DirectoryBackend.Close – every call, in source order")
	strs("keyStoreCloseCalls", allCalls(funcDecl("keystore/v2/keystore/filesystem/keyStore.go", "KeyStore", "Close")), "keystore/v2/keystore/filesystem/keyStore.go: KeyStore.Close – every call, in source order")

	// --- the lock cycle
	for _, m := range []struct{ def, fn string }{{"lock", "Lock"}, {"rLock", "RLock"}, {"unlock", "Unlock"}, {"rUnlock", "RUnlock"}} {
		fd := funcDecl(lockRel, "fileLock", m.fn)
		modes := flockModes(fd)
		if len(modes) == 0 {
			fail("%s: fileLock.%s no longer calls syscall.Flock", lockRel, m.fn)
		}
		strs(m.def+"Calls", callSeq(fd, "lockSync", "Flock", "recoverLock", "poisonLock", "os.", "Close"), lockRel+": fileLock."+m.fn+" – mutex, flock, recovery and file calls in source order")
		strs(m.def+"FlockMode", modes, lockRel+": fileLock."+m.fn+" – second argument of syscall.Flock")
		strs(m.def+"FlockFd", flockFds(fd), lockRel+": fileLock."+m.fn+" – first argument of syscall.Flock")
		strs("backend"+strings.ToUpper(m.def[:1])+m.def[1:]+"Calls", allCalls(funcDecl(fsRel, "DirectoryBackend", m.fn)), fsRel+": DirectoryBackend."+m.fn+" – every call")
	}

	// --- poisoning / recovery (only after a failed LOCK_UN): closes and re-opens the same path
	strs("poisonLockCalls", callSeq(funcDecl(lockRel, "fileLock", "poisonLock"), "os.", "Close", "syscall."), lockRel+": fileLock.poisonLock – file calls")
	strs("recoverLockCalls", callSeq(funcDecl(lockRel, "fileLock", "recoverLock"), "os.", "Close", "syscall."), lockRel+": fileLock.recoverLock – file calls")
	strs("recoverLockOpenArg", callArgs(funcDecl(lockRel, "fileLock", "recoverLock"), "os.Create", 0), lockRel+": fileLock.recoverLock – argument of os.Create")

	// --- who mentions the lock's path at all
	strs("lockPathUsers", funcsMentioning(lockRel, "path", true), lockRel+": functions whose body mentions <receiver>.path")
	strs("lockFileNameUsers", funcsMentioning(fsRel, "lockFile", false), fsRel+": functions whose body mentions the constant lockFile")
}
