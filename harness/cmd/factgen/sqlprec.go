package main

// sqlprec.go – facts for the expression fragment of C13 (lean/AcraModel/Sql/Expr.lean).
//
// Reads the yacc source sqlparser/sql.y (declarations + rules) and sqlparser/ast.go / ast_methods.go:
//
// precTable        : the %left/%right/%nonassoc declarations in source order (position = precedence level,
//                    later = binds tighter): (associativity, tokens)
// binaryExprRules  : alternatives `value_expression TOK value_expression { $$ = &BinaryExpr{…Operator: C…} }`:
//                    (TOK, constant, text of the constant in ast.go)
// unaryExprRules   : alternatives `TOK value_expression [%prec P]` building a UnaryExpr:
//                    (TOK, precedence token = P or TOK, constant, text, action folds an IntVal operand)
// compareRules     : alternatives of `compare:` (TOK, constant, text)
// conditionRules   : alternatives of `condition:` (right-hand side, node type built, operator constant or "$n", text)
// expressionRules  : alternatives of `expression:` (right-hand side, node type built or "" when `$$ = $1`)
// isSuffixRules    : alternatives of `is_suffix:` (right-hand side, constant, text)
// valueExprOther   : the remaining alternatives of `value_expression:` (right-hand sides only) – the model's
//                    primaries and what is outside the fragment
// parenRule        : tuple_expression builds a ParenExpr exactly for a one-element row_tuple
// formatStrings    : for the node types of the fragment, the Myprintf format strings of their Format method
//                    in source order (UnaryExpr: the nested-unary one first)
//
// Everything fails loudly when the shape it expects is gone.

import (
	"fmt"
	"go/ast"
	"os"
	"path/filepath"
	"regexp"
	"strconv"
	"strings"
)

func init() { generators = append(generators, genSqlPrec) }

type yAlt struct {
	syms     []string // right-hand side symbols ('x' tokens keep their quotes)
	prec     string   // %prec token or ""
	action   string   // text of the last action block
	nActions int      // number of action blocks (> 1: a mid-rule action, which shifts the $n numbering)
	midRule  bool     // the alternative had a mid-rule action (now the hidden symbol `$$n` on its right-hand side)
	seq      int      // number of the production in the file, from 1 (goyacc's `case N` of the generated parser)
	rule     string   // left-hand side
}

type yGrammar struct {
	prec  [][2]string // (assoc, space-joined tokens) in order
	rules map[string][]yAlt
	order []string
}

// parseYacc reads the declarations' precedence lines and every rule of a yacc file.
func parseYacc(src string) (*yGrammar, error) {
	idx := strings.Index(src, "\n%%")
	if idx < 0 {
		return nil, fmt.Errorf("no %%%% separator")
	}
	g := &yGrammar{rules: map[string][]yAlt{}}
	typeTag := regexp.MustCompile(`<[A-Za-z0-9_]+>`)
	for _, l := range strings.Split(src[:idx], "\n") {
		for _, a := range []string{"left", "right", "nonassoc"} {
			if strings.HasPrefix(l, "%"+a+" ") || strings.HasPrefix(l, "%"+a+"\t") {
				rest := typeTag.ReplaceAllString(l[len(a)+1:], " ")
				if i := strings.Index(rest, "//"); i >= 0 {
					rest = rest[:i]
				}
				g.prec = append(g.prec, [2]string{a, strings.Join(strings.Fields(rest), " ")})
			}
		}
	}
	body := src[idx+3:]
	if j := strings.Index(body, "\n%%"); j >= 0 {
		body = body[:j]
	}
	// tokenise the rules section
	type tk struct{ kind, text string } // kind: id, chr, colon, bar, prec, act, semi
	var toks []tk
	i := 0
	for i < len(body) {
		c := body[i]
		switch {
		case c == ' ' || c == '\t' || c == '\n' || c == '\r':
			i++
		case c == '/' && i+1 < len(body) && body[i+1] == '*':
			j := strings.Index(body[i+2:], "*/")
			if j < 0 {
				return nil, fmt.Errorf("unterminated comment")
			}
			i += j + 4
		case c == '/' && i+1 < len(body) && body[i+1] == '/':
			j := strings.IndexByte(body[i:], '\n')
			if j < 0 {
				i = len(body)
			} else {
				i += j
			}
		case c == '\'':
			j := i + 1
			for j < len(body) && body[j] != '\'' {
				if body[j] == '\\' {
					j++
				}
				j++
			}
			toks = append(toks, tk{"chr", body[i : j+1]})
			i = j + 1
		case c == ':':
			toks = append(toks, tk{"colon", ":"})
			i++
		case c == '|':
			toks = append(toks, tk{"bar", "|"})
			i++
		case c == ';':
			toks = append(toks, tk{"semi", ";"})
			i++
		case c == '{':
			depth, j := 0, i
			for j < len(body) {
				switch body[j] {
				case '{':
					depth++
				case '}':
					depth--
				case '"':
					j++
					for j < len(body) && body[j] != '"' {
						if body[j] == '\\' {
							j++
						}
						j++
					}
				case '\'':
					// Go rune literal inside an action
					if j+2 < len(body) && body[j+2] == '\'' {
						j += 2
					} else if j+3 < len(body) && body[j+1] == '\\' && body[j+3] == '\'' {
						j += 3
					}
				case '/':
					if j+1 < len(body) && body[j+1] == '/' {
						for j < len(body) && body[j] != '\n' {
							j++
						}
					}
				}
				j++
				if depth == 0 {
					break
				}
			}
			if depth != 0 {
				return nil, fmt.Errorf("unbalanced action")
			}
			toks = append(toks, tk{"act", body[i:j]})
			i = j
		case c == '%':
			j := i + 1
			for j < len(body) && (body[j] >= 'a' && body[j] <= 'z') {
				j++
			}
			if body[i:j] != "%prec" {
				return nil, fmt.Errorf("unexpected directive %q in rules", body[i:j])
			}
			toks = append(toks, tk{"prec", "%prec"})
			i = j
		case c == '_' || (c >= 'a' && c <= 'z') || (c >= 'A' && c <= 'Z'):
			j := i
			for j < len(body) && (body[j] == '_' || (body[j] >= 'a' && body[j] <= 'z') || (body[j] >= 'A' && body[j] <= 'Z') || (body[j] >= '0' && body[j] <= '9')) {
				j++
			}
			toks = append(toks, tk{"id", body[i:j]})
			i = j
		default:
			return nil, fmt.Errorf("unexpected character %q in the rules section", c)
		}
	}
	cur := ""
	var alt *yAlt
	seq := 0
	flush := func() {
		if cur != "" && alt != nil {
			seq++
			alt.seq, alt.rule = seq, cur
			g.rules[cur] = append(g.rules[cur], *alt)
		}
		alt = nil
	}
	// a mid-rule action (an action followed by further symbols): yacc turns it into a hidden non-terminal `$$n` with one
	// empty alternative carrying the action; the hidden production takes the number the enclosing one would have had
	hidden := 0
	midRule := func() {
		if alt == nil || alt.nActions == 0 {
			return
		}
		hidden++
		name := fmt.Sprintf("$$%d", hidden)
		seq++
		g.rules[name] = []yAlt{{action: alt.action, nActions: 1, seq: seq, rule: name}}
		g.order = append(g.order, name)
		alt.syms = append(alt.syms, name)
		alt.action, alt.nActions, alt.midRule = "", 0, true
	}
	for k := 0; k < len(toks); k++ {
		t := toks[k]
		switch t.kind {
		case "id":
			if k+1 < len(toks) && toks[k+1].kind == "colon" {
				flush()
				cur = t.text
				if _, dup := g.rules[cur]; !dup {
					g.order = append(g.order, cur)
				}
				alt = &yAlt{}
				k++
				continue
			}
			if alt == nil {
				return nil, fmt.Errorf("symbol %s outside a rule", t.text)
			}
			midRule()
			alt.syms = append(alt.syms, t.text)
		case "chr":
			if alt == nil {
				return nil, fmt.Errorf("token %s outside a rule", t.text)
			}
			midRule()
			alt.syms = append(alt.syms, t.text)
		case "bar":
			flush()
			alt = &yAlt{}
		case "semi":
			flush()
		case "prec":
			if k+1 >= len(toks) || alt == nil {
				return nil, fmt.Errorf("dangling %%prec")
			}
			alt.prec = toks[k+1].text
			k++
		case "act":
			if alt == nil {
				return nil, fmt.Errorf("action outside a rule")
			}
			alt.action = t.text
			alt.nActions++
		}
	}
	flush()
	return g, nil
}

func genSqlPrec() {
	const sqlDir = "sqlparser"
	srcB, err := os.ReadFile(filepath.Join(repo, sqlDir, "sql.y"))
	if err != nil {
		fail("%s/sql.y: %v", sqlDir, err)
		return
	}
	g, err := parseYacc(string(srcB))
	if err != nil {
		fail("sql.y: %v", err)
		return
	}
	if len(g.prec) == 0 {
		fail("sql.y: no %%left/%%right/%%nonassoc declarations found")
		return
	}
	env := newConstEnv(filepath.Join(sqlDir, "ast.go"))
	constText := func(name, where string) string {
		v, ok := env.vals[name]
		if !ok {
			fail("sql.y %s: constant %s not found in ast.go", where, name)
			return ""
		}
		s, err := strconv.Unquote(v.ExactString())
		if err != nil {
			fail("ast.go: constant %s is not a string", name)
			return ""
		}
		return s
	}
	lf := newLean("SqlPrec", "Source: sqlparser/sql.y (precedence declarations, rules expression/condition/compare/is_suffix/value_expression/tuple_expression), sqlparser/ast.go (operator constants), sqlparser/ast_methods.go (Format methods of the expression nodes).")

	// ---- precedence table
	var rows []string
	for _, p := range g.prec {
		rows = append(rows, fmt.Sprintf("(%q, %s)", p[0], strList(strings.Fields(p[1]))))
	}
	lf.def("precTable", "List (String × List String)", "[\n  "+strings.Join(rows, ",\n  ")+"]",
		"sql.y: the %left/%right/%nonassoc declarations in source order; the position is the precedence level (later binds tighter)")

	opField := regexp.MustCompile(`Operator:\s*([A-Za-z0-9_$]+)`)
	nodeType := regexp.MustCompile(`\$\$\s*=\s*&?([A-Za-z]+)\{`)
	need := func(name string) []yAlt {
		a := g.rules[name]
		if len(a) == 0 {
			fail("sql.y: rule `%s` not found", name)
		}
		return a
	}

	// ---- value_expression
	var bin, un, other []string
	for _, a := range need("value_expression") {
		rhs := strings.Join(a.syms, " ")
		nt := ""
		if m := nodeType.FindAllStringSubmatch(a.action, -1); len(m) > 0 {
			nt = m[len(m)-1][1]
		}
		switch {
		case len(a.syms) == 3 && a.syms[0] == "value_expression" && a.syms[2] == "value_expression" && nt == "BinaryExpr":
			m := opField.FindStringSubmatch(a.action)
			if m == nil {
				fail("sql.y value_expression `%s`: BinaryExpr without Operator", rhs)
				continue
			}
			if a.prec != "" {
				fail("sql.y value_expression `%s`: unexpected %%prec on a binary operator", rhs)
			}
			bin = append(bin, fmt.Sprintf("(%q, %q, %q)", a.syms[1], m[1], constText(m[1], rhs)))
		case len(a.syms) == 2 && a.syms[1] == "value_expression" && nt == "UnaryExpr":
			m := opField.FindStringSubmatch(a.action)
			if m == nil {
				fail("sql.y value_expression `%s`: UnaryExpr without Operator", rhs)
				continue
			}
			p := a.prec
			if p == "" {
				p = a.syms[0]
			}
			folds := strings.Contains(a.action, "num.Type == IntVal")
			un = append(un, fmt.Sprintf("(%q, %q, %q, %q, %s)", a.syms[0], p, m[1], constText(m[1], rhs), boolStr(folds)))
		default:
			if nt == "BinaryExpr" || nt == "UnaryExpr" {
				// JSON operators: column_name OP value – a primary, not a precedence-carrying operator
				other = append(other, strconv.Quote(rhs))
				continue
			}
			other = append(other, strconv.Quote(rhs))
		}
	}
	if len(bin) == 0 || len(un) == 0 {
		fail("sql.y value_expression: no binary/unary operator alternatives recognised")
	}
	lf.def("binaryExprRules", "List (String × String × String)", "[\n  "+strings.Join(bin, ",\n  ")+"]",
		"sql.y value_expression: `value_expression TOK value_expression` building a BinaryExpr – (TOK, Operator constant, its text in ast.go)")
	lf.def("unaryExprRules", "List (String × String × String × String × Bool)", "[\n  "+strings.Join(un, ",\n  ")+"]",
		"sql.y value_expression: `TOK value_expression [%prec P]` building a UnaryExpr – (TOK, precedence token, Operator constant, its text, the action replaces an IntVal operand by a signed IntVal instead)")
	lf.def("valueExprOther", "List String", "["+strings.Join(other, ", ")+"]",
		"sql.y value_expression: the remaining alternatives (primaries and forms outside the model's fragment)")

	// ---- compare
	var cmp []string
	for _, a := range need("compare") {
		if len(a.syms) != 1 {
			fail("sql.y compare: alternative `%s` is not a single token", strings.Join(a.syms, " "))
			continue
		}
		m := regexp.MustCompile(`\$\$\s*=\s*([A-Za-z]+)`).FindStringSubmatch(a.action)
		if m == nil {
			fail("sql.y compare `%s`: no constant assigned", a.syms[0])
			continue
		}
		cmp = append(cmp, fmt.Sprintf("(%q, %q, %q)", a.syms[0], m[1], constText(m[1], "compare")))
	}
	lf.def("compareRules", "List (String × String × String)", "["+strings.Join(cmp, ", ")+"]",
		"sql.y compare: (token, constant, its text)")

	// ---- condition
	var cond []string
	for _, a := range need("condition") {
		rhs := strings.Join(a.syms, " ")
		nt := ""
		if m := nodeType.FindAllStringSubmatch(a.action, -1); len(m) > 0 {
			nt = m[len(m)-1][1]
		}
		op, text := "", ""
		if m := opField.FindAllStringSubmatch(a.action, -1); len(m) > 0 {
			op = m[len(m)-1][1]
			if !strings.HasPrefix(op, "$") {
				text = constText(op, rhs)
			}
		}
		if a.prec != "" {
			fail("sql.y condition `%s`: unexpected %%prec", rhs)
		}
		cond = append(cond, fmt.Sprintf("(%q, %q, %q, %q)", rhs, nt, op, text))
	}
	lf.def("conditionRules", "List (String × String × String × String)", "[\n  "+strings.Join(cond, ",\n  ")+"]",
		"sql.y condition: (right-hand side, node type built, Operator constant or $n, its text)")

	// ---- expression
	var ex []string
	for _, a := range need("expression") {
		rhs := strings.Join(a.syms, " ")
		nt := ""
		if m := nodeType.FindAllStringSubmatch(a.action, -1); len(m) > 0 {
			nt = m[len(m)-1][1]
		}
		if a.prec != "" {
			fail("sql.y expression `%s`: unexpected %%prec", rhs)
		}
		ex = append(ex, fmt.Sprintf("(%q, %q)", rhs, nt))
	}
	lf.def("expressionRules", "List (String × String)", "["+strings.Join(ex, ", ")+"]",
		"sql.y expression: (right-hand side, node type built; \"\" = the operand itself)")

	// ---- is_suffix
	var is []string
	for _, a := range need("is_suffix") {
		m := regexp.MustCompile(`\$\$\s*=\s*([A-Za-z]+)`).FindStringSubmatch(a.action)
		if m == nil {
			fail("sql.y is_suffix `%s`: no constant assigned", strings.Join(a.syms, " "))
			continue
		}
		is = append(is, fmt.Sprintf("(%q, %q, %q)", strings.Join(a.syms, " "), m[1], constText(m[1], "is_suffix")))
	}
	lf.def("isSuffixRules", "List (String × String × String)", "["+strings.Join(is, ", ")+"]",
		"sql.y is_suffix: (tokens, constant, its text)")

	// ---- tuple_expression: ParenExpr exactly for one element
	paren := false
	for _, a := range need("tuple_expression") {
		if len(a.syms) == 1 && a.syms[0] == "row_tuple" &&
			regexp.MustCompile(`if\s+len\(\$1\)\s*==\s*1\s*\{\s*\$\$\s*=\s*&ParenExpr\{\$1\[0\]\}`).MatchString(a.action) {
			paren = true
		}
	}
	rowOK := false
	for _, a := range need("row_tuple") {
		if strings.Join(a.syms, " ") == "openb expression_list closeb" {
			rowOK = true
		}
	}
	lf.def("parenRule", "Bool", boolStr(paren && rowOK),
		"sql.y: row_tuple is `openb expression_list closeb` and tuple_expression builds &ParenExpr{$1[0]} exactly when the list has one element")

	// ---- function_call_generic first alternative
	fn := false
	for _, a := range need("function_call_generic") {
		if strings.Join(a.syms, " ") == "sql_id openb select_expression_list_opt closeb" && strings.Contains(a.action, "&FuncExpr{Name: $1, Exprs: $3}") {
			fn = true
		}
	}
	lf.def("funcRule", "Bool", boolStr(fn),
		"sql.y function_call_generic: `sql_id openb select_expression_list_opt closeb` builds &FuncExpr{Name: $1, Exprs: $3}")

	// ---- Format methods
	p := loadSQLPkg()
	var fm []string
	for _, t := range []string{"AndExpr", "OrExpr", "NotExpr", "ParenExpr", "ComparisonExpr", "RangeCond", "IsExpr", "BinaryExpr", "UnaryExpr", "FuncExpr", "Exprs", "NullVal", "BoolVal"} {
		fd := p.methods[t]["Format"]
		if fd == nil {
			fail("ast_methods.go: %s.Format not found", t)
			continue
		}
		var fs []string
		ast.Inspect(fd.Body, func(n ast.Node) bool {
			ce, ok := n.(*ast.CallExpr)
			if !ok {
				return true
			}
			sel, ok := ce.Fun.(*ast.SelectorExpr)
			if !ok || sel.Sel.Name != "Myprintf" || len(ce.Args) == 0 {
				return true
			}
			bl, ok := ce.Args[0].(*ast.BasicLit)
			if !ok {
				fail("%s.Format: Myprintf with a non-literal format", t)
				return true
			}
			s, _ := strconv.Unquote(bl.Value)
			fs = append(fs, s)
			return true
		})
		if len(fs) == 0 {
			fail("%s.Format: no Myprintf call", t)
		}
		fm = append(fm, fmt.Sprintf("(%q, %s)", t, strList(fs)))
	}
	lf.def("formatStrings", "List (String × List String)", "[\n  "+strings.Join(fm, ",\n  ")+"]",
		"ast_methods.go: Myprintf format strings of the Format methods, in source order")
}
