package main

import (
	"fmt"
	"go/ast"
	"strings"
)

// V1CacheKeys: keystore/filesystem/server_keystore.go – under which cache key the list of current + rotated
// private key file names of a key is read, stored and refreshed.
//
// The list is cached under `.historical.` + <path>. GetHistoricalPrivateKeyFilenames computes <path> from the
// private key directory and the key's file name; the writers that change a history directory (SaveKeyPairWithFilename,
// generateAndSaveSymmetricKey, destroyRotatedKeyByIndex) refresh the entry under a <path> they compute themselves.
// Both must be the SAME function of (directory, name) for every spelling of the directory (trailing separator,
// `//`, `./`): otherwise the refresh misses the entry, the stale list hides the key that has just been rotated and
// GetPoisonPrivateKeys / GetServerDecryptionPrivateKeys stop offering it.
//
//	namesCacheKeySites : (function, use: get|load|refresh, spelling of the path)
//	    join          = filepath.Join(store.privateKeyDirectory, name)
//	    clean-sprintf = filepath.Clean(p), p = store.GetPrivateKeyFilePath(name) at every caller
//	    sprintf       = store.GetPrivateKeyFilePath(name) as is (directory + separator + name, not cleaned)
//	    clean-sprintf-public = filepath.Clean(store.GetPublicKeyFilePath(name)) (public directory: no list is cached there)
//	privatePathFormat  : the fmt.Sprintf format and arguments of GetPrivateKeyFilePath
func init() { generators = append(generators, genV1CacheKeys) }

func genV1CacheKeys() {
	const rel = "keystore/filesystem/server_keystore.go"
	lf := newLean("V1CacheKeys", "Source: "+rel+".")
	f := parseFile(rel)
	if f == nil {
		return
	}
	funcs := map[string]*ast.FuncDecl{}
	for _, d := range f.Decls {
		if fd, ok := d.(*ast.FuncDecl); ok && fd.Body != nil {
			funcs[fd.Name.Name] = fd
		}
	}
	// the format of GetPrivateKeyFilePath
	if fd := funcs["GetPrivateKeyFilePath"]; fd != nil && len(fd.Body.List) == 1 {
		ok := false
		if r, isRet := fd.Body.List[0].(*ast.ReturnStmt); isRet && len(r.Results) == 1 {
			if call, isCall := r.Results[0].(*ast.CallExpr); isCall && render(call.Fun) == "fmt.Sprintf" && len(call.Args) >= 1 {
				var args []string
				for _, a := range call.Args[1:] {
					args = append(args, render(a))
				}
				lf.def("privatePathFormat", "String × List String", fmt.Sprintf("(%s, %s)", render(call.Args[0]), strList(args)),
					rel+": GetPrivateKeyFilePath – fmt.Sprintf format and arguments")
				ok = true
			}
		}
		if !ok {
			fail("%s: GetPrivateKeyFilePath is not `return fmt.Sprintf(…)`", rel)
		}
	} else {
		fail("%s: GetPrivateKeyFilePath not found", rel)
	}
	// local definition of an identifier inside a function: `x := expr` (first one)
	localDef := func(fd *ast.FuncDecl, name string) ast.Expr {
		var out ast.Expr
		ast.Inspect(fd.Body, func(n ast.Node) bool {
			if as, ok := n.(*ast.AssignStmt); ok && out == nil && len(as.Lhs) == 1 && len(as.Rhs) == 1 && render(as.Lhs[0]) == name {
				out = as.Rhs[0]
			}
			return true
		})
		return out
	}
	paramIndex := func(fd *ast.FuncDecl, name string) int {
		i := 0
		for _, fl := range fd.Type.Params.List {
			for _, n := range fl.Names {
				if n.Name == name {
					return i
				}
				i++
			}
		}
		return -1
	}
	var spell func(fd *ast.FuncDecl, e ast.Expr, depth int) string
	spell = func(fd *ast.FuncDecl, e ast.Expr, depth int) string {
		if depth > 3 {
			return ""
		}
		switch x := e.(type) {
		case *ast.Ident:
			if d := localDef(fd, x.Name); d != nil {
				return spell(fd, d, depth+1)
			}
			if pi := paramIndex(fd, x.Name); pi >= 0 {
				// what do the callers pass?
				res := ""
				n := 0
				for _, caller := range funcs {
					ast.Inspect(caller.Body, func(nd ast.Node) bool {
						call, ok := nd.(*ast.CallExpr)
						if !ok || render(call.Fun) != "store."+fd.Name.Name || len(call.Args) <= pi {
							return true
						}
						n++
						s := spell(caller, call.Args[pi], depth+1)
						if s == "" {
							fail("%s: %s: argument %s of the call of %s is not understood", rel, caller.Name.Name, render(call.Args[pi]), fd.Name.Name)
						}
						switch {
						case res == "" || res == s:
							res = s
						case strings.HasSuffix(s, "-public") || strings.HasSuffix(res, "-public"):
							// private and public paths through the same function: the private spelling is the one that matters
							res = strings.TrimSuffix(res, "-public")
							if strings.HasSuffix(res, "-public") {
								res = strings.TrimSuffix(s, "-public")
							}
							if strings.TrimSuffix(s, "-public") != res {
								fail("%s: %s is called with differently spelled paths (%s, %s)", rel, fd.Name.Name, res, s)
							}
						default:
							fail("%s: %s is called with differently spelled paths (%s, %s)", rel, fd.Name.Name, res, s)
						}
						return true
					})
				}
				if n == 0 {
					return ""
				}
				return res
			}
		case *ast.CallExpr:
			fn := render(x.Fun)
			switch {
			case fn == "filepath.Join" && len(x.Args) == 2 && render(x.Args[0]) == "store.privateKeyDirectory":
				return "join"
			case fn == "store.GetPrivateKeyFilePath" && len(x.Args) == 1:
				return "sprintf"
			case fn == "store.GetPublicKeyFilePath" && len(x.Args) == 1:
				return "sprintf-public"
			case fn == "filepath.Clean" && len(x.Args) == 1:
				inner := spell(fd, x.Args[0], depth+1)
				switch inner {
				case "sprintf":
					return "clean-sprintf"
				case "sprintf-public":
					return "clean-sprintf-public"
				case "join", "clean-sprintf":
					return inner
				}
			}
		}
		return ""
	}
	uses := map[string]string{"getCachedHistoricalPrivateKeyFilenames": "get", "loadHistoricalPrivateKeyFilenames": "load",
		"refreshCachedHistoricalPrivateKeyFilenames": "refresh", "cacheHistoricalPrivateKeyFilenames": "store"}
	plumbing := map[string]bool{"getCachedHistoricalPrivateKeyFilenames": true, "loadHistoricalPrivateKeyFilenames": true,
		"refreshCachedHistoricalPrivateKeyFilenames": true, "cacheHistoricalPrivateKeyFilenames": true}
	var rows []string
	seen := map[string]bool{}
	var names []string
	for n := range funcs {
		names = append(names, n)
	}
	sortStrings(names)
	for _, fname := range names {
		fd := funcs[fname]
		if plumbing[fname] {
			continue // these pass their own parameter on
		}
		ast.Inspect(fd.Body, func(nd ast.Node) bool {
			call, ok := nd.(*ast.CallExpr)
			if !ok || len(call.Args) < 1 {
				return true
			}
			callee := strings.TrimPrefix(render(call.Fun), "store.")
			use, ok := uses[callee]
			if !ok || !strings.HasPrefix(render(call.Fun), "store.") {
				return true
			}
			s := spell(fd, call.Args[0], 0)
			if s == "" {
				fail("%s: %s: the path %s handed to %s is not understood", rel, fname, render(call.Args[0]), callee)
				return true
			}
			row := fmt.Sprintf("(%q, %q, %q)", fname, use, s)
			if !seen[row] {
				seen[row] = true
				rows = append(rows, row)
			}
			return true
		})
	}
	if len(rows) == 0 {
		fail("%s: no use of the cached historical file-name list found", rel)
	}
	// the cache key itself: cacheKeyPrefix + id in the getter and in the writer of the entry
	for _, fn := range []string{"getCachedHistoricalPrivateKeyFilenames", "cacheHistoricalPrivateKeyFilenames", "refreshCachedHistoricalPrivateKeyFilenames"} {
		fd := funcs[fn]
		if fd == nil {
			fail("%s: %s not found", rel, fn)
			continue
		}
		found := false
		ast.Inspect(fd.Body, func(nd ast.Node) bool {
			if be, ok := nd.(*ast.BinaryExpr); ok && render(be.X) == "cacheKeyPrefix" {
				if id, ok := be.Y.(*ast.Ident); ok && paramIndex(fd, id.Name) == 0 {
					found = true
				}
			}
			return true
		})
		if !found {
			fail("%s: %s does not address the cache with `cacheKeyPrefix + <its path parameter>`", rel, fn)
		}
	}
	lf.def("namesCacheKeySites", "List (String × String × String)", "[\n  "+strings.Join(rows, ",\n  ")+"]",
		rel+": every place that reads (get), loads and stores (load) or refreshes (refresh) the cached list of current+rotated private key file names: (function, use, how the path in the cache key `.historical.<path>` is spelled)")
}

func sortStrings(xs []string) {
	for i := 1; i < len(xs); i++ {
		for j := i; j > 0 && xs[j] < xs[j-1]; j-- {
			xs[j], xs[j-1] = xs[j-1], xs[j]
		}
	}
}
