package main

import (
	"bytes"
	"flag"
	"go/ast"
	"go/printer"
	"go/token"
	"os"
	"path/filepath"
	"sort"
	"strconv"
	"strings"
)

// ErrText: encryptor/postgresql/observer.go – how ParseQuery rewrites PostgreSQL's syntax error.
//
//	pgCutSearch     : the function that looks for the separator in the message (strings.Index / strings.LastIndex)
//	pgCutSeparator  : the separator constant (" at or near ")
//	pgCutKeeps      : what is kept of the message when the separator is found ("message[:i]")
//	pgErrorFormat   : the format string of the error returned, pgErrorArgs its arguments
//
// and a copy of ParseQuery for the harness (harness/internal/c16/zz_parsequery.go) in which the one call of
// pg_query.Parse is replaced by an injectable function, so that the REAL rewriting code is run on generated
// parser messages (C16.pgsan), not only on the messages pg_query produces for generated statements (C16.pgerr).
func init() { generators = append(generators, genErrText) }

func genErrText() {
	const obs = "encryptor/postgresql/observer.go"
	lf := newLean("ErrText", "Source: "+obs+" (ParseQuery).")
	fd := funcDecl(obs, "", "ParseQuery")
	if fd == nil || fd.Body == nil {
		fail("%s: ParseQuery not found", obs)
		return
	}
	// the cut: `if i := strings.<Fn>(message, <lit>); i >= 0 { message = message[:i] }`
	var search, sep, keeps string
	nCut := 0
	ast.Inspect(fd, func(n ast.Node) bool {
		ifs, ok := n.(*ast.IfStmt)
		if !ok || ifs.Init == nil {
			return true
		}
		as, ok := ifs.Init.(*ast.AssignStmt)
		if !ok || len(as.Lhs) != 1 || len(as.Rhs) != 1 {
			return true
		}
		call, ok := as.Rhs[0].(*ast.CallExpr)
		if !ok || len(call.Args) != 2 {
			return true
		}
		fn := render(call.Fun)
		if !strings.HasPrefix(fn, "strings.") {
			return true
		}
		nCut++
		idx := render(as.Lhs[0])
		if render(call.Args[0]) != "message" {
			fail("%s: ParseQuery: %s is applied to %s, expected `message`", obs, fn, render(call.Args[0]))
		}
		bl, ok := call.Args[1].(*ast.BasicLit)
		if !ok || bl.Kind != token.STRING {
			fail("%s: ParseQuery: the separator %s is not a string literal", obs, render(call.Args[1]))
			return true
		}
		v, err := strconv.Unquote(bl.Value)
		if err != nil || v == "" {
			fail("%s: ParseQuery: separator %s", obs, bl.Value)
		}
		if render(ifs.Cond) != idx+" >= 0" || ifs.Else != nil || len(ifs.Body.List) != 1 {
			fail("%s: ParseQuery: the cut is expected to be `if %s := %s(message, …); %s >= 0 { message = … }`, found condition `%s`", obs, idx, fn, idx, render(ifs.Cond))
			return true
		}
		set, ok := ifs.Body.List[0].(*ast.AssignStmt)
		if !ok || len(set.Lhs) != 1 || render(set.Lhs[0]) != "message" || len(set.Rhs) != 1 {
			fail("%s: ParseQuery: the cut branch is expected to assign `message`, found `%s`", obs, render(ifs.Body.List[0]))
			return true
		}
		search, sep = fn, v
		keeps = strings.ReplaceAll(render(set.Rhs[0]), idx, "i")
		return true
	})
	if nCut != 1 {
		fail("%s: ParseQuery: expected exactly one `if i := strings.…(message, …)` cut, found %d", obs, nCut)
	}
	if search != "strings.Index" && search != "strings.LastIndex" {
		fail("%s: ParseQuery: the separator is searched with %s – not modelled (strings.Index / strings.LastIndex are)", obs, search)
	}
	// the returned error: `return nil, fmt.Errorf(<format>, args…)` inside the errors.As branch
	var format string
	var args []string
	nErrf := 0
	ast.Inspect(fd, func(n ast.Node) bool {
		call, ok := n.(*ast.CallExpr)
		if !ok || render(call.Fun) != "fmt.Errorf" || len(call.Args) == 0 {
			return true
		}
		nErrf++
		bl, ok := call.Args[0].(*ast.BasicLit)
		if !ok || bl.Kind != token.STRING {
			fail("%s: ParseQuery: fmt.Errorf with a non-literal format", obs)
			return true
		}
		format, _ = strconv.Unquote(bl.Value)
		for _, a := range call.Args[1:] {
			args = append(args, render(a))
		}
		return true
	})
	if nErrf != 1 {
		fail("%s: ParseQuery: expected exactly one fmt.Errorf, found %d", obs, nErrf)
	}
	// nothing else of the parser's error may be used: parseErr.<Field> mentions
	fields := map[string]bool{}
	ast.Inspect(fd, func(n ast.Node) bool {
		if s, ok := n.(*ast.SelectorExpr); ok && render(s.X) == "parseErr" {
			fields[s.Sel.Name] = true
		}
		return true
	})
	var fl []string
	for f := range fields {
		fl = append(fl, f)
	}
	sort.Strings(fl)
	lf.def("pgCutSearch", "String", strconv.Quote(search), obs+": ParseQuery – the function that looks for the separator in PostgreSQL's message")
	lf.def("pgCutSeparator", "String", strconv.Quote(sep), obs+": ParseQuery – the separator")
	lf.def("pgCutKeeps", "String", strconv.Quote(keeps), obs+": ParseQuery – what is kept of the message when the separator is found at index i")
	lf.def("pgErrorFormat", "String", strconv.Quote(format), obs+": ParseQuery – format of the error returned for a syntax error")
	lf.def("pgErrorArgs", "List String", strList(args), obs+": ParseQuery – arguments of that format")
	lf.def("pgErrorFieldsUsed", "List String", strList(fl), obs+": ParseQuery – fields of pg_query's *parser.Error the function reads")

	// ---- copy of ParseQuery for the harness, pg_query.Parse injectable
	outFlag := flag.Lookup("out")
	if outFlag == nil {
		return
	}
	dst := filepath.Join(outFlag.Value.String(), "..", "..", "..", "harness", "internal", "c16")
	if _, err := os.Stat(dst); err != nil {
		return // not running inside the framework's tree
	}
	file := parseFile(obs)
	if file == nil {
		return
	}
	nParse := 0
	ast.Inspect(fd, func(n ast.Node) bool {
		if call, ok := n.(*ast.CallExpr); ok && render(call.Fun) == "pg_query.Parse" {
			nParse++
		}
		return true
	})
	if nParse != 1 {
		fail("%s: ParseQuery: expected exactly one call of pg_query.Parse, found %d", obs, nParse)
		return
	}
	var body bytes.Buffer
	printer.Fprint(&body, fset, fd)
	text := body.String()
	text = strings.Replace(text, "func ParseQuery(", "func parseQueryCopy(", 1)
	text = strings.Replace(text, "pg_query.Parse(", "pgParseInjected(", 1)
	// imports the function needs: the file's imports whose name occurs as `name.` in the text
	var imps []string
	for _, im := range file.Imports {
		path, _ := strconv.Unquote(im.Path.Value)
		name := filepath.Base(path)
		if im.Name != nil {
			name = im.Name.Name
		} else if name == "v5" || strings.HasPrefix(name, "v") && len(name) <= 3 {
			name = filepath.Base(filepath.Dir(path))
		}
		if strings.Contains(text, name+".") {
			if im.Name != nil {
				imps = append(imps, "\t"+im.Name.Name+" "+im.Path.Value)
			} else {
				imps = append(imps, "\t"+im.Path.Value)
			}
		}
	}
	out := "// Code generated by /verif/harness/cmd/factgen from /repo/" + obs + " (func ParseQuery; only its name and the\n" +
		"// callee of the one pg_query.Parse call differ). DO NOT EDIT.\n\npackage c16\n\nimport (\n" + strings.Join(imps, "\n") + "\n)\n\n" +
		"// pgParseInjected stands where ParseQuery calls pg_query.Parse.\nvar pgParseInjected = pg_query.Parse\n\n" + text + "\n"
	path := filepath.Join(dst, "zz_parsequery.go")
	if old, err := os.ReadFile(path); err == nil && string(old) == out {
		return
	}
	if err := os.WriteFile(path, []byte(out), 0o644); err != nil {
		fail("zz_parsequery.go: %v", err)
	}
}
