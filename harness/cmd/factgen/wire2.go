package main

import (
	"fmt"
	"go/ast"
	"go/parser"
	"go/token"
	"os"
	"path/filepath"
	"regexp"
	"sort"
	"strings"
)

// Wire, second part (deepening of C12): the layouts the Lean models of the MySQL column definition
// (column_field.go: ParseResultField / ColumnDescription.Dump, type_conversion.go: TypeConfigurations),
// the COM_STMT_EXECUTE parameter block (packet.go: GetBindParameters / SetParameters,
// prepared_statements.go: NewMysqlBoundValue / SetData / Encode) and the PostgreSQL RowDescription /
// ParameterDescription rewrite (pg_decryptor.go + the pinned pgproto3 sources) interpret or are checked against.

func wSel(e ast.Expr) (string, string, bool) {
	if s, ok := e.(*ast.SelectorExpr); ok {
		if id, ok := s.X.(*ast.Ident); ok {
			return id.Name, s.Sel.Name, true
		}
	}
	return "", "", false
}

func wCall(e ast.Expr) (string, []ast.Expr, bool) {
	c, ok := e.(*ast.CallExpr)
	if !ok {
		return "", nil, false
	}
	switch f := c.Fun.(type) {
	case *ast.Ident:
		return f.Name, c.Args, true
	case *ast.SelectorExpr:
		return f.Sel.Name, c.Args, true
	}
	return "", nil, false
}

func strNatList(rows [][2]string) string {
	s := make([]string, len(rows))
	for i, r := range rows {
		s[i] = fmt.Sprintf("(%q, %s)", r[0], r[1])
	}
	return "[" + strings.Join(s, ", ") + "]"
}

// wFieldOf returns X for an expression field.X (possibly wrapped in conversions like byte(…), uint16(…))
func wFieldOf(e ast.Expr, recv string) (string, bool) {
	for {
		if c, ok := e.(*ast.CallExpr); ok && len(c.Args) == 1 {
			if id, ok := c.Fun.(*ast.Ident); ok && (id.Name == "byte" || id.Name == "uint16" || id.Name == "uint32" || id.Name == "uint64" || id.Name == "int") {
				e = c.Args[0]
				continue
			}
		}
		break
	}
	if x, sel, ok := wSel(e); ok && x == recv {
		return sel, true
	}
	return "", false
}

func genWireColDef(lf *leanFile, menv *constEnv) {
	const rel = "decryptor/mysql/column_field.go"
	const my = "decryptor/mysql"
	// ---- ParseResultField ----
	if fd := funcDecl(rel, "", "ParseResultField"); fd != nil {
		var strs []string
		catalogSkipped := false
		var fixed [][2]string
		guard := uint64(0)
		extUsesN := false
		extGuarded := false
		defaultGuardUint64 := false
		phase := 0 // 0: strings, 1: fixed block, 2: default value
		pending := ""
		for _, st := range fd.Body.List {
			switch t := st.(type) {
			case *ast.AssignStmt:
				if len(t.Rhs) == 1 {
					if name, _, ok := wCall(t.Rhs[0]); ok {
						switch name {
						case "SkipLengthEncodedString":
							if len(strs) == 0 {
								catalogSkipped = true
							}
							continue
						case "LengthEncodedString":
							if f, ok := wFieldOf(t.Lhs[0], "field"); ok && phase == 0 {
								strs = append(strs, f)
							} else {
								fail("%s: ParseResultField: unexpected LengthEncodedString target", my)
							}
							continue
						}
					}
				}
				if f, ok := wFieldOf(t.Lhs[0], "field"); ok && phase == 1 {
					if f == "DefaultValue" {
						phase = 2
						continue
					}
					pending = f
					continue
				}
				if id, ok := t.Lhs[0].(*ast.Ident); ok && id.Name == "pos" && t.Tok == token.ADD_ASSIGN && phase == 1 {
					if _, isIdent := t.Rhs[0].(*ast.Ident); isIdent {
						continue // pos += n (strings)
					}
					k := menv.intOf(t.Rhs[0], my)
					name := pending
					if name == "" {
						name = "skip"
					}
					fixed = append(fixed, [2]string{name, fmt.Sprint(k)})
					pending = ""
				}
			case *ast.IncDecStmt:
				if id, ok := t.X.(*ast.Ident); ok && id.Name == "pos" && t.Tok == token.INC && phase == 1 {
					name := pending
					if name == "" {
						name = "skip"
					}
					fixed = append(fixed, [2]string{name, "1"})
					pending = ""
				}
			case *ast.IfStmt:
				if id, ok := t.Cond.(*ast.Ident); ok && id.Name == "mariaDBExtendedTypeInfo" {
					phase = 1
					// inside: guard on pos, `offset := n + int(num)`, guard on num
					ast.Inspect(t.Body, func(n ast.Node) bool {
						switch x := n.(type) {
						case *ast.AssignStmt:
							if id, ok := x.Lhs[0].(*ast.Ident); ok && id.Name == "offset" {
								if be, ok := x.Rhs[0].(*ast.BinaryExpr); ok && be.Op == token.ADD {
									if l, ok := be.X.(*ast.Ident); ok && l.Name == "n" {
										extUsesN = true
									}
								}
							}
						case *ast.IfStmt:
							if be, ok := x.Cond.(*ast.BinaryExpr); ok && returnsErr(x.Body) {
								if l, ok := be.X.(*ast.Ident); ok && l.Name == "num" && be.Op == token.GTR {
									extGuarded = true
								}
							}
						}
						return true
					})
					continue
				}
				// guard of the fixed block: if len(packet.data)-pos < K { return nil, ErrMalformPacket }
				if be, ok := t.Cond.(*ast.BinaryExpr); ok && be.Op == token.LSS && returnsErr(t.Body) && phase == 1 && len(fixed) == 0 {
					guard = menv.intOf(be.Y, my)
					continue
				}
				if phase == 2 {
					ast.Inspect(t.Body, func(n ast.Node) bool {
						if is, ok := n.(*ast.IfStmt); ok {
							if be, ok := is.Cond.(*ast.BinaryExpr); ok && be.Op == token.GTR && returnsErr(is.Body) {
								if f, ok := wFieldOf(be.X, "field"); ok && f == "DefaultValueLength" {
									if name, _, ok := wCall(be.Y); ok && name == "uint64" {
										defaultGuardUint64 = true
									}
								}
							}
						}
						return true
					})
				}
			}
		}
		if len(strs) == 0 || len(fixed) == 0 {
			fail("%s: ParseResultField: shape not recognised", my)
		}
		lf.def("myColDefCatalogSkipped", "Bool", boolStr(catalogSkipped), "ParseResultField: the catalog is skipped with SkipLengthEncodedString before anything else")
		lf.def("myColDefStrings", "List String", strList(strs), "ParseResultField: fields read with LengthEncodedString, in order")
		lf.def("myColDefFixedGuard", "Nat", fmt.Sprint(guard), "ParseResultField: K of the guard `len(packet.data)-pos < K` in front of the fixed block (0 = no guard)")
		lf.def("myColDefFixedParse", "List (String × Nat)", strNatList(fixed), "ParseResultField: the fixed block – (field or skip, bytes) in order")
		lf.def("myColDefExtOffsetUsesN", "Bool", boolStr(extUsesN), "ParseResultField: the extended type info is measured with the size of its length prefix (`offset := n + int(num)`)")
		lf.def("myColDefExtGuarded", "Bool", boolStr(extGuarded), "ParseResultField: the extended type info length is checked against the packet before slicing")
		lf.def("myColDefDefaultGuardUint64", "Bool", boolStr(defaultGuardUint64), "ParseResultField: the default-value length is compared as uint64")
	}
	// ---- Dump ----
	if fd := funcDecl(rel, "ColumnDescription", "Dump"); fd != nil {
		var order [][2]string
		var catalog []uint64
		marker := uint64(0)
		classify := func(args []ast.Expr, ctx string) {
			// args of append(data, …) after the first
			if len(args) == 2 {
				if lit, ok := args[0].(*ast.BasicLit); ok && lit.Kind == token.INT {
					if l2, ok := args[1].(*ast.BasicLit); ok && l2.Kind == token.INT {
						order = append(order, [2]string{"filler", "2"})
						return
					}
					_ = lit
				}
			}
			if len(args) != 1 {
				fail("%s: Dump: append with %d values", my, len(args))
				return
			}
			a := args[0]
			if lit, ok := a.(*ast.BasicLit); ok && lit.Kind == token.INT {
				v := menv.intOf(a, my)
				if ctx == "ext" {
					order = append(order, [2]string{"extEmpty", fmt.Sprint(v)})
					return
				}
				marker = v
				order = append(order, [2]string{"marker", "1"})
				return
			}
			if name, cargs, ok := wCall(a); ok && len(cargs) == 1 {
				switch name {
				case "PutLengthEncodedString":
					if f, ok := wFieldOf(cargs[0], "field"); ok {
						order = append(order, [2]string{f, "0"})
						return
					}
					// []byte("def")
					if c, ok := cargs[0].(*ast.CallExpr); ok && len(c.Args) == 1 {
						if lit, ok := c.Args[0].(*ast.BasicLit); ok && lit.Kind == token.STRING {
							sv := strings.Trim(lit.Value, "\"")
							for _, ch := range []byte(sv) {
								catalog = append(catalog, uint64(ch))
							}
							order = append(order, [2]string{"catalog", "0"})
							return
						}
					}
				case "PutLengthEncodedInt":
					if f, ok := wFieldOf(cargs[0], "field"); ok {
						order = append(order, [2]string{f, "0"})
						return
					}
				case "Uint16ToBytes", "Uint32ToBytes", "Uint64ToBytes":
					if f, ok := wFieldOf(cargs[0], "field"); ok {
						order = append(order, [2]string{f, map[string]string{"Uint16ToBytes": "2", "Uint32ToBytes": "4", "Uint64ToBytes": "8"}[name]})
						return
					}
				case "byte":
					if f, ok := wFieldOf(cargs[0], "field"); ok {
						order = append(order, [2]string{f, "1"})
						return
					}
				}
			}
			if f, ok := wFieldOf(a, "field"); ok {
				switch f {
				case "ExtendedTypeInfo":
					order = append(order, [2]string{"extRaw", "0"})
				case "DefaultValue":
					order = append(order, [2]string{f, "0"})
				default:
					order = append(order, [2]string{f, "1"})
				}
				return
			}
			fail("%s: Dump: unrecognised append argument", my)
		}
		var walk func(stmts []ast.Stmt, ctx string)
		walk = func(stmts []ast.Stmt, ctx string) {
			for _, st := range stmts {
				switch t := st.(type) {
				case *ast.AssignStmt:
					if id, ok := t.Lhs[0].(*ast.Ident); ok && id.Name == "data" && len(t.Rhs) == 1 {
						if name, args, ok := wCall(t.Rhs[0]); ok && name == "append" && len(args) >= 2 {
							classify(args[1:], ctx)
						}
					}
				case *ast.IfStmt:
					// the unchanged branch returns early; the others are the optional parts
					if wReturnsAny(t.Body) {
						continue
					}
					c := "opt"
					ast.Inspect(t.Cond, func(n ast.Node) bool {
						if s, ok := n.(*ast.SelectorExpr); ok {
							switch s.Sel.Name {
							case "mariaDBExtendedTypeInfo", "ExtendedTypeInfo":
								c = "ext"
							case "DefaultValue":
								c = "default"
							}
						}
						return true
					})
					walk(t.Body.List, c)
					if eb, ok := t.Else.(*ast.BlockStmt); ok {
						walk(eb.List, c)
					}
				}
			}
		}
		walk(fd.Body.List, "")
		if len(order) < 10 {
			fail("%s: Dump: shape not recognised", my)
		}
		lf.def("myColDefCatalog", "List Nat", natList(catalog), "Dump: the catalog string written first")
		lf.def("myColDefMarker", "Nat", fmt.Sprint(marker), "Dump: the constant byte in front of the fixed block")
		lf.def("myColDefDump", "List (String × Nat)", strNatList(order), "Dump (changed description): appended parts in order – (field, width; 0 = length-encoded / raw bytes)")
	}
	// ---- TypeConfigurations / specificTypes ----
	const trel = "decryptor/mysql/type_conversion.go"
	tvars := packageVars(trel)
	if e, ok := tvars["TypeConfigurations"]; ok {
		cl, ok := e.(*ast.CompositeLit)
		if !ok {
			fail("%s: TypeConfigurations is not a literal", my)
		} else {
			var rows []string
			type row struct{ code, cs, ln, dec uint64 }
			var rs []row
			for _, el := range cl.Elts {
				kv := el.(*ast.KeyValueExpr)
				r := row{code: menv.intOf(kv.Key, my)}
				if inner, ok := kv.Value.(*ast.CompositeLit); ok {
					for _, f := range inner.Elts {
						fkv, ok := f.(*ast.KeyValueExpr)
						if !ok {
							fail("%s: TypeConfigurations: positional fields", my)
							continue
						}
						v := menv.intOf(fkv.Value, my)
						switch fkv.Key.(*ast.Ident).Name {
						case "Charset":
							r.cs = v
						case "ColumnLength":
							r.ln = v
						case "Decimal":
							r.dec = v
						default:
							fail("%s: TypeConfigurations: unknown field", my)
						}
					}
				}
				rs = append(rs, r)
			}
			sort.Slice(rs, func(i, j int) bool { return rs[i].code < rs[j].code })
			for _, r := range rs {
				rows = append(rows, fmt.Sprintf("(%d, %d, %d, %d)", r.code, r.cs, r.ln, r.dec))
			}
			lf.def("myTypeConfigurations", "List (Nat × Nat × Nat × Nat)", "["+strings.Join(rows, ", ")+"]", "TypeConfigurations: type code → (charset, column length, decimals), sorted by code")
		}
	} else {
		fail("%s: TypeConfigurations not found", my)
	}
	if e, ok := tvars["specificTypes"]; ok {
		if cl, ok := e.(*ast.CompositeLit); ok {
			var xs []uint64
			for _, el := range cl.Elts {
				xs = append(xs, menv.intOf(el, my))
			}
			lf.def("mySpecificTypes", "List Nat", natList(xs), "specificTypes: new types for which BlobFlag is removed")
		}
	} else {
		fail("%s: specificTypes not found", my)
	}
}

func wReturnsAny(b *ast.BlockStmt) bool {
	for _, st := range b.List {
		if _, ok := st.(*ast.ReturnStmt); ok {
			return true
		}
	}
	return false
}

func genWireExecute(lf *leanFile, menv *constEnv) {
	const my = "decryptor/mysql"
	// header length: `var pos = 10` / `pos := 10`
	posInit := func(fd *ast.FuncDecl) uint64 {
		v := uint64(0)
		found := false
		for _, st := range fd.Body.List {
			switch t := st.(type) {
			case *ast.DeclStmt:
				if gd, ok := t.Decl.(*ast.GenDecl); ok {
					for _, s := range gd.Specs {
						vs := s.(*ast.ValueSpec)
						if len(vs.Names) == 1 && vs.Names[0].Name == "pos" && len(vs.Values) == 1 && !found {
							v, found = menv.intOf(vs.Values[0], my), true
						}
					}
				}
			case *ast.AssignStmt:
				if id, ok := t.Lhs[0].(*ast.Ident); ok && id.Name == "pos" && t.Tok == token.DEFINE && !found {
					v, found = menv.intOf(t.Rhs[0], my), true
				}
			}
		}
		if !found {
			fail("%s: %s: initial pos not found", my, fd.Name.Name)
		}
		return v
	}
	g := funcDecl("decryptor/mysql/packet.go", "Packet", "GetBindParameters")
	s := funcDecl("decryptor/mysql/packet.go", "Packet", "SetParameters")
	if g != nil && s != nil {
		a, b := posInit(g), posInit(s)
		if a != b {
			fail("%s: GetBindParameters and SetParameters start at different offsets (%d, %d)", my, a, b)
		}
		lf.def("myExecuteHeaderLen", "Nat", fmt.Sprint(a), "GetBindParameters / SetParameters: offset of the NULL bitmap (command, statement id, flags, iteration count)")
		guards := 0
		ast.Inspect(g.Body, func(n ast.Node) bool {
			if is, ok := n.(*ast.IfStmt); ok && returnsErr(is.Body) {
				if be, ok := is.Cond.(*ast.BinaryExpr); ok && be.Op == token.LSS {
					guards++
				}
			}
			return true
		})
		lf.def("myExecuteGuards", "Nat", fmt.Sprint(guards), "GetBindParameters: bounds checks (`len(packet.data)… < …` returning an error) in front of the bitmap/flag and the type list")
		// SetParameters: switch on the bound type selecting the types whose unsigned flag is rewritten
		var signTypes []uint64
		ast.Inspect(s.Body, func(n ast.Node) bool {
			if sw, ok := n.(*ast.SwitchStmt); ok {
				for _, c := range sw.Body.List {
					cc := c.(*ast.CaseClause)
					for _, e := range cc.List {
						signTypes = append(signTypes, menv.intOf(e, my))
					}
				}
				return false
			}
			return true
		})
		lf.def("mySignFlagTypes", "List Nat", natList(signTypes), "SetParameters: bound types whose unsigned flag byte is recomputed from the value")
	}
	const prel = "decryptor/mysql/prepared_statements.go"
	// NewMysqlBoundValue: switch paramType { case T…: var numericValue X }
	if fd := funcDecl(prel, "", "NewMysqlBoundValue"); fd != nil {
		var rows [][2]string
		ast.Inspect(fd.Body, func(n ast.Node) bool {
			sw, ok := n.(*ast.SwitchStmt)
			if !ok {
				return true
			}
			for _, c := range sw.Body.List {
				cc := c.(*ast.CaseClause)
				if cc.List == nil {
					continue
				}
				kind := "null"
				for _, st := range cc.Body {
					if ds, ok := st.(*ast.DeclStmt); ok {
						if gd, ok := ds.Decl.(*ast.GenDecl); ok {
							for _, sp := range gd.Specs {
								vs := sp.(*ast.ValueSpec)
								if id, ok := vs.Type.(*ast.Ident); ok && vs.Names[0].Name == "numericValue" {
									kind = id.Name
								}
							}
						}
					}
				}
				for _, e := range cc.List {
					rows = append(rows, [2]string{fmt.Sprint(menv.intOf(e, my)), kind})
				}
			}
			return false
		})
		sort.Slice(rows, func(i, j int) bool { return atoiU(rows[i][0]) < atoiU(rows[j][0]) })
		var out []string
		for _, r := range rows {
			out = append(out, fmt.Sprintf("(%s, %q)", r[0], r[1]))
		}
		if len(out) == 0 {
			fail("%s: NewMysqlBoundValue: switch not found", my)
		}
		lf.def("myBoundDecode", "List (Nat × String)", "["+strings.Join(out, ", ")+"]", "NewMysqlBoundValue: type code → Go type the value is read into (null = no value bytes), sorted by code")
	}
	// Encode: switch m.paramType { case T…: strconv.ParseInt(…, 10, B) | ParseFloat(…, B) }
	if fd := funcDecl(prel, "mysqlBoundValue", "Encode"); fd != nil {
		var out []string
		type row struct {
			code uint64
			kind string
			bits uint64
		}
		var rs []row
		ast.Inspect(fd.Body, func(n ast.Node) bool {
			sw, ok := n.(*ast.SwitchStmt)
			if !ok {
				return true
			}
			for _, c := range sw.Body.List {
				cc := c.(*ast.CaseClause)
				if cc.List == nil {
					continue
				}
				kind, bits := "null", uint64(0)
				for _, st := range cc.Body {
					ast.Inspect(st, func(m ast.Node) bool {
						if name, args, ok := wCallNode(m); ok {
							switch name {
							case "ParseInt":
								kind, bits = "int", menv.intOf(args[2], my)
								if menv.intOf(args[1], my) != 10 {
									fail("%s: Encode: ParseInt base is not 10", my)
								}
							case "ParseFloat":
								kind, bits = "float", menv.intOf(args[1], my)
							}
						}
						return true
					})
				}
				for _, e := range cc.List {
					rs = append(rs, row{menv.intOf(e, my), kind, bits})
				}
			}
			return false
		})
		sort.Slice(rs, func(i, j int) bool { return rs[i].code < rs[j].code })
		for _, r := range rs {
			out = append(out, fmt.Sprintf("(%d, %q, %d)", r.code, r.kind, r.bits))
		}
		if len(out) == 0 {
			fail("%s: Encode: switch not found", my)
		}
		lf.def("myBoundEncode", "List (Nat × String × Nat)", "["+strings.Join(out, ", ")+"]", "mysqlBoundValue.Encode: type code → (int|float|null, bit size of the strconv parse), sorted by code")
	}
	// SetData: the type a changed value gets
	if fd := funcDecl(prel, "mysqlBoundValue", "SetData"); fd != nil {
		found := false
		for _, st := range fd.Body.List {
			is, ok := st.(*ast.IfStmt)
			if !ok {
				continue
			}
			u, ok := is.Cond.(*ast.UnaryExpr)
			if !ok || u.Op != token.NOT {
				continue
			}
			if name, _, ok := wCall(u.X); !ok || name != "Equal" {
				continue
			}
			for _, b := range is.Body.List {
				if as, ok := b.(*ast.AssignStmt); ok {
					if f, ok := wFieldOf(as.Lhs[0], "m"); ok && f == "paramType" {
						lf.def("myChangedParamType", "Nat", fmt.Sprint(menv.intOf(as.Rhs[0], my)), "mysqlBoundValue.SetData: type of a parameter whose value was changed (`!bytes.Equal(m.data, newData)`)")
						found = true
					}
				}
			}
		}
		if !found {
			fail("%s: SetData: `if !bytes.Equal(…) { m.paramType = … }` not found", my)
		}
	}
}

func wCallNode(n ast.Node) (string, []ast.Expr, bool) {
	e, ok := n.(ast.Expr)
	if !ok {
		return "", nil, false
	}
	return wCall(e)
}

func atoiU(s string) uint64 {
	var v uint64
	fmt.Sscan(s, &v)
	return v
}

// modFile parses a file of a dependency of /repo from the module cache at the version go.mod pins.
func modFile(module, rel string) *ast.File {
	gm, err := os.ReadFile(filepath.Join(repo, "go.mod"))
	if err != nil {
		fail("go.mod: %v", err)
		return nil
	}
	m := regexp.MustCompile(`(?m)^\s*` + regexp.QuoteMeta(module) + `\s+(v\S+)`).FindSubmatch(gm)
	if m == nil {
		fail("go.mod: module %s not required", module)
		return nil
	}
	cache := os.Getenv("GOMODCACHE")
	if cache == "" {
		gp := os.Getenv("GOPATH")
		if gp == "" {
			home, _ := os.UserHomeDir()
			gp = filepath.Join(home, "go")
		}
		cache = filepath.Join(gp, "pkg", "mod")
	}
	path := filepath.Join(cache, module+"@"+string(m[1]), rel)
	f, err := parser.ParseFile(fset, path, nil, 0)
	if err != nil {
		fail("%s: %v", path, err)
		return nil
	}
	return f
}

func methodOf(f *ast.File, recv, name string) *ast.FuncDecl {
	if f == nil {
		return nil
	}
	for _, d := range f.Decls {
		if fd, ok := d.(*ast.FuncDecl); ok && fd.Name.Name == name && fd.Recv != nil && len(fd.Recv.List) == 1 && recvName(fd.Recv.List[0].Type) == recv {
			return fd
		}
	}
	fail("pgproto3: method %s.%s not found", recv, name)
	return nil
}

func genWireDescribe(lf *leanFile) {
	const pg = "decryptor/postgresql"
	widths := map[string]string{"AppendUint16": "2", "AppendInt16": "2", "AppendUint32": "4", "AppendInt32": "4"}
	// pgproto3 RowDescription.Encode: per field, name + 0, then fixed-width members
	rf := modFile("github.com/jackc/pgx/v5", "pgproto3/row_description.go")
	if enc := methodOf(rf, "RowDescription", "Encode"); enc != nil {
		var layout [][2]string
		nameTerminated := false
		ast.Inspect(enc.Body, func(n ast.Node) bool {
			rs, ok := n.(*ast.RangeStmt)
			if !ok {
				return true
			}
			for _, st := range rs.Body.List {
				as, ok := st.(*ast.AssignStmt)
				if !ok || len(as.Rhs) != 1 {
					continue
				}
				name, args, ok := wCall(as.Rhs[0])
				if !ok || len(args) != 2 {
					continue
				}
				if name == "append" {
					if lit, ok := args[1].(*ast.BasicLit); ok && lit.Value == "0" {
						nameTerminated = true
					}
					continue
				}
				if w, ok := widths[name]; ok {
					if f, ok := wFieldOf(args[1], "fd"); ok {
						layout = append(layout, [2]string{f, w})
					}
				}
			}
			return false
		})
		if len(layout) == 0 || !nameTerminated {
			fail("pgproto3: RowDescription.Encode: shape not recognised")
		}
		lf.def("pgFieldDescLayout", "List (String × Nat)", strNatList(layout), "pgproto3 RowDescription.Encode: members written after the zero-terminated name – (member, bytes) in order")
	}
	if dec := methodOf(rf, "RowDescription", "Decode"); dec != nil {
		tail := uint64(0)
		ast.Inspect(dec.Body, func(n ast.Node) bool {
			if is, ok := n.(*ast.IfStmt); ok {
				if be, ok := is.Cond.(*ast.BinaryExpr); ok && be.Op == token.LSS {
					if name, _, ok := wCall(be.X); ok && name == "len" {
						if lit, ok := be.Y.(*ast.BasicLit); ok && lit.Kind == token.INT && lit.Value != "2" {
							fmt.Sscan(lit.Value, &tail)
						}
					}
				}
			}
			return true
		})
		if tail == 0 {
			fail("pgproto3: RowDescription.Decode: length check of the fixed members not found")
		}
		lf.def("pgFieldDescFixedLen", "Nat", fmt.Sprint(tail), "pgproto3 RowDescription.Decode: bytes required after a field name")
	}
	// Acra: which members of the decoded messages are assigned by the handlers
	assigned := func(fn, root string) []string {
		var out []string
		fd := funcDecl("decryptor/postgresql/pg_decryptor.go", "PgProxy", fn)
		if fd == nil {
			return nil
		}
		ast.Inspect(fd.Body, func(n ast.Node) bool {
			as, ok := n.(*ast.AssignStmt)
			if !ok || as.Tok != token.ASSIGN {
				return true
			}
			for _, l := range as.Lhs {
				// root.Fields[i].X  or  root.ParameterOIDs[i]
				path := ""
				e := l
				for {
					switch t := e.(type) {
					case *ast.SelectorExpr:
						path = "." + t.Sel.Name + path
						e = t.X
						continue
					case *ast.IndexExpr:
						path = "[i]" + path
						e = t.X
						continue
					case *ast.Ident:
						if t.Name == root {
							out = append(out, strings.TrimPrefix(path, "."))
						}
					}
					break
				}
			}
			return true
		})
		return out
	}
	lf.def("pgRowDescAssigned", "List String", strList(assigned("handleRowDescription", "rowDescription")), "handleRowDescription: members of the decoded RowDescription that are assigned")
	lf.def("pgParamDescAssigned", "List String", strList(assigned("handleParameterDescription", "parameterDescription")), "handleParameterDescription: members of the decoded ParameterDescription that are assigned")
	// the handlers replace the body only (descriptionBuf.Reset + Write(new[5:])) and leave the length buffer alone
	for _, fn := range []string{"handleRowDescription", "handleParameterDescription"} {
		fd := funcDecl("decryptor/postgresql/pg_decryptor.go", "PgProxy", fn)
		if fd == nil {
			continue
		}
		skip, touchesLen := uint64(0), false
		ast.Inspect(fd.Body, func(n ast.Node) bool {
			switch t := n.(type) {
			case *ast.CallExpr:
				if name, args, ok := wCall(t); ok && name == "Write" && len(args) == 1 {
					if se, ok := args[0].(*ast.SliceExpr); ok && se.Low != nil {
						if lit, ok := se.Low.(*ast.BasicLit); ok {
							fmt.Sscan(lit.Value, &skip)
						}
					}
				}
				if name, _, ok := wCall(t); ok && (name == "updatePacketLength" || name == "setDataLengthBuffer") {
					touchesLen = true
				}
			}
			return true
		})
		if skip == 0 {
			fail("%s: %s: `descriptionBuf.Write(new[K:])` not found", pg, fn)
		}
		lf.def("pg"+strings.ToUpper(fn[:1])+fn[1:]+"Skip", "Nat", fmt.Sprint(skip), fn+": bytes of the re-encoded message dropped in front of the body (type byte + length)")
		lf.def("pg"+strings.ToUpper(fn[:1])+fn[1:]+"UpdatesLength", "Bool", boolStr(touchesLen), fn+": does it recompute the packet length buffer")
	}
}
