package main

import (
	"go/ast"
	"go/constant"
	"go/token"
	"strconv"
)

// KeyNames: names, suffixes and index conventions of both keystore formats.
//
//	v1: keystore/filesystem/{filenames.go,key_names.go,server_keystore.go}
//	v2: keystore/v2/keystore/{storage_client.go,storage.go,hmac.go,poison.go,auditLog.go,keyStore.go},
//	    keystore/v2/keystore/filesystem/keyStoreLoad.go, backend/filesystem.go
func init() { generators = append(generators, genKeyNames) }

func strConst(env *constEnv, rel, name string) string {
	v := env.vals[name]
	if v == nil || v.Kind() != constant.String {
		fail("%s: string constant %s not found", rel, name)
		return ""
	}
	return constant.StringVal(v)
}

// sprintfFormat returns the format literal of the single `return fmt.Sprintf("<fmt>", …)` of a function.
func sprintfFormat(rel, fn string) string {
	fd := funcDecl(rel, "", fn)
	if fd == nil {
		return ""
	}
	if len(fd.Body.List) == 1 {
		if r, ok := fd.Body.List[0].(*ast.ReturnStmt); ok && len(r.Results) == 1 {
			if call, ok := r.Results[0].(*ast.CallExpr); ok && len(call.Args) >= 1 {
				if sel, ok := call.Fun.(*ast.SelectorExpr); ok && sel.Sel.Name == "Sprintf" {
					if lit, ok := call.Args[0].(*ast.BasicLit); ok && lit.Kind == token.STRING {
						s, _ := strconv.Unquote(lit.Value)
						return s
					}
				}
			}
		}
	}
	fail("%s: %s is not `return fmt.Sprintf(\"…\", …)`", rel, fn)
	return ""
}

// findIndexOffset looks, inside function fn, for an index/assignment expression of the form
// `<ident> - K` whose left operand is named `operand`, and returns K.
func findMinusConst(env *constEnv, rel, recv, fn, operand string) (uint64, bool) {
	fd := funcDecl(rel, recv, fn)
	if fd == nil {
		return 0, false
	}
	var found []uint64
	ast.Inspect(fd.Body, func(n ast.Node) bool {
		var e ast.Expr
		switch t := n.(type) {
		case *ast.IndexExpr:
			e = t.Index
		case *ast.AssignStmt:
			if len(t.Rhs) == 1 {
				e = t.Rhs[0]
			}
		}
		if be, ok := e.(*ast.BinaryExpr); ok && be.Op == token.SUB {
			if id, ok := be.X.(*ast.Ident); ok && id.Name == operand {
				if v := env.eval(be.Y); v != nil {
					found = append(found, env.intOf(be.Y, rel))
				}
			}
		}
		return true
	})
	if len(found) != 1 {
		fail("%s: %s: expected exactly one `%s - K` used as an index/assigned, found %d", rel, fn, operand, len(found))
		return 0, false
	}
	return found[0], true
}

// firstListedIndex finds `var <name> = K` / `<name> := K` inside fn.
func localInit(env *constEnv, rel, recv, fn, name string) (uint64, bool) {
	fd := funcDecl(rel, recv, fn)
	if fd == nil {
		return 0, false
	}
	var found []uint64
	ast.Inspect(fd.Body, func(n ast.Node) bool {
		switch t := n.(type) {
		case *ast.AssignStmt:
			if t.Tok == token.DEFINE && len(t.Lhs) == 1 && len(t.Rhs) == 1 {
				if id, ok := t.Lhs[0].(*ast.Ident); ok && id.Name == name && env.eval(t.Rhs[0]) != nil {
					found = append(found, env.intOf(t.Rhs[0], rel))
				}
			}
		case *ast.ValueSpec:
			if len(t.Names) == 1 && t.Names[0].Name == name && len(t.Values) == 1 && env.eval(t.Values[0]) != nil {
				found = append(found, env.intOf(t.Values[0], rel))
			}
		}
		return true
	})
	if len(found) != 1 {
		fail("%s: %s: expected exactly one initialisation of %s, found %d", rel, fn, name, len(found))
		return 0, false
	}
	return found[0], true
}

func genKeyNames() {
	lf := newLean("KeyNames", "Sources: keystore/filesystem/{filenames.go,key_names.go,server_keystore.go}, keystore/v2/keystore/*.go, keystore/v2/keystore/filesystem/{keyStoreLoad.go,backend/filesystem.go}.")
	const fnames = "keystore/filesystem/filenames.go"
	const knames = "keystore/filesystem/key_names.go"
	const sks = "keystore/filesystem/server_keystore.go"
	env := newConstEnv(fnames, knames, sks)
	q := strconv.Quote
	lf.def("v1StorageFmt", "String", q(sprintfFormat(fnames, "GetServerDecryptionKeyFilename")), fnames+": GetServerDecryptionKeyFilename")
	lf.def("v1HmacFmt", "String", q(sprintfFormat(fnames, "getHmacKeyFilename")), fnames+": getHmacKeyFilename")
	lf.def("v1PublicFmt", "String", q(sprintfFormat(fnames, "getPublicKeyFilename")), fnames+": getPublicKeyFilename")
	// getSymmetricKeyName: return id + `_sym`
	sym := ""
	if fd := funcDecl(knames, "", "getSymmetricKeyName"); fd != nil && len(fd.Body.List) == 1 {
		if r, ok := fd.Body.List[0].(*ast.ReturnStmt); ok && len(r.Results) == 1 {
			if be, ok := r.Results[0].(*ast.BinaryExpr); ok && be.Op == token.ADD {
				if lit, ok := be.Y.(*ast.BasicLit); ok {
					sym, _ = strconv.Unquote(lit.Value)
				}
			}
		}
	}
	if sym == "" {
		fail("%s: getSymmetricKeyName is not `return id + \"<suffix>\"`", knames)
	}
	lf.def("v1SymSuffix", "String", q(sym), knames+": getSymmetricKeyName")
	lf.def("v1LogKeyName", "String", q(strConst(env, fnames, "SecureLogKeyFilename")), fnames)
	lf.def("v1PoisonKeyName", "String", q(strConst(env, fnames, "PoisonKeyFilename")), fnames)
	lf.def("v1PoisonPublicName", "String", q(strConst(env, fnames, "poisonKeyFilenamePublic")), fnames)
	lf.def("v1HistoryDirSuffix", "String", q(strConst(env, fnames, "historyDirSuffix")), fnames)
	lf.def("v1TimeFormat", "String", q(strConst(env, fnames, "HistoricalFileNameTimeFormat")), fnames)
	lf.def("v1CacheListPrefix", "String", q(strConst(env, sks, "cacheKeyPrefix")), sks)
	if v, ok := localInit(env, sks, "KeyStore", "describeOldDir", "rotatedKeyIdx"); ok {
		lf.def("v1FirstListedIndex", "Nat", strconv.FormatUint(v, 10), sks+": describeOldDir numbers rotated keys from this index")
	}
	if v, ok := findMinusConst(env, sks, "KeyStore", "destroyRotatedKeyByIndex", "index"); ok {
		lf.def("v1DestroyIndexOffset", "Nat", strconv.FormatUint(v, 10), sks+": destroyRotatedKeyByIndex removes rotatedKeyFiles[index - this]")
	}

	// ---- v2
	const v2dir = "keystore/v2/keystore/"
	env2 := newConstEnv(v2dir+"storage_client.go", v2dir+"storage.go", v2dir+"hmac.go", v2dir+"poison.go", v2dir+"auditLog.go", v2dir+"keyStore.go")
	for _, c := range [][2]string{{"v2ClientPrefix", "clientPrefix"}, {"v2StorageSuffix", "storageSuffix"}, {"v2StorageSymSuffix", "storageSymmetricSuffix"},
		{"v2HmacSuffix", "hmacSymmetricSuffix"}, {"v2PoisonPath", "poisonKeyPath"}, {"v2PoisonSymPath", "poisonSymmetricKeyPath"}, {"v2AuditLogPath", "auditLogSymmetricKeyPath"}} {
		lf.def(c[0], "String", q(strConst(env2, v2dir, c[1])), v2dir+": "+c[1])
	}
	const load = "keystore/v2/keystore/filesystem/keyStoreLoad.go"
	env3 := newConstEnv(load)
	lf.def("v2KeyringSuffix", "String", q(strConst(env3, load, "keyringSuffix")), load)
	lf.def("v2NewSuffix", "String", q(strConst(env3, load, "newSuffix")), load)
	const ks2 = v2dir + "keyStore.go"
	if v, ok := localInit(env2, ks2, "ServerKeyStore", "listRotatedRings", "keyIdx"); ok {
		// Index: keyIdx + 1
		lf.def("v2FirstListedIndex", "Nat", strconv.FormatUint(v+1, 10), ks2+": listRotatedRings gives the first rotated key index keyIdx+1")
	}
	if v, ok := findMinusConst(env2, ks2, "", "destroyRingRotatedKeyByIndex", "index"); ok {
		lf.def("v2DestroyIndexOffset", "Nat", strconv.FormatUint(v, 10), ks2+": destroyRingRotatedKeyByIndex destroys rotatedActiveKeys[index - this]")
	}
	// pushASNring: Put(newPath) strictly before Rename(newPath, curPath)
	order := []string{}
	if fd := funcDecl(load, "KeyStore", "pushASNring"); fd != nil {
		ast.Inspect(fd.Body, func(n ast.Node) bool {
			if call, ok := n.(*ast.CallExpr); ok {
				if sel, ok := call.Fun.(*ast.SelectorExpr); ok {
					if x, ok := sel.X.(*ast.SelectorExpr); ok && x.Sel.Name == "fs" {
						order = append(order, sel.Sel.Name)
					}
				}
			}
			return true
		})
	}
	lf.def("v2PushCalls", "List String", strList(order), load+": back-end calls of pushASNring in source order")
	// WriteKeyFile: storage calls in source order
	wk := []string{}
	for _, fn := range []string{"WriteKeyFile", "backupHistoricalKeyFile"} {
		if fd := funcDecl(sks, "KeyStore", fn); fd != nil {
			ast.Inspect(fd.Body, func(n ast.Node) bool {
				if call, ok := n.(*ast.CallExpr); ok {
					if sel, ok := call.Fun.(*ast.SelectorExpr); ok {
						if x, ok := sel.X.(*ast.SelectorExpr); ok && x.Sel.Name == "fs" {
							wk = append(wk, fn+"."+sel.Sel.Name)
						}
						if sel.Sel.Name == "backupHistoricalKeyFile" {
							wk = append(wk, fn+".<backup>")
						}
					}
				}
				return true
			})
		}
	}
	lf.def("v1WriteKeyFileCalls", "List String", strList(wk), sks+": storage calls of WriteKeyFile and backupHistoricalKeyFile in source order")
}
