package main

import (
	"fmt"
	"go/ast"
	"go/token"
	"os"
	"path/filepath"
	"regexp"
	"sort"
	"strconv"
	"strings"
)

// SqlLiterals: sqlparser – everything the redaction model (C16) and the round-trip model (C13)
// need from the source of the parser package:
//
// valTypes      : the ValType constants of ast.go in iota order
// bindvarCases  : the cases of normalizer.sqlToBindvar: (ValType, sqltypes type, validated) where
//
//	validated = the value goes through sqltypes.NewValue (which can fail and then
//	leaves the literal in place) instead of sqltypes.MakeTrusted
//
// valueTokens   : grammar rule `value:` of sql.y – (token, ValTypes of the constructor called)
// formatCases   : SQLVal.Format – (ValType, style) with style ∈ quoted|raw|hex|bit|estr|arg|unknown
// nodes         : per AST type with a walkSubtree method (and per "carrier" struct that has none but
//
//	holds nodes): its shape (struct|slice|leaf), its fields in declaration order with
//	(name, nodeTyped, mayHoldLiteral) and the fields its walkSubtree visits, in order
//	("*" = every element of a slice type, "F.X" = only sub-field X of the elements of F)
//
// encodeMap     : sqltypes.encodeRef (byte → escape letter) and the `\x` prefix rule of encodeBytesSQL
// logCalls      : per anchored file the logging calls and the identifiers their arguments mention
func init() { generators = append(generators, genSqlLiterals) }

const sqlDir = "sqlparser"

type sqlField struct {
	name string
	typ  ast.Expr
}

type sqlPkg struct {
	types   map[string]ast.Expr                 // type name → underlying type expression
	order   []string                            // declaration order
	methods map[string]map[string]*ast.FuncDecl // type → method name → decl
	funcs   map[string]*ast.FuncDecl
}

func loadSQLPkg() *sqlPkg {
	p := &sqlPkg{types: map[string]ast.Expr{}, methods: map[string]map[string]*ast.FuncDecl{}, funcs: map[string]*ast.FuncDecl{}}
	entries, err := os.ReadDir(filepath.Join(repo, sqlDir))
	if err != nil {
		fail("%s: %v", sqlDir, err)
		return p
	}
	var files []string
	for _, e := range entries {
		n := e.Name()
		if strings.HasSuffix(n, ".go") && !strings.HasSuffix(n, "_test.go") && n != "sql.go" && n != "verif_hooks.go" {
			files = append(files, n)
		}
	}
	sort.Strings(files)
	for _, n := range files {
		f := parseFile(filepath.Join(sqlDir, n))
		if f == nil {
			continue
		}
		for _, d := range f.Decls {
			switch t := d.(type) {
			case *ast.GenDecl:
				if t.Tok != token.TYPE {
					continue
				}
				for _, s := range t.Specs {
					ts := s.(*ast.TypeSpec)
					p.types[ts.Name.Name] = ts.Type
					p.order = append(p.order, ts.Name.Name)
				}
			case *ast.FuncDecl:
				if t.Recv == nil {
					p.funcs[t.Name.Name] = t
					continue
				}
				r := recvName(t.Recv.List[0].Type)
				if p.methods[r] == nil {
					p.methods[r] = map[string]*ast.FuncDecl{}
				}
				p.methods[r][t.Name.Name] = t
			}
		}
	}
	return p
}

func (p *sqlPkg) hasMethod(t, m string) bool { return p.methods[t] != nil && p.methods[t][m] != nil }

// interface method names (explicit) and embedded interface names
func (p *sqlPkg) ifaceParts(name string) (methods []string, embedded []string, ok bool) {
	it, isIface := p.types[name].(*ast.InterfaceType)
	if !isIface {
		return nil, nil, false
	}
	for _, m := range it.Methods.List {
		if len(m.Names) == 0 {
			if id, ok := m.Type.(*ast.Ident); ok {
				embedded = append(embedded, id.Name)
			}
			continue
		}
		for _, n := range m.Names {
			methods = append(methods, n.Name)
		}
	}
	return methods, embedded, true
}

// ifaceIsNode: the interface embeds SQLNode (transitively) or is SQLNode.
func (p *sqlPkg) ifaceIsNode(name string, seen map[string]bool) bool {
	if name == "SQLNode" {
		return true
	}
	if seen[name] {
		return false
	}
	seen[name] = true
	_, emb, ok := p.ifaceParts(name)
	if !ok {
		return false
	}
	for _, e := range emb {
		if p.ifaceIsNode(e, seen) {
			return true
		}
	}
	return false
}

// implements: by method names (explicit methods of the interface and of the interfaces it embeds).
func (p *sqlPkg) allIfaceMethods(name string, seen map[string]bool) []string {
	if seen[name] {
		return nil
	}
	seen[name] = true
	ms, emb, ok := p.ifaceParts(name)
	if !ok {
		return nil
	}
	out := append([]string{}, ms...)
	for _, e := range emb {
		out = append(out, p.allIfaceMethods(e, seen)...)
	}
	return out
}

func (p *sqlPkg) implementers(iface string) []string {
	ms := p.allIfaceMethods(iface, map[string]bool{})
	var out []string
	for _, t := range p.order {
		if _, isIface := p.types[t].(*ast.InterfaceType); isIface {
			continue
		}
		all := true
		for _, m := range ms {
			if !p.hasMethod(t, m) {
				all = false
				break
			}
		}
		if all && len(ms) > 0 {
			out = append(out, t)
		}
	}
	return out
}

func baseIdent(e ast.Expr) string {
	switch t := e.(type) {
	case *ast.StarExpr:
		return baseIdent(t.X)
	case *ast.ArrayType:
		return baseIdent(t.Elt)
	case *ast.Ident:
		return t.Name
	}
	return ""
}

func (p *sqlPkg) structFields(name string) []sqlField {
	st, ok := p.types[name].(*ast.StructType)
	if !ok {
		return nil
	}
	var out []sqlField
	for _, f := range st.Fields.List {
		for _, n := range f.Names {
			if n.Name == "_" {
				continue
			}
			out = append(out, sqlField{n.Name, f.Type})
		}
	}
	return out
}

// isNodeName: the named type is an SQLNode (has walkSubtree) or a node interface.
func (p *sqlPkg) isNodeName(n string) bool {
	if p.hasMethod(n, "walkSubtree") {
		return true
	}
	return p.ifaceIsNode(n, map[string]bool{})
}

// mayHold: can a value of the named type contain an *SQLVal? Least fixpoint over the type graph
// (struct → fields, slice/pointer/alias → element, interface → implementers), computed by iteration.
func (p *sqlPkg) mayHoldSet() map[string]bool {
	deps := map[string][]string{}
	for _, n := range p.order {
		switch t := p.types[n].(type) {
		case *ast.StructType:
			for _, f := range p.structFields(n) {
				if b := baseIdent(f.typ); b != "" {
					deps[n] = append(deps[n], b)
				}
			}
		case *ast.InterfaceType:
			deps[n] = p.implementers(n)
		default:
			if b := baseIdent(t); b != "" && b != n {
				deps[n] = append(deps[n], b)
			}
		}
	}
	h := map[string]bool{"SQLVal": true}
	for changed := true; changed; {
		changed = false
		for _, n := range p.order {
			if h[n] {
				continue
			}
			for _, d := range deps[n] {
				if h[d] {
					h[n] = true
					changed = true
					break
				}
			}
		}
	}
	return h
}

func genSqlLiterals() {
	lf := newLean("SqlLiterals", "Source: sqlparser/{ast.go,ast_methods.go,normalizer.go,sql.y}, sqlparser/dependency/sqltypes/value.go, log call sites of the files anchored by C16.")
	p := loadSQLPkg()
	const astRel = sqlDir + "/ast.go"

	// ---- ValType constants
	var valTypes []string
	if f := parseFile(astRel); f != nil {
		for _, d := range f.Decls {
			gd, ok := d.(*ast.GenDecl)
			if !ok || gd.Tok != token.CONST || len(gd.Specs) == 0 {
				continue
			}
			first := gd.Specs[0].(*ast.ValueSpec)
			if len(first.Values) != 1 {
				continue
			}
			call, ok := first.Values[0].(*ast.CallExpr)
			if !ok {
				continue
			}
			if id, ok := call.Fun.(*ast.Ident); !ok || id.Name != "ValType" {
				continue
			}
			if arg, ok := call.Args[0].(*ast.Ident); !ok || arg.Name != "iota" {
				fail("%s: ValType const block does not start with ValType(iota)", astRel)
			}
			for i, s := range gd.Specs {
				vs := s.(*ast.ValueSpec)
				if i > 0 && len(vs.Values) != 0 {
					fail("%s: ValType const %s has an explicit value", astRel, vs.Names[0].Name)
				}
				for _, n := range vs.Names {
					valTypes = append(valTypes, n.Name)
				}
			}
		}
	}
	if len(valTypes) == 0 {
		fail("%s: ValType constants not found", astRel)
	}
	lf.def("valTypes", "List String", strList(valTypes), "ast.go: `const ( StrVal = ValType(iota) … )` in iota order")
	isValType := map[string]bool{}
	for _, v := range valTypes {
		isValType[v] = true
	}

	// ---- sqlToBindvar
	var bvRows []string
	if fd := p.methods["normalizer"]["sqlToBindvar"]; fd == nil {
		fail("%s/normalizer.go: normalizer.sqlToBindvar not found", sqlDir)
	} else {
		var sw *ast.SwitchStmt
		ast.Inspect(fd.Body, func(n ast.Node) bool {
			if s, ok := n.(*ast.SwitchStmt); ok && sw == nil {
				if sel, ok := s.Tag.(*ast.SelectorExpr); ok && sel.Sel.Name == "Type" {
					sw = s
				}
			}
			return true
		})
		if sw == nil {
			fail("normalizer.sqlToBindvar: `switch node.Type` not found")
		} else {
			for _, c := range sw.Body.List {
				cc := c.(*ast.CaseClause)
				if cc.List == nil {
					continue // default
				}
				typ, validated, found := "", false, false
				for _, st := range cc.Body {
					ast.Inspect(st, func(n ast.Node) bool {
						call, ok := n.(*ast.CallExpr)
						if !ok {
							return true
						}
						sel, ok := call.Fun.(*ast.SelectorExpr)
						if !ok || (sel.Sel.Name != "NewValue" && sel.Sel.Name != "MakeTrusted") || len(call.Args) != 2 {
							return true
						}
						if ts, ok := call.Args[0].(*ast.SelectorExpr); ok {
							typ = ts.Sel.Name
						}
						if sel.Sel.Name == "NewValue" {
							validated = true
						}
						found = true
						return true
					})
				}
				if !found || typ == "" {
					fail("normalizer.sqlToBindvar: a case does not call sqltypes.NewValue/MakeTrusted(sqltypes.T, node.Val)")
					continue
				}
				for _, e := range cc.List {
					id, ok := e.(*ast.Ident)
					if !ok || !isValType[id.Name] {
						fail("normalizer.sqlToBindvar: case label is not a ValType constant")
						continue
					}
					bvRows = append(bvRows, fmt.Sprintf("(%q, %q, %s)", id.Name, typ, boolStr(validated)))
				}
			}
		}
	}
	lf.def("bindvarCases", "List (String × String × Bool)", "["+strings.Join(bvRows, ", ")+"]",
		"normalizer.sqlToBindvar: (ValType case, sqltypes type of the bind value, goes through the failing validator sqltypes.NewValue)")

	// ---- constructors → ValType
	ctor := map[string][]string{}
	for name, fd := range p.funcs {
		if fd.Type.Results == nil || fd.Body == nil {
			continue
		}
		if baseIdent(fd.Type.Results.List[0].Type) != "SQLVal" {
			continue
		}
		ast.Inspect(fd.Body, func(n ast.Node) bool {
			cl, ok := n.(*ast.CompositeLit)
			if !ok {
				return true
			}
			if id, ok := cl.Type.(*ast.Ident); !ok || id.Name != "SQLVal" {
				return true
			}
			for _, el := range cl.Elts {
				kv, ok := el.(*ast.KeyValueExpr)
				if !ok {
					continue
				}
				if k, ok := kv.Key.(*ast.Ident); ok && k.Name == "Type" {
					if v, ok := kv.Value.(*ast.Ident); ok && isValType[v.Name] {
						ctor[name] = append(ctor[name], v.Name)
					} else {
						ctor[name] = append(ctor[name], "<copied>")
					}
				}
			}
			return true
		})
	}
	// ---- grammar rule `value:`
	var tokRows []string
	if src, err := os.ReadFile(filepath.Join(repo, sqlDir, "sql.y")); err != nil {
		fail("%s/sql.y: %v", sqlDir, err)
	} else {
		lines := strings.Split(string(src), "\n")
		start := -1
		for i, l := range lines {
			if l == "value:" {
				start = i
				break
			}
		}
		if start < 0 {
			fail("sql.y: rule `value:` not found")
		} else {
			ruleStart := regexp.MustCompile(`^[a-z_][a-z_0-9]*:`)
			ctorCall := regexp.MustCompile(`\b(New[A-Za-z]+)\(`)
			altHead := regexp.MustCompile(`^\s*\|?\s*([A-Za-z_' ][A-Za-z_0-9' ]*)$`)
			var alt string
			depth := 0
			var body strings.Builder
			flush := func() {
				if alt == "" {
					return
				}
				var ts []string
				for _, m := range ctorCall.FindAllStringSubmatch(body.String(), -1) {
					ts = append(ts, ctor[m[1]]...)
					if _, ok := ctor[m[1]]; !ok {
						fail("sql.y value: constructor %s not found in ast.go", m[1])
					}
				}
				tokRows = append(tokRows, fmt.Sprintf("(%q, %s)", alt, strList(ts)))
				alt = ""
				body.Reset()
			}
			for _, l := range lines[start+1:] {
				if depth == 0 && ruleStart.MatchString(l) {
					break
				}
				if depth == 0 {
					if m := altHead.FindStringSubmatch(l); m != nil && strings.TrimSpace(m[1]) != "" {
						flush()
						alt = strings.Join(strings.Fields(m[1]), " ")
						continue
					}
				}
				depth += strings.Count(l, "{") - strings.Count(l, "}")
				body.WriteString(l)
				body.WriteByte('\n')
			}
			flush()
			if len(tokRows) == 0 {
				fail("sql.y: rule `value:` has no alternatives")
			}
		}
	}
	lf.def("valueTokens", "List (String × List String)", "[\n  "+strings.Join(tokRows, ",\n  ")+"]",
		"sql.y rule `value:` – (right-hand side, ValTypes of the SQLVal constructor its action calls; \"<copied>\" = type copied from the operand)")

	// ---- SQLVal.Format
	var fmtRows []string
	if fd := p.methods["SQLVal"]["Format"]; fd == nil {
		fail("ast_methods.go: SQLVal.Format not found")
	} else {
		var sw *ast.SwitchStmt
		for _, st := range fd.Body.List {
			if s, ok := st.(*ast.SwitchStmt); ok {
				sw = s
			}
		}
		if sw == nil {
			fail("SQLVal.Format: switch not found")
		} else {
			for _, c := range sw.Body.List {
				cc := c.(*ast.CaseClause)
				if cc.List == nil {
					continue
				}
				style := ""
				for _, st := range cc.Body {
					ast.Inspect(st, func(n ast.Node) bool {
						call, ok := n.(*ast.CallExpr)
						if !ok || style != "" {
							return true
						}
						sel, ok := call.Fun.(*ast.SelectorExpr)
						if !ok {
							return true
						}
						switch sel.Sel.Name {
						case "EncodeSQL":
							style = "quoted"
						case "WriteArg":
							style = "arg"
						case "Format":
							style = "unknown"
						case "Myprintf":
							if bl, ok := call.Args[0].(*ast.BasicLit); ok {
								f, _ := strconv.Unquote(bl.Value)
								switch f {
								case "%s":
									style = "raw"
								case "X'%s'":
									style = "hex"
								case "B'%s'":
									style = "bit"
								case "E'%s'":
									style = "estr"
								default:
									style = "fmt:" + f
								}
							}
						}
						return true
					})
				}
				if style == "" {
					fail("SQLVal.Format: unrecognised case body")
				}
				for _, e := range cc.List {
					if id, ok := e.(*ast.Ident); ok && isValType[id.Name] {
						fmtRows = append(fmtRows, fmt.Sprintf("(%q, %q)", id.Name, style))
					} else {
						fail("SQLVal.Format: case label is not a ValType constant")
					}
				}
			}
		}
	}
	lf.def("formatCases", "List (String × String)", "["+strings.Join(fmtRows, ", ")+"]", "SQLVal.Format: (ValType, how node.Val is printed)")

	// ---- node table
	holds := p.mayHoldSet()
	isCarrier := func(n string) bool {
		if p.hasMethod(n, "walkSubtree") {
			return false
		}
		if _, ok := p.types[n].(*ast.StructType); !ok {
			return false
		}
		for _, f := range p.structFields(n) {
			if b := baseIdent(f.typ); b != "" && (p.isNodeName(b)) {
				return true
			}
		}
		return false
	}
	var rows []string
	nodeCount := 0
	for _, name := range p.order {
		hasWalk := p.hasMethod(name, "walkSubtree")
		if !hasWalk && !isCarrier(name) {
			continue
		}
		if name == "normalizer" || name == "Tokenizer" || name == "yySymType" || name == "TrackedBuffer" || name == "Parser" || name == "TupleEqualityList" {
			continue // not AST types (hold nodes but are never part of a tree)
		}
		nodeCount++
		shape := "leaf"
		var fields []string
		switch t := p.types[name].(type) {
		case *ast.StructType:
			shape = "struct"
			for _, f := range p.structFields(name) {
				b := baseIdent(f.typ)
				nodeTyped := b != "" && (p.isNodeName(b) || isCarrier(b))
				hold := b != "" && holds[b]
				fields = append(fields, fmt.Sprintf("(%q, %s, %s)", f.name, boolStr(nodeTyped), boolStr(hold)))
			}
		case *ast.ArrayType:
			b := baseIdent(t)
			if b != "" && b != "byte" && (p.isNodeName(b) || isCarrier(b)) {
				shape = "slice"
			} else if at, ok := t.Elt.(*ast.ArrayType); ok && baseIdent(at) == "byte" {
				shape = "leaf"
			}
		case *ast.Ident:
			if p.isNodeName(t.Name) {
				shape = "slice" // alias of a slice type (ValTuple Exprs, OnDup UpdateExprs, Partitions Columns, Returning SelectExprs)
			}
		}
		var walked []string
		if hasWalk {
			walked = walkedFields(p, name, shape)
		}
		rows = append(rows, fmt.Sprintf("(%q, %q, [%s], %s)", name, shape, strings.Join(fields, ", "), strList(walked)))
	}
	if nodeCount < 60 {
		fail("sqlparser: only %d AST node types found (expected ≥ 60)", nodeCount)
	}
	lf.def("nodes", "List (String × String × List (String × Bool × Bool) × List String)", "[\n  "+strings.Join(rows, ",\n  ")+"]",
		"AST types: (name, shape, fields (name, node-typed, may hold an SQLVal), fields visited by walkSubtree in order; \"*\" = all elements, \"F.X\" = only X of each element of F)")

	// ---- Acra's own masking pass (redact_query.go) and the order of the passes
	var maskRows []string
	if fd := p.funcs["maskLiterals"]; fd == nil {
		fail("%s/redact_query.go: maskLiterals not found (the pass that masks the literals Normalize leaves)", sqlDir)
	} else {
		var sw *ast.SwitchStmt
		ast.Inspect(fd.Body, func(n ast.Node) bool {
			if s, ok := n.(*ast.SwitchStmt); ok && sw == nil {
				if sel, ok := s.Tag.(*ast.SelectorExpr); ok && sel.Sel.Name == "Type" {
					sw = s
				}
			}
			return true
		})
		if sw == nil {
			fail("maskLiterals: `switch val.Type` not found")
		} else {
			for _, c := range sw.Body.List {
				cc := c.(*ast.CaseClause)
				assigns := false
				for _, st := range cc.Body {
					ast.Inspect(st, func(n ast.Node) bool {
						if as, ok := n.(*ast.AssignStmt); ok {
							if sel, ok := as.Lhs[0].(*ast.SelectorExpr); ok && sel.Sel.Name == "Type" {
								if id, ok := as.Rhs[0].(*ast.Ident); ok && id.Name == "ValArg" {
									assigns = true
								}
							}
						}
						return true
					})
				}
				if !assigns {
					continue
				}
				for _, e := range cc.List {
					if id, ok := e.(*ast.Ident); ok && isValType[id.Name] {
						maskRows = append(maskRows, strconv.Quote(id.Name))
					} else {
						fail("maskLiterals: case label is not a ValType constant")
					}
				}
			}
		}
	}
	lf.def("maskCases", "List String", "["+strings.Join(maskRows, ", ")+"]", "redact_query.go maskLiterals: the ValTypes whose case turns the node into a ValArg placeholder")
	var pipeRows []string
	for _, fn := range []struct{ recv, name string }{{"", "RedactSQLQuery"}, {"Parser", "HandleRawSQLQuery"}} {
		var fd *ast.FuncDecl
		if fn.recv == "" {
			fd = p.funcs[fn.name]
		} else if p.methods[fn.recv] != nil {
			fd = p.methods[fn.recv][fn.name]
		}
		if fd == nil {
			fail("sqlparser: %s not found", fn.name)
			continue
		}
		var calls []string
		ast.Inspect(fd.Body, func(n ast.Node) bool {
			call, ok := n.(*ast.CallExpr)
			if !ok {
				return true
			}
			name := ""
			switch f := call.Fun.(type) {
			case *ast.Ident:
				name = f.Name
			case *ast.SelectorExpr:
				name = f.Sel.Name
			}
			switch name {
			case "Normalize", "maskLiterals", "String", "Parse":
				// String(x): record which variable is printed
				if name == "String" && len(call.Args) == 1 {
					if id, ok := call.Args[0].(*ast.Ident); ok {
						name = "String(" + id.Name + ")"
					}
				}
				if (name == "Normalize" || name == "maskLiterals") && len(call.Args) >= 1 {
					if id, ok := call.Args[0].(*ast.Ident); ok {
						name = name + "(" + id.Name + ")"
					}
				}
				calls = append(calls, name)
			}
			return true
		})
		pipeRows = append(pipeRows, fmt.Sprintf("(%q, %s)", fn.name, strList(calls)))
	}
	lf.def("redactPipeline", "List (String × List String)", "[\n  "+strings.Join(pipeRows, ",\n  ")+"]",
		"RedactSQLQuery / Parser.HandleRawSQLQuery: their calls of Parse, Normalize, maskLiterals and String in source order (with the variable passed)")

	genEncodeMap(lf)
	genLogCalls(lf)
}

// walkedFields lists, in source order, the receiver's fields that the walkSubtree body hands to Walk.
func walkedFields(p *sqlPkg, name, shape string) []string {
	fd := p.methods[name]["walkSubtree"]
	if fd.Recv == nil || len(fd.Recv.List[0].Names) == 0 {
		return nil // receiver unnamed: body cannot reference it
	}
	recv := fd.Recv.List[0].Names[0].Name
	if shape != "struct" {
		// slice types: `for _, n := range node { Walk(visit, n) }` or Walk(visit, Conv(node))
		all := false
		ast.Inspect(fd.Body, func(n ast.Node) bool {
			switch t := n.(type) {
			case *ast.RangeStmt:
				if id, ok := t.X.(*ast.Ident); ok && id.Name == recv && t.Value != nil && callsWalkWith(t.Body, t.Value.(*ast.Ident).Name) {
					all = true
				}
			case *ast.CallExpr:
				if id, ok := t.Fun.(*ast.Ident); ok && id.Name == "Walk" {
					for _, a := range t.Args[1:] {
						if conv, ok := a.(*ast.CallExpr); ok && len(conv.Args) == 1 {
							if cf, ok := conv.Fun.(*ast.Ident); ok && p.isNodeName(cf.Name) {
								if id, ok := conv.Args[0].(*ast.Ident); ok && id.Name == recv {
									all = true
								}
							}
						}
					}
				}
			}
			return true
		})
		if all {
			return []string{"*"}
		}
		return nil
	}
	var out []string
	var visitStmt func(st ast.Stmt)
	walkArgs := func(call *ast.CallExpr) {
		id, ok := call.Fun.(*ast.Ident)
		if !ok || id.Name != "Walk" {
			return
		}
		for _, a := range call.Args[1:] {
			if u, ok := a.(*ast.UnaryExpr); ok && u.Op == token.AND {
				a = u.X
			}
			if sel, ok := a.(*ast.SelectorExpr); ok {
				if x, ok := sel.X.(*ast.Ident); ok && x.Name == recv {
					out = append(out, sel.Sel.Name)
				}
			}
		}
	}
	var visitNode func(n ast.Node)
	visitNode = func(n ast.Node) {
		ast.Inspect(n, func(m ast.Node) bool {
			switch t := m.(type) {
			case *ast.RangeStmt:
				sel, ok := t.X.(*ast.SelectorExpr)
				if !ok {
					return true
				}
				x, ok := sel.X.(*ast.Ident)
				if !ok || x.Name != recv || t.Value == nil {
					return true
				}
				v := t.Value.(*ast.Ident).Name
				if callsWalkWith(t.Body, v) {
					out = append(out, sel.Sel.Name)
				} else if sub := walkSubField(t.Body, v); sub != "" {
					out = append(out, sel.Sel.Name+"."+sub)
				}
				return false
			case *ast.CallExpr:
				walkArgs(t)
			}
			return true
		})
	}
	_ = visitStmt
	visitNode(fd.Body)
	return out
}

func callsWalkWith(body ast.Node, v string) bool {
	found := false
	ast.Inspect(body, func(n ast.Node) bool {
		call, ok := n.(*ast.CallExpr)
		if !ok {
			return true
		}
		if id, ok := call.Fun.(*ast.Ident); !ok || id.Name != "Walk" {
			return true
		}
		for _, a := range call.Args[1:] {
			if u, ok := a.(*ast.UnaryExpr); ok && u.Op == token.AND {
				a = u.X
			}
			if id, ok := a.(*ast.Ident); ok && id.Name == v {
				found = true
			}
		}
		return true
	})
	return found
}

func walkSubField(body ast.Node, v string) string {
	sub := ""
	ast.Inspect(body, func(n ast.Node) bool {
		call, ok := n.(*ast.CallExpr)
		if !ok {
			return true
		}
		if id, ok := call.Fun.(*ast.Ident); !ok || id.Name != "Walk" {
			return true
		}
		for _, a := range call.Args[1:] {
			if sel, ok := a.(*ast.SelectorExpr); ok {
				if x, ok := sel.X.(*ast.Ident); ok && x.Name == v {
					sub = sel.Sel.Name
				}
			}
		}
		return true
	})
	return sub
}

// ---- sqltypes: escape table and the `\x` prefix rule
func genEncodeMap(lf *leanFile) {
	const rel = sqlDir + "/dependency/sqltypes/value.go"
	f := parseFile(rel)
	if f == nil {
		return
	}
	env := newConstEnv(rel)
	var pairs []string
	var hexPrefix []uint64
	found := false
	for _, d := range f.Decls {
		gd, ok := d.(*ast.GenDecl)
		if !ok || gd.Tok != token.VAR {
			continue
		}
		for _, s := range gd.Specs {
			vs := s.(*ast.ValueSpec)
			if len(vs.Values) != 1 {
				continue
			}
			cl, ok := vs.Values[0].(*ast.CompositeLit)
			if !ok {
				continue
			}
			switch vs.Names[0].Name {
			case "encodeRef":
				found = true
				type pr struct{ k, v uint64 }
				var ps []pr
				for _, el := range cl.Elts {
					kv := el.(*ast.KeyValueExpr)
					ps = append(ps, pr{charVal(env, kv.Key, rel), charVal(env, kv.Value, rel)})
				}
				sort.Slice(ps, func(i, j int) bool { return ps[i].k < ps[j].k })
				for _, x := range ps {
					pairs = append(pairs, fmt.Sprintf("(%d, %d)", x.k, x.v))
				}
			case "hexPrefix":
				for _, el := range cl.Elts {
					hexPrefix = append(hexPrefix, charVal(env, el, rel))
				}
			}
		}
	}
	if !found {
		fail("%s: encodeRef not found", rel)
	}
	lf.def("encodeRef", "List (Nat × Nat)", "["+strings.Join(pairs, ", ")+"]", "sqltypes.encodeRef: byte → escape letter written after a backslash (sorted by byte)")
	lf.def("hexPrefix", "List Nat", natList(hexPrefix), "sqltypes.hexPrefix: a value starting with these bytes keeps them unescaped in encodeBytesSQL")
	dont := env.eval(&ast.Ident{Name: "DontEscape"})
	if dont == nil {
		fail("%s: DontEscape not found", rel)
	} else {
		lf.def("dontEscape", "Nat", dont.ExactString(), "sqltypes.DontEscape")
	}
}

func charVal(env *constEnv, e ast.Expr, where string) uint64 {
	if bl, ok := e.(*ast.BasicLit); ok && bl.Kind == token.CHAR {
		r, _, _, err := strconv.UnquoteChar(bl.Value[1:len(bl.Value)-1], '\'')
		if err != nil {
			fail("%s: bad char literal %s", where, bl.Value)
		}
		return uint64(r)
	}
	return env.intOf(e, where)
}

// ---- log call sites of the anchored files
//
// For every call `<x>.{Debug,Info,Warn,Warning,Error}{,f,ln}(…)` (also through WithField/WithError
// chains) in the anchored files: the enclosing function and every identifier mentioned anywhere in
// the call chain's arguments. The Lean side states which identifiers carry statement text that must
// not be printed (raw / normalised) and which carry the redacted text.
var logAnchors = []string{
	"acra-censor/acra-censor_implementation.go",
	"acra-censor/common/logging_logic.go",
	"acra-censor/handlers/querycapture_handler.go",
	"acra-censor/handlers/allow_handler.go",
	"acra-censor/handlers/deny_handler.go",
	"acra-censor/handlers/allowall_handler.go",
	"acra-censor/handlers/denyall_handler.go",
	"acra-censor/handlers/queryignore_handler.go",
	"decryptor/postgresql/pg_decryptor.go",
	"decryptor/mysql/response_proxy.go",
	"sqlparser/ast_methods.go",
}

var logMethod = regexp.MustCompile(`^((Debug|Info|Warn|Warning|Error|Print|Trace)(f|ln)?|WithField|WithFields|WithError)$`)

func genLogCalls(lf *leanFile) {
	type key struct{ rel, fn string }
	union := map[key]map[string]bool{}
	var order []key
	total := 0
	for _, rel := range logAnchors {
		f := parseFile(rel)
		if f == nil {
			continue
		}
		for _, d := range f.Decls {
			fd, ok := d.(*ast.FuncDecl)
			if !ok || fd.Body == nil {
				continue
			}
			fname := fd.Name.Name
			if fd.Recv != nil {
				fname = recvName(fd.Recv.List[0].Type) + "." + fname
			}
			k := key{rel, fname}
			ast.Inspect(fd.Body, func(n ast.Node) bool {
				call, ok := n.(*ast.CallExpr)
				if !ok {
					return true
				}
				sel, ok := call.Fun.(*ast.SelectorExpr)
				if !ok || !logMethod.MatchString(sel.Sel.Name) {
					return true
				}
				// the receiver chain must mention something logger-like (log, logger, logrus, clientLog, …)
				if !chainMentionsLog(sel.X) {
					return true
				}
				if union[k] == nil {
					union[k] = map[string]bool{}
					order = append(order, k)
				}
				for _, a := range call.Args {
					ast.Inspect(a, func(m ast.Node) bool {
						switch t := m.(type) {
						case *ast.SelectorExpr:
							union[k][t.Sel.Name] = true
						case *ast.Ident:
							union[k][t.Name] = true
						}
						return true
					})
				}
				total++
				return true
			})
		}
	}
	if total < 60 {
		fail("log call extraction found only %d call sites in the anchored files", total)
	}
	var rows []string
	for _, k := range order {
		var names []string
		for n := range union[k] {
			names = append(names, n)
		}
		sort.Strings(names)
		rows = append(rows, fmt.Sprintf("(%q, %q, %s)", k.rel, k.fn, strList(names)))
	}
	lf.def("logIdents", "List (String × String × List String)", "[\n  "+strings.Join(rows, ",\n  ")+"]",
		"per function of the anchored files that logs: every identifier mentioned in the arguments of its calls of logging methods (Debug…Error, f/ln forms) and of WithField/WithFields/WithError on a logger")
	lf.def("logCallCount", "Nat", strconv.Itoa(total), "number of such calls")
}

// chainMentionsLog: some identifier or selector in the receiver chain contains "log".
func chainMentionsLog(e ast.Expr) bool {
	found := false
	ast.Inspect(e, func(n ast.Node) bool {
		switch t := n.(type) {
		case *ast.CallExpr:
			// do not look into arguments, only into the function expression
			ast.Inspect(t.Fun, func(m ast.Node) bool {
				if id, ok := m.(*ast.Ident); ok && strings.Contains(strings.ToLower(id.Name), "log") {
					found = true
				}
				return true
			})
			return false
		case *ast.Ident:
			if strings.Contains(strings.ToLower(t.Name), "log") {
				found = true
			}
		}
		return true
	})
	return found
}
