package main

import (
	"fmt"
	"go/ast"
	"go/token"
	"strings"
)

// LenEnc: decryptor/mysql/base/utils.go – the MySQL length-encoded integer codec.
//
// readCases  : for each `case M:` of the switch in LengthEncodedInt: marker M, the K of the guard
//              `len(data) < K`, the assigned n, whether it sets isNull, and the (index, shift) pairs
//              of the OR-expression assigned to num.
// readDefault: index/shift pairs and n of the fall-through path.
// putCases   : for each `case n <= T:` of PutLengthEncodedInt: threshold T, marker byte (first
//              element of the literal when it is a constant) and the shifts of the remaining elements.
func init() { generators = append(generators, genLenEnc) }

func genLenEnc() {
	const rel = "decryptor/mysql/base/utils.go"
	lf := newLean("LenEnc", "Source: "+rel+" (LengthEncodedInt, PutLengthEncodedInt, LengthEncodedString).")
	env := newConstEnv(rel)

	fd := funcDecl(rel, "", "LengthEncodedInt")
	if fd == nil {
		return
	}
	var sw *ast.SwitchStmt
	var emptyGuard bool
	for _, st := range fd.Body.List {
		switch s := st.(type) {
		case *ast.SwitchStmt:
			sw = s
		case *ast.IfStmt:
			// if len(data) == 0 { … return …, ErrMalformPacket }
			if be, ok := s.Cond.(*ast.BinaryExpr); ok && be.Op == token.EQL && isLenOf(be.X, "data") && env.eval(be.Y) != nil && env.intOf(be.Y, rel) == 0 && returnsErr(s.Body) {
				emptyGuard = true
			}
		}
	}
	if sw == nil {
		fail("%s: LengthEncodedInt: switch not found", rel)
		return
	}
	var rows []string
	for _, c := range sw.Body.List {
		cc := c.(*ast.CaseClause)
		if len(cc.List) != 1 {
			fail("%s: LengthEncodedInt: unexpected case shape", rel)
			continue
		}
		marker := env.intOf(cc.List[0], rel)
		var guard, n uint64
		isNull := false
		var pairs [][2]uint64
		for _, st := range cc.Body {
			switch s := st.(type) {
			case *ast.IfStmt:
				if be, ok := s.Cond.(*ast.BinaryExpr); ok && be.Op == token.LSS && isLenOf(be.X, "data") && returnsErr(s.Body) {
					guard = env.intOf(be.Y, rel)
				} else {
					fail("%s: LengthEncodedInt case %d: unexpected guard", rel, marker)
				}
			case *ast.AssignStmt:
				lhs := s.Lhs[0].(*ast.Ident).Name
				switch lhs {
				case "n":
					n = env.intOf(s.Rhs[0], rel)
				case "isNull":
					isNull = s.Rhs[0].(*ast.Ident).Name == "true"
				case "num":
					pairs = orPairs(env, s.Rhs[0], rel)
				default:
					fail("%s: LengthEncodedInt case %d: unexpected assignment to %s", rel, marker, lhs)
				}
			case *ast.ReturnStmt:
			default:
				fail("%s: LengthEncodedInt case %d: unexpected statement", rel, marker)
			}
		}
		rows = append(rows, fmt.Sprintf("(%d, %d, %d, %s, %s)", marker, guard, n, boolStr(isNull), pairList(pairs)))
	}
	lf.def("emptyIsError", "Bool", boolStr(emptyGuard), "LengthEncodedInt: `if len(data) == 0 { return …, ErrMalformPacket }` present")
	lf.def("readCases", "List (Nat × Nat × Nat × Bool × List (Nat × Nat))", "[\n  "+strings.Join(rows, ",\n  ")+"]",
		"LengthEncodedInt switch: (marker, K of `len(data) < K`, n, isNull, [(index, shift)] of num)")
	// default path after the switch: num = uint64(data[0]); n = 1
	var dn uint64
	var dpairs [][2]uint64
	after := false
	for _, st := range fd.Body.List {
		if st == ast.Stmt(sw) {
			after = true
			continue
		}
		if !after {
			continue
		}
		if as, ok := st.(*ast.AssignStmt); ok {
			switch as.Lhs[0].(*ast.Ident).Name {
			case "n":
				dn = env.intOf(as.Rhs[0], rel)
			case "num":
				dpairs = orPairs(env, as.Rhs[0], rel)
			}
		}
	}
	lf.def("readDefault", "Nat × List (Nat × Nat)", fmt.Sprintf("(%d, %s)", dn, pairList(dpairs)), "LengthEncodedInt fall-through: (n, [(index, shift)] of num)")

	// PutLengthEncodedInt
	pd := funcDecl(rel, "", "PutLengthEncodedInt")
	if pd == nil {
		return
	}
	var psw *ast.SwitchStmt
	for _, st := range pd.Body.List {
		if s, ok := st.(*ast.SwitchStmt); ok {
			psw = s
		}
	}
	if psw == nil || psw.Tag != nil {
		fail("%s: PutLengthEncodedInt: tagless switch not found", rel)
		return
	}
	var prow []string
	for _, c := range psw.Body.List {
		cc := c.(*ast.CaseClause)
		be, ok := cc.List[0].(*ast.BinaryExpr)
		if !ok || be.Op != token.LEQ {
			fail("%s: PutLengthEncodedInt: case is not `n <= T`", rel)
			continue
		}
		th := env.intOf(be.Y, rel)
		ret, ok := cc.Body[0].(*ast.ReturnStmt)
		if !ok {
			fail("%s: PutLengthEncodedInt: case body is not a return", rel)
			continue
		}
		cl, ok := ret.Results[0].(*ast.CompositeLit)
		if !ok {
			fail("%s: PutLengthEncodedInt: return value is not a literal", rel)
			continue
		}
		marker := int64(-1)
		var shifts []uint64
		for i, el := range cl.Elts {
			if i == 0 {
				if v := env.eval(el); v != nil {
					marker = int64(env.intOf(el, rel))
					continue
				}
			}
			sh, ok := byteOfShift(env, el, "n", rel)
			if !ok {
				fail("%s: PutLengthEncodedInt: element %d is not byte(n >> k)", rel, i)
			}
			shifts = append(shifts, sh)
		}
		prow = append(prow, fmt.Sprintf("(%d, %d, %s)", th, marker, natList(shifts)))
	}
	lf.def("putCases", "List (Nat × Int × List Nat)", "[\n  "+strings.Join(prow, ",\n  ")+"]",
		"PutLengthEncodedInt: (threshold T of `n <= T`, marker byte or -1, shifts of the byte(n >> k) elements)")

	// LengthEncodedString: does it look at the error of LengthEncodedInt before using num?
	sd := funcDecl(rel, "", "LengthEncodedString")
	if sd != nil {
		lf.def("strChecksErrFirst", "Bool", boolStr(checksErrBeforeUse(sd)), "LengthEncodedString: `err` of LengthEncodedInt is tested before `num` is used")
	}
}

func isLenOf(e ast.Expr, name string) bool {
	c, ok := e.(*ast.CallExpr)
	if !ok || len(c.Args) != 1 {
		return false
	}
	f, ok := c.Fun.(*ast.Ident)
	a, ok2 := c.Args[0].(*ast.Ident)
	return ok && ok2 && f.Name == "len" && a.Name == name
}

func returnsErr(b *ast.BlockStmt) bool {
	for _, st := range b.List {
		if r, ok := st.(*ast.ReturnStmt); ok && len(r.Results) > 0 {
			last := r.Results[len(r.Results)-1]
			if id, ok := last.(*ast.Ident); ok && id.Name != "nil" {
				return true
			}
			if _, ok := last.(*ast.SelectorExpr); ok {
				return true
			}
		}
	}
	return false
}

// orPairs decomposes uint64(data[i]) | uint64(data[j])<<k | … into (index, shift) pairs.
func orPairs(env *constEnv, e ast.Expr, where string) [][2]uint64 {
	switch t := e.(type) {
	case *ast.ParenExpr:
		return orPairs(env, t.X, where)
	case *ast.BinaryExpr:
		if t.Op == token.OR {
			return append(orPairs(env, t.X, where), orPairs(env, t.Y, where)...)
		}
		if t.Op == token.SHL {
			idx, ok := dataIndex(env, t.X, where)
			if ok {
				return [][2]uint64{{idx, env.intOf(t.Y, where)}}
			}
		}
	case *ast.CallExpr:
		if idx, ok := dataIndex(env, t, where); ok {
			return [][2]uint64{{idx, 0}}
		}
	}
	fail("%s: expression is not an OR of uint64(data[i])<<k terms", where)
	return nil
}

func dataIndex(env *constEnv, e ast.Expr, where string) (uint64, bool) {
	c, ok := e.(*ast.CallExpr)
	if !ok || len(c.Args) != 1 {
		return 0, false
	}
	if f, ok := c.Fun.(*ast.Ident); !ok || f.Name != "uint64" {
		return 0, false
	}
	ix, ok := c.Args[0].(*ast.IndexExpr)
	if !ok {
		return 0, false
	}
	if id, ok := ix.X.(*ast.Ident); !ok || id.Name != "data" {
		return 0, false
	}
	return env.intOf(ix.Index, where), true
}

// byteOfShift recognises byte(v) and byte(v >> k).
func byteOfShift(env *constEnv, e ast.Expr, v string, where string) (uint64, bool) {
	c, ok := e.(*ast.CallExpr)
	if !ok || len(c.Args) != 1 {
		return 0, false
	}
	if f, ok := c.Fun.(*ast.Ident); !ok || f.Name != "byte" {
		return 0, false
	}
	switch a := c.Args[0].(type) {
	case *ast.Ident:
		return 0, a.Name == v
	case *ast.BinaryExpr:
		if id, ok := a.X.(*ast.Ident); ok && id.Name == v && a.Op == token.SHR {
			return env.intOf(a.Y, where), true
		}
	}
	return 0, false
}

func pairList(p [][2]uint64) string {
	s := make([]string, len(p))
	for i, x := range p {
		s[i] = fmt.Sprintf("(%d, %d)", x[0], x[1])
	}
	return "[" + strings.Join(s, ", ") + "]"
}

// checksErrBeforeUse: true when an `if err != nil` (returning) precedes the first use of `num`
// in an arithmetic/conversion context.
func checksErrBeforeUse(fd *ast.FuncDecl) bool {
	for _, st := range fd.Body.List {
		if is, ok := st.(*ast.IfStmt); ok {
			if be, ok := is.Cond.(*ast.BinaryExpr); ok && be.Op == token.NEQ {
				if id, ok := be.X.(*ast.Ident); ok && id.Name == "err" && returnsErr(is.Body) {
					return true
				}
			}
		}
		used := false
		ast.Inspect(st, func(n ast.Node) bool {
			if as, ok := n.(*ast.AssignStmt); ok && as.Tok == token.DEFINE {
				return false
			}
			if id, ok := n.(*ast.Ident); ok && id.Name == "num" {
				used = true
			}
			return true
		})
		if used {
			return false
		}
	}
	return false
}
