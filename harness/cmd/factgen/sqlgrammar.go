package main

// sqlgrammar.go – which right-hand-side symbols of the grammar the actions of sqlparser/sql.y really use (C13;
// lean/AcraModel/Sql/Grammar.lean, Props/C13 `grammar_uses_every_operand`, `derivation_keeps_lexemes`).
//
// A grammar alternative `lhs: s1 s2 … sn { action }` reads the symbols s1 … sn; what the parser keeps of them is
// what the action puts into `$$`. An action that ignores a symbol which carries meaning (`Escape: $5` left out of the
// NOT ILIKE alternative, `OnDup: OnDup($8)` left out of INSERT … SET) drops a clause of the statement at parse time:
// the tree is self-consistent, print and re-parse agree, and the statement sent to the database is another one.
//
//   symbolClasses   every symbol that occurs on a right-hand side reachable from the DML statements, with its class:
//                   lex  – a token that carries a lexeme (the %token line that declares ID … INTEGRAL … LIST_ARG)
//                   kw   – any other token (keywords, operators, punctuation: the text is fixed by the alternative)
//                   sem  – a non-terminal with a semantic value (%type <t>, t ≠ empty)
//                   void – a non-terminal without one (<empty> or no %type)
//   grammarAlts     for every alternative of every rule reachable from select_statement / insert_statement /
//                   update_statement / delete_statement: (rule, alternative, production number in the file,
//                   right-hand side, positions whose value FLOWS into `$$`, positions the action mentions at all).
//                   Flow: a small data-flow analysis of the action (Go after `$`-substitution): `x := e`, `x.F = e`,
//                   `x = append(x, e)`, `for _, v := range e`, `x.M(e)` propagate; `len(e)` / `cap(e)` do not (a length
//                   carries no content); the condition of an `if` / `switch` flows into everything assigned under it;
//                   `setParseTree(yylex, e)` is a sink like `$$`. Without an unconditional `$$ = …` yacc's default
//                   `$$ = $1` applies (when both have the same %type).
//   voidLexFree     the void non-terminals that are reachable, with the flag "derives no lexeme-carrying token"
//                   (least fixed point) – a void symbol's text is dropped by construction, so it must not hold a lexeme
//   unusedSemantic  (rule, alternative, position, symbol): lex / sem symbols whose value does not flow into `$$`
//   sqlGoMismatches sql.go (the generated parser the build really compiles; `make sql.go` runs goyacc on sql.y) against
//                   sql.y: for every production number the positions `yyDollar[n]` of `case N:` and the `$n` of the
//                   alternative's action must be the same set, and so must the number of symbols popped
//   sqlGoCompared   how many productions with an action were compared

import (
	"fmt"
	"go/ast"
	"go/token"
	"os"
	"path/filepath"
	"regexp"
	"sort"
	"strconv"
	"strings"
)

func init() { generators = append(generators, genSqlGrammar) }

// yDecls: the declarations part of a yacc file
type yDecls struct {
	tokenType map[string]string // token → <type> ("" when declared without one)
	ruleType  map[string]string // non-terminal → <type>
	lexTokens []string
}

func parseYaccDecls(src string) *yDecls {
	d := &yDecls{tokenType: map[string]string{}, ruleType: map[string]string{}}
	idx := strings.Index(src, "\n%%")
	if idx < 0 {
		return d
	}
	tag := regexp.MustCompile(`^<([A-Za-z0-9_]+)>$`)
	for _, l := range strings.Split(src[:idx], "\n") {
		if i := strings.Index(l, "//"); i >= 0 {
			l = l[:i]
		}
		f := strings.Fields(l)
		if len(f) == 0 {
			continue
		}
		switch f[0] {
		case "%token", "%left", "%right", "%nonassoc":
			typ := ""
			isLexLine := f[0] == "%token" && strings.Contains(l, " INTEGRAL") && strings.Contains(l, " ID ")
			for _, t := range f[1:] {
				if m := tag.FindStringSubmatch(t); m != nil {
					typ = m[1]
					continue
				}
				d.tokenType[t] = typ
				if isLexLine && t != "COMMENT_KEYWORD" {
					d.lexTokens = append(d.lexTokens, t)
				}
			}
		case "%type":
			typ := ""
			for _, t := range f[1:] {
				if m := tag.FindStringSubmatch(t); m != nil {
					typ = m[1]
					continue
				}
				d.ruleType[t] = typ
			}
		}
	}
	return d
}

// ---- data flow of one action

type flowCtx struct {
	taint map[string]map[int]bool
	sink  map[int]bool // what reaches `$$` (yyVAL) or setParseTree
	ctrl  []map[int]bool
	// uncond: an assignment `yyVAL = …` outside every if / switch / for
	uncond bool
	depth  int
	// after: conditions of earlier `if … { return }` statements – everything after them depends on them
	after []map[int]bool
}

func (c *flowCtx) add(dst map[int]bool, src map[int]bool) {
	for k := range src {
		dst[k] = true
	}
}

func rootIdent(e ast.Expr) string {
	for {
		switch t := e.(type) {
		case *ast.Ident:
			return t.Name
		case *ast.SelectorExpr:
			e = t.X
		case *ast.IndexExpr:
			e = t.X
		case *ast.StarExpr:
			e = t.X
		case *ast.ParenExpr:
			e = t.X
		case *ast.TypeAssertExpr:
			e = t.X
		default:
			return ""
		}
	}
}

// taintOf: the positions whose value e carries
func (c *flowCtx) taintOf(e ast.Node) map[int]bool {
	out := map[int]bool{}
	if e == nil {
		return out
	}
	ast.Inspect(e, func(n ast.Node) bool {
		switch t := n.(type) {
		case *ast.CallExpr:
			if id, ok := t.Fun.(*ast.Ident); ok && (id.Name == "len" || id.Name == "cap") {
				return false // a length carries no content
			}
		case *ast.Ident:
			if k := dollarIndex(t); k > 0 {
				out[k] = true
			}
			c.add(out, c.taint[t.Name])
		case *ast.FuncLit:
			return false
		}
		return true
	})
	return out
}

func (c *flowCtx) ctrlTaint() map[int]bool {
	out := map[int]bool{}
	for _, m := range c.ctrl {
		c.add(out, m)
	}
	for _, m := range c.after {
		c.add(out, m)
	}
	return out
}

func (c *flowCtx) assign(lhs ast.Expr, val map[int]bool) {
	name := rootIdent(lhs)
	if name == "" || name == "_" {
		return
	}
	if _, plain := lhs.(*ast.Ident); plain && c.depth == 0 && len(c.ctrl) == 0 {
		// an unconditional assignment to the variable itself replaces what it held (`$$ = …` overrides yacc's default
		// `$$ = $1`; `val` was computed before, so `$$ = append($$, $3)` keeps it)
		c.taint[name] = map[int]bool{}
		if name == "yyVAL" {
			c.uncond = true
		}
	}
	if c.taint[name] == nil {
		c.taint[name] = map[int]bool{}
	}
	c.add(c.taint[name], val)
	c.add(c.taint[name], c.ctrlTaint())
}

// endsWithReturn: the block's last statement leaves the action
func gramEndsWithReturn(b *ast.BlockStmt) bool {
	if b == nil || len(b.List) == 0 {
		return false
	}
	_, ok := b.List[len(b.List)-1].(*ast.ReturnStmt)
	return ok
}

func (c *flowCtx) stmts(list []ast.Stmt) {
	for _, s := range list {
		c.stmt(s)
	}
}

func (c *flowCtx) stmt(s ast.Stmt) {
	switch t := s.(type) {
	case *ast.AssignStmt:
		if len(t.Lhs) == len(t.Rhs) {
			for i := range t.Lhs {
				c.assign(t.Lhs[i], c.taintOf(t.Rhs[i]))
			}
		} else {
			all := map[int]bool{}
			for _, r := range t.Rhs {
				c.add(all, c.taintOf(r))
			}
			for _, l := range t.Lhs {
				c.assign(l, all)
			}
		}
	case *ast.DeclStmt:
		if gd, ok := t.Decl.(*ast.GenDecl); ok {
			for _, sp := range gd.Specs {
				if vs, ok := sp.(*ast.ValueSpec); ok {
					for i, n := range vs.Names {
						if i < len(vs.Values) {
							c.assign(n, c.taintOf(vs.Values[i]))
						}
					}
				}
			}
		}
	case *ast.IncDecStmt:
	case *ast.ExprStmt:
		if call, ok := t.X.(*ast.CallExpr); ok {
			args := map[int]bool{}
			for _, a := range call.Args {
				c.add(args, c.taintOf(a))
			}
			switch f := call.Fun.(type) {
			case *ast.Ident:
				if f.Name == "setParseTree" {
					c.add(c.sink, args)
					c.add(c.sink, c.ctrlTaint())
				}
			case *ast.SelectorExpr:
				// x.M(args): the receiver may keep the arguments (`$$.AddColumn($3)`)
				if r := rootIdent(f.X); r != "" && r != "yylex" {
					c.assign(f.X, args)
				}
			}
		}
	case *ast.IfStmt:
		if t.Init != nil {
			c.stmt(t.Init)
		}
		cond := c.taintOf(t.Cond)
		c.ctrl = append(c.ctrl, cond)
		c.depth++
		c.stmts(t.Body.List)
		if t.Else != nil {
			switch e := t.Else.(type) {
			case *ast.BlockStmt:
				c.stmts(e.List)
			case *ast.IfStmt:
				c.stmt(e)
			}
		}
		c.depth--
		c.ctrl = c.ctrl[:len(c.ctrl)-1]
		if gramEndsWithReturn(t.Body) {
			// `if cond { …; return 1 }`: whatever follows runs only when the condition is false
			c.after = append(c.after, cond)
		}
	case *ast.SwitchStmt:
		if t.Init != nil {
			c.stmt(t.Init)
		}
		c.ctrl = append(c.ctrl, c.taintOf(t.Tag))
		c.depth++
		for _, cc := range t.Body.List {
			if cl, ok := cc.(*ast.CaseClause); ok {
				c.stmts(cl.Body)
			}
		}
		c.depth--
		c.ctrl = c.ctrl[:len(c.ctrl)-1]
	case *ast.TypeSwitchStmt:
		c.ctrl = append(c.ctrl, c.taintOf(t.Assign))
		c.depth++
		if as, ok := t.Assign.(*ast.AssignStmt); ok && len(as.Lhs) == 1 {
			c.assign(as.Lhs[0], c.taintOf(as.Rhs[0]))
		}
		for _, cc := range t.Body.List {
			if cl, ok := cc.(*ast.CaseClause); ok {
				c.stmts(cl.Body)
			}
		}
		c.depth--
		c.ctrl = c.ctrl[:len(c.ctrl)-1]
	case *ast.RangeStmt:
		src := c.taintOf(t.X)
		if t.Key != nil {
			c.assign(t.Key, src)
		}
		if t.Value != nil {
			c.assign(t.Value, src)
		}
		c.depth++
		// twice: a value assigned late in the body may be read early in the next iteration
		c.stmts(t.Body.List)
		c.stmts(t.Body.List)
		c.depth--
	case *ast.ForStmt:
		if t.Init != nil {
			c.stmt(t.Init)
		}
		c.ctrl = append(c.ctrl, c.taintOf(t.Cond))
		c.depth++
		c.stmts(t.Body.List)
		c.stmts(t.Body.List)
		c.depth--
		c.ctrl = c.ctrl[:len(c.ctrl)-1]
	case *ast.BlockStmt:
		c.stmts(t.List)
	case *ast.ReturnStmt, *ast.BranchStmt, *ast.EmptyStmt:
	}
}

func sortedInts(m map[int]bool) []int {
	var out []int
	for k := range m {
		out = append(out, k)
	}
	sort.Ints(out)
	return out
}

func natListInts(xs []int) string {
	s := make([]string, len(xs))
	for i, x := range xs {
		s[i] = strconv.Itoa(x)
	}
	return "[" + strings.Join(s, ", ") + "]"
}

// mentionsOf: the `$n` a yacc action mentions (textually, comments and strings removed by the Go parser when possible)
func mentionsOf(a yAlt, blk *ast.BlockStmt) []int {
	m := map[int]bool{}
	if blk != nil {
		for _, k := range dollarsIn(blk) {
			m[k] = true
		}
	} else {
		for _, x := range dollarN.FindAllStringSubmatch(a.action, -1) {
			k, _ := strconv.Atoi(x[1])
			m[k] = true
		}
	}
	return sortedInts(m)
}

func genSqlGrammar() {
	srcB, err := os.ReadFile(filepath.Join(repo, sqlDir, "sql.y"))
	if err != nil {
		fail("%s/sql.y: %v", sqlDir, err)
		return
	}
	g, err := parseYacc(string(srcB))
	if err != nil {
		fail("sql.y: %v", err)
		return
	}
	decl := parseYaccDecls(string(srcB))
	lf := newLean("SqlGrammar", "Sources: sqlparser/sql.y (declarations, rules, actions), sqlparser/sql.go (the generated parser: `case N:` blocks of the action switch).")
	if len(decl.lexTokens) < 8 || len(decl.ruleType) < 100 {
		fail("sql.y: declarations not understood (%d lexeme tokens, %d typed non-terminals)", len(decl.lexTokens), len(decl.ruleType))
		return
	}
	isLex := map[string]bool{}
	for _, t := range decl.lexTokens {
		isLex[t] = true
	}
	classOf := func(sym string) string {
		if _, isRule := g.rules[sym]; isRule {
			if t := decl.ruleType[sym]; t != "" && t != "empty" {
				return "sem"
			}
			return "void"
		}
		if isLex[sym] {
			return "lex"
		}
		return "kw"
	}
	typeOf := func(sym string) string {
		if _, isRule := g.rules[sym]; isRule {
			return decl.ruleType[sym]
		}
		return decl.tokenType[sym]
	}
	// ---- reachability from the DML statements
	roots := []string{"select_statement", "insert_statement", "update_statement", "delete_statement"}
	reach := map[string]bool{}
	var order []string
	var visit func(r string)
	visit = func(r string) {
		if reach[r] {
			return
		}
		if _, isRule := g.rules[r]; !isRule {
			return
		}
		reach[r] = true
		order = append(order, r)
		for _, a := range g.rules[r] {
			for _, s := range a.syms {
				visit(s)
			}
		}
	}
	for _, r := range roots {
		if _, ok := g.rules[r]; !ok {
			fail("sql.y: rule %s not found", r)
		}
		visit(r)
	}
	lf.def("dmlRoots", "List String", strList(roots), "the statement rules the reachability starts from")
	// keep the file order of the rules
	sort.SliceStable(order, func(i, j int) bool { return indexOfStr(g.order, order[i]) < indexOfStr(g.order, order[j]) })

	// ---- per alternative: flow and mentions
	type altInfo struct {
		a        yAlt
		idx      int
		flow     []int
		mentions []int
	}
	var alts []altInfo
	var rows, unused, classRows []string
	seenSym := map[string]bool{}
	for _, r := range order {
		for i, a := range g.rules[r] {
			blk := parseAction(a.action)
			if a.action != "" && blk == nil {
				fail("sql.y %s alternative %d: the action is not plain Go after $-substitution (the data-flow analysis cannot read it)", r, i+1)
				continue
			}
			c := &flowCtx{taint: map[string]map[int]bool{}, sink: map[int]bool{}}
			if len(a.syms) > 0 {
				// yacc's default `$$ = $1`: the generated parser copies the whole value of the first symbol before the
				// action runs; it is what `$$` holds (for a symbol of the same %type) until the action assigns `$$`
				if lt, st := decl.ruleType[r], typeOf(a.syms[0]); lt == st || lt == "" {
					c.taint["yyVAL"] = map[int]bool{1: true}
				}
			}
			if blk != nil {
				c.stmts(blk.List)
			}
			flow := map[int]bool{}
			c.add(flow, c.taint["yyVAL"])
			c.add(flow, c.sink)
			for k := range flow {
				if k > len(a.syms) {
					fail("sql.y %s alternative %d: the action uses $%d but the alternative has %d symbols", r, i+1, k, len(a.syms))
				}
			}
			info := altInfo{a: a, idx: i + 1, flow: sortedInts(flow), mentions: mentionsOf(a, blk)}
			alts = append(alts, info)
			var ss []string
			for j, s := range a.syms {
				cl := classOf(s)
				ss = append(ss, fmt.Sprintf("(%q, %q)", s, cl))
				if !seenSym[s] {
					seenSym[s] = true
					classRows = append(classRows, fmt.Sprintf("(%q, %q)", s, cl))
				}
				if (cl == "lex" || cl == "sem") && !flow[j+1] {
					unused = append(unused, fmt.Sprintf("(%q, %d, %d, %q)", r, i+1, j+1, s))
				}
			}
			rows = append(rows, fmt.Sprintf("(%q, %d, %d, [%s], %s, %s)", r, i+1, a.seq, strings.Join(ss, ", "), natListInts(info.flow), natListInts(info.mentions)))
		}
	}
	if len(rows) < 300 {
		fail("sql.y: expected several hundred alternatives reachable from the DML statements, found %d", len(rows))
	}
	lf.def("lexTokens", "List String", strList(decl.lexTokens), "sql.y: the tokens that carry a lexeme (the %token line that declares ID and INTEGRAL)")
	lf.def("symbolClasses", "List (String × String)", "["+strings.Join(classRows, ", ")+"]",
		"sql.y: every symbol on a right-hand side reachable from the DML statements with its class: lex (lexeme-carrying token), kw (other token), sem (non-terminal with a %type other than <empty>), void (non-terminal without a value)")
	// void non-terminals: do they derive a lexeme-carrying token? (least fixed point of "derives")
	{
		derives := map[string]bool{}
		for changed := true; changed; {
			changed = false
			for _, r := range order {
				if derives[r] {
					continue
				}
				for _, a := range g.rules[r] {
					for _, s := range a.syms {
						if isLex[s] || derives[s] {
							derives[r] = true
							changed = true
						}
					}
				}
			}
		}
		var vrows []string
		for _, r := range order {
			if classOf(r) == "void" {
				vrows = append(vrows, fmt.Sprintf("(%q, %s)", r, boolStr(!derives[r])))
			}
		}
		lf.def("voidLexFree", "List (String × Bool)", "["+strings.Join(vrows, ", ")+"]",
			"sql.y: the reachable non-terminals without a semantic value and whether they derive no lexeme-carrying token at all")
		var lrows []string
		for _, r := range order {
			if !derives[r] {
				lrows = append(lrows, r)
			}
		}
		lf.def("lexFreeRules", "List String", strList(lrows), "sql.y: the reachable non-terminals that derive no lexeme-carrying token (keywords and punctuation only)")
	}
	lf.def("unusedSemantic", "List (String × Nat × Nat × String)", "["+strings.Join(unused, ", ")+"]",
		"sql.y: (rule, alternative, position, symbol) – a lexeme-carrying token or a non-terminal with a semantic value on a right-hand side reachable from the DML statements whose value does not flow into `$$`")
	lf.def("grammarAlts", "List (String × Nat × Nat × List (String × String) × List Nat × List Nat)", "[\n  "+strings.Join(rows, ",\n  ")+"]",
		"sql.y: the alternatives reachable from the DML statements – (rule, alternative, production number, right-hand side (symbol, class), positions flowing into `$$`, positions the action mentions)")

	// ---- sql.go against sql.y
	goB, err := os.ReadFile(filepath.Join(repo, sqlDir, "sql.go"))
	if err != nil {
		fail("%s/sql.go: %v", sqlDir, err)
		return
	}
	goSrc := string(goB)
	start := strings.Index(goSrc, "// dummy call; replaced with literal code")
	if start < 0 {
		fail("sql.go: the action switch of the generated parser (`// dummy call; replaced with literal code`) was not found")
		return
	}
	caseRe := regexp.MustCompile(`(?m)^\tcase (\d+):\n\t\tyyDollar = yyS\[yypt-(\d+) : yypt\+1\]\n`)
	locs := caseRe.FindAllStringSubmatchIndex(goSrc[start:], -1)
	type goCase struct {
		pops    int
		dollars []int
	}
	goCases := map[int]goCase{}
	dollarRe := regexp.MustCompile(`yyDollar\[(\d+)\]`)
	for i, l := range locs {
		n, _ := strconv.Atoi(goSrc[start+l[2] : start+l[3]])
		pops, _ := strconv.Atoi(goSrc[start+l[4] : start+l[5]])
		end := len(goSrc)
		if i+1 < len(locs) {
			end = start + locs[i+1][0]
		} else if j := strings.Index(goSrc[start+l[1]:], "\n\t}\n\tgoto yystack"); j >= 0 {
			end = start + l[1] + j
		}
		body := goSrc[start+l[1] : end]
		// drop comments and string literals
		body = regexp.MustCompile(`(?m)//.*$`).ReplaceAllString(body, "")
		body = regexp.MustCompile("\"(?:[^\"\\\\\n]|\\\\.)*\"").ReplaceAllString(body, "\"\"")
		m := map[int]bool{}
		for _, x := range dollarRe.FindAllStringSubmatch(body, -1) {
			k, _ := strconv.Atoi(x[1])
			m[k] = true
		}
		goCases[n] = goCase{pops, sortedInts(m)}
	}
	if len(goCases) < 400 {
		fail("sql.go: expected several hundred `case N:` blocks in the action switch, found %d", len(goCases))
	}
	// every production of sql.y in file order
	var mism []string
	compared := 0
	total := 0
	for _, r := range g.order {
		for i, a := range g.rules[r] {
			total++
			blk := parseAction(a.action)
			var ym []int
			if a.action != "" {
				ym = mentionsOf(a, blk)
			}
			gc, has := goCases[a.seq]
			switch {
			case a.action == "" && !has:
				continue
			case a.action == "" && has:
				mism = append(mism, fmt.Sprintf("(%d, %q, %d, \"sql.y has no action, sql.go has case\", [], %s)", a.seq, r, i+1, natListInts(gc.dollars)))
			case !has:
				mism = append(mism, fmt.Sprintf("(%d, %q, %d, \"sql.go has no case for the action\", %s, [])", a.seq, r, i+1, natListInts(ym)))
			default:
				compared++
				if gc.pops != len(a.syms) {
					mism = append(mism, fmt.Sprintf("(%d, %q, %d, \"sql.go pops %d symbols, the alternative has %d\", %s, %s)", a.seq, r, i+1, gc.pops, len(a.syms), natListInts(ym), natListInts(gc.dollars)))
				} else if natListInts(ym) != natListInts(gc.dollars) {
					mism = append(mism, fmt.Sprintf("(%d, %q, %d, \"different positions\", %s, %s)", a.seq, r, i+1, natListInts(ym), natListInts(gc.dollars)))
				}
			}
		}
	}
	for n := range goCases {
		if n > total {
			mism = append(mism, fmt.Sprintf("(%d, \"\", 0, \"sql.go has a case beyond the last production of sql.y\", [], [])", n))
		}
	}
	sort.Strings(mism)
	lf.def("sqlGoCompared", "Nat", strconv.Itoa(compared), "number of productions with an action whose `case N:` block of sql.go was compared with the action of sql.y")
	lf.def("sqlGoProductions", "Nat", strconv.Itoa(total), "sql.y: number of productions")
	lf.def("sqlGoMismatches", "List (Nat × String × Nat × String × List Nat × List Nat)", "["+strings.Join(mism, ", ")+"]",
		"sql.go against sql.y: (production number, rule, alternative, what differs, `$n` of the action in sql.y, `yyDollar[n]` of `case N:` in sql.go) – empty when the generated parser is in step with the grammar")
	_ = token.ADD
}
