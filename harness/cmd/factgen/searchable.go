package main

import (
	"fmt"
	"go/ast"
	"go/constant"
	"go/parser"
	"go/token"
	"os/exec"
	"path/filepath"
	"strings"
)

// Searchable: the blind-index layout (hmac/hash.go: hash function number, hash size, prefix written
// by GenerateHMAC, bytes taken by ExtractHash), the substr bounds the two query rewriters put into the
// statement (hmac/decryptor/{postgresql,mysql}/hashQuery.go), the comparison operators the filters
// select and how ChangeSearchableOperator maps them (encryptor/{postgresql,mysql}/searchable_query_filter.go).
func init() { generators = append(generators, genSearchable) }

// stdSha256Size reads `const Size = N` of the Go standard library's crypto/sha256 (what
// `sha256.New().Size()` returns).
func stdSha256Size() (uint64, bool) {
	out, err := exec.Command("go", "env", "GOROOT").Output()
	if err != nil {
		fail("go env GOROOT: %v", err)
		return 0, false
	}
	path := filepath.Join(strings.TrimSpace(string(out)), "src", "crypto", "sha256", "sha256.go")
	f, err := parser.ParseFile(fset, path, nil, 0)
	if err != nil {
		fail("%s: %v", path, err)
		return 0, false
	}
	for _, d := range f.Decls {
		gd, ok := d.(*ast.GenDecl)
		if !ok || gd.Tok != token.CONST {
			continue
		}
		for _, s := range gd.Specs {
			vs := s.(*ast.ValueSpec)
			for i, n := range vs.Names {
				if n.Name == "Size" && i < len(vs.Values) {
					if bl, ok := vs.Values[i].(*ast.BasicLit); ok {
						v := constant.MakeFromLiteral(bl.Value, bl.Kind, 0)
						if u, ok := constant.Uint64Val(v); ok {
							return u, true
						}
					}
				}
			}
		}
	}
	fail("%s: const Size not found", path)
	return 0, false
}

// isCall reports whether e is a call of pkg.name (or name when pkg == "").
func isCall(e ast.Expr, pkg, name string) (*ast.CallExpr, bool) {
	c, ok := e.(*ast.CallExpr)
	if !ok {
		return nil, false
	}
	want := name
	if pkg != "" {
		want = pkg + "." + name
	}
	return c, callName(c) == want
}

// stripConv removes conversions like int32(x), uint8(x), []byte(x).
func stripConv(e ast.Expr) ast.Expr {
	for {
		switch t := e.(type) {
		case *ast.ParenExpr:
			e = t.X
			continue
		case *ast.CallExpr:
			if len(t.Args) == 1 {
				switch f := t.Fun.(type) {
				case *ast.Ident:
					switch f.Name {
					case "int", "int32", "int64", "uint8", "byte", "uint", "uint32", "uint64":
						e = t.Args[0]
						continue
					}
				case *ast.ArrayType:
					e = t.Args[0]
					continue
				}
			}
		}
		return e
	}
}

func genSearchable() {
	lf := newLean("Searchable", "Sources: hmac/hash.go, hmac/decryptor/postgresql/hashQuery.go, hmac/decryptor/mysql/hashQuery.go, encryptor/postgresql/searchable_query_filter.go, encryptor/mysql/searchable_query_filter.go, Go standard library crypto/sha256 (Size).")
	const hrel = "hmac/hash.go"
	f := parseFile(hrel)
	if f == nil {
		return
	}
	env := newConstEnv(hrel)
	// --- `_sha256 = funcNumber(255/2 + iota)` and `defaultFuncNumber = _sha256`
	for pass := 0; pass < 2; pass++ {
		for _, d := range f.Decls {
			gd, ok := d.(*ast.GenDecl)
			if !ok || gd.Tok != token.CONST {
				continue
			}
			for i, s := range gd.Specs {
				vs := s.(*ast.ValueSpec)
				for j, n := range vs.Names {
					if j >= len(vs.Values) {
						continue
					}
					e := vs.Values[j]
					if c, ok := e.(*ast.CallExpr); ok && len(c.Args) == 1 {
						if id, ok := c.Fun.(*ast.Ident); ok && id.Name == "funcNumber" {
							e = c.Args[0]
						}
					}
					if v := intEval(env, e, i); v != nil {
						env.vals[n.Name] = v
					}
				}
			}
		}
	}
	num := func(name string) uint64 {
		v, ok := env.vals[name]
		if !ok {
			fail("%s: constant %s not found / not evaluable", hrel, name)
			return 0
		}
		u, _ := constant.Uint64Val(constant.ToInt(v))
		return u
	}
	sha := num("_sha256")
	def := num("defaultFuncNumber")
	lf.def("sha256FuncNumber", "Nat", fmt.Sprint(sha), hrel+": _sha256")
	lf.def("defaultFuncNumber", "Nat", fmt.Sprint(def), hrel+": defaultFuncNumber")
	// --- hashFuncMap: number -> constructor
	var rows []string
	found := false
	for _, d := range f.Decls {
		gd, ok := d.(*ast.GenDecl)
		if !ok || gd.Tok != token.VAR {
			continue
		}
		for _, s := range gd.Specs {
			vs := s.(*ast.ValueSpec)
			for i, n := range vs.Names {
				if n.Name != "hashFuncMap" || i >= len(vs.Values) {
					continue
				}
				cl, ok := vs.Values[i].(*ast.CompositeLit)
				if !ok {
					fail("%s: hashFuncMap is not a composite literal", hrel)
					continue
				}
				found = true
				for _, e := range cl.Elts {
					kv, ok := e.(*ast.KeyValueExpr)
					if !ok {
						fail("%s: hashFuncMap element is not key: value", hrel)
						continue
					}
					rows = append(rows, fmt.Sprintf("(%d, %q)", env.intOf(kv.Key, hrel+":hashFuncMap"), argName(kv.Value)))
				}
			}
		}
	}
	if !found {
		fail("%s: var hashFuncMap not found", hrel)
	}
	lf.def("hashFuncs", "List (Nat × String)", "["+strings.Join(rows, ", ")+"]", hrel+": hashFuncMap (function number, constructor)")
	size, _ := stdSha256Size()
	lf.def("sha256Size", "Nat", fmt.Sprint(size), "Go standard library crypto/sha256: const Size (= sha256.New().Size())")
	// --- GetDefaultHashSize: `return hashFuncMap[defaultFuncNumber]().Size() + K`
	extra := uint64(0)
	if fd := funcDecl(hrel, "", "GetDefaultHashSize"); fd != nil {
		ok := false
		if len(fd.Body.List) == 1 {
			if rs, isRet := fd.Body.List[0].(*ast.ReturnStmt); isRet && len(rs.Results) == 1 {
				if be, isBin := rs.Results[0].(*ast.BinaryExpr); isBin && be.Op == token.ADD {
					if c, isC := be.X.(*ast.CallExpr); isC {
						if sel, isSel := c.Fun.(*ast.SelectorExpr); isSel && sel.Sel.Name == "Size" {
							// hashFuncMap[defaultFuncNumber]()
							if inner, isIn := sel.X.(*ast.CallExpr); isIn {
								if ix, isIx := inner.Fun.(*ast.IndexExpr); isIx && argName(ix.X) == "hashFuncMap" && argName(ix.Index) == "defaultFuncNumber" {
									extra = env.intOf(be.Y, hrel+":GetDefaultHashSize")
									ok = true
								}
							}
						}
					}
				}
			}
		}
		if !ok {
			fail("%s: GetDefaultHashSize is no longer `return hashFuncMap[defaultFuncNumber]().Size() + K`", hrel)
		}
	}
	lf.def("defaultHashSizeExtra", "Nat", fmt.Sprint(extra), hrel+": GetDefaultHashSize = hashFuncMap[defaultFuncNumber]().Size() + this")
	// --- GenerateHMAC: last statement `return append([]byte{uint8(defaultFuncNumber)}, mac...)`
	if fd := funcDecl(hrel, "", "GenerateHMAC"); fd != nil {
		ok := false
		if n := len(fd.Body.List); n > 0 {
			if rs, isRet := fd.Body.List[n-1].(*ast.ReturnStmt); isRet && len(rs.Results) == 1 {
				if c, isC := isCall(rs.Results[0], "", "append"); isC && len(c.Args) == 2 && c.Ellipsis.IsValid() {
					if cl, isCl := c.Args[0].(*ast.CompositeLit); isCl && len(cl.Elts) == 1 {
						if argName(stripConv(cl.Elts[0])) == "defaultFuncNumber" && argName(c.Args[1]) == "mac" {
							ok = true
						}
					}
				}
			}
		}
		usesDefault := false
		ast.Inspect(fd.Body, func(n ast.Node) bool {
			if c, isC := n.(*ast.CallExpr); isC && callName(c) == "hmac.New" && len(c.Args) == 2 {
				if ix, isIx := c.Args[0].(*ast.IndexExpr); isIx && argName(ix.X) == "hashFuncMap" && argName(ix.Index) == "defaultFuncNumber" && argName(c.Args[1]) == "key" {
					usesDefault = true
				}
			}
			return true
		})
		lf.def("generatePrefixesDefaultFuncNumber", "Bool", boolStr(ok), hrel+": GenerateHMAC returns append([]byte{uint8(defaultFuncNumber)}, mac...)")
		lf.def("generateUsesDefaultFunc", "Bool", boolStr(usesDefault), hrel+": GenerateHMAC computes hmac.New(hashFuncMap[defaultFuncNumber], key)")
	}
	// --- ExtractHash: returns data[:size+K]; rejects len(data[1:]) < size
	if fd := funcDecl(hrel, "", "ExtractHash"); fd != nil {
		takeExtra, okTake, okGuard := uint64(0), false, false
		ast.Inspect(fd.Body, func(n ast.Node) bool {
			switch t := n.(type) {
			case *ast.SliceExpr:
				if argName(t.X) == "data" && t.Low == nil && t.High != nil {
					if be, isBin := t.High.(*ast.BinaryExpr); isBin && be.Op == token.ADD && argName(be.X) == "size" {
						takeExtra = env.intOf(be.Y, hrel+":ExtractHash")
						okTake = true
					}
				}
			case *ast.IfStmt:
				if be, isBin := t.Cond.(*ast.BinaryExpr); isBin && be.Op == token.LSS && argName(be.Y) == "size" {
					if c, isC := isCall(be.X, "", "len"); isC && len(c.Args) == 1 {
						if se, isS := c.Args[0].(*ast.SliceExpr); isS && argName(se.X) == "data" && se.High == nil && se.Low != nil {
							if env.intOf(se.Low, hrel+":ExtractHash") == 1 {
								okGuard = true
							}
						}
					}
				}
			}
			return true
		})
		if !okTake {
			fail("%s: ExtractHash no longer returns data[:size+K]", hrel)
		}
		lf.def("extractTakeExtra", "Nat", fmt.Sprint(takeExtra), hrel+": ExtractHash keeps data[:size + this]")
		lf.def("extractChecksLength", "Bool", boolStr(okGuard), hrel+": ExtractHash rejects data when len(data[1:]) < size")
	}
	// resolves an expression that is either an integer literal or (a conversion of) hmac.GetDefaultHashSize()
	hashSizeOf := func(e ast.Expr, where string, locals map[string]ast.Expr) (uint64, bool) {
		e = stripConv(e)
		if id, ok := e.(*ast.Ident); ok && locals != nil {
			if le, ok := locals[id.Name]; ok {
				e = stripConv(le)
			}
		}
		// fmt.Sprintf("%d", X)
		if c, ok := isCall(e, "fmt", "Sprintf"); ok && len(c.Args) == 2 {
			if bl, isLit := c.Args[0].(*ast.BasicLit); isLit && bl.Value == `"%d"` {
				e = stripConv(c.Args[1])
			}
		}
		if _, ok := isCall(e, "hmac", "GetDefaultHashSize"); ok {
			return size + extra, true
		}
		if bl, ok := e.(*ast.BasicLit); ok {
			v := constant.MakeFromLiteral(bl.Value, bl.Kind, 0)
			if v.Kind() == constant.Int {
				u, _ := constant.Uint64Val(constant.ToInt(v))
				if bl.Kind == token.CHAR {
					u -= '0'
				}
				return u, true
			}
		}
		// []byte{'1'}
		if cl, ok := e.(*ast.CompositeLit); ok && len(cl.Elts) == 1 {
			if bl, ok := cl.Elts[0].(*ast.BasicLit); ok && bl.Kind == token.CHAR {
				v := constant.MakeFromLiteral(bl.Value, bl.Kind, 0)
				u, _ := constant.Uint64Val(constant.ToInt(v))
				return u - '0', true
			}
		}
		fail("%s: cannot resolve substr bound %s", where, exprString(e))
		return 0, false
	}
	// --- PostgreSQL: getSubstrFuncNode(column): FuncCall{Funcname: SubstrFuncName, Args: [column, Ival a, Ival b]}
	const prel = "hmac/decryptor/postgresql/hashQuery.go"
	if fd := funcDecl(prel, "", "getSubstrFuncNode"); fd != nil {
		var ivals []ast.Expr
		funcName := ""
		ast.Inspect(fd.Body, func(n ast.Node) bool {
			kv, ok := n.(*ast.KeyValueExpr)
			if !ok {
				return true
			}
			switch argName(kv.Key) {
			case "Ival":
				if _, isComposite := stripAddr(kv.Value).(*ast.CompositeLit); !isComposite {
					ivals = append(ivals, kv.Value)
				}
			case "Sval":
				funcName = argName(kv.Value)
			}
			return true
		})
		if len(ivals) != 2 {
			fail("%s: getSubstrFuncNode: expected two integer arguments, found %d", prel, len(ivals))
		} else {
			from, _ := hashSizeOf(ivals[0], prel+":getSubstrFuncNode", nil)
			ln, _ := hashSizeOf(ivals[1], prel+":getSubstrFuncNode", nil)
			lf.def("pgSubstrFrom", "Nat", fmt.Sprint(from), prel+": getSubstrFuncNode second argument")
			lf.def("pgSubstrLen", "Nat", fmt.Sprint(ln), prel+": getSubstrFuncNode third argument (hmac.GetDefaultHashSize() resolved through hmac/hash.go)")
		}
		if funcName != "postgresql.SubstrFuncName" {
			fail("%s: getSubstrFuncNode: function name is %q, expected postgresql.SubstrFuncName", prel, funcName)
		}
		fenv := newConstEnv("encryptor/postgresql/searchable_query_filter.go")
		if v, ok := fenv.vals["SubstrFuncName"]; ok {
			lf.def("pgSubstrFuncName", "String", v.ExactString(), "encryptor/postgresql/searchable_query_filter.go: SubstrFuncName")
		} else {
			fail("encryptor/postgresql/searchable_query_filter.go: SubstrFuncName not found")
		}
	}
	// --- MySQL: every &sqlparser.SubstrExpr{Name:…, From: NewIntVal(a), To: NewIntVal(b)} in OnQuery
	const mrel = "hmac/decryptor/mysql/hashQuery.go"
	if fd := funcDecl(mrel, "HashQuery", "OnQuery"); fd != nil {
		locals := map[string]ast.Expr{}
		ast.Inspect(fd.Body, func(n ast.Node) bool {
			if as, ok := n.(*ast.AssignStmt); ok && as.Tok == token.DEFINE && len(as.Lhs) == 1 && len(as.Rhs) == 1 {
				locals[argName(as.Lhs[0])] = as.Rhs[0]
			}
			return true
		})
		var bounds []string
		ast.Inspect(fd.Body, func(n ast.Node) bool {
			cl, ok := n.(*ast.CompositeLit)
			if !ok || argName(cl.Type) != "sqlparser.SubstrExpr" {
				return true
			}
			var from, to uint64
			got := 0
			for _, e := range cl.Elts {
				kv, ok := e.(*ast.KeyValueExpr)
				if !ok {
					continue
				}
				k := argName(kv.Key)
				if k != "From" && k != "To" {
					continue
				}
				c, isC := isCall(kv.Value, "sqlparser", "NewIntVal")
				if !isC || len(c.Args) != 1 {
					fail("%s: SubstrExpr.%s is not sqlparser.NewIntVal(…)", mrel, k)
					continue
				}
				v, ok := hashSizeOf(c.Args[0], mrel+":OnQuery", locals)
				if !ok {
					continue
				}
				got++
				if k == "From" {
					from = v
				} else {
					to = v
				}
			}
			if got == 2 {
				bounds = append(bounds, fmt.Sprintf("(%d, %d)", from, to))
			} else {
				fail("%s: SubstrExpr literal without From/To", mrel)
			}
			return true
		})
		if len(bounds) == 0 {
			fail("%s: OnQuery builds no sqlparser.SubstrExpr", mrel)
		}
		lf.def("mysqlSubstrBounds", "List (Nat × Nat)", "["+strings.Join(bounds, ", ")+"]", mrel+": (From, To) of every SubstrExpr built by OnQuery (left side, right side of a join)")
	}
	// --- operators: which comparison operators the filters select for a <column> <op> <value> item and
	// how ChangeSearchableOperator maps operators
	opCases := func(rel, recv string) (eq, ne []string) {
		fd := funcDecl(rel, recv, "ChangeSearchableOperator")
		if fd == nil {
			return
		}
		found := 0
		ast.Inspect(fd.Body, func(n ast.Node) bool {
			cc, ok := n.(*ast.CaseClause)
			if !ok || len(cc.Body) != 1 {
				return true
			}
			as, ok := cc.Body[0].(*ast.AssignStmt)
			if !ok || len(as.Rhs) != 1 {
				return true
			}
			var names []string
			for _, e := range cc.List {
				names = append(names, litOrName(e))
			}
			switch litOrName(as.Rhs[0]) {
			case "=", "sqlparser.EqualStr":
				eq = append(eq, names...)
			case "<>", "sqlparser.NotEqualStr":
				ne = append(ne, names...)
			default:
				fail("%s: ChangeSearchableOperator assigns unexpected operator %s", rel, litOrName(as.Rhs[0]))
			}
			found++
			return true
		})
		if found == 0 {
			fail("%s: ChangeSearchableOperator: no `case …: expr.Operator = …` clauses found", rel)
		}
		return
	}
	pgEq, pgNe := opCases("encryptor/postgresql/searchable_query_filter.go", "SearchableQueryFilter")
	myEq, myNe := opCases("encryptor/mysql/searchable_query_filter.go", "SearchableQueryFilter")
	lf.def("pgToEq", "List String", strList(pgEq), "encryptor/postgresql/searchable_query_filter.go: ChangeSearchableOperator – operators rewritten to =")
	lf.def("pgToNe", "List String", strList(pgNe), "encryptor/postgresql/searchable_query_filter.go: ChangeSearchableOperator – operators rewritten to <>")
	lf.def("mysqlToEq", "List String", strList(myEq), "encryptor/mysql/searchable_query_filter.go: ChangeSearchableOperator – operators rewritten to =")
	lf.def("mysqlToNe", "List String", strList(myNe), "encryptor/mysql/searchable_query_filter.go: ChangeSearchableOperator – operators rewritten to !=")
	// operators accepted for <column> <op> <value> in filterColumnEqualComparisonExprs (the last `if` chains of == comparisons)
	selOps := func(rel string) []string {
		fd := funcDecl(rel, "SearchableQueryFilter", "filterColumnEqualComparisonExprs")
		if fd == nil {
			return nil
		}
		var best []string
		ast.Inspect(fd.Body, func(n ast.Node) bool {
			is, ok := n.(*ast.IfStmt)
			if !ok {
				return true
			}
			var ops []string
			var walk func(e ast.Expr) bool
			walk = func(e ast.Expr) bool {
				switch t := e.(type) {
				case *ast.ParenExpr:
					return walk(t.X)
				case *ast.BinaryExpr:
					if t.Op == token.LOR {
						return walk(t.X) && walk(t.Y)
					}
					if t.Op == token.LAND { // `val != nil && (… == "=" || …)`
						return walk(t.Y)
					}
					if t.Op == token.EQL {
						ops = append(ops, litOrName(t.Y))
						return true
					}
				}
				return false
			}
			if walk(is.Cond) && len(ops) >= 2 {
				allOps := true
				for _, o := range ops {
					if !(strings.HasPrefix(o, "sqlparser.") && strings.HasSuffix(o, "Str")) && o != "=" && o != "<>" {
						allOps = false
					}
				}
				if allOps {
					best = ops
				}
			}
			return true
		})
		if len(best) == 0 {
			fail("%s: filterColumnEqualComparisonExprs: operator test for <column> <op> <value> not found", rel)
		}
		return best
	}
	lf.def("pgValueOps", "List String", strList(selOps("encryptor/postgresql/searchable_query_filter.go")), "encryptor/postgresql/searchable_query_filter.go: operators selected for <column> <op> <value>")
	lf.def("mysqlValueOps", "List String", strList(selOps("encryptor/mysql/searchable_query_filter.go")), "encryptor/mysql/searchable_query_filter.go: operators selected for <column> <op> <value>")
}

func stripAddr(e ast.Expr) ast.Expr {
	if u, ok := e.(*ast.UnaryExpr); ok && u.Op == token.AND {
		return u.X
	}
	return e
}

// litOrName renders a string literal's value or a (qualified) identifier.
func litOrName(e ast.Expr) string {
	if bl, ok := e.(*ast.BasicLit); ok && bl.Kind == token.STRING {
		v := constant.MakeFromLiteral(bl.Value, bl.Kind, 0)
		return constant.StringVal(v)
	}
	return argName(e)
}

// intEval evaluates an integer constant expression with Go's truncating integer division
// (constEnv.evalIota uses exact rational division).
func intEval(env *constEnv, e ast.Expr, iota int) constant.Value {
	switch t := e.(type) {
	case *ast.ParenExpr:
		return intEval(env, t.X, iota)
	case *ast.BinaryExpr:
		x, y := intEval(env, t.X, iota), intEval(env, t.Y, iota)
		if x == nil || y == nil || x.Kind() != constant.Int || y.Kind() != constant.Int {
			return nil
		}
		op := t.Op
		if op == token.QUO {
			if constant.Sign(y) == 0 {
				return nil
			}
			op = token.QUO_ASSIGN
		}
		switch op {
		case token.ADD, token.SUB, token.MUL, token.QUO_ASSIGN, token.REM:
			return constant.BinaryOp(x, op, y)
		}
		return nil
	}
	v := env.evalIota(e, iota)
	if v != nil && v.Kind() != constant.Int {
		return nil
	}
	return v
}
