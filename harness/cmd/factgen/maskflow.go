package main

import (
	"go/ast"
	"go/token"
	"strconv"
	"strings"
)

// MaskFlow: shapes of the masked-column path that the models `Envelope/Masking.lean` / `Envelope/MaskSession.lean`
// and the theorems of C11 rely on:
//
//   - masking/dataProcessor.go: the fields of `masking.Processor` (the model's session state has one component per
//     mutable field – there is none: the only field is the decryptor set by NewProcessor), every assignment to a
//     receiver field inside a method of Processor, and what `Process` returns in the branch of a masked column
//     (the pattern must be read from the setting of THIS call's context);
//   - crypto/registry_handler.go: `RegistryHandler.MatchDataSignature` – the calls it makes in source order and its
//     return expressions (the write side `EncryptWithClientID` of every encryptor built on the registry handler, the
//     masking encryptor included, asks this predicate whether a value "already is protected"; the model's
//     `registryMatch` deserializes the payload and asks the envelope handler).
func init() { generators = append(generators, genMaskFlow) }

// structFields lists (name, type) of a struct type declared at top level of a file.
func structFields(rel, typeName string) ([][2]string, bool) {
	f := parseFile(rel)
	if f == nil {
		return nil, false
	}
	for _, d := range f.Decls {
		gd, ok := d.(*ast.GenDecl)
		if !ok || gd.Tok != token.TYPE {
			continue
		}
		for _, s := range gd.Specs {
			ts := s.(*ast.TypeSpec)
			if ts.Name.Name != typeName {
				continue
			}
			st, ok := ts.Type.(*ast.StructType)
			if !ok {
				return nil, false
			}
			var out [][2]string
			for _, fl := range st.Fields.List {
				typ := srcOf(fl.Type)
				if len(fl.Names) == 0 {
					out = append(out, [2]string{"(embedded)", typ})
				}
				for _, n := range fl.Names {
					out = append(out, [2]string{n.Name, typ})
				}
			}
			return out, true
		}
	}
	return nil, false
}

// receiverWrites lists "Method:field" for every assignment / inc-dec whose target is a field of the receiver, over
// all methods of the given receiver type in the file.
func receiverWrites(rel, typeName string) []string {
	f := parseFile(rel)
	if f == nil {
		return nil
	}
	var out []string
	for _, d := range f.Decls {
		fd, ok := d.(*ast.FuncDecl)
		if !ok || fd.Recv == nil || len(fd.Recv.List) != 1 || recvName(fd.Recv.List[0].Type) != typeName || fd.Body == nil {
			continue
		}
		if len(fd.Recv.List[0].Names) == 0 {
			continue
		}
		recv := fd.Recv.List[0].Names[0].Name
		target := func(e ast.Expr) {
			// recv.f, recv.f[i], recv.f.g … – anything rooted at the receiver
			root := e
			for {
				switch t := root.(type) {
				case *ast.SelectorExpr:
					if id, ok := t.X.(*ast.Ident); ok && id.Name == recv {
						out = append(out, fd.Name.Name+":"+t.Sel.Name)
						return
					}
					root = t.X
					continue
				case *ast.IndexExpr:
					root = t.X
					continue
				case *ast.StarExpr:
					root = t.X
					continue
				case *ast.ParenExpr:
					root = t.X
					continue
				}
				return
			}
		}
		ast.Inspect(fd.Body, func(n ast.Node) bool {
			switch t := n.(type) {
			case *ast.AssignStmt:
				for _, l := range t.Lhs {
					target(l)
				}
			case *ast.IncDecStmt:
				target(t.X)
			case *ast.UnaryExpr:
				if t.Op == token.AND { // &recv.f handed out: somebody else may write it
					target(t.X)
				}
			}
			return true
		})
	}
	return out
}

func genMaskFlow() {
	const prel = "masking/dataProcessor.go"
	const rrel = "crypto/registry_handler.go"
	lf := newLean("MaskFlow", "Sources: "+prel+", "+rrel+".")
	fields, ok := structFields(prel, "Processor")
	if !ok {
		fail("%s: struct type Processor not found", prel)
		return
	}
	lf.def("processorFields", "List (String × String)", strPairList(fields), prel+": fields of `type Processor struct` (name, type)")
	lf.def("processorReceiverWrites", "List String", strList(receiverWrites(prel, "Processor")), prel+": `Method:field` for every assignment to (or address taken of) a receiver field in a method of Processor")
	// Process: the masked branch `if ok && setting.GetMaskingPattern() != "" { … }` and its return values
	fd := funcDecl(prel, "Processor", "Process")
	if fd == nil {
		return
	}
	// where `setting` comes from: the context of THIS call
	settingSrc := ""
	for _, st := range fd.Body.List {
		if as, ok := st.(*ast.AssignStmt); ok && len(as.Lhs) >= 1 && len(as.Rhs) == 1 {
			if id, ok := as.Lhs[0].(*ast.Ident); ok && id.Name == "setting" {
				settingSrc = srcOf(as.Rhs[0])
			}
		}
	}
	if settingSrc == "" {
		fail("%s: Processor.Process: no top-level assignment of `setting`", prel)
	}
	lf.def("processSettingSource", "String", strconv.Quote(settingSrc), prel+": Processor.Process – where the column setting is taken from (parameter `context` of the call)")
	var masked *ast.IfStmt
	for _, st := range fd.Body.List {
		if ifs, ok := st.(*ast.IfStmt); ok && strings.Contains(srcOf(ifs.Cond), "GetMaskingPattern()") {
			masked = ifs
		}
	}
	if masked == nil {
		fail("%s: Processor.Process: no top-level `if … setting.GetMaskingPattern() …` branch", prel)
		return
	}
	lf.def("processMaskedCond", "String", strconv.Quote(srcOf(masked.Cond)), prel+": Processor.Process – condition of the masked-column branch")
	var rets []string
	ast.Inspect(masked.Body, func(n ast.Node) bool {
		if r, ok := n.(*ast.ReturnStmt); ok && len(r.Results) > 0 {
			rets = append(rets, srcOf(r.Results[0]))
		}
		return true
	})
	lf.def("processMaskedReturns", "List String", strList(rets), prel+": Processor.Process – first result of every return inside the masked-column branch, in source order")
	var inner *ast.IfStmt
	ast.Inspect(masked.Body, func(n ast.Node) bool {
		if ifs, ok := n.(*ast.IfStmt); ok && inner == nil {
			inner = ifs
		}
		return inner == nil
	})
	if inner == nil {
		fail("%s: Processor.Process: no inner condition deciding between pattern and decrypted data", prel)
	} else {
		lf.def("processPatternCond", "String", strconv.Quote(srcOf(inner.Cond)), prel+": Processor.Process – when the pattern is returned instead of the decryptor's output")
	}
	// RegistryHandler.MatchDataSignature
	md := funcDecl(rrel, "RegistryHandler", "MatchDataSignature")
	if md == nil {
		return
	}
	var calls, mrets []string
	ast.Inspect(md.Body, func(n ast.Node) bool {
		switch t := n.(type) {
		case *ast.CallExpr:
			calls = append(calls, srcOf(t))
		case *ast.ReturnStmt:
			if len(t.Results) > 0 {
				mrets = append(mrets, srcOf(t.Results[0]))
			}
		}
		return true
	})
	lf.def("registryMatchCalls", "List String", strList(calls), rrel+": RegistryHandler.MatchDataSignature – calls in source order")
	lf.def("registryMatchReturns", "List String", strList(mrets), rrel+": RegistryHandler.MatchDataSignature – return expressions in source order")
}
