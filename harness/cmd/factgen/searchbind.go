package main

import (
	"go/ast"
	"go/token"
)

// SearchBind: hmac/decryptor/{postgresql,mysql}/hashQuery.go – two shapes of OnBind / replaceValuesWithHMACs
// the model of the bound-value rewrite depends on:
//   - what OnBind compares with len(indexes) before it gives up: all of bindData (which also lists the
//     placeholders of consistently tokenized columns) or only the entries of searchable columns;
//   - whether replaceValuesWithHMACs replaces a position once when the placeholder list names it twice.
func init() { generators = append(generators, genSearchBind) }

func genSearchBind() {
	lf := newLean("SearchBind", "Sources: hmac/decryptor/postgresql/hashQuery.go, hmac/decryptor/mysql/hashQuery.go (OnBind, replaceValuesWithHMACs).")
	for _, d := range []struct{ name, rel string }{{"pg", "hmac/decryptor/postgresql/hashQuery.go"}, {"mysql", "hmac/decryptor/mysql/hashQuery.go"}} {
		own, ok := bindCountShape(d.rel)
		if ok {
			lf.def(d.name+"BindCountsSearchableOnly", "Bool", boolStr(own), d.rel+": OnBind gives up when MORE placeholders are recorded than found – true: only bindData entries with setting.IsSearchable() are counted; false: len(bindData)")
		}
		once, ok := replaceOnceShape(d.rel)
		if ok {
			lf.def(d.name+"ReplacesOnce", "Bool", boolStr(once), d.rel+": replaceValuesWithHMACs skips a position it has already replaced (`replaced` set) – the same placeholder may be listed twice")
		}
	}
}

func identNamed(e ast.Expr, name string) bool {
	id, ok := e.(*ast.Ident)
	return ok && id.Name == name
}

func lenOf(e ast.Expr, name string) bool {
	c, ok := e.(*ast.CallExpr)
	return ok && identNamed(c.Fun, "len") && len(c.Args) == 1 && identNamed(c.Args[0], name)
}

// bindCountShape: `if <N> > len(indexes) { return values, false, nil }` in OnBind.
func bindCountShape(rel string) (countsOwn, ok bool) {
	fd := funcDecl(rel, "HashQuery", "OnBind")
	if fd == nil {
		return false, false
	}
	counters := map[string]bool{} // counter variable → incremented under `if <rangeValue>.IsSearchable()` in a range over bindData
	found := false
	for _, st := range fd.Body.List {
		switch s := st.(type) {
		case *ast.RangeStmt:
			if !identNamed(s.X, "bindData") || s.Value == nil || len(s.Body.List) != 1 {
				continue
			}
			val, isID := s.Value.(*ast.Ident)
			ifs, isIf := s.Body.List[0].(*ast.IfStmt)
			if !isID || !isIf || ifs.Init != nil || ifs.Else != nil || len(ifs.Body.List) != 1 {
				continue
			}
			call, isCall := ifs.Cond.(*ast.CallExpr)
			inc, isInc := ifs.Body.List[0].(*ast.IncDecStmt)
			if !isCall || !isInc || inc.Tok != token.INC || len(call.Args) != 0 {
				continue
			}
			sel, isSel := call.Fun.(*ast.SelectorExpr)
			ctr, isCtr := inc.X.(*ast.Ident)
			if isSel && isCtr && identNamed(sel.X, val.Name) && sel.Sel.Name == "IsSearchable" {
				counters[ctr.Name] = true
			}
		case *ast.IfStmt:
			be, isBin := s.Cond.(*ast.BinaryExpr)
			if !isBin || be.Op != token.GTR || !lenOf(be.Y, "indexes") {
				continue
			}
			switch {
			case lenOf(be.X, "bindData"):
				countsOwn, found = false, true
			default:
				id, isID := be.X.(*ast.Ident)
				if !isID || !counters[id.Name] {
					fail("%s: OnBind: left side of `… > len(indexes)` is neither len(bindData) nor a counter of searchable entries", rel)
					return false, false
				}
				countsOwn, found = true, true
			}
		}
	}
	if !found {
		fail("%s: OnBind: `if … > len(indexes)` not found", rel)
		return false, false
	}
	return countsOwn, true
}

// replaceOnceShape: the loop `for _, valueIndex := range placeholders` of replaceValuesWithHMACs starts with
// `if _, done := replaced[valueIndex]; done { continue }; replaced[valueIndex] = struct{}{}`.
func replaceOnceShape(rel string) (once, ok bool) {
	fd := funcDecl(rel, "HashQuery", "replaceValuesWithHMACs")
	if fd == nil {
		return false, false
	}
	for _, st := range fd.Body.List {
		rs, isRange := st.(*ast.RangeStmt)
		if !isRange || !identNamed(rs.X, "placeholders") || rs.Value == nil {
			continue
		}
		idx, isID := rs.Value.(*ast.Ident)
		if !isID {
			break
		}
		if len(rs.Body.List) < 2 {
			return false, true
		}
		ifs, isIf := rs.Body.List[0].(*ast.IfStmt)
		as, isAs := rs.Body.List[1].(*ast.AssignStmt)
		if !isIf || !isAs || ifs.Init == nil || ifs.Else != nil || len(ifs.Body.List) != 1 {
			return false, true
		}
		init, isInit := ifs.Init.(*ast.AssignStmt)
		br, isBr := ifs.Body.List[0].(*ast.BranchStmt)
		if !isInit || !isBr || br.Tok != token.CONTINUE || len(init.Lhs) != 2 || len(init.Rhs) != 1 || len(as.Lhs) != 1 {
			return false, true
		}
		setOf := func(e ast.Expr) string { // name of M in M[idx]
			ix, isIx := e.(*ast.IndexExpr)
			if !isIx || !identNamed(ix.Index, idx.Name) {
				return ""
			}
			m, isM := ix.X.(*ast.Ident)
			if !isM {
				return ""
			}
			return m.Name
		}
		okVar, isOK := init.Lhs[1].(*ast.Ident)
		m1, m2 := setOf(init.Rhs[0]), setOf(as.Lhs[0])
		return isOK && identNamed(ifs.Cond, okVar.Name) && m1 != "" && m1 == m2 && as.Tok == token.ASSIGN, true
	}
	fail("%s: replaceValuesWithHMACs: `for _, valueIndex := range placeholders` not found", rel)
	return false, false
}
