package main

import (
	"fmt"
	"go/ast"
	"go/constant"
	"go/token"
	"sort"
	"strings"
)

// Wire: constants and small tables of the two wire protocols that the Lean models of C12 interpret.
//
//	PostgreSQL  decryptor/postgresql/pg_decryptor.go (message type bytes, DataRowLengthBufSize, TerminatePacket),
//	            packet_handler.go (start-up tags/headers, WithoutMessageType, NullColumnValue, known client tags),
//	            utils.go (bind formats)
//	MySQL       decryptor/mysql/packet.go (header size, OK/EOF/ERR markers), response_proxy.go (MaxPayloadLen, commands,
//	            null-bitmap offsets of processBinaryDataRow, the type → width table of extractData),
//	            base/type.go (type codes, NumericTypesStorageBytes)
func init() { generators = append(generators, genWire) }

// byteSliceOf evaluates []byte{…} composite literals, identifiers bound to such literals and
// bytes.Join([][]byte{a, b, …}, []byte{}) to a byte list.
func byteSliceOf(env *constEnv, vars map[string]ast.Expr, e ast.Expr, where string) ([]uint64, bool) {
	switch t := e.(type) {
	case *ast.Ident:
		if v, ok := vars[t.Name]; ok {
			return byteSliceOf(env, vars, v, where)
		}
	case *ast.CompositeLit:
		var out []uint64
		for _, el := range t.Elts {
			if inner, ok := el.(*ast.CompositeLit); ok {
				b, ok := byteSliceOf(env, vars, inner, where)
				if !ok {
					return nil, false
				}
				out = append(out, b...)
				continue
			}
			if id, ok := el.(*ast.Ident); ok {
				if _, isVar := vars[id.Name]; isVar {
					b, ok := byteSliceOf(env, vars, id, where)
					if !ok {
						return nil, false
					}
					out = append(out, b...)
					continue
				}
			}
			v := env.eval(el)
			if v == nil {
				return nil, false
			}
			u, ok := constant.Uint64Val(constant.ToInt(v))
			if !ok || u > 255 {
				return nil, false
			}
			out = append(out, u)
		}
		return out, true
	case *ast.CallExpr:
		// bytes.Join([][]byte{…}, []byte{})
		if sel, ok := t.Fun.(*ast.SelectorExpr); ok && sel.Sel.Name == "Join" && len(t.Args) == 2 {
			if sep, ok := byteSliceOf(env, vars, t.Args[1], where); ok && len(sep) == 0 {
				return byteSliceOf(env, vars, t.Args[0], where)
			}
		}
	}
	return nil, false
}

func packageVars(rels ...string) map[string]ast.Expr {
	vars := map[string]ast.Expr{}
	for _, rel := range rels {
		f := parseFile(rel)
		if f == nil {
			continue
		}
		for _, d := range f.Decls {
			gd, ok := d.(*ast.GenDecl)
			if !ok || gd.Tok != token.VAR {
				continue
			}
			for _, s := range gd.Specs {
				vs := s.(*ast.ValueSpec)
				for i, n := range vs.Names {
					if i < len(vs.Values) {
						vars[n.Name] = vs.Values[i]
					}
				}
			}
		}
	}
	return vars
}

func (env *constEnv) need(name, where string) uint64 {
	v, ok := env.vals[name]
	if !ok {
		fail("%s: constant %s not found", where, name)
		return 0
	}
	if v.Kind() != constant.Int {
		v = constant.ToInt(v)
	}
	if constant.Sign(v) < 0 {
		fail("%s: constant %s is negative", where, name)
		return 0
	}
	u, ok := constant.Uint64Val(v)
	if !ok {
		fail("%s: constant %s is not an unsigned integer", where, name)
	}
	return u
}

func genWire() {
	lf := newLean("Wire", "Sources: decryptor/postgresql/{pg_decryptor.go,packet_handler.go,utils.go}, decryptor/mysql/{packet.go,response_proxy.go,base/type.go}.")

	// ---------------- PostgreSQL ----------------
	pgFiles := []string{"decryptor/postgresql/pg_decryptor.go", "decryptor/postgresql/packet_handler.go", "decryptor/postgresql/utils.go"}
	env := newConstEnv(pgFiles...)
	vars := packageVars(pgFiles...)
	const pg = "decryptor/postgresql"
	lf.def("pgDataRowLengthBufSize", "Nat", fmt.Sprint(env.need("DataRowLengthBufSize", pg)), "DataRowLengthBufSize")
	lf.def("pgWithoutMessageType", "Nat", fmt.Sprint(env.need("WithoutMessageType", pg)), "WithoutMessageType")
	var types []string
	for _, n := range []string{"DataRowMessageType", "QueryMessageType", "ParseMessageType", "BindMessageType", "ExecuteMessageType",
		"ErrorResponseType", "ParseCompleteMessageType", "BindCompleteMessageType", "ReadyForQueryMessageType", "RowDescriptionType",
		"ParameterDescriptionType", "CommandCompleteType", "EmptyQueryResponseType", "NoDataType", "PortalSuspendedType"} {
		types = append(types, fmt.Sprintf("(%q, %d)", n, env.need(n, pg)))
	}
	lf.def("pgMessageTypes", "List (String × Nat)", "[\n  "+strings.Join(types, ",\n  ")+"]", "message type bytes (pg_decryptor.go const block)")
	// NullColumnValue int32 = -1
	if i, ok := wireSignedConst("decryptor/postgresql/packet_handler.go", "NullColumnValue", env); ok {
		lf.def("pgNullColumnValue", "Int", fmt.Sprint(i), "NullColumnValue (length marker of a NULL column)")
	} else {
		fail("%s: NullColumnValue not found", pg)
	}
	lf.def("pgBindFormatText", "Nat", fmt.Sprint(env.need("bindFormatText", pg)), "bindFormatText")
	lf.def("pgBindFormatBinary", "Nat", fmt.Sprint(env.need("bindFormatBinary", pg)), "bindFormatBinary")
	for _, n := range []string{"TerminatePacket", "ReadyForQuery", "SSLRequest", "CancelRequest", "StartupRequest", "GSSENCRequest",
		"SSLRequestHeader", "CancelRequestHeader", "GSSENCRequestHeader", "terminator"} {
		e, ok := vars[n]
		if !ok {
			fail("%s: var %s not found", pg, n)
			continue
		}
		b, ok := byteSliceOf(env, vars, e, pg)
		if !ok {
			fail("%s: var %s is not a byte-slice literal", pg, n)
			continue
		}
		name := "pg" + strings.ToUpper(n[:1]) + n[1:]
		lf.def(name, "List Nat", natList(b), "var "+n)
	}
	// tags listed in the `case` of readGeneralPacket (known client message tags) and the Terminate tag
	if fd := funcDecl("decryptor/postgresql/packet_handler.go", "PacketHandler", "readGeneralPacket"); fd != nil {
		var known []uint64
		var term []uint64
		ast.Inspect(fd.Body, func(n ast.Node) bool {
			sw, ok := n.(*ast.SwitchStmt)
			if !ok {
				return true
			}
			if id, ok := sw.Tag.(*ast.Ident); !ok || id.Name != "tag" {
				return true
			}
			for _, c := range sw.Body.List {
				cc := c.(*ast.CaseClause)
				for _, e := range cc.List {
					v := env.intOf(e, pg)
					if len(cc.Body) > 0 {
						term = append(term, v)
					} else {
						known = append(known, v)
					}
				}
			}
			return false
		})
		if len(term) != 1 || len(known) == 0 {
			fail("%s: readGeneralPacket: switch on tag has an unexpected shape", pg)
		}
		lf.def("pgKnownClientTags", "List Nat", natList(known), "readGeneralPacket: tags of the empty `case` (known client messages)")
		lf.def("pgTerminateTag", "List Nat", natList(term), "readGeneralPacket: tag of the case with a body (Terminate)")
	}

	// ---------------- MySQL ----------------
	myFiles := []string{"decryptor/mysql/packet.go", "decryptor/mysql/response_proxy.go", "decryptor/mysql/base/type.go", "decryptor/mysql/column_field.go"}
	menv := newConstEnv(myFiles...)
	const my = "decryptor/mysql"
	for _, n := range []string{"PacketHeaderSize", "SequenceIDIndex", "MaxPayloadLen", "OkPacket", "EOFPacket", "ErrPacket",
		"CommandQuit", "CommandQuery", "CommandStatementPrepare", "CommandStatementExecute", "CommandStatementSendLongData",
		"CommandStatementClose", "CommandStatementReset", "BlobFlag", "unsignedBinaryValue", "signedBinaryValue"} {
		lf.def("my"+strings.ToUpper(n[:1])+n[1:], "Nat", fmt.Sprint(menv.need(n, my)), n)
	}
	typeNames := []string{"TypeDecimal", "TypeTiny", "TypeShort", "TypeLong", "TypeFloat", "TypeDouble", "TypeNull", "TypeTimestamp",
		"TypeLongLong", "TypeInt24", "TypeDate", "TypeTime", "TypeDatetime", "TypeYear", "TypeNewDate", "TypeVarchar", "TypeBit",
		"TypeNewDecimal", "TypeEnum", "TypeSet", "TypeTinyBlob", "TypeMediumBlob", "TypeLongBlob", "TypeBlob", "TypeVarString", "TypeString", "TypeGeometry"}
	var trows []string
	for _, n := range typeNames {
		trows = append(trows, fmt.Sprintf("(%q, %d)", n, menv.need(n, my)))
	}
	lf.def("myTypes", "List (String × Nat)", "[\n  "+strings.Join(trows, ",\n  ")+"]", "base/type.go: type codes")
	// NumericTypesStorageBytes map literal
	mvars := packageVars("decryptor/mysql/base/type.go")
	if e, ok := mvars["NumericTypesStorageBytes"]; ok {
		cl, ok := e.(*ast.CompositeLit)
		if !ok {
			fail("%s: NumericTypesStorageBytes is not a literal", my)
		} else {
			var rows [][2]uint64
			for _, el := range cl.Elts {
				kv := el.(*ast.KeyValueExpr)
				val := kv.Value
				if c, ok := val.(*ast.CallExpr); ok && len(c.Args) == 1 { // StorageByte(n)
					val = c.Args[0]
				}
				rows = append(rows, [2]uint64{menv.intOf(kv.Key, my), menv.intOf(val, my)})
			}
			sort.Slice(rows, func(i, j int) bool { return rows[i][0] < rows[j][0] })
			lf.def("myNumericStorageBytes", "List (Nat × Nat)", pairList(rows), "base.NumericTypesStorageBytes: type code → bytes (sorted by code)")
		}
	} else {
		fail("%s: NumericTypesStorageBytes not found", my)
	}
	// extractData: switch fieldType { case T…: return rowData[pos:pos+K], K, nil | LengthEncodedString | []byte{}, 0 }
	if fd := funcDecl("decryptor/mysql/response_proxy.go", "Handler", "extractData"); fd != nil {
		var fixed [][2]uint64
		var lenenc []uint64
		found := false
		ast.Inspect(fd.Body, func(n ast.Node) bool {
			sw, ok := n.(*ast.SwitchStmt)
			if !ok {
				return true
			}
			if id, ok := sw.Tag.(*ast.Ident); !ok || id.Name != "fieldType" {
				return true
			}
			found = true
			for _, c := range sw.Body.List {
				cc := c.(*ast.CaseClause)
				if cc.List == nil {
					continue // default: error
				}
				kind, width := classifyExtract(menv, cc.Body, my)
				for _, e := range cc.List {
					code := menv.intOf(e, my)
					switch kind {
					case "fixed":
						fixed = append(fixed, [2]uint64{code, width})
					case "lenenc":
						lenenc = append(lenenc, code)
					default:
						fail("%s: extractData: case for type %d has an unexpected body", my, code)
					}
				}
			}
			return false
		})
		if !found {
			fail("%s: extractData: switch fieldType not found", my)
		}
		sort.Slice(fixed, func(i, j int) bool { return fixed[i][0] < fixed[j][0] })
		sort.Slice(lenenc, func(i, j int) bool { return lenenc[i] < lenenc[j] })
		// bounds checks added by the repair: a guard on NumericTypesStorageBytes[fieldType] in front of the switch and a
		// guard in front of every LengthEncodedString read
		fixedGuard := false
		for _, st := range fd.Body.List {
			if is, ok := st.(*ast.IfStmt); ok && is.Init != nil && returnsErr(is.Body) {
				ast.Inspect(is.Init, func(n ast.Node) bool {
					if sel, ok := n.(*ast.SelectorExpr); ok && sel.Sel.Name == "NumericTypesStorageBytes" {
						fixedGuard = true
					}
					return true
				})
			}
		}
		lenencGuard := true
		ast.Inspect(fd.Body, func(n ast.Node) bool {
			cc, ok := n.(*ast.CaseClause)
			if !ok || len(cc.Body) == 0 {
				return true
			}
			for i, st := range cc.Body {
				if as, ok := st.(*ast.AssignStmt); ok && len(as.Rhs) == 1 {
					if c, ok := as.Rhs[0].(*ast.CallExpr); ok {
						if sel, ok := c.Fun.(*ast.SelectorExpr); ok && sel.Sel.Name == "LengthEncodedString" {
							if i == 0 {
								lenencGuard = false
							} else if is, ok := cc.Body[i-1].(*ast.IfStmt); !ok || !returnsErr(is.Body) {
								lenencGuard = false
							}
						}
					}
				}
			}
			return true
		})
		lf.def("myExtractFixedGuarded", "Bool", boolStr(fixedGuard), "extractData: fixed-width reads are preceded by a bounds check returning an error")
		lf.def("myExtractLenEncGuarded", "Bool", boolStr(lenencGuard), "extractData: every LengthEncodedString read is preceded by a bounds check returning an error")
		lf.def("myExtractFixed", "List (Nat × Nat)", pairList(fixed), "extractData: type code → fixed width of `rowData[pos:pos+K]` (0 for the `[]byte{}, 0` case)")
		lf.def("myExtractLenEnc", "List Nat", natList(lenenc), "extractData: type codes read with LengthEncodedString")
	}
	genWireColDef(lf, menv)
	genWireExecute(lf, menv)
	genWireDescribe(lf)
	genWirePgInts(lf)
}

// signedConst evaluates a constant declared as `Name T = -k` or `Name T = k` (the shared evaluator has no unary minus).
func wireSignedConst(rel, name string, env *constEnv) (int64, bool) {
	f := parseFile(rel)
	if f == nil {
		return 0, false
	}
	for _, d := range f.Decls {
		gd, ok := d.(*ast.GenDecl)
		if !ok || gd.Tok != token.CONST {
			continue
		}
		for _, s := range gd.Specs {
			vs := s.(*ast.ValueSpec)
			for i, n := range vs.Names {
				if n.Name != name || i >= len(vs.Values) {
					continue
				}
				e := vs.Values[i]
				neg := false
				if u, ok := e.(*ast.UnaryExpr); ok && u.Op == token.SUB {
					neg = true
					e = u.X
				}
				v := env.eval(e)
				if v == nil {
					return 0, false
				}
				k, ok := constant.Int64Val(constant.ToInt(v))
				if !ok {
					return 0, false
				}
				if neg {
					k = -k
				}
				return k, true
			}
		}
	}
	return 0, false
}

// classifyExtract recognises the three body shapes of extractData's cases.
func classifyExtract(env *constEnv, body []ast.Stmt, where string) (string, uint64) {
	if len(body) == 0 {
		return "", 0
	}
	if ret, ok := body[0].(*ast.ReturnStmt); ok && len(ret.Results) == 3 {
		switch r := ret.Results[0].(type) {
		case *ast.SliceExpr:
			// rowData[pos : pos+K], K, nil
			be, ok := r.High.(*ast.BinaryExpr)
			if !ok || be.Op != token.ADD {
				return "", 0
			}
			k := env.intOf(be.Y, where)
			if env.intOf(ret.Results[1], where) != k {
				fail("%s: extractData: slice width %d differs from the returned n", where, k)
			}
			return "fixed", k
		case *ast.CompositeLit:
			if len(r.Elts) == 0 && env.intOf(ret.Results[1], where) == 0 {
				return "fixed", 0
			}
		}
		return "", 0
	}
	// optional guard `if pos > len(rowData) { return …, ErrMalformPacket }` in front of the read
	if is, ok := body[0].(*ast.IfStmt); ok && len(body) > 1 && returnsErr(is.Body) {
		body = body[1:]
	}
	// value, n, err := base_mysql.LengthEncodedString(rowData[pos:])
	if as, ok := body[0].(*ast.AssignStmt); ok && len(as.Rhs) == 1 {
		if c, ok := as.Rhs[0].(*ast.CallExpr); ok {
			if sel, ok := c.Fun.(*ast.SelectorExpr); ok && sel.Sel.Name == "LengthEncodedString" {
				return "lenenc", 0
			}
		}
	}
	return "", 0
}
