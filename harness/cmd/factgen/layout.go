package main

import (
	"fmt"
	"go/ast"
	"go/token"
)

// Layout: sizes, tags and ids of the three envelope formats
// (acrastruct/constants.go, acrablock/acrablock.go, crypto/registry_handler.go, crypto/acra{block,struct}.go).
func init() { generators = append(generators, genLayout) }

// varByteList evaluates `var X = []byte{a, b, …}` of a file.
func varByteList(env *constEnv, rel, name string) []uint64 {
	f := parseFile(rel)
	if f == nil {
		return nil
	}
	for _, d := range f.Decls {
		gd, ok := d.(*ast.GenDecl)
		if !ok || gd.Tok != token.VAR {
			continue
		}
		for _, s := range gd.Specs {
			vs := s.(*ast.ValueSpec)
			for i, n := range vs.Names {
				if n.Name != name || i >= len(vs.Values) {
					continue
				}
				cl, ok := vs.Values[i].(*ast.CompositeLit)
				if !ok {
					fail("%s: var %s is not a composite literal", rel, name)
					return nil
				}
				var out []uint64
				for _, e := range cl.Elts {
					out = append(out, env.intOf(e, rel+":"+name))
				}
				return out
			}
		}
	}
	fail("%s: var %s not found", rel, name)
	return nil
}

func genLayout() {
	lf := newLean("Layout", "Sources: acrastruct/constants.go, acrablock/acrablock.go, crypto/registry_handler.go, crypto/acrablock.go, crypto/acrastruct.go.")
	nat := func(env *constEnv, rel, name, lean string) {
		v, ok := env.vals[name]
		if !ok {
			fail("%s: constant %s not found", rel, name)
			return
		}
		lf.def(lean, "Nat", v.ExactString(), rel+": "+name)
	}
	// AcraStruct
	sEnv := newConstEnv("acrastruct/constants.go")
	lf.def("structTag", "List Nat", natList(varByteList(sEnv, "acrastruct/constants.go", "TagBegin")), "acrastruct/constants.go: TagBegin")
	nat(sEnv, "acrastruct/constants.go", "PublicKeyLength", "structPublicKeyLength")
	nat(sEnv, "acrastruct/constants.go", "SMessageKeyLength", "structSMessageKeyLength")
	nat(sEnv, "acrastruct/constants.go", "KeyBlockLength", "structKeyBlockLength")
	nat(sEnv, "acrastruct/constants.go", "SymmetricKeySize", "structSymmetricKeySize")
	nat(sEnv, "acrastruct/constants.go", "DataLengthSize", "structDataLengthSize")
	// AcraBlock
	const brel = "acrablock/acrablock.go"
	bEnv := newConstEnv(brel)
	for _, n := range []string{"TagBeginSize", "KeyEncryptionKeyTypeSize", "KeyEncryptionKeyIDSize", "DataEncryptionKeyLengthSize", "DataEncryptionTypeSize",
		"RestAcraBlockLengthSize", "AcraBlockMinSize", "RestAcraBlockLengthPosition", "KeyEncryptionKeyTypePosition", "KeyEncryptionKeyIDPosition",
		"DataEncryptionTypePosition", "DataEncryptionKeyLengthPosition", "EncryptedDataEncryptionKeyPosition", "SymmetricDataEncryptionKeyLength",
		"KeyEncryptionBackendTypeSecureCell", "DataEncryptionBackendTypeSecureCell", "validAcraBlockMask"} {
		nat(bEnv, brel, n, "block"+n)
	}
	// which backend ids are registered (keys of the two maps)
	lf.def("blockKeyBackends", "List Nat", natList(mapKeys(bEnv, brel, "keyEncryptionBackendTypeMap")), brel+": keys of keyEncryptionBackendTypeMap")
	lf.def("blockDataBackends", "List Nat", natList(mapKeys(bEnv, brel, "dataEncryptionBackendTypeMap")), brel+": keys of dataEncryptionBackendTypeMap")
	// Serialized container
	const crel = "crypto/registry_handler.go"
	cEnv := newConstEnv(crel, "crypto/acrablock.go", "crypto/acrastruct.go")
	lf.def("containerTag", "List Nat", natList(varByteList(cEnv, crel, "TagBegin")), crel+": TagBegin")
	nat(cEnv, crel, "TagBeginSize", "containerTagBeginSize")
	nat(cEnv, crel, "SerializedContainerLengthSize", "containerLengthSize")
	nat(cEnv, crel, "EnvelopeIDLengthSize", "containerEnvelopeIDLengthSize")
	nat(cEnv, crel, "SerializedContainerMinSize", "containerMinSize")
	nat(cEnv, "crypto/acrablock.go", "AcraBlockEnvelopeID", "acraBlockEnvelopeID")
	nat(cEnv, "crypto/acrastruct.go", "AcraStructEnvelopeID", "acraStructEnvelopeID")
}

// mapKeys: keys of `var name = map[K]V{ k: v, … }`
func mapKeys(env *constEnv, rel, name string) []uint64 {
	f := parseFile(rel)
	if f == nil {
		return nil
	}
	for _, d := range f.Decls {
		gd, ok := d.(*ast.GenDecl)
		if !ok || gd.Tok != token.VAR {
			continue
		}
		for _, s := range gd.Specs {
			vs := s.(*ast.ValueSpec)
			for i, n := range vs.Names {
				if n.Name != name || i >= len(vs.Values) {
					continue
				}
				cl, ok := vs.Values[i].(*ast.CompositeLit)
				if !ok {
					fail("%s: var %s is not a composite literal", rel, name)
					return nil
				}
				var out []uint64
				for _, e := range cl.Elts {
					kv, ok := e.(*ast.KeyValueExpr)
					if !ok {
						fail("%s: %s: element is not key: value", rel, name)
						continue
					}
					out = append(out, env.intOf(kv.Key, fmt.Sprintf("%s:%s", rel, name)))
				}
				return out
			}
		}
	}
	fail("%s: var %s not found", rel, name)
	return nil
}
