package main

import (
	"fmt"
	"go/ast"
	"strings"
)

// Wiring: order in which the SQL proxies assemble the envelope-detector callbacks and the
// decryption subscribers, and which AcraTranslator operations run the poison check on failure
// (decryptor/{postgresql,mysql}/proxy.go, cmd/acra-translator/common/service.go).
func init() { generators = append(generators, genWiring) }

func callName(c *ast.CallExpr) string {
	switch f := c.Fun.(type) {
	case *ast.SelectorExpr:
		if x, ok := f.X.(*ast.Ident); ok {
			return x.Name + "." + f.Sel.Name
		}
		if x, ok := f.X.(*ast.SelectorExpr); ok {
			if y, ok := x.X.(*ast.Ident); ok {
				return y.Name + "." + x.Sel.Name + "." + f.Sel.Name
			}
		}
		return "?." + f.Sel.Name
	case *ast.Ident:
		return f.Name
	}
	return "?"
}

func argName(e ast.Expr) string {
	switch t := e.(type) {
	case *ast.Ident:
		return t.Name
	case *ast.CallExpr:
		return callName(t) + "()"
	case *ast.SelectorExpr:
		return argName(t.X) + "." + t.Sel.Name
	}
	return "?"
}

func proxyWiring(rel string) (callbacks []string, subscribers []string) {
	fd := funcDecl(rel, "proxyFactory", "New")
	if fd == nil {
		return
	}
	ast.Inspect(fd.Body, func(n ast.Node) bool {
		c, ok := n.(*ast.CallExpr)
		if !ok {
			return true
		}
		switch name := callName(c); {
		case name == "crypto.NewOldContainerDetectorWrapper":
			callbacks = append(callbacks, "wrapper")
		case strings.HasSuffix(name, ".AddCallback") && len(c.Args) == 1 && strings.HasPrefix(name, "envelopeDetector"):
			callbacks = append(callbacks, argName(c.Args[0]))
		case strings.HasSuffix(name, ".SubscribeOnAllColumnsDecryption") && len(c.Args) == 1:
			subscribers = append(subscribers, argName(c.Args[0]))
		}
		return true
	})
	if len(callbacks) == 0 {
		fail("%s: proxyFactory.New: no envelope detector callbacks found", rel)
	}
	return
}

func genWiring() {
	lf := newLean("Wiring", "Sources: decryptor/postgresql/proxy.go, decryptor/mysql/proxy.go, cmd/acra-translator/common/service.go.")
	for _, p := range []struct{ rel, name string }{{"decryptor/postgresql/proxy.go", "pg"}, {"decryptor/mysql/proxy.go", "mysql"}} {
		cbs, subs := proxyWiring(p.rel)
		lf.def(p.name+"CallbackOrder", "List String", strList(cbs), p.rel+": proxyFactory.New – envelope detector callbacks in registration order (wrapper = NewOldContainerDetectorWrapper, which registers itself first)")
		lf.def(p.name+"SubscriberOrder", "List String", strList(subs), p.rel+": proxyFactory.New – SubscribeOnAllColumnsDecryption calls in source order")
	}
	// AcraTranslator: which operations call the poison detector
	const trel = "cmd/acra-translator/common/service.go"
	f := parseFile(trel)
	if f == nil {
		return
	}
	var rows []string
	for _, d := range f.Decls {
		fd, ok := d.(*ast.FuncDecl)
		if !ok || fd.Recv == nil || recvName(fd.Recv.List[0].Type) != "TranslatorService" || !strings.HasPrefix(fd.Name.Name, "Decrypt") {
			continue
		}
		n := 0
		ast.Inspect(fd.Body, func(x ast.Node) bool {
			if c, ok := x.(*ast.CallExpr); ok && callName(c) == "service.poisonDetector.OnColumn" {
				n++
			}
			return true
		})
		rows = append(rows, fmt.Sprintf("(%q, %d)", fd.Name.Name, n))
	}
	if len(rows) == 0 {
		fail("%s: no TranslatorService.Decrypt* methods found", trel)
	}
	lf.def("translatorPoisonChecks", "List (String × Nat)", "["+strings.Join(rows, ", ")+"]", trel+": number of service.poisonDetector.OnColumn calls in each Decrypt* operation")
}
