package main

import (
	"fmt"
	"go/ast"
	"strings"
)

// Wiring: order in which the SQL proxies assemble the envelope-detector callbacks and the
// decryption subscribers, and which AcraTranslator operations run the poison check on failure
// (decryptor/{postgresql,mysql}/proxy.go, cmd/acra-translator/common/service.go).
func init() { generators = append(generators, genWiring) }

func callName(c *ast.CallExpr) string {
	switch f := c.Fun.(type) {
	case *ast.SelectorExpr:
		if x, ok := f.X.(*ast.Ident); ok {
			return x.Name + "." + f.Sel.Name
		}
		if x, ok := f.X.(*ast.SelectorExpr); ok {
			if y, ok := x.X.(*ast.Ident); ok {
				return y.Name + "." + x.Sel.Name + "." + f.Sel.Name
			}
		}
		return "?." + f.Sel.Name
	case *ast.Ident:
		return f.Name
	}
	return "?"
}

func argName(e ast.Expr) string {
	switch t := e.(type) {
	case *ast.Ident:
		return t.Name
	case *ast.CallExpr:
		return callName(t) + "()"
	case *ast.SelectorExpr:
		return argName(t.X) + "." + t.Sel.Name
	}
	return "?"
}

func proxyWiring(rel string) (callbacks []string, subscribers []string) {
	fd := funcDecl(rel, "proxyFactory", "New")
	if fd == nil {
		return
	}
	ast.Inspect(fd.Body, func(n ast.Node) bool {
		c, ok := n.(*ast.CallExpr)
		if !ok {
			return true
		}
		switch name := callName(c); {
		case name == "crypto.NewOldContainerDetectorWrapper":
			callbacks = append(callbacks, "wrapper")
		case strings.HasSuffix(name, ".AddCallback") && len(c.Args) == 1 && strings.HasPrefix(name, "envelopeDetector"):
			callbacks = append(callbacks, argName(c.Args[0]))
		case strings.HasSuffix(name, ".SubscribeOnAllColumnsDecryption") && len(c.Args) == 1:
			subscribers = append(subscribers, argName(c.Args[0]))
		}
		return true
	})
	if len(callbacks) == 0 {
		fail("%s: proxyFactory.New: no envelope detector callbacks found", rel)
	}
	return
}

func genWiring() {
	lf := newLean("Wiring", "Sources: decryptor/postgresql/proxy.go, decryptor/mysql/proxy.go, cmd/acra-translator/common/service.go.")
	for _, p := range []struct{ rel, name string }{{"decryptor/postgresql/proxy.go", "pg"}, {"decryptor/mysql/proxy.go", "mysql"}} {
		cbs, subs := proxyWiring(p.rel)
		lf.def(p.name+"CallbackOrder", "List String", strList(cbs), p.rel+": proxyFactory.New – envelope detector callbacks in registration order (wrapper = NewOldContainerDetectorWrapper, which registers itself first)")
		lf.def(p.name+"SubscriberOrder", "List String", strList(subs), p.rel+": proxyFactory.New – SubscribeOnAllColumnsDecryption calls in source order")
	}
	// AcraTranslator: which operations call the poison detector
	const trel = "cmd/acra-translator/common/service.go"
	f := parseFile(trel)
	if f == nil {
		return
	}
	var rows []string
	for _, d := range f.Decls {
		fd, ok := d.(*ast.FuncDecl)
		if !ok || fd.Recv == nil || recvName(fd.Recv.List[0].Type) != "TranslatorService" || !strings.HasPrefix(fd.Name.Name, "Decrypt") {
			continue
		}
		n := 0
		ast.Inspect(fd.Body, func(x ast.Node) bool {
			if c, ok := x.(*ast.CallExpr); ok && callName(c) == "service.poisonDetector.OnColumn" {
				n++
			}
			return true
		})
		rows = append(rows, fmt.Sprintf("(%q, %d)", fd.Name.Name, n))
	}
	if len(rows) == 0 {
		fail("%s: no TranslatorService.Decrypt* methods found", trel)
	}
	lf.def("translatorPoisonChecks", "List (String × Nat)", "["+strings.Join(rows, ", ")+"]", trel+": number of service.poisonDetector.OnColumn calls in each Decrypt* operation")
	// … and WHAT each of these calls scans: the variable it receives and what that variable holds on the path to the call
	var sites []string
	for _, d := range f.Decls {
		fd, ok := d.(*ast.FuncDecl)
		if !ok || fd.Recv == nil || recvName(fd.Recv.List[0].Type) != "TranslatorService" || !strings.HasPrefix(fd.Name.Name, "Decrypt") {
			continue
		}
		for _, st := range poisonSites(trel, fd) {
			sites = append(sites, fmt.Sprintf("(%q, %q, %q, %q, %q)", fd.Name.Name, st.branch, st.arg, st.holds, st.decrypted))
		}
	}
	lf.def("translatorPoisonSites", "List (String × String × String × String × String)", "[\n  "+strings.Join(sites, ",\n  ")+"]",
		trel+": every service.poisonDetector.OnColumn call of the Decrypt* operations in source order: (operation, failure path: `no-hash` = inside `if hashPart == nil` after hmac.ExtractHashAndData / `decrypt-failed` = inside the error branch of DecryptWithHandler, the variable the detector receives, what that variable HOLDS on that path, what the failed DecryptWithHandler had received). Values: `input` = the caller's data parameter; `hash++input` = `dataToDecrypt` (the hash argument, when given, in front of the data); `rest-after-hash` = second result of hmac.ExtractHashAndData(hash++input) on a path where a hash was found; `nil` = that second result on the path where NO hash was found (ExtractHashAndData returns nil, nil there); `-` = not applicable")
	lf.def("extractHashAndDataNilTogether", "Bool", boolStr(extractNilTogether()), "hmac/hash.go: ExtractHashAndData returns `nil, nil` when ExtractHash finds no hash (so the data result is nil whenever the hash result is)")
}

// extractNilTogether: hmac.ExtractHashAndData has `if hashData == nil { return nil, nil }` and hashData is its first result otherwise.
func extractNilTogether() bool {
	const rel = "hmac/hash.go"
	fd := funcDecl(rel, "", "ExtractHashAndData")
	if fd == nil || fd.Body == nil {
		fail("%s: ExtractHashAndData not found", rel)
		return false
	}
	found := false
	for _, st := range fd.Body.List {
		if ifs, ok := st.(*ast.IfStmt); ok && render(ifs.Cond) == "hashData == nil" && len(ifs.Body.List) == 1 {
			if ret, ok := ifs.Body.List[0].(*ast.ReturnStmt); ok && len(ret.Results) == 2 && render(ret.Results[0]) == "nil" && render(ret.Results[1]) == "nil" {
				found = true
			}
		}
	}
	last, ok := fd.Body.List[len(fd.Body.List)-1].(*ast.ReturnStmt)
	if !ok || len(last.Results) != 2 || render(last.Results[0]) != "hashData" {
		fail("%s: ExtractHashAndData: the final return is expected to give hashData first, found `%s`", rel, render(fd.Body.List[len(fd.Body.List)-1]))
	}
	return found
}

type poisonSite struct{ branch, arg, holds, decrypted string }

// poisonSites walks a Decrypt* method with a small symbolic environment (variable → what it holds) and the path
// condition, and reports every poison-detector call with what its data argument holds there.
func poisonSites(trel string, fd *ast.FuncDecl) (out []poisonSite) {
	name := fd.Name.Name
	env := map[string]string{}
	// parameters: ctx, <data>, [hash], clientID, additionalContext
	var params []string
	for _, fl := range fd.Type.Params.List {
		for _, n := range fl.Names {
			params = append(params, n.Name)
		}
	}
	if len(params) < 4 || params[0] != "ctx" {
		fail("%s: %s: unexpected parameter list %v", trel, name, params)
		return
	}
	env[params[1]] = "input"
	hashParam := ""
	if len(params) == 5 {
		hashParam = params[2]
		env[hashParam] = "hash"
	}
	nilTogether := extractNilTogether()
	decryptedArg := "" // what the last DecryptWithHandler received
	errOfDecrypt := "" // the error variable assigned by DecryptWithHandler
	pairFirst, pairSecond, pairArg := "", "", ""
	var walk func(stmts []ast.Stmt, branch string, noHash bool)
	record := func(call *ast.CallExpr, branch string, noHash bool) {
		if len(call.Args) != 2 {
			fail("%s: %s: poisonDetector.OnColumn with %d arguments", trel, name, len(call.Args))
			return
		}
		id, ok := call.Args[1].(*ast.Ident)
		if !ok {
			fail("%s: %s: poisonDetector.OnColumn receives %s – not a plain variable", trel, name, render(call.Args[1]))
			return
		}
		holds, ok := env[id.Name]
		if !ok {
			fail("%s: %s: poisonDetector.OnColumn receives %s whose origin is not understood", trel, name, id.Name)
			return
		}
		if id.Name == pairSecond {
			if noHash {
				if nilTogether {
					holds = "nil"
				} else {
					holds = "unknown"
				}
			} else {
				holds = "rest-after-hash"
			}
		}
		if branch == "" {
			fail("%s: %s: poisonDetector.OnColumn outside a failure branch that is understood", trel, name)
			return
		}
		dec := "-"
		if branch == "decrypt-failed" {
			dec = decryptedArg
		}
		out = append(out, poisonSite{branch, id.Name, holds, dec})
	}
	walk = func(stmts []ast.Stmt, branch string, noHash bool) {
		for _, st := range stmts {
			switch s := st.(type) {
			case *ast.AssignStmt:
				// x := y   |  a, b := hmac.ExtractHashAndData(x)  |  v, err := service.handler.DecryptWithHandler(h, x, ctx)  |  _, _, e := …OnColumn(…)
				if len(s.Rhs) == 1 {
					if call, ok := s.Rhs[0].(*ast.CallExpr); ok {
						switch {
						case callName(call) == "service.poisonDetector.OnColumn":
							record(call, branch, noHash)
						case callName(call) == "hmac.ExtractHashAndData" && len(s.Lhs) == 2 && len(call.Args) == 1:
							pairFirst, pairSecond = render(s.Lhs[0]), render(s.Lhs[1])
							pairArg = env[render(call.Args[0])]
							if pairArg != "hash++input" && pairArg != "input" {
								fail("%s: %s: hmac.ExtractHashAndData is applied to %s (%q) – not understood", trel, name, render(call.Args[0]), pairArg)
							}
							env[pairFirst], env[pairSecond] = "hash-part", "rest-after-hash"
						case strings.HasSuffix(callName(call), ".DecryptWithHandler") && len(s.Lhs) == 2 && len(call.Args) == 3:
							a := render(call.Args[1])
							h, ok := env[a]
							if !ok {
								fail("%s: %s: DecryptWithHandler receives %s whose origin is not understood", trel, name, a)
							}
							decryptedArg = h
							errOfDecrypt = render(s.Lhs[1])
						}
						continue
					}
					if len(s.Lhs) == 1 {
						if id, ok := s.Rhs[0].(*ast.Ident); ok {
							if h, ok := env[id.Name]; ok {
								env[render(s.Lhs[0])] = h
							}
						}
					}
				}
			case *ast.IfStmt:
				cond := render(s.Cond)
				switch {
				case hashParam != "" && cond == hashParam+" != nil" && len(s.Body.List) == 1:
					// dataToDecrypt = append(hash, data...)
					if as, ok := s.Body.List[0].(*ast.AssignStmt); ok && len(as.Lhs) == 1 && len(as.Rhs) == 1 &&
						render(as.Rhs[0]) == "append("+hashParam+", "+params[1]+"...)" && env[render(as.Lhs[0])] == "input" {
						env[render(as.Lhs[0])] = "hash++input"
						continue
					}
					fail("%s: %s: `if %s` with a body that is not understood: %s", trel, name, cond, render(s.Body.List[0]))
				case pairFirst != "" && cond == pairFirst+" == nil":
					walk(s.Body.List, "no-hash", true)
				case errOfDecrypt != "" && cond == errOfDecrypt+" != nil" && decryptedArg != "" && branch == "":
					walk(s.Body.List, "decrypt-failed", noHash)
					errOfDecrypt = ""
				default:
					walk(s.Body.List, branch, noHash)
				}
				if s.Else != nil {
					if b, ok := s.Else.(*ast.BlockStmt); ok {
						walk(b.List, branch, noHash)
					}
				}
			case *ast.ExprStmt:
				if call, ok := s.X.(*ast.CallExpr); ok && callName(call) == "service.poisonDetector.OnColumn" {
					record(call, branch, noHash)
				}
			}
		}
	}
	walk(fd.Body.List, "", false)
	// every call must have been reached by the walk
	n := 0
	ast.Inspect(fd.Body, func(x ast.Node) bool {
		if c, ok := x.(*ast.CallExpr); ok && callName(c) == "service.poisonDetector.OnColumn" {
			n++
		}
		return true
	})
	if n != len(out) {
		fail("%s: %s: %d poisonDetector.OnColumn calls, %d of them on a path the data-flow walk understands", trel, name, n, len(out))
	}
	return out
}
