// factgen – the translator half of the model↔code tie. It reads /repo's *current* Go sources with
// go/ast and regenerates /verif/lean/AcraModel/Generated/*.lean: layout constants, finite tables,
// case lists and call orders that the hand-written Lean models use as definitions and that small
// theorems (`by decide`) in AcraModel/Props constrain. If a shape it relies on has disappeared it
// fails loudly (exit 1) – it never guesses.
//
//	factgen -repo /repo -out /verif/lean/AcraModel/Generated
package main

import (
	"bytes"
	"flag"
	"fmt"
	"go/ast"
	"go/constant"
	"go/parser"
	"go/token"
	"os"
	"path/filepath"
	"sort"
	"strconv"
	"strings"
)

var (
	repo   string
	fset   = token.NewFileSet()
	failed []string
)

func fail(format string, a ...any) {
	failed = append(failed, fmt.Sprintf(format, a...))
}

// ---------- parsing helpers ----------

var fileCache = map[string]*ast.File{}

func parseFile(rel string) *ast.File {
	if f, ok := fileCache[rel]; ok {
		return f
	}
	f, err := parser.ParseFile(fset, filepath.Join(repo, rel), nil, parser.ParseComments)
	if err != nil {
		fail("%s: %v", rel, err)
		fileCache[rel] = nil
		return nil
	}
	fileCache[rel] = f
	return f
}

// funcDecl finds a top-level function or method (recv may be "" or the receiver type name).
func funcDecl(rel, recv, name string) *ast.FuncDecl {
	f := parseFile(rel)
	if f == nil {
		return nil
	}
	for _, d := range f.Decls {
		fd, ok := d.(*ast.FuncDecl)
		if !ok || fd.Name.Name != name {
			continue
		}
		if recv == "" && fd.Recv == nil {
			return fd
		}
		if recv != "" && fd.Recv != nil && len(fd.Recv.List) == 1 && recvName(fd.Recv.List[0].Type) == recv {
			return fd
		}
	}
	fail("%s: func %s.%s not found", rel, recv, name)
	return nil
}

func recvName(e ast.Expr) string {
	switch t := e.(type) {
	case *ast.StarExpr:
		return recvName(t.X)
	case *ast.Ident:
		return t.Name
	case *ast.IndexExpr:
		return recvName(t.X)
	}
	return ""
}

// constEnv evaluates package-level integer/string constants of one file set (same package).
type constEnv struct {
	vals map[string]constant.Value
}

func newConstEnv(rels ...string) *constEnv {
	env := &constEnv{vals: map[string]constant.Value{}}
	// several passes so that constants may refer to earlier ones in any file
	for pass := 0; pass < 3; pass++ {
		for _, rel := range rels {
			f := parseFile(rel)
			if f == nil {
				continue
			}
			for _, d := range f.Decls {
				gd, ok := d.(*ast.GenDecl)
				if !ok || (gd.Tok != token.CONST && gd.Tok != token.VAR) {
					continue
				}
				var lastExprs []ast.Expr
				for i, s := range gd.Specs {
					vs := s.(*ast.ValueSpec)
					exprs := vs.Values
					if len(exprs) == 0 && gd.Tok == token.CONST {
						exprs = lastExprs
					} else {
						lastExprs = exprs
					}
					for j, n := range vs.Names {
						if j >= len(exprs) {
							continue
						}
						if v := env.evalIota(exprs[j], i); v != nil {
							env.vals[n.Name] = v
						}
					}
				}
			}
		}
	}
	return env
}

func (env *constEnv) eval(e ast.Expr) constant.Value { return env.evalIota(e, -1) }

func (env *constEnv) evalIota(e ast.Expr, iota int) constant.Value {
	switch t := e.(type) {
	case *ast.BasicLit:
		return constant.MakeFromLiteral(t.Value, t.Kind, 0)
	case *ast.Ident:
		if t.Name == "iota" && iota >= 0 {
			return constant.MakeInt64(int64(iota))
		}
		if v, ok := env.vals[t.Name]; ok {
			return v
		}
		return nil
	case *ast.ParenExpr:
		return env.evalIota(t.X, iota)
	case *ast.BinaryExpr:
		x, y := env.evalIota(t.X, iota), env.evalIota(t.Y, iota)
		if x == nil || y == nil {
			return nil
		}
		if t.Op == token.SHL || t.Op == token.SHR {
			s, ok := constant.Uint64Val(y)
			if !ok {
				return nil
			}
			return constant.Shift(x, t.Op, uint(s))
		}
		defer func() { recover() }()
		return constant.BinaryOp(x, t.Op, y)
	case *ast.CallExpr:
		// conversions like byte(1), uint64(3), len("abc"), len(Const)
		if id, ok := t.Fun.(*ast.Ident); ok && len(t.Args) == 1 {
			a := env.evalIota(t.Args[0], iota)
			if a == nil {
				return nil
			}
			switch id.Name {
			case "len":
				if a.Kind() == constant.String {
					return constant.MakeInt64(int64(len(constant.StringVal(a))))
				}
				return nil
			case "byte", "int", "uint", "uint8", "uint16", "uint32", "uint64", "int32", "int64", "string":
				return a
			}
		}
	case *ast.SelectorExpr:
		// pkg.Const – resolved by name only when present in the environment
		if v, ok := env.vals[t.Sel.Name]; ok {
			return v
		}
	}
	return nil
}

func (env *constEnv) intOf(e ast.Expr, where string) uint64 {
	v := env.eval(e)
	if v == nil {
		fail("%s: cannot evaluate %s as constant", where, exprString(e))
		return 0
	}
	u, ok := constant.Uint64Val(constant.ToInt(v))
	if !ok {
		fail("%s: %s is not an unsigned integer constant", where, exprString(e))
	}
	return u
}

func exprString(e ast.Expr) string {
	var b bytes.Buffer
	ast.Fprint(&b, fset, e, nil)
	pos := fset.Position(e.Pos())
	return fmt.Sprintf("<expr at %s:%d>", filepath.Base(pos.Filename), pos.Line)
}

// ---------- Lean emission ----------

type leanFile struct {
	name string
	doc  string
	body strings.Builder
}

var outFiles []*leanFile

func newLean(name, doc string) *leanFile {
	lf := &leanFile{name: name, doc: doc}
	outFiles = append(outFiles, lf)
	return lf
}

func (lf *leanFile) def(name, typ, val, src string) {
	fmt.Fprintf(&lf.body, "/-- %s -/\ndef %s : %s := %s\n\n", src, name, typ, val)
}

func natList(xs []uint64) string {
	s := make([]string, len(xs))
	for i, x := range xs {
		s[i] = strconv.FormatUint(x, 10)
	}
	return "[" + strings.Join(s, ", ") + "]"
}

func strList(xs []string) string {
	s := make([]string, len(xs))
	for i, x := range xs {
		s[i] = strconv.Quote(x)
	}
	return "[" + strings.Join(s, ", ") + "]"
}

func boolStr(b bool) string {
	if b {
		return "true"
	}
	return "false"
}

func (lf *leanFile) write(dir string) error {
	var b strings.Builder
	fmt.Fprintf(&b, "/-\nGENERATED by /verif/harness/cmd/factgen from the current sources of /repo – do not edit.\n%s\n-/\nnamespace AcraModel.Generated.%s\n\n", lf.doc, lf.name)
	b.WriteString(lf.body.String())
	fmt.Fprintf(&b, "end AcraModel.Generated.%s\n", lf.name)
	path := filepath.Join(dir, lf.name+".lean")
	old, err := os.ReadFile(path)
	if err == nil && string(old) == b.String() {
		return nil // unchanged: keep mtime so lake stays incremental
	}
	return os.WriteFile(path, []byte(b.String()), 0o644)
}

func main() {
	out := flag.String("out", "/verif/lean/AcraModel/Generated", "")
	flag.StringVar(&repo, "repo", "/repo", "")
	flag.Parse()
	os.MkdirAll(*out, 0o755)
	for _, g := range generators {
		g()
	}
	if len(failed) > 0 {
		sort.Strings(failed)
		for _, f := range failed {
			fmt.Fprintln(os.Stderr, "factgen:", f)
		}
		os.Exit(1)
	}
	for _, lf := range outFiles {
		if err := lf.write(*out); err != nil {
			fmt.Fprintln(os.Stderr, "factgen:", err)
			os.Exit(1)
		}
	}
}

var generators []func()
