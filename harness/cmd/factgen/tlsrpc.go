package main

import (
	"fmt"
	"go/ast"
	"go/token"
	"sort"
	"strings"
)

// TlsRpc: for every RPC of AcraTranslator's gRPC API, does TLSDecryptServiceWrapper replace the
// client id named in the request by the identity of the connection before it forwards the request
// (cmd/acra-translator/grpc_api/tls_service.go), and for every handler of the HTTP API, is the
// client id handed to the service the one taken from the connection
// (cmd/acra-translator/http_api/service.go). Used by C02 (`tls_overrides_all`).
func init() { generators = append(generators, genTlsRpc) }

const (
	tlsRel  = "cmd/acra-translator/grpc_api/tls_service.go"
	grpcRel = "cmd/acra-translator/grpc_api/api_grpc.pb.go"
	httpRel = "cmd/acra-translator/http_api/service.go"
)

// interfaceDecl finds `type <name> interface {…}` in a file.
func interfaceDecl(rel, name string) *ast.InterfaceType {
	f := parseFile(rel)
	if f == nil {
		return nil
	}
	for _, d := range f.Decls {
		gd, ok := d.(*ast.GenDecl)
		if !ok || gd.Tok != token.TYPE {
			continue
		}
		for _, s := range gd.Specs {
			ts := s.(*ast.TypeSpec)
			if ts.Name.Name == name {
				if it, ok := ts.Type.(*ast.InterfaceType); ok {
					return it
				}
			}
		}
	}
	return nil
}

// methodsOf lists the methods with the given receiver type declared in a file.
func methodsOf(rel, recv string) map[string]*ast.FuncDecl {
	out := map[string]*ast.FuncDecl{}
	f := parseFile(rel)
	if f == nil {
		return out
	}
	for _, d := range f.Decls {
		fd, ok := d.(*ast.FuncDecl)
		if ok && fd.Recv != nil && len(fd.Recv.List) == 1 && recvName(fd.Recv.List[0].Type) == recv {
			out[fd.Name.Name] = fd
		}
	}
	return out
}

func isIdent(e ast.Expr, name string) bool {
	id, ok := e.(*ast.Ident)
	return ok && id.Name == name
}

// selector path a.b.c as string ("" if not a plain selector chain)
func selPath(e ast.Expr) string {
	switch t := e.(type) {
	case *ast.Ident:
		return t.Name
	case *ast.SelectorExpr:
		p := selPath(t.X)
		if p == "" {
			return ""
		}
		return p + "." + t.Sel.Name
	}
	return ""
}

// callsIn lists the calls inside a node in source order as (selector path, call).
func callsIn(n ast.Node) (names []string, calls []*ast.CallExpr) {
	ast.Inspect(n, func(x ast.Node) bool {
		if c, ok := x.(*ast.CallExpr); ok {
			names = append(names, selPath(c.Fun))
			calls = append(calls, c)
		}
		return true
	})
	return
}

// assignsTo reports whether the node contains an assignment (or inc/dec, or address-of) whose target is `path`.
func assignsTo(n ast.Node, path string) bool {
	found := false
	ast.Inspect(n, func(x ast.Node) bool {
		switch t := x.(type) {
		case *ast.AssignStmt:
			for _, l := range t.Lhs {
				if selPath(l) == path {
					found = true
				}
			}
		case *ast.UnaryExpr:
			if t.Op == token.AND && selPath(t.X) == path {
				found = true
			}
		}
		return true
	})
	return found
}

func isErrReturnIf(s ast.Stmt, errVar string) bool {
	is, ok := s.(*ast.IfStmt)
	if !ok || is.Init != nil || is.Else != nil {
		return false
	}
	be, ok := is.Cond.(*ast.BinaryExpr)
	if !ok || be.Op != token.NEQ || !isIdent(be.X, errVar) || !isIdent(be.Y, "nil") {
		return false
	}
	if len(is.Body.List) == 0 {
		return false
	}
	_, ok = is.Body.List[len(is.Body.List)-1].(*ast.ReturnStmt)
	return ok
}

type tlsRow struct {
	name      string
	defined   bool   // the wrapper declares the method itself (otherwise the embedded Unimplemented… server answers: nothing is forwarded)
	overrides bool   // every forward happens after `request.ClientId = <id from getClientID>` (error checked), same method, same request
	forwards  string // comma separated names of the wrapped service's methods it calls
}

func analyseWrapperMethod(fd *ast.FuncDecl) (overrides bool, forwards []string) {
	name := fd.Name.Name
	if fd.Type.Params == nil || len(fd.Type.Params.List) != 2 || len(fd.Type.Params.List[1].Names) != 1 || len(fd.Type.Params.List[0].Names) != 1 {
		fail("%s: TLSDecryptServiceWrapper.%s: unexpected parameter list", tlsRel, name)
		return false, nil
	}
	ctxName := fd.Type.Params.List[0].Names[0].Name
	req := fd.Type.Params.List[1].Names[0].Name
	recv := fd.Recv.List[0].Names[0].Name
	idVar, errVar := "", ""
	errChecked, assigned := false, false
	overrides = true
	for _, st := range fd.Body.List {
		// forwards inside this statement (judged against the state reached BEFORE it)
		names, calls := callsIn(st)
		for i, n := range names {
			if strings.HasPrefix(n, recv+".decryptor.") {
				m := strings.TrimPrefix(n, recv+".decryptor.")
				forwards = append(forwards, m)
				c := calls[i]
				if !assigned || m != name || len(c.Args) != 2 || !isIdent(c.Args[0], ctxName) || !isIdent(c.Args[1], req) {
					overrides = false
				}
			}
		}
		switch t := st.(type) {
		case *ast.AssignStmt:
			if len(t.Rhs) == 1 && len(t.Lhs) == 2 {
				if c, ok := t.Rhs[0].(*ast.CallExpr); ok && selPath(c.Fun) == "getClientID" &&
					len(c.Args) == 2 && isIdent(c.Args[0], ctxName) && selPath(c.Args[1]) == recv+".tlsClientIDExtractor" {
					if a, ok := t.Lhs[0].(*ast.Ident); ok {
						if b, ok := t.Lhs[1].(*ast.Ident); ok {
							idVar, errVar, errChecked, assigned = a.Name, b.Name, false, false
							continue
						}
					}
				}
			}
			if len(t.Lhs) == 1 && len(t.Rhs) == 1 && selPath(t.Lhs[0]) == req+".ClientId" {
				assigned = idVar != "" && errChecked && isIdent(t.Rhs[0], idVar) && t.Tok == token.ASSIGN
				continue
			}
		case *ast.IfStmt:
			if idVar != "" && isErrReturnIf(st, errVar) {
				errChecked = true
				continue
			}
		}
		// anything else that touches the request's id, the request variable or the id variable voids the override
		if assignsTo(st, req+".ClientId") || assignsTo(st, req) || (idVar != "" && assignsTo(st, idVar)) {
			assigned = false
		}
	}
	if len(forwards) == 0 {
		overrides = false
	}
	return
}

type httpRow struct {
	handler, op string
	fromConn    bool
}

// analyseHTTPHandler: every `service.service.<Op>(…)` call must receive as client id (the last but one
// argument of every ITranslatorService method) a variable whose only sources in the handler are
// `network.GetClientIDFromConnection(<connection from the request context>, …)` and `nil`.
func analyseHTTPHandler(fd *ast.FuncDecl, clientIDPos map[string]int) (rows []httpRow) {
	recv := fd.Recv.List[0].Names[0].Name
	// sources of every identifier assigned in the function
	src := map[string][]ast.Expr{}
	ast.Inspect(fd.Body, func(x ast.Node) bool {
		if a, ok := x.(*ast.AssignStmt); ok {
			if len(a.Rhs) == 1 && len(a.Lhs) >= 1 {
				if id, ok := a.Lhs[0].(*ast.Ident); ok {
					src[id.Name] = append(src[id.Name], a.Rhs[0])
				}
				// second results (ok, err) are irrelevant here
			} else {
				for i, l := range a.Lhs {
					if id, ok := l.(*ast.Ident); ok && i < len(a.Rhs) {
						src[id.Name] = append(src[id.Name], a.Rhs[i])
					}
				}
			}
		}
		return true
	})
	connOK := func(e ast.Expr) bool {
		id, ok := e.(*ast.Ident)
		if !ok {
			return false
		}
		ss := src[id.Name]
		if len(ss) != 1 {
			return false
		}
		c, ok := ss[0].(*ast.CallExpr)
		return ok && selPath(c.Fun) == "network.GetConnectionFromHTTPContext"
	}
	idOK := func(e ast.Expr) bool {
		id, ok := e.(*ast.Ident)
		if !ok {
			return false
		}
		ss := src[id.Name]
		if len(ss) == 0 {
			return false
		}
		seen := false
		for _, s := range ss {
			if isIdent(s, "nil") {
				continue
			}
			c, ok := s.(*ast.CallExpr)
			if !ok || selPath(c.Fun) != "network.GetClientIDFromConnection" || len(c.Args) != 2 || !connOK(c.Args[0]) ||
				selPath(c.Args[1]) != recv+".translatorData.TLSClientIDExtractor" {
				return false
			}
			seen = true
		}
		return seen
	}
	names, calls := callsIn(fd.Body)
	for i, n := range names {
		if !strings.HasPrefix(n, recv+".service.") {
			continue
		}
		op := strings.TrimPrefix(n, recv+".service.")
		pos, known := clientIDPos[op]
		c := calls[i]
		ok := known && pos < len(c.Args) && idOK(c.Args[pos])
		rows = append(rows, httpRow{fd.Name.Name, op, ok})
	}
	return
}

func genTlsRpc() {
	lf := newLean("TlsRpc", "Sources: "+tlsRel+", "+grpcRel+", "+httpRel+", cmd/acra-translator/common/service.go.")
	// ---- the RPC set: methods of the interfaces aggregated by DecryptService ----
	agg := interfaceDecl(tlsRel, "DecryptService")
	if agg == nil {
		fail("%s: interface DecryptService not found", tlsRel)
		return
	}
	var rpcs []string
	for _, m := range agg.Methods.List {
		id, ok := m.Type.(*ast.Ident)
		if !ok || len(m.Names) != 0 {
			fail("%s: DecryptService: unexpected member (expected embedded gRPC server interfaces only)", tlsRel)
			continue
		}
		it := interfaceDecl(grpcRel, id.Name)
		if it == nil {
			fail("%s: interface %s not found", grpcRel, id.Name)
			continue
		}
		for _, mm := range it.Methods.List {
			for _, n := range mm.Names {
				if ast.IsExported(n.Name) {
					rpcs = append(rpcs, n.Name)
				}
			}
		}
	}
	sort.Strings(rpcs)
	if len(rpcs) == 0 {
		fail("%s: no RPC methods found", grpcRel)
		return
	}
	wm := methodsOf(tlsRel, "TLSDecryptServiceWrapper")
	var rows []string
	seen := map[string]bool{}
	for _, r := range rpcs {
		seen[r] = true
		row := tlsRow{name: r}
		if fd, ok := wm[r]; ok {
			row.defined = true
			ov, fw := analyseWrapperMethod(fd)
			row.overrides, row.forwards = ov, strings.Join(fw, ",")
		}
		rows = append(rows, fmt.Sprintf("(%q, %s, %s, %q)", row.name, boolStr(row.defined), boolStr(row.overrides), row.forwards))
	}
	// exported wrapper methods that are not RPCs of the aggregated interfaces but still reach the wrapped service
	var extra []string
	for n, fd := range wm {
		if !seen[n] && ast.IsExported(n) {
			ov, fw := analyseWrapperMethod(fd)
			if len(fw) > 0 {
				extra = append(extra, fmt.Sprintf("(%q, true, %s, %q)", n, boolStr(ov), strings.Join(fw, ",")))
			}
		}
	}
	sort.Strings(extra)
	rows = append(rows, extra...)
	lf.def("tlsRpcs", "List (String × Bool × Bool × String)", "[\n  "+strings.Join(rows, ",\n  ")+"]",
		tlsRel+": every RPC of the services aggregated by DecryptService as (name, wrapper declares it, request.ClientId := id of the connection (error checked) before every forward of the same request to the same method, methods of the wrapped service it calls)")
	// ---- getClientID reads the context only ----
	if fd := funcDecl(tlsRel, "", "getClientID"); fd != nil {
		names, _ := callsIn(fd.Body)
		lf.def("getClientIDCalls", "List String", strList(names), tlsRel+": calls made by getClientID, in source order")
		params := []string{}
		for _, p := range fd.Type.Params.List {
			for range p.Names {
				params = append(params, selPath(unstar(p.Type)))
			}
		}
		lf.def("getClientIDParams", "List String", strList(params), tlsRel+": parameter types of getClientID (no request among them)")
	}
	// ---- HTTP API ----
	// position of the clientID parameter in every ITranslatorService method
	pos := map[string]int{}
	if it := interfaceDecl("cmd/acra-translator/common/service.go", "ITranslatorService"); it != nil {
		for _, m := range it.Methods.List {
			ft, ok := m.Type.(*ast.FuncType)
			if !ok || len(m.Names) != 1 {
				continue
			}
			i := 0
			for _, p := range ft.Params.List {
				for _, n := range p.Names {
					if n.Name == "clientID" {
						pos[m.Names[0].Name] = i
					}
					i++
				}
			}
		}
	} else {
		fail("cmd/acra-translator/common/service.go: interface ITranslatorService not found")
	}
	if len(pos) == 0 {
		fail("cmd/acra-translator/common/service.go: no ITranslatorService method with a clientID parameter")
	}
	var hrows []string
	hm := methodsOf(httpRel, "HTTPService")
	var hnames []string
	for n := range hm {
		hnames = append(hnames, n)
	}
	sort.Strings(hnames)
	for _, n := range hnames {
		for _, r := range analyseHTTPHandler(hm[n], pos) {
			hrows = append(hrows, fmt.Sprintf("(%q, %q, %s)", r.handler, r.op, boolStr(r.fromConn)))
		}
	}
	if len(hrows) == 0 {
		fail("%s: no HTTPService handler calls the translator service", httpRel)
	}
	lf.def("httpOps", "List (String × String × Bool)", "[\n  "+strings.Join(hrows, ",\n  ")+"]",
		httpRel+": every call of the translator service from an HTTPService method as (handler, operation, the client id argument comes only from network.GetClientIDFromConnection(connection of the request context) or nil)")
	// ---- the wrapped gRPC service hands on the request's ClientId field (the one the wrapper has overwritten) ----
	const svcRel = "cmd/acra-translator/grpc_api/service.go"
	gm := methodsOf(svcRel, "TranslatorService")
	var grows []string
	for _, r := range rpcs {
		fd, ok := gm[r]
		if !ok {
			grows = append(grows, fmt.Sprintf("(%q, %q, false)", r, ""))
			continue
		}
		recv := fd.Recv.List[0].Names[0].Name
		req := fd.Type.Params.List[len(fd.Type.Params.List)-1].Names[0].Name
		names, calls := callsIn(fd.Body)
		n := 0
		for i, nm := range names {
			c := calls[i]
			switch {
			case strings.HasPrefix(nm, recv+".service."):
				op := strings.TrimPrefix(nm, recv+".service.")
				p, known := pos[op]
				grows = append(grows, fmt.Sprintf("(%q, %q, %s)", r, op, boolStr(known && p < len(c.Args) && selPath(c.Args[p]) == req+".ClientId")))
				n++
			case strings.HasPrefix(nm, recv+".data.Keystorage."):
				op := strings.TrimPrefix(nm, recv+".data.")
				grows = append(grows, fmt.Sprintf("(%q, %q, %s)", r, op, boolStr(len(c.Args) >= 1 && selPath(c.Args[0]) == req+".ClientId")))
				n++
			}
		}
		if n == 0 {
			fail("%s: TranslatorService.%s reaches neither the translator service nor the key store", svcRel, r)
		}
		if assignsTo(fd.Body, req+".ClientId") || assignsTo(fd.Body, req) {
			grows = append(grows, fmt.Sprintf("(%q, %q, false)", r, "reassigns-request-id"))
		}
	}
	lf.def("grpcOps", "List (String × String × Bool)", "[\n  "+strings.Join(grows, ",\n  ")+"]",
		svcRel+": every use of the translator service / key store by a gRPC method as (rpc, callee, the client id argument is request.ClientId)")
	var ops []string
	for k := range pos {
		ops = append(ops, k)
	}
	sort.Strings(ops)
	lf.def("translatorOps", "List String", strList(ops), "cmd/acra-translator/common/service.go: methods of ITranslatorService that take a clientID")
}

func unstar(e ast.Expr) ast.Expr {
	if s, ok := e.(*ast.StarExpr); ok {
		return s.X
	}
	return e
}

// ---------------------------------------------------------------------------------------------
// IdentityCtx: the byte strings by which keys, key files, key rings and token records are bound to a
// client identity (used by the C02 models of the v1 key context, the v2 key-ring contexts, the
// token-record ids and the search hash).
func init() { generators = append(generators, genIdentityCtx) }

func bytesOf(s string) string {
	xs := make([]uint64, len(s))
	for i := 0; i < len(s); i++ {
		xs[i] = uint64(s[i])
	}
	return natList(xs)
}

// stringLits returns the string literals inside a node, in source order, unquoted.
func tlsStringLits(n ast.Node) []string {
	var out []string
	ast.Inspect(n, func(x ast.Node) bool {
		if b, ok := x.(*ast.BasicLit); ok && b.Kind == token.STRING {
			s := b.Value
			if len(s) >= 2 {
				if s[0] == '`' {
					out = append(out, s[1:len(s)-1])
				} else if u, err := strconvUnquote(s); err == nil {
					out = append(out, u)
				}
			}
		}
		return true
	})
	return out
}

func strconvUnquote(s string) (string, error) {
	var out string
	_, err := fmt.Sscanf(s, "%q", &out)
	return out, err
}

// sprintfSuffix: the function must be `return fmt.Sprintf("%s<suffix>", id)`; returns the suffix.
func sprintfSuffix(rel, fn string) string {
	fd := funcDecl(rel, "", fn)
	if fd == nil {
		return ""
	}
	lits := tlsStringLits(fd.Body)
	names, _ := callsIn(fd.Body)
	if len(lits) != 1 || len(names) < 1 || names[0] != "fmt.Sprintf" || !strings.HasPrefix(lits[0], "%s") || strings.Contains(lits[0][2:], "%") {
		fail("%s: %s is no longer `fmt.Sprintf(\"%%s<suffix>\", id)`", rel, fn)
		return ""
	}
	return lits[0][2:]
}

// appendParts: a function that builds a byte string by `c = append(c, X...)` steps; returns the parts in
// order: string literals as bytes, anything else as "<selector path>".
func appendParts(fd *ast.FuncDecl, rel string) (lits []string, shape []string) {
	for _, st := range fd.Body.List {
		a, ok := st.(*ast.AssignStmt)
		if !ok || len(a.Rhs) != 1 {
			continue
		}
		c, ok := a.Rhs[0].(*ast.CallExpr)
		if !ok || selPath(c.Fun) != "append" || len(c.Args) != 2 || !c.Ellipsis.IsValid() {
			continue
		}
		if b, ok := c.Args[1].(*ast.BasicLit); ok && b.Kind == token.STRING {
			s, _ := strconvUnquote(b.Value)
			lits = append(lits, s)
			shape = append(shape, "lit")
		} else {
			shape = append(shape, "<"+selPath(c.Args[1])+">")
		}
	}
	if len(shape) == 0 {
		fail("%s: %s: no append(c, …...) steps found", rel, fd.Name.Name)
	}
	return
}

// describe renders an expression: string literals (also inside []byte(…) conversions) as `lit:<text>`,
// selector chains as paths, calls as f(args).
func describe(e ast.Expr) string {
	switch t := e.(type) {
	case *ast.BasicLit:
		if t.Kind == token.STRING {
			if l := tlsStringLits(t); len(l) == 1 {
				return "lit:" + l[0]
			}
		}
		return t.Value
	case *ast.CallExpr:
		if _, conv := t.Fun.(*ast.ArrayType); conv && len(t.Args) == 1 {
			return describe(t.Args[0])
		}
		as := make([]string, len(t.Args))
		for i, a := range t.Args {
			as[i] = describe(a)
		}
		return selPath(t.Fun) + "(" + strings.Join(as, ",") + ")"
	}
	return selPath(e)
}

// hashWrites: the arguments of the `h.Write(…)` calls of a function in source order.
func hashWrites(fd *ast.FuncDecl) []string {
	var out []string
	names, calls := callsIn(fd.Body)
	for i, n := range names {
		if n == "h.Write" && len(calls[i].Args) == 1 {
			out = append(out, describe(calls[i].Args[0]))
		}
	}
	return out
}

// litBefore returns the literal written directly before the write of `what` ("" when there is none).
func litBefore(writes []string, what string) string {
	for i, w := range writes {
		if w == what && i > 0 && strings.HasPrefix(writes[i-1], "lit:") {
			return strings.TrimPrefix(writes[i-1], "lit:")
		}
	}
	return ""
}

// evalInt evaluates an integer constant expression with Go's integer division.
func evalInt(e ast.Expr, iota int) (int64, bool) {
	switch t := e.(type) {
	case *ast.BasicLit:
		var v int64
		if t.Kind == token.INT {
			if _, err := fmt.Sscanf(t.Value, "%v", &v); err == nil {
				return v, true
			}
		}
	case *ast.Ident:
		if t.Name == "iota" {
			return int64(iota), true
		}
	case *ast.ParenExpr:
		return evalInt(t.X, iota)
	case *ast.BinaryExpr:
		x, ok1 := evalInt(t.X, iota)
		y, ok2 := evalInt(t.Y, iota)
		if ok1 && ok2 {
			switch t.Op {
			case token.ADD:
				return x + y, true
			case token.SUB:
				return x - y, true
			case token.MUL:
				return x * y, true
			case token.QUO:
				if y != 0 {
					return x / y, true
				}
			}
		}
	}
	return 0, false
}

func genIdentityCtx() {
	lf := newLean("IdentityCtx", "Sources: keystore/keystore.go, keystore/filesystem/{filenames,key_names}.go, keystore/v2/keystore/{storage,storage_client,hmac}.go, keystore/v2/keystore/filesystem/{keyRing,key,keyStore,keyStoreLoad}.go, keystore/v2/keystore/crypto/signature.go, pseudonymization/tokenizer.go, pseudonymization/common/common.go, hmac/hash.go. Byte strings are lists of byte values.")
	str := func(name, val, src string) {
		lf.def(name, "List Nat", bytesOf(val), fmt.Sprintf("%s: %q", src, val))
	}
	// ---- v1: file names ----
	const fnRel = "keystore/filesystem/filenames.go"
	str("v1StorageSuffix", sprintfSuffix(fnRel, "GetServerDecryptionKeyFilename"), fnRel+": GetServerDecryptionKeyFilename = id ++")
	str("v1HmacSuffix", sprintfSuffix(fnRel, "getHmacKeyFilename"), fnRel+": getHmacKeyFilename = id ++")
	str("v1PublicSuffix", sprintfSuffix(fnRel, "getPublicKeyFilename"), fnRel+": getPublicKeyFilename = name ++")
	const knRel = "keystore/filesystem/key_names.go"
	if fd := funcDecl(knRel, "", "getSymmetricKeyName"); fd != nil {
		l := tlsStringLits(fd.Body)
		ok := false
		if len(l) == 1 && len(fd.Body.List) == 1 {
			if r, isRet := fd.Body.List[0].(*ast.ReturnStmt); isRet && len(r.Results) == 1 {
				if be, isBin := r.Results[0].(*ast.BinaryExpr); isBin && be.Op == token.ADD && isIdent(be.X, "id") {
					ok = true
				}
			}
		}
		if !ok {
			fail("%s: getSymmetricKeyName is no longer `id + \"<suffix>\"`", knRel)
		} else {
			str("v1SymSuffix", l[0], knRel+": getSymmetricKeyName = name ++")
		}
	}
	if fd := funcDecl(knRel, "", "getClientIDSymmetricKeyName"); fd != nil {
		names, _ := callsIn(fd.Body)
		lf.def("v1ClientSymNameCalls", "List String", strList(names), knRel+": getClientIDSymmetricKeyName – calls in source order (outermost first)")
	}
	// ---- v1: the bytes of a KeyContext ----
	const ksRel = "keystore/keystore.go"
	if fd := funcDecl(ksRel, "", "GetKeyContextFromContext"); fd != nil {
		var order []string
		for _, st := range fd.Body.List {
			switch t := st.(type) {
			case *ast.IfStmt:
				be, ok := t.Cond.(*ast.BinaryExpr)
				if !ok || be.Op != token.NEQ || !isIdent(be.Y, "nil") || len(t.Body.List) != 1 {
					fail("%s: GetKeyContextFromContext: unexpected if shape", ksRel)
					continue
				}
				r, ok := t.Body.List[0].(*ast.ReturnStmt)
				if !ok || len(r.Results) != 1 || selPath(r.Results[0]) != selPath(be.X) {
					fail("%s: GetKeyContextFromContext: a branch does not return the field it tests", ksRel)
					continue
				}
				order = append(order, strings.TrimPrefix(selPath(be.X), "keyContext."))
			case *ast.ReturnStmt:
				if len(t.Results) == 1 && isIdent(t.Results[0], "nil") {
					order = append(order, "nil")
				} else {
					fail("%s: GetKeyContextFromContext: unexpected final return", ksRel)
				}
			default:
				fail("%s: GetKeyContextFromContext: unexpected statement", ksRel)
			}
		}
		lf.def("v1KeyContextOrder", "List String", strList(order), ksRel+": GetKeyContextFromContext returns the first non-nil of these fields (the purpose is not among them)")
	}
	for _, m := range []string{"Encrypt", "Decrypt"} {
		if fd := funcDecl(ksRel, "SCellKeyEncryptor", m); fd != nil {
			names, _ := callsIn(fd.Body)
			lf.def("v1KeyEncryptor"+m+"Calls", "List String", strList(names), ksRel+": SCellKeyEncryptor."+m+" – calls in source order")
		}
	}
	// which KeyContext constructor each client-key accessor of the v1 store uses, and on what
	const skRel = "keystore/filesystem/server_keystore.go"
	var ctxRows []string
	for _, fn := range []string{"GetServerDecryptionPrivateKey", "GetServerDecryptionPrivateKeys", "GenerateDataEncryptionKeys",
		"GetClientIDSymmetricKeys", "GetClientIDSymmetricKey", "GenerateClientIDSymmetricKey", "GetHMACSecretKey", "GenerateHmacKey"} {
		fd := funcDecl(skRel, "KeyStore", fn)
		if fd == nil {
			continue
		}
		names, calls := callsIn(fd.Body)
		found := false
		for i, n := range names {
			if strings.HasPrefix(n, "keystore.New") && strings.HasSuffix(n, "KeyContext") {
				arg := ""
				if len(calls[i].Args) == 2 {
					arg = selPath(calls[i].Args[1])
				}
				ctxRows = append(ctxRows, fmt.Sprintf("(%q, %q, %q)", fn, strings.TrimPrefix(n, "keystore."), arg))
				found = true
			}
		}
		if !found {
			fail("%s: KeyStore.%s builds no key context", skRel, fn)
		}
	}
	lf.def("v1ClientKeyContexts", "List (String × String × String)", "[\n  "+strings.Join(ctxRows, ",\n  ")+"]",
		skRel+": (accessor, KeyContext constructor, its second argument) for the per-client secret keys")
	// ---- v2: ring paths ----
	v2 := newConstEnv("keystore/v2/keystore/storage_client.go", "keystore/v2/keystore/storage.go", "keystore/v2/keystore/hmac.go", "keystore/v2/keystore/filesystem/keyStoreLoad.go")
	cs := func(name, cname, src string) {
		v, ok := v2.vals[cname]
		if !ok {
			fail("%s: constant %s not found", src, cname)
			return
		}
		str(name, constantString(v), src+": "+cname)
	}
	cs("v2ClientPrefix", "clientPrefix", "keystore/v2/keystore/storage_client.go")
	cs("v2StorageSuffix", "storageSuffix", "keystore/v2/keystore/storage_client.go")
	cs("v2StorageSymSuffix", "storageSymmetricSuffix", "keystore/v2/keystore/storage.go")
	cs("v2HmacSuffix", "hmacSymmetricSuffix", "keystore/v2/keystore/hmac.go")
	cs("v2KeyringSuffix", "keyringSuffix", "keystore/v2/keystore/filesystem/keyStoreLoad.go")
	for _, p := range []struct{ rel, fn string }{{"keystore/v2/keystore/storage_client.go", "clientStorageKeyPairPath"}, {"keystore/v2/keystore/storage.go", "clientStorageSymmetricKeyPath"}, {"keystore/v2/keystore/hmac.go", "clientHMACKeyPath"}} {
		if fd := funcDecl(p.rel, "ServerKeyStore", p.fn); fd != nil {
			names, calls := callsIn(fd.Body)
			shape := []string{}
			if len(names) >= 1 && names[0] == "filepath.Join" {
				for _, a := range calls[0].Args {
					if c, ok := a.(*ast.CallExpr); ok {
						shape = append(shape, selPath(c.Fun)+"("+selPath(c.Args[0])+")")
					} else {
						shape = append(shape, selPath(a))
					}
				}
			} else {
				fail("%s: %s is no longer a filepath.Join", p.rel, p.fn)
			}
			lf.def("v2"+strings.ToUpper(p.fn[:1])+p.fn[1:], "List String", strList(shape), p.rel+": "+p.fn+" = filepath.Join of")
		}
	}
	// ---- v2: encryption / signature contexts ----
	parts := func(rel, recv, fn, name string) {
		fd := funcDecl(rel, recv, fn)
		if fd == nil {
			return
		}
		lits, shape := appendParts(fd, rel)
		for i, l := range lits {
			str(fmt.Sprintf("%sLit%d", name, i), l, rel+": "+fn)
		}
		lf.def(name+"Shape", "List String", strList(shape), rel+": "+fn+" appends, in order")
	}
	parts("keystore/v2/keystore/filesystem/keyRing.go", "KeyRing", "keyRingContext", "v2KeyRingContext")
	parts("keystore/v2/keystore/filesystem/keyStore.go", "KeyStore", "keyStoreContext", "v2KeyStoreContext")
	parts("keystore/v2/keystore/filesystem/keyStore.go", "KeyStore", "keyRingSignatureContext", "v2RingSignatureContext")
	for _, p := range []struct{ fn, name string }{{"privateKeyContext", "v2PrivateKeyFormat"}, {"symmetricKeyContext", "v2SymmetricKeyFormat"}} {
		if fd := funcDecl("keystore/v2/keystore/filesystem/key.go", "KeyRing", p.fn); fd != nil {
			l := tlsStringLits(fd.Body)
			if len(l) != 1 || !strings.HasSuffix(l[0], "%d") || strings.Count(l[0], "%") != 1 {
				fail("keystore/v2/keystore/filesystem/key.go: %s is no longer Sprintf(\"<text>%%d\", seqnum)", p.fn)
				continue
			}
			str(p.name, strings.TrimSuffix(l[0], "%d"), "keystore/v2/keystore/filesystem/key.go: "+p.fn+" = this ++ decimal seqnum")
		}
	}
	for _, m := range []string{"encrypt", "decrypt"} {
		if fd := funcDecl("keystore/v2/keystore/filesystem/keyStore.go", "KeyStore", m); fd != nil {
			names, _ := callsIn(fd.Body)
			lf.def("v2Store"+strings.ToUpper(m[:1])+m[1:]+"Calls", "List String", strList(names), "keystore/v2/keystore/filesystem/keyStore.go: KeyStore."+m+" – calls in source order")
		}
	}
	if f := parseFile("keystore/v2/keystore/crypto/signature.go"); f != nil {
		env := map[string]string{}
		for _, d := range f.Decls {
			if gd, ok := d.(*ast.GenDecl); ok && gd.Tok == token.VAR {
				for _, s := range gd.Specs {
					vs := s.(*ast.ValueSpec)
					if len(vs.Names) == 1 && len(vs.Values) == 1 {
						if l := tlsStringLits(vs.Values[0]); len(l) == 1 {
							env[vs.Names[0].Name] = l[0]
						}
					}
				}
			}
		}
		if s, ok := env["separator"]; ok {
			str("v2SignatureSeparator", s, "keystore/v2/keystore/crypto/signature.go: separator")
		} else {
			fail("keystore/v2/keystore/crypto/signature.go: var separator not found")
		}
		if fd := funcDecl("keystore/v2/keystore/crypto/signature.go", "SignSha256", "Sign"); fd != nil {
			var w []string
			names, calls := callsIn(fd.Body)
			for i, n := range names {
				if n == "s.hmac.Write" && len(calls[i].Args) == 1 {
					w = append(w, selPath(calls[i].Args[0]))
				}
			}
			lf.def("v2SignWrites", "List String", strList(w), "keystore/v2/keystore/crypto/signature.go: SignSha256.Sign feeds the HMAC, in order")
		}
	}
	// ---- token records ----
	const tkRel = "pseudonymization/tokenizer.go"
	if f := parseFile(tkRel); f != nil {
		found := false
		for _, d := range f.Decls {
			if gd, ok := d.(*ast.GenDecl); ok && gd.Tok == token.VAR {
				for _, s := range gd.Specs {
					vs := s.(*ast.ValueSpec)
					if len(vs.Names) == 1 && vs.Names[0].Name == "dataIDDelim" && len(vs.Values) == 1 {
						if l := tlsStringLits(vs.Values[0]); len(l) == 1 {
							str("tokenDataIDDelim", l[0], tkRel+": dataIDDelim")
							found = true
						}
					}
				}
			}
		}
		if !found {
			fail("%s: var dataIDDelim not found", tkRel)
		}
	}
	if fd := funcDecl(tkRel, "pseudoanonymizer", "generateDataID"); fd != nil {
		w := hashWrites(fd)
		// the tags are the literals written directly before the client id / the additional context; when a
		// write has disappeared the tag is emitted empty and `fact_token_id_shapes` no longer checks
		str("tokenDataIDClientTag", litBefore(w, "context.ClientID"), tkRel+": generateDataID, tag written before the client id")
		str("tokenDataIDZoneTag", litBefore(w, "context.AdditionalContext"), tkRel+": generateDataID, tag written before the additional context")
		lf.def("tokenDataIDWrites", "List String", strList(w), tkRel+": generateDataID – h.Write arguments in source order (the first two after `data` are the zone branch, the next two the client branch)")
	}
	for _, p := range []struct{ fn, name string }{{"generateKeyForToken", "tokenKeyPrefix"}, {"generateKeyForHash", "tokenHashKeyPrefix"}} {
		if fd := funcDecl(tkRel, "pseudoanonymizer", p.fn); fd != nil {
			l := tlsStringLits(fd.Body)
			if len(l) != 1 {
				fail("%s: %s: expected one literal prefix", tkRel, p.fn)
				continue
			}
			str(p.name, l[0], tkRel+": "+p.fn+" = this ++ key")
		}
	}
	if fd := funcDecl("pseudonymization/common/common.go", "", "AggregateTokenContextToBytes"); fd != nil {
		w := hashWrites(fd)
		str("tokenContextClientTag", litBefore(w, "context.ClientID"), "pseudonymization/common/common.go: AggregateTokenContextToBytes, tag written before the client id")
		lf.def("tokenContextWrites", "List String", strList(w), "pseudonymization/common/common.go: AggregateTokenContextToBytes – h.Write arguments in source order (zone branch, then client branch)")
	}
	// ---- search hash ----
	const hRel = "hmac/hash.go"
	if f := parseFile(hRel); f != nil {
		done := false
		for _, d := range f.Decls {
			gd, ok := d.(*ast.GenDecl)
			if !ok || gd.Tok != token.CONST {
				continue
			}
			for i, s := range gd.Specs {
				vs := s.(*ast.ValueSpec)
				if len(vs.Names) == 1 && vs.Names[0].Name == "_sha256" && len(vs.Values) == 1 {
					if c, ok := vs.Values[0].(*ast.CallExpr); ok && len(c.Args) == 1 {
						if u, ok := evalInt(c.Args[0], i); ok && u >= 0 && u < 256 {
							lf.def("hashFuncSha256", "Nat", fmt.Sprint(u), hRel+": _sha256 (the byte in front of every search hash)")
							done = true
						}
					}
				}
			}
		}
		if !done {
			fail("%s: cannot evaluate _sha256", hRel)
		}
	}
	if fd := funcDecl(hRel, "HashData", "IsEqual"); fd != nil {
		names, _ := callsIn(fd.Body)
		lf.def("hashIsEqualCalls", "List String", strList(names), hRel+": HashData.IsEqual – calls in source order")
	}
}

func constantString(v interface{ ExactString() string }) string {
	s, err := strconvUnquote(v.ExactString())
	if err != nil {
		return v.ExactString()
	}
	return s
}

