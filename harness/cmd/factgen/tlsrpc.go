package main

import (
	"fmt"
	"go/ast"
	"go/token"
	"sort"
	"strings"
)

// TlsRpc: for every RPC of AcraTranslator's gRPC API, does TLSDecryptServiceWrapper replace the
// client id named in the request by the identity of the connection before it forwards the request
// (cmd/acra-translator/grpc_api/tls_service.go), and for every handler of the HTTP API, is the
// client id handed to the service the one taken from the connection
// (cmd/acra-translator/http_api/service.go). Used by C02 (`tls_overrides_all`).
func init() { generators = append(generators, genTlsRpc) }

const (
	tlsRel  = "cmd/acra-translator/grpc_api/tls_service.go"
	grpcRel = "cmd/acra-translator/grpc_api/api_grpc.pb.go"
	httpRel = "cmd/acra-translator/http_api/service.go"
)

// interfaceDecl finds `type <name> interface {…}` in a file.
func interfaceDecl(rel, name string) *ast.InterfaceType {
	f := parseFile(rel)
	if f == nil {
		return nil
	}
	for _, d := range f.Decls {
		gd, ok := d.(*ast.GenDecl)
		if !ok || gd.Tok != token.TYPE {
			continue
		}
		for _, s := range gd.Specs {
			ts := s.(*ast.TypeSpec)
			if ts.Name.Name == name {
				if it, ok := ts.Type.(*ast.InterfaceType); ok {
					return it
				}
			}
		}
	}
	return nil
}

// methodsOf lists the methods with the given receiver type declared in a file.
func methodsOf(rel, recv string) map[string]*ast.FuncDecl {
	out := map[string]*ast.FuncDecl{}
	f := parseFile(rel)
	if f == nil {
		return out
	}
	for _, d := range f.Decls {
		fd, ok := d.(*ast.FuncDecl)
		if ok && fd.Recv != nil && len(fd.Recv.List) == 1 && recvName(fd.Recv.List[0].Type) == recv {
			out[fd.Name.Name] = fd
		}
	}
	return out
}

func isIdent(e ast.Expr, name string) bool {
	id, ok := e.(*ast.Ident)
	return ok && id.Name == name
}

// selector path a.b.c as string ("" if not a plain selector chain)
func selPath(e ast.Expr) string {
	switch t := e.(type) {
	case *ast.Ident:
		return t.Name
	case *ast.SelectorExpr:
		p := selPath(t.X)
		if p == "" {
			return ""
		}
		return p + "." + t.Sel.Name
	}
	return ""
}

// callsIn lists the calls inside a node in source order as (selector path, call).
func callsIn(n ast.Node) (names []string, calls []*ast.CallExpr) {
	ast.Inspect(n, func(x ast.Node) bool {
		if c, ok := x.(*ast.CallExpr); ok {
			names = append(names, selPath(c.Fun))
			calls = append(calls, c)
		}
		return true
	})
	return
}

// assignsTo reports whether the node contains an assignment (or inc/dec, or address-of) whose target is `path`.
func assignsTo(n ast.Node, path string) bool {
	found := false
	ast.Inspect(n, func(x ast.Node) bool {
		switch t := x.(type) {
		case *ast.AssignStmt:
			for _, l := range t.Lhs {
				if selPath(l) == path {
					found = true
				}
			}
		case *ast.UnaryExpr:
			if t.Op == token.AND && selPath(t.X) == path {
				found = true
			}
		}
		return true
	})
	return found
}

func isErrReturnIf(s ast.Stmt, errVar string) bool {
	is, ok := s.(*ast.IfStmt)
	if !ok || is.Init != nil || is.Else != nil {
		return false
	}
	be, ok := is.Cond.(*ast.BinaryExpr)
	if !ok || be.Op != token.NEQ || !isIdent(be.X, errVar) || !isIdent(be.Y, "nil") {
		return false
	}
	if len(is.Body.List) == 0 {
		return false
	}
	_, ok = is.Body.List[len(is.Body.List)-1].(*ast.ReturnStmt)
	return ok
}

type tlsRow struct {
	name      string
	defined   bool   // the wrapper declares the method itself (otherwise the embedded Unimplemented… server answers: nothing is forwarded)
	overrides bool   // every forward happens after `request.ClientId = <id from getClientID>` (error checked), same method, same request
	forwards  string // comma separated names of the wrapped service's methods it calls
}

func analyseWrapperMethod(fd *ast.FuncDecl) (overrides bool, forwards []string) {
	name := fd.Name.Name
	if fd.Type.Params == nil || len(fd.Type.Params.List) != 2 || len(fd.Type.Params.List[1].Names) != 1 || len(fd.Type.Params.List[0].Names) != 1 {
		fail("%s: TLSDecryptServiceWrapper.%s: unexpected parameter list", tlsRel, name)
		return false, nil
	}
	ctxName := fd.Type.Params.List[0].Names[0].Name
	req := fd.Type.Params.List[1].Names[0].Name
	recv := fd.Recv.List[0].Names[0].Name
	idVar, errVar := "", ""
	errChecked, assigned := false, false
	overrides = true
	for _, st := range fd.Body.List {
		// forwards inside this statement (judged against the state reached BEFORE it)
		names, calls := callsIn(st)
		for i, n := range names {
			if strings.HasPrefix(n, recv+".decryptor.") {
				m := strings.TrimPrefix(n, recv+".decryptor.")
				forwards = append(forwards, m)
				c := calls[i]
				if !assigned || m != name || len(c.Args) != 2 || !isIdent(c.Args[0], ctxName) || !isIdent(c.Args[1], req) {
					overrides = false
				}
			}
		}
		switch t := st.(type) {
		case *ast.AssignStmt:
			if len(t.Rhs) == 1 && len(t.Lhs) == 2 {
				if c, ok := t.Rhs[0].(*ast.CallExpr); ok && selPath(c.Fun) == "getClientID" &&
					len(c.Args) == 2 && isIdent(c.Args[0], ctxName) && selPath(c.Args[1]) == recv+".tlsClientIDExtractor" {
					if a, ok := t.Lhs[0].(*ast.Ident); ok {
						if b, ok := t.Lhs[1].(*ast.Ident); ok {
							idVar, errVar, errChecked, assigned = a.Name, b.Name, false, false
							continue
						}
					}
				}
			}
			if len(t.Lhs) == 1 && len(t.Rhs) == 1 && selPath(t.Lhs[0]) == req+".ClientId" {
				assigned = idVar != "" && errChecked && isIdent(t.Rhs[0], idVar) && t.Tok == token.ASSIGN
				continue
			}
		case *ast.IfStmt:
			if idVar != "" && isErrReturnIf(st, errVar) {
				errChecked = true
				continue
			}
		}
		// anything else that touches the request's id, the request variable or the id variable voids the override
		if assignsTo(st, req+".ClientId") || assignsTo(st, req) || (idVar != "" && assignsTo(st, idVar)) {
			assigned = false
		}
	}
	if len(forwards) == 0 {
		overrides = false
	}
	return
}

type httpRow struct {
	handler, op string
	fromConn    bool
}

// analyseHTTPHandler: every `service.service.<Op>(…)` call must receive as client id (the last but one
// argument of every ITranslatorService method) a variable whose only sources in the handler are
// `network.GetClientIDFromConnection(<connection from the request context>, …)` and `nil`.
func analyseHTTPHandler(fd *ast.FuncDecl, clientIDPos map[string]int) (rows []httpRow) {
	recv := fd.Recv.List[0].Names[0].Name
	// sources of every identifier assigned in the function
	src := map[string][]ast.Expr{}
	ast.Inspect(fd.Body, func(x ast.Node) bool {
		if a, ok := x.(*ast.AssignStmt); ok {
			if len(a.Rhs) == 1 && len(a.Lhs) >= 1 {
				if id, ok := a.Lhs[0].(*ast.Ident); ok {
					src[id.Name] = append(src[id.Name], a.Rhs[0])
				}
				// second results (ok, err) are irrelevant here
			} else {
				for i, l := range a.Lhs {
					if id, ok := l.(*ast.Ident); ok && i < len(a.Rhs) {
						src[id.Name] = append(src[id.Name], a.Rhs[i])
					}
				}
			}
		}
		return true
	})
	connOK := func(e ast.Expr) bool {
		id, ok := e.(*ast.Ident)
		if !ok {
			return false
		}
		ss := src[id.Name]
		if len(ss) != 1 {
			return false
		}
		c, ok := ss[0].(*ast.CallExpr)
		return ok && selPath(c.Fun) == "network.GetConnectionFromHTTPContext"
	}
	idOK := func(e ast.Expr) bool {
		id, ok := e.(*ast.Ident)
		if !ok {
			return false
		}
		ss := src[id.Name]
		if len(ss) == 0 {
			return false
		}
		seen := false
		for _, s := range ss {
			if isIdent(s, "nil") {
				continue
			}
			c, ok := s.(*ast.CallExpr)
			if !ok || selPath(c.Fun) != "network.GetClientIDFromConnection" || len(c.Args) != 2 || !connOK(c.Args[0]) ||
				selPath(c.Args[1]) != recv+".translatorData.TLSClientIDExtractor" {
				return false
			}
			seen = true
		}
		return seen
	}
	names, calls := callsIn(fd.Body)
	for i, n := range names {
		if !strings.HasPrefix(n, recv+".service.") {
			continue
		}
		op := strings.TrimPrefix(n, recv+".service.")
		pos, known := clientIDPos[op]
		c := calls[i]
		ok := known && pos < len(c.Args) && idOK(c.Args[pos])
		rows = append(rows, httpRow{fd.Name.Name, op, ok})
	}
	return
}

func genTlsRpc() {
	lf := newLean("TlsRpc", "Sources: "+tlsRel+", "+grpcRel+", "+httpRel+", cmd/acra-translator/common/service.go.")
	// ---- the RPC set: methods of the interfaces aggregated by DecryptService ----
	agg := interfaceDecl(tlsRel, "DecryptService")
	if agg == nil {
		fail("%s: interface DecryptService not found", tlsRel)
		return
	}
	var rpcs []string
	for _, m := range agg.Methods.List {
		id, ok := m.Type.(*ast.Ident)
		if !ok || len(m.Names) != 0 {
			fail("%s: DecryptService: unexpected member (expected embedded gRPC server interfaces only)", tlsRel)
			continue
		}
		it := interfaceDecl(grpcRel, id.Name)
		if it == nil {
			fail("%s: interface %s not found", grpcRel, id.Name)
			continue
		}
		for _, mm := range it.Methods.List {
			for _, n := range mm.Names {
				if ast.IsExported(n.Name) {
					rpcs = append(rpcs, n.Name)
				}
			}
		}
	}
	sort.Strings(rpcs)
	if len(rpcs) == 0 {
		fail("%s: no RPC methods found", grpcRel)
		return
	}
	wm := methodsOf(tlsRel, "TLSDecryptServiceWrapper")
	var rows []string
	seen := map[string]bool{}
	for _, r := range rpcs {
		seen[r] = true
		row := tlsRow{name: r}
		if fd, ok := wm[r]; ok {
			row.defined = true
			ov, fw := analyseWrapperMethod(fd)
			row.overrides, row.forwards = ov, strings.Join(fw, ",")
		}
		rows = append(rows, fmt.Sprintf("(%q, %s, %s, %q)", row.name, boolStr(row.defined), boolStr(row.overrides), row.forwards))
	}
	// exported wrapper methods that are not RPCs of the aggregated interfaces but still reach the wrapped service
	var extra []string
	for n, fd := range wm {
		if !seen[n] && ast.IsExported(n) {
			ov, fw := analyseWrapperMethod(fd)
			if len(fw) > 0 {
				extra = append(extra, fmt.Sprintf("(%q, true, %s, %q)", n, boolStr(ov), strings.Join(fw, ",")))
			}
		}
	}
	sort.Strings(extra)
	rows = append(rows, extra...)
	lf.def("tlsRpcs", "List (String × Bool × Bool × String)", "[\n  "+strings.Join(rows, ",\n  ")+"]",
		tlsRel+": every RPC of the services aggregated by DecryptService as (name, wrapper declares it, request.ClientId := id of the connection (error checked) before every forward of the same request to the same method, methods of the wrapped service it calls)")
	// ---- getClientID reads the context only ----
	if fd := funcDecl(tlsRel, "", "getClientID"); fd != nil {
		names, _ := callsIn(fd.Body)
		lf.def("getClientIDCalls", "List String", strList(names), tlsRel+": calls made by getClientID, in source order")
		params := []string{}
		for _, p := range fd.Type.Params.List {
			for range p.Names {
				params = append(params, selPath(unstar(p.Type)))
			}
		}
		lf.def("getClientIDParams", "List String", strList(params), tlsRel+": parameter types of getClientID (no request among them)")
	}
	// ---- HTTP API ----
	// position of the clientID parameter in every ITranslatorService method
	pos := map[string]int{}
	if it := interfaceDecl("cmd/acra-translator/common/service.go", "ITranslatorService"); it != nil {
		for _, m := range it.Methods.List {
			ft, ok := m.Type.(*ast.FuncType)
			if !ok || len(m.Names) != 1 {
				continue
			}
			i := 0
			for _, p := range ft.Params.List {
				for _, n := range p.Names {
					if n.Name == "clientID" {
						pos[m.Names[0].Name] = i
					}
					i++
				}
			}
		}
	} else {
		fail("cmd/acra-translator/common/service.go: interface ITranslatorService not found")
	}
	if len(pos) == 0 {
		fail("cmd/acra-translator/common/service.go: no ITranslatorService method with a clientID parameter")
	}
	var hrows []string
	hm := methodsOf(httpRel, "HTTPService")
	var hnames []string
	for n := range hm {
		hnames = append(hnames, n)
	}
	sort.Strings(hnames)
	for _, n := range hnames {
		for _, r := range analyseHTTPHandler(hm[n], pos) {
			hrows = append(hrows, fmt.Sprintf("(%q, %q, %s)", r.handler, r.op, boolStr(r.fromConn)))
		}
	}
	if len(hrows) == 0 {
		fail("%s: no HTTPService handler calls the translator service", httpRel)
	}
	lf.def("httpOps", "List (String × String × Bool)", "[\n  "+strings.Join(hrows, ",\n  ")+"]",
		httpRel+": every call of the translator service from an HTTPService method as (handler, operation, the client id argument comes only from network.GetClientIDFromConnection(connection of the request context) or nil)")
	// ---- the wrapped gRPC service hands on the request's ClientId field (the one the wrapper has overwritten) ----
	const svcRel = "cmd/acra-translator/grpc_api/service.go"
	gm := methodsOf(svcRel, "TranslatorService")
	var grows []string
	for _, r := range rpcs {
		fd, ok := gm[r]
		if !ok {
			grows = append(grows, fmt.Sprintf("(%q, %q, false)", r, ""))
			continue
		}
		recv := fd.Recv.List[0].Names[0].Name
		req := fd.Type.Params.List[len(fd.Type.Params.List)-1].Names[0].Name
		names, calls := callsIn(fd.Body)
		n := 0
		for i, nm := range names {
			c := calls[i]
			switch {
			case strings.HasPrefix(nm, recv+".service."):
				op := strings.TrimPrefix(nm, recv+".service.")
				p, known := pos[op]
				grows = append(grows, fmt.Sprintf("(%q, %q, %s)", r, op, boolStr(known && p < len(c.Args) && selPath(c.Args[p]) == req+".ClientId")))
				n++
			case strings.HasPrefix(nm, recv+".data.Keystorage."):
				op := strings.TrimPrefix(nm, recv+".data.")
				grows = append(grows, fmt.Sprintf("(%q, %q, %s)", r, op, boolStr(len(c.Args) >= 1 && selPath(c.Args[0]) == req+".ClientId")))
				n++
			}
		}
		if n == 0 {
			fail("%s: TranslatorService.%s reaches neither the translator service nor the key store", svcRel, r)
		}
		if assignsTo(fd.Body, req+".ClientId") || assignsTo(fd.Body, req) {
			grows = append(grows, fmt.Sprintf("(%q, %q, false)", r, "reassigns-request-id"))
		}
	}
	lf.def("grpcOps", "List (String × String × Bool)", "[\n  "+strings.Join(grows, ",\n  ")+"]",
		svcRel+": every use of the translator service / key store by a gRPC method as (rpc, callee, the client id argument is request.ClientId)")
	var ops []string
	for k := range pos {
		ops = append(ops, k)
	}
	sort.Strings(ops)
	lf.def("translatorOps", "List String", strList(ops), "cmd/acra-translator/common/service.go: methods of ITranslatorService that take a clientID")
}

func unstar(e ast.Expr) ast.Expr {
	if s, ok := e.(*ast.StarExpr); ok {
		return s.X
	}
	return e
}
