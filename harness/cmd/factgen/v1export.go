package main

// Facts for the v1 key store export / import / migration models
// (lean/AcraModel/KeystoreSec/{V1Names,ExportV1,MigrateV1,V1WriteLog}.lean): the small name-classification
// functions as normalised statement lists, the case tables of KeyBackuper.Export and ImportKeyFileV1,
// the validator's constants.

import (
	"bytes"
	"go/ast"
	"go/printer"
	"strconv"
	"strings"
)

func init() { generators = append(generators, genV1Export) }

// nodeText renders a node as normalised one-line source text (no comments)
func nodeText(n ast.Node) string {
	var b bytes.Buffer
	cfg := printer.Config{Mode: printer.RawFormat}
	if err := cfg.Fprint(&b, fset, n); err != nil {
		fail("cannot print node: %v", err)
		return ""
	}
	return strings.Join(strings.Fields(b.String()), " ")
}

// bodyStmts: the top-level statements of a function body as text
func bodyStmts(fd *ast.FuncDecl) []string {
	var out []string
	if fd == nil || fd.Body == nil {
		return out
	}
	for _, s := range fd.Body.List {
		out = append(out, nodeText(s))
	}
	return out
}

// switchCases: for the first `switch <tag>` of the body whose tag renders as `tag`: per case the case
// expressions and the calls made in the case body (callee names containing one of keep)
func switchCases(fd *ast.FuncDecl, tag string, keep ...string) []string {
	var out []string
	if fd == nil || fd.Body == nil {
		return out
	}
	found := false
	ast.Inspect(fd.Body, func(n ast.Node) bool {
		sw, ok := n.(*ast.SwitchStmt)
		if !ok || found || sw.Tag == nil || nodeText(sw.Tag) != tag {
			return true
		}
		found = true
		for _, c := range sw.Body.List {
			cc := c.(*ast.CaseClause)
			var exprs []string
			for _, e := range cc.List {
				exprs = append(exprs, nodeText(e))
			}
			label := strings.Join(exprs, ",")
			if cc.List == nil {
				label = "default"
			}
			var calls []string
			for _, st := range cc.Body {
				ast.Inspect(st, func(m ast.Node) bool {
					if ce, ok := m.(*ast.CallExpr); ok {
						name := calleeName(ce.Fun)
						for _, k := range keep {
							if strings.Contains(name, k) {
								calls = append(calls, name)
								break
							}
						}
					}
					return true
				})
			}
			out = append(out, label+": "+strings.Join(calls, " "))
		}
		return false
	})
	if !found {
		fail("switch %s not found in %s", tag, fd.Name.Name)
	}
	return out
}

// callArgsText: the idx-th argument, as source text, of every call whose callee name ends in suffix
func callArgsText(fd *ast.FuncDecl, suffix string, idx int) []string {
	var out []string
	if fd == nil || fd.Body == nil {
		return out
	}
	ast.Inspect(fd.Body, func(n ast.Node) bool {
		c, ok := n.(*ast.CallExpr)
		if ok && strings.HasSuffix(calleeName(c.Fun), suffix) && idx < len(c.Args) {
			arg := nodeText(c.Args[idx])
			// a local name assigned exactly once stands for its defining expression
			if id, isIdent := c.Args[idx].(*ast.Ident); isIdent {
				if defs := assignmentsRHS(fd, id.Name); len(defs) == 1 {
					arg = defs[0]
				}
			}
			out = append(out, arg)
		}
		return true
	})
	return out
}

// assignmentsRHS: right-hand sides (text) of the single-value assignments to a local name
func assignmentsRHS(fd *ast.FuncDecl, name string) []string {
	var out []string
	ast.Inspect(fd.Body, func(n ast.Node) bool {
		if as, ok := n.(*ast.AssignStmt); ok && len(as.Lhs) == 1 && len(as.Rhs) == 1 && calleeName(as.Lhs[0]) == name {
			out = append(out, nodeText(as.Rhs[0]))
		}
		return true
	})
	return out
}

func genV1Export() {
	lf := newLean("V1Export", "Sources: keystore/keystore.go, keystore/filesystem/{filesystem_backup.go, key_export.go, server_keystore.go}, keystore/v2/keystore/{importV1.go, keyRingUtils.go}.")
	strs := func(name string, xs []string, src string) { lf.def(name, "List String", strList(xs), src) }
	const bk = "keystore/filesystem/filesystem_backup.go"
	const ke = "keystore/filesystem/key_export.go"
	const sk = "keystore/filesystem/server_keystore.go"

	strs("isHistoricalFilenameBody", bodyStmts(funcDecl(bk, "", "isHistoricalFilename")), bk+": isHistoricalFilename")
	strs("isPrivateBody", bodyStmts(funcDecl(bk, "", "isPrivate")), bk+": isPrivate")
	strs("isPublicBody", bodyStmts(funcDecl(bk, "", "isPublic")), bk+": isPublic")
	strs("getContextFromFilenameBody", bodyStmts(funcDecl(bk, "", "getContextFromFilename")), bk+": getContextFromFilename")
	strs("classifyExportedKeyBody", bodyStmts(funcDecl(ke, "DefaultKeyFileClassifier", "ClassifyExportedKey")), ke+": ClassifyExportedKey")
	strs("fusedIDBody", bodyStmts(funcDecl(ke, "ExportedKey", "fusedID")), ke+": ExportedKey.fusedID")
	strs("addPathFromBody", bodyStmts(funcDecl(ke, "ExportedKey", "addPathFrom")), ke+": ExportedKey.addPathFrom")
	strs("validateIDBody", bodyStmts(funcDecl("keystore/keystore.go", "", "ValidateID")), "keystore/keystore.go: ValidateID")

	// readFilesAsKeys: how the relative name is computed, what is decrypted and verified
	rf := funcDecl(bk, "", "readFilesAsKeys")
	strs("readFilesAsKeysRelativeName", assignmentsText(rf, "relativeName"), bk+": readFilesAsKeys – the assignment of relativeName")
	strs("readFilesAsKeysCalls", callSeq(rf, "ReadFile", "isPrivate", "getContextFromFilename", "Decrypt", "isPublic", "verifyPublicKey"), bk+": readFilesAsKeys – calls in source order")

	// Export: the switch over the key kind, the mode conditions, the sealing pipeline
	ex := funcDecl(bk, "KeyBackuper", "Export")
	strs("exportKindCases", switchCases(ex, "exportID.KeyKind", "store.keyStore.", "verifyPublicKey", "getPublicKeyFilename", "GetServerDecryptionKeyFilename", "getClientIDSymmetricKeyName", "getHmacKeyFilename"), bk+": KeyBackuper.Export – per key kind the getter, the verification and the name function")
	strs("exportPipeline", callSeq(ex, "gob.NewEncoder", "encoder.Encode", "GenerateSymmetricKey", "NewSCellKeyEncryptor", "encryptor.Encrypt", "NewEmptyKeyContext"), bk+": KeyBackuper.Export – serialise and seal")
	var conds []string
	if ex != nil {
		ast.Inspect(ex.Body, func(n ast.Node) bool {
			if is, ok := n.(*ast.IfStmt); ok && strings.Contains(nodeText(is.Cond), "mode ==") {
				conds = append(conds, nodeText(is.Cond))
			}
			return true
		})
	}
	strs("exportModeConditions", conds, bk+": KeyBackuper.Export – the conditions on mode")

	// Import: order of the steps
	im := funcDecl(bk, "KeyBackuper", "Import")
	strs("importCalls", callSeq(im, "NewSCellKeyEncryptor", "decryptor.Decrypt", "decoder.Decode", "isPrivate", "getContextFromFilename", "currentDecryptor.Encrypt", "filepath.Join", "MkdirAll", "WriteFile", "DescribeKeyFile"), bk+": KeyBackuper.Import – calls in source order")
	strs("importWriteArgs", callArgs(im, "storage.WriteFile", 1), bk+": KeyBackuper.Import – what is written")
	// which name each classification step of the import loop is given (the whole record name – a rotated key
	// "<key file>.old/<timestamp>" is classified by its history directory – or only the base name)
	var nameArgs []string
	for _, fn := range []string{"isPrivate", "getContextFromFilename", "DescribeKeyFile"} {
		as := callArgsText(im, fn, 0)
		if len(as) != 1 {
			fail("KeyBackuper.Import: expected exactly one call of %s, found %d", fn, len(as))
		}
		for _, a := range as {
			nameArgs = append(nameArgs, fn+"("+a+")")
		}
	}
	strs("importNameArgs", nameArgs, bk+": KeyBackuper.Import – the argument of each name classification step")

	// ImportKeyFileV1: purpose -> (export function of the old store, import function of the new one)
	iv := funcDecl("keystore/v2/keystore/importV1.go", "ServerKeyStore", "ImportKeyFileV1")
	strs("importV1Cases", switchCases(iv, "key.KeyContext.Purpose", "oldKeyStore.", "s.save", "s.Save", "s.import"), "keystore/v2/keystore/importV1.go: ImportKeyFileV1 – per purpose the export and the import function")
	strs("describeNewKeyPairBody", bodyStmts(funcDecl("keystore/v2/keystore/keyRingUtils.go", "ServerKeyStore", "describeNewKeyPair")), "keystore/v2/keystore/keyRingUtils.go: describeNewKeyPair")
	strs("addCurrentKeyPairCalls", callSeq(funcDecl("keystore/v2/keystore/keyRingUtils.go", "ServerKeyStore", "addCurrentKeyPair"), "ring."), "keyRingUtils.go: addCurrentKeyPair")
	strs("addCurrentSymmetricKeyCalls", callSeq(funcDecl("keystore/v2/keystore/keyRingUtils.go", "ServerKeyStore", "addCurrentSymmetricKey"), "ring."), "keyRingUtils.go: addCurrentSymmetricKey")

	// the v1 writers: do they validate the id first
	for _, fn := range []string{"GenerateDataEncryptionKeys", "SaveDataEncryptionKeys", "GenerateClientIDSymmetricKey", "GenerateHmacKey"} {
		fd := funcDecl(sk, "KeyStore", fn)
		first := ""
		if fd != nil && fd.Body != nil && len(fd.Body.List) > 0 {
			first = nodeText(fd.Body.List[0])
		}
		lf.def("v1Writer"+fn+"First", "String", strconv.Quote(first), sk+": first statement of "+fn)
	}

	// constants
	env := newConstEnv("keystore/keystore.go")
	for _, n := range []string{"ValidChars", "PurposeSearchHMAC", "PurposeAuditLog", "PurposePoisonRecordSymmetricKey", "PurposeStorageClientSymmetricKey", "PurposePoisonRecordKeyPair", "PurposeStorageClientKeyPair", "PurposeStorageClientPrivateKey", "PurposeLegacy", "PurposeUndefined",
		"KeyPoisonPublic", "KeyPoisonPrivate", "KeyStoragePublic", "KeyStoragePrivate", "KeySymmetric", "KeySearch"} {
		v, ok := env.vals[n]
		if !ok {
			fail("keystore/keystore.go: constant %s not found", n)
			continue
		}
		s, err := strconv.Unquote(v.ExactString())
		if err != nil {
			fail("keystore/keystore.go: constant %s is not a string", n)
			continue
		}
		lf.def("c"+n, "String", strconv.Quote(s), "keystore/keystore.go: "+n)
	}
	for _, n := range []string{"MinClientIDLength", "MaxClientIDLength"} {
		v, ok := env.vals[n]
		if !ok {
			fail("keystore/keystore.go: constant %s not found", n)
			continue
		}
		lf.def("c"+n, "Nat", v.ExactString(), "keystore/keystore.go: "+n)
	}
}

// assignmentsText: full text of every assignment / short variable declaration whose first lhs is `name`
func assignmentsText(fd *ast.FuncDecl, name string) []string {
	var out []string
	if fd == nil || fd.Body == nil {
		return out
	}
	ast.Inspect(fd.Body, func(n ast.Node) bool {
		if as, ok := n.(*ast.AssignStmt); ok && len(as.Lhs) > 0 && calleeName(as.Lhs[0]) == name {
			out = append(out, nodeText(as))
		}
		return true
	})
	return out
}
