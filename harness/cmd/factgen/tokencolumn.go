package main

import (
	"fmt"
	"go/ast"
	"go/token"
	"os"
	"path/filepath"
	"sort"
	"strings"
)

// TokenColumn: which client id the SQL proxies hand to the tokenizer.
//
// Read path  – pseudonymization/data_encoder.go TokenProcessor.OnColumn: the `ClientID:` element of the
// common.TokenContext literal it passes to DataTokenizer.Detokenize.
// Write path – pseudonymization/queryDataEncryptor.go TokenEncryptor.EncryptWithClientID (what it puts into the
// TokenContext it passes to DataTokenizer.Tokenize) and EVERY call `….EncryptWithClientID(x, …)` of the source
// tree: what `x` is.
//
// An expression that is a local variable is resolved to the assignments that define it inside the function, each
// with the condition it sits under: `init` (unconditional), `if-empty` (then-branch of `len(v) == 0` or
// else-branch of `len(v) > 0` on the variable itself), `if-nonempty`, otherwise the source text of the condition;
// a function parameter is `param`.
// Used by C02 (`fact_token_read_uses_session_id`, `fact_token_write_sites`, `proxy_token_read_is_session`).
func init() { generators = append(generators, genTokenColumn) }

const (
	tokenReadRel  = "pseudonymization/data_encoder.go"
	tokenWriteRel = "pseudonymization/queryDataEncryptor.go"
)

type varDef struct{ cond, expr string }

func defsList(ds []varDef) string {
	s := make([]string, len(ds))
	for i, d := range ds {
		s[i] = fmt.Sprintf("(%q, %q)", d.cond, d.expr)
	}
	return "[" + strings.Join(s, ", ") + "]"
}

// lenCmp recognises `len(<name>) <op> 0`.
func lenCmp(e ast.Expr, name string) (op token.Token, ok bool) {
	be, isBin := e.(*ast.BinaryExpr)
	if !isBin {
		return 0, false
	}
	call, isCall := be.X.(*ast.CallExpr)
	lit, isLit := be.Y.(*ast.BasicLit)
	if !isCall || !isLit || lit.Value != "0" || !isIdent(call.Fun, "len") || len(call.Args) != 1 || !isIdent(call.Args[0], name) {
		return 0, false
	}
	return be.Op, true
}

func condToken(cond ast.Expr, thenBranch bool, name string) string {
	if op, ok := lenCmp(cond, name); ok {
		empty := op == token.EQL
		nonempty := op == token.GTR || op == token.NEQ
		if empty || nonempty {
			if empty == thenBranch {
				return "if-empty"
			}
			return "if-nonempty"
		}
	}
	if thenBranch {
		return "if " + strings.ReplaceAll(srcString(cond), " && ", " and ")
	}
	return "else " + strings.ReplaceAll(srcString(cond), " && ", " and ")
}

// varDefsIn lists the definitions of local variable `name` inside a statement list, in source order.
func varDefsIn(stmts []ast.Stmt, name string, ctx []string, out *[]varDef) {
	cond := "init"
	if len(ctx) > 0 {
		cond = strings.Join(ctx, " && ")
	}
	var walk func(s ast.Stmt)
	walk = func(s ast.Stmt) {
		switch t := s.(type) {
		case *ast.AssignStmt:
			for i, l := range t.Lhs {
				if !isIdent(l, name) {
					continue
				}
				switch {
				case len(t.Rhs) == len(t.Lhs):
					*out = append(*out, varDef{cond, srcString(t.Rhs[i])})
				case len(t.Rhs) == 1:
					*out = append(*out, varDef{cond, fmt.Sprintf("%s#%d", srcString(t.Rhs[0]), i)})
				}
			}
		case *ast.DeclStmt:
			if gd, ok := t.Decl.(*ast.GenDecl); ok {
				for _, sp := range gd.Specs {
					if vs, ok := sp.(*ast.ValueSpec); ok {
						for i, n := range vs.Names {
							if n.Name != name {
								continue
							}
							if i < len(vs.Values) {
								*out = append(*out, varDef{cond, srcString(vs.Values[i])})
							} else {
								*out = append(*out, varDef{cond, "zero"})
							}
						}
					}
				}
			}
		case *ast.IfStmt:
			if t.Init != nil {
				walk(t.Init)
			}
			varDefsIn(t.Body.List, name, append(append([]string{}, ctx...), condToken(t.Cond, true, name)), out)
			switch e := t.Else.(type) {
			case *ast.BlockStmt:
				varDefsIn(e.List, name, append(append([]string{}, ctx...), condToken(t.Cond, false, name)), out)
			case *ast.IfStmt:
				varDefsIn([]ast.Stmt{e}, name, append(append([]string{}, ctx...), condToken(t.Cond, false, name)), out)
			}
		case *ast.BlockStmt:
			varDefsIn(t.List, name, ctx, out)
		case *ast.ForStmt:
			varDefsIn(t.Body.List, name, append(append([]string{}, ctx...), "loop"), out)
		case *ast.RangeStmt:
			if isIdent(t.Key, name) || (t.Value != nil && isIdent(t.Value, name)) {
				*out = append(*out, varDef{cond, "range " + srcString(t.X)})
			}
			varDefsIn(t.Body.List, name, append(append([]string{}, ctx...), "loop"), out)
		case *ast.SwitchStmt:
			for _, c := range t.Body.List {
				varDefsIn(c.(*ast.CaseClause).Body, name, append(append([]string{}, ctx...), "case"), out)
			}
		case *ast.ReturnStmt:
			// a returned closure: its body belongs to the same analysis (getTokenizerDataWithSetting)
			for _, r := range t.Results {
				if fl, ok := r.(*ast.FuncLit); ok {
					varDefsIn(fl.Body.List, name, ctx, out)
				}
			}
		}
	}
	for _, s := range stmts {
		walk(s)
	}
}

// stripCommonCond removes the conditions all definitions of a variable share (the scope the variable lives in):
// what remains is the condition of each definition relative to the first one.
func stripCommonCond(ds []varDef) []varDef {
	if len(ds) == 0 {
		return ds
	}
	split := func(c string) []string {
		if c == "init" {
			return nil
		}
		return strings.Split(c, " && ")
	}
	common := split(ds[0].cond)
	for _, d := range ds[1:] {
		c := split(d.cond)
		n := 0
		for n < len(common) && n < len(c) && common[n] == c[n] {
			n++
		}
		common = common[:n]
	}
	out := make([]varDef, len(ds))
	for i, d := range ds {
		rest := split(d.cond)[len(common):]
		out[i] = varDef{"init", d.expr}
		if len(rest) > 0 {
			out[i].cond = strings.Join(rest, " && ")
		}
	}
	return out
}

// paramNames of a function declaration plus those of the function literals that enclose `pos`.
func paramNamesAt(fd *ast.FuncDecl, pos token.Pos) map[string]bool {
	ps := map[string]bool{}
	add := func(ft *ast.FuncType) {
		if ft.Params == nil {
			return
		}
		for _, f := range ft.Params.List {
			for _, n := range f.Names {
				ps[n.Name] = true
			}
		}
	}
	add(fd.Type)
	ast.Inspect(fd.Body, func(x ast.Node) bool {
		if fl, ok := x.(*ast.FuncLit); ok && fl.Pos() <= pos && pos <= fl.End() {
			add(fl.Type)
		}
		return true
	})
	return ps
}

// resolveValue: what an expression used at `pos` of fd is, see the file comment.
func resolveValue(fd *ast.FuncDecl, e ast.Expr) []varDef {
	id, ok := e.(*ast.Ident)
	if !ok {
		return []varDef{{"init", srcString(e)}}
	}
	var ds []varDef
	varDefsIn(fd.Body.List, id.Name, nil, &ds)
	ds = stripCommonCond(ds)
	if len(ds) == 0 {
		if paramNamesAt(fd, e.Pos())[id.Name] {
			return []varDef{{"param", id.Name}}
		}
		return []varDef{{"unresolved", id.Name}}
	}
	return ds
}

// tokenContextLits: the composite literals of type `<pkg>.TokenContext` in a function.
func tokenContextLits(fd *ast.FuncDecl) []*ast.CompositeLit {
	var out []*ast.CompositeLit
	ast.Inspect(fd.Body, func(x ast.Node) bool {
		if cl, ok := x.(*ast.CompositeLit); ok {
			if p := selPath(cl.Type); p == "TokenContext" || strings.HasSuffix(p, ".TokenContext") {
				out = append(out, cl)
			}
		}
		return true
	})
	return out
}

func litElement(cl *ast.CompositeLit, key string) ast.Expr {
	for _, el := range cl.Elts {
		if kv, ok := el.(*ast.KeyValueExpr); ok && isIdent(kv.Key, key) {
			return kv.Value
		}
	}
	return nil
}

func methodLabel(rel string, fd *ast.FuncDecl) string {
	if fd.Recv != nil && len(fd.Recv.List) == 1 {
		return rel + ":" + recvName(fd.Recv.List[0].Type) + "." + fd.Name.Name
	}
	return rel + ":" + fd.Name.Name
}

func callArgSrcs(c *ast.CallExpr) []string {
	out := make([]string, len(c.Args))
	for i, a := range c.Args {
		out[i] = srcString(a)
	}
	return out
}

// goSourceFiles: every non-test .go file of the repository (without the tests/ examples/ docs trees and
// files behind the `verif` hooks), relative paths, sorted.
func goSourceFiles() []string {
	var out []string
	filepath.Walk(repo, func(p string, info os.FileInfo, err error) error {
		if err != nil {
			return nil
		}
		rel, _ := filepath.Rel(repo, p)
		if info.IsDir() {
			base := info.Name()
			if rel != "." && (strings.HasPrefix(base, ".") || base == "tests" || base == "examples" || base == "vendor" || base == "testdata" || base == "benchmarks") {
				return filepath.SkipDir
			}
			return nil
		}
		if strings.HasSuffix(rel, ".go") && !strings.HasSuffix(rel, "_test.go") && !strings.HasPrefix(filepath.Base(rel), "verif_hooks") {
			out = append(out, filepath.ToSlash(rel))
		}
		return nil
	})
	sort.Strings(out)
	return out
}

func genTokenColumn() {
	lf := newLean("TokenColumn", "Sources: "+tokenReadRel+", "+tokenWriteRel+", every call of EncryptWithClientID in the non-test sources.")
	// ---- read path ----
	if fd := funcDecl(tokenReadRel, "TokenProcessor", "OnColumn"); fd != nil {
		lits := tokenContextLits(fd)
		lf.def("readContextLiterals", "Nat", fmt.Sprint(len(lits)), tokenReadRel+": TokenProcessor.OnColumn – number of TokenContext literals it builds")
		var defs []varDef
		var litVar string
		if len(lits) == 1 {
			if v := litElement(lits[0], "ClientID"); v != nil {
				defs = resolveValue(fd, v)
			} else {
				fail("%s: OnColumn: the TokenContext literal has no ClientID element", tokenReadRel)
			}
			// the variable the literal is assigned to
			ast.Inspect(fd.Body, func(x ast.Node) bool {
				if as, ok := x.(*ast.AssignStmt); ok && len(as.Lhs) == 1 && len(as.Rhs) == 1 && as.Rhs[0] == ast.Expr(lits[0]) {
					litVar = selPath(as.Lhs[0])
				}
				return true
			})
		} else {
			fail("%s: OnColumn: expected exactly one TokenContext literal, found %d", tokenReadRel, len(lits))
		}
		lf.def("readContextClientID", "List (String × String)", defsList(defs), tokenReadRel+": TokenProcessor.OnColumn – the ClientID element of the TokenContext literal: (condition, expression) of every definition")
		// the locals those expressions start from
		roots := map[string]bool{}
		for _, d := range defs {
			r := d.expr
			if i := strings.IndexAny(r, ".("); i > 0 {
				r = r[:i]
			}
			roots[r] = true
		}
		var rootNames []string
		for r := range roots {
			rootNames = append(rootNames, r)
		}
		sort.Strings(rootNames)
		var locals []string
		for _, r := range rootNames {
			var ds []varDef
			varDefsIn(fd.Body.List, r, nil, &ds)
			ds = stripCommonCond(ds)
			if len(ds) > 0 {
				locals = append(locals, fmt.Sprintf("(%q, %s)", r, defsList(ds)))
			}
		}
		lf.def("readLocals", "List (String × List (String × String))", "["+strings.Join(locals, ", ")+"]", tokenReadRel+": TokenProcessor.OnColumn – definitions of the local variables those expressions start from")
		// the Detokenize call
		var detok [][]string
		names, calls := callsIn(fd.Body)
		for i, n := range names {
			if strings.HasSuffix(n, ".Detokenize") {
				detok = append(detok, append([]string{n}, callArgSrcs(calls[i])...))
			}
		}
		if len(detok) != 1 {
			fail("%s: OnColumn: expected exactly one Detokenize call, found %d", tokenReadRel, len(detok))
		} else {
			lf.def("readDetokenizeCall", "List String", strList(detok[0]), tokenReadRel+": TokenProcessor.OnColumn – the Detokenize call: callee and arguments")
		}
		lf.def("readContextVar", "String", fmt.Sprintf("%q", litVar), tokenReadRel+": TokenProcessor.OnColumn – the variable the TokenContext literal is assigned to")
	}
	// ---- TokenEncryptor ----
	if fd := funcDecl(tokenWriteRel, "TokenEncryptor", "EncryptWithClientID"); fd != nil {
		var params []string
		for _, f := range fd.Type.Params.List {
			for _, n := range f.Names {
				params = append(params, n.Name)
			}
		}
		lf.def("encryptorParams", "List String", strList(params), tokenWriteRel+": TokenEncryptor.EncryptWithClientID – parameter names")
		lits := tokenContextLits(fd)
		var defs []varDef
		if len(lits) == 1 {
			if v := litElement(lits[0], "ClientID"); v != nil {
				defs = resolveValue(fd, v)
			}
			if len(lits[0].Elts) != 1 {
				defs = append(defs, varDef{"extra-elements", fmt.Sprint(len(lits[0].Elts))})
			}
		} else {
			fail("%s: EncryptWithClientID: expected exactly one TokenContext literal, found %d", tokenWriteRel, len(lits))
		}
		lf.def("encryptorContextClientID", "List (String × String)", defsList(defs), tokenWriteRel+": TokenEncryptor.EncryptWithClientID – the ClientID element of its TokenContext literal")
		var tok [][]string
		names, calls := callsIn(fd.Body)
		for i, n := range names {
			if strings.HasSuffix(n, ".Tokenize") {
				tok = append(tok, append([]string{n}, callArgSrcs(calls[i])...))
			}
		}
		if len(tok) != 1 {
			fail("%s: EncryptWithClientID: expected exactly one Tokenize call, found %d", tokenWriteRel, len(tok))
		} else {
			lf.def("encryptorTokenizeCall", "List String", strList(tok[0]), tokenWriteRel+": TokenEncryptor.EncryptWithClientID – the Tokenize call: callee and arguments")
		}
	}
	// ---- every caller of EncryptWithClientID ----
	var rows []string
	n := 0
	for _, rel := range goSourceFiles() {
		src, err := os.ReadFile(filepath.Join(repo, rel))
		if err != nil || !strings.Contains(string(src), "EncryptWithClientID(") {
			continue
		}
		f := parseFile(rel)
		if f == nil {
			continue
		}
		for _, d := range f.Decls {
			fd, ok := d.(*ast.FuncDecl)
			if !ok || fd.Body == nil {
				continue
			}
			_, calls := callsIn(fd.Body)
			for _, c := range calls {
				sel, ok := c.Fun.(*ast.SelectorExpr)
				if !ok || sel.Sel.Name != "EncryptWithClientID" || len(c.Args) == 0 {
					continue
				}
				n++
				rows = append(rows, fmt.Sprintf("(%q, %q, %s)", methodLabel(rel, fd), selPath(c.Fun), defsList(resolveValue(fd, c.Args[0]))))
			}
		}
	}
	if n == 0 {
		fail("no call of EncryptWithClientID found in the sources")
	}
	lf.def("writeCallSites", "List (String × String × List (String × String))", "[\n  "+strings.Join(rows, ",\n  ")+"]",
		"every call `x.EncryptWithClientID(id, …)`: (file:function, callee, definitions of the first argument)")
}
