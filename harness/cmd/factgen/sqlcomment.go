package main

import (
	"fmt"
	"go/ast"
	"go/token"
)

// SqlComment: sqlparser/comments.go, ExtractMysqlComment – the two slice offsets that cut `/*!` and `*/`
// off, the digit bound of the version scan and whether the function handles "nothing follows the version
// digits" (IndexFunc returned -1) before it slices with that index.
func init() { generators = append(generators, genSQLComment) }

func genSQLComment() {
	const rel = "sqlparser/comments.go"
	lf := newLean("SqlComment", "Source: sqlparser/comments.go (ExtractMysqlComment).")
	fd := funcDecl(rel, "", "ExtractMysqlComment")
	if fd == nil {
		return
	}
	env := newConstEnv(rel)
	isIdent := func(e ast.Expr, name string) bool {
		id, ok := e.(*ast.Ident)
		return ok && id.Name == name
	}
	isLenSQL := func(e ast.Expr) bool {
		c, ok := e.(*ast.CallExpr)
		return ok && isIdent(c.Fun, "len") && len(c.Args) == 1 && isIdent(c.Args[0], "sql")
	}
	var front, back, bound uint64
	haveCut, haveBound, guard, sliced := false, false, false, false
	for _, st := range fd.Body.List {
		switch s := st.(type) {
		case *ast.AssignStmt:
			if len(s.Lhs) == 1 && len(s.Rhs) == 1 {
				if se, ok := s.Rhs[0].(*ast.SliceExpr); ok && isIdent(se.X, "sql") {
					switch {
					case isIdent(s.Lhs[0], "sql") && !haveCut:
						// sql = sql[3 : len(sql)-2]
						be, ok := se.High.(*ast.BinaryExpr)
						if se.Low == nil || !ok || be.Op != token.SUB || !isLenSQL(be.X) {
							fail("%s: ExtractMysqlComment: `sql = sql[A : len(sql)-B]` not recognised", rel)
							return
						}
						front, back, haveCut = env.intOf(se.Low, rel), env.intOf(be.Y, rel), true
					case isIdent(s.Lhs[0], "version"):
						// version = sql[0:endOfVersionIndex]
						sliced = true
					}
				}
				// endOfVersionIndex := strings.IndexFunc(sql, func(c rune) bool { digitCount++; return !unicode.IsDigit(c) || digitCount == 6 })
				if c, ok := s.Rhs[0].(*ast.CallExpr); ok && isIdent(s.Lhs[0], "endOfVersionIndex") {
					ast.Inspect(c, func(n ast.Node) bool {
						if be, ok := n.(*ast.BinaryExpr); ok && be.Op == token.EQL && isIdent(be.X, "digitCount") {
							bound, haveBound = env.intOf(be.Y, rel), true
						}
						return true
					})
				}
			}
		case *ast.IfStmt:
			// if endOfVersionIndex < 0 { endOfVersionIndex = len(sql) }   – before the slice
			be, ok := s.Cond.(*ast.BinaryExpr)
			if ok && !sliced && s.Init == nil && s.Else == nil && be.Op == token.LSS && isIdent(be.X, "endOfVersionIndex") && env.eval(be.Y) != nil && env.intOf(be.Y, rel) == 0 && len(s.Body.List) == 1 {
				if as, ok := s.Body.List[0].(*ast.AssignStmt); ok && as.Tok == token.ASSIGN && len(as.Lhs) == 1 && len(as.Rhs) == 1 && isIdent(as.Lhs[0], "endOfVersionIndex") && isLenSQL(as.Rhs[0]) {
					guard = true
				}
			}
		}
	}
	if !haveCut {
		fail("%s: ExtractMysqlComment: `sql = sql[A : len(sql)-B]` not found", rel)
	}
	if !haveBound {
		fail("%s: ExtractMysqlComment: `digitCount == K` not found", rel)
	}
	if !sliced {
		fail("%s: ExtractMysqlComment: `version = sql[0:endOfVersionIndex]` not found", rel)
	}
	lf.def("cutFront", "Nat", fmt.Sprint(front), rel+": ExtractMysqlComment, `sql = sql[A : len(sql)-B]`: A (length of `/*!`)")
	lf.def("cutBack", "Nat", fmt.Sprint(back), rel+": ExtractMysqlComment, `sql = sql[A : len(sql)-B]`: B (length of `*/`)")
	lf.def("versionDigitBound", "Nat", fmt.Sprint(bound), rel+": ExtractMysqlComment, the version scan stops at the K-th character (`digitCount == K`)")
	lf.def("noTextGuard", "Bool", boolStr(guard), rel+": ExtractMysqlComment has `if endOfVersionIndex < 0 { endOfVersionIndex = len(sql) }` before `sql[0:endOfVersionIndex]`")
}
