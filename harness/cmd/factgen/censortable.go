package main

import (
	"bytes"
	"fmt"
	"go/ast"
	"go/constant"
	"go/printer"
	"go/token"
	"regexp"
	"sort"
	"strings"
)

// CensorTable: facts the C05 models need from the source.
//
//   structFields      sqlparser/ast.go: for every struct type the field names in declaration order
//                     (the harness serialises parse trees field by field in this order; the matcher
//                     model selects children by field name through this table)
//   comparators       acra-censor/common/matching_logic.go: for every `handle*Statement` / `areEqual*`
//                     function whose body has the regular "compare field by field" shape: the ordered
//                     comparison steps (callee, query-side operand, pattern-side operand, polarity,
//                     escape) and the value of the final `return`; functions of another shape are
//                     listed in `irregular`
//   patternDispatch   the type switch of checkSinglePatternMatch (pattern type → handler)
//   hqLoop, hq*       AcraCensor.HandleQuery: the dispatch order inside the handler loop and the
//                     prologue (inactive guard, parse-error branch)
//   allowCheck/denyCheck  the order of the three rule checks of Allow/DenyHandler.CheckQuery, which
//                     component of CheckTableNamesMatch each looks at and what a hit returns
//   pgSimpleQueryCalls, pgLoopCalls, pgCensoredBranch, mysqlQueryCalls, mysqlDeniedBranch
//                     where the proxies ask the censor relative to remembering / forwarding the statement
func init() { generators = append(generators, genCensorTable) }

func render(n ast.Node) string {
	var b bytes.Buffer
	printer.Fprint(&b, fset, n)
	return strings.Join(strings.Fields(b.String()), " ")
}

// normOperand renames the query-/pattern-side variables of the comparators to q / p and the loop index to i.
var typeAssertRe = regexp.MustCompile(`\.\(\*?[A-Za-z]+\)`)

func normOperand(s string) string {
	s = strings.ReplaceAll(s, "sqlparser.", "")
	s = typeAssertRe.ReplaceAllString(s, "")
	var out []string
	for _, part := range strings.Split(s, ".") {
		base := part
		rest := ""
		if i := strings.IndexAny(part, "[("); i >= 0 {
			base, rest = part[:i], part[i:]
		}
		switch {
		case strings.HasPrefix(base, "query"):
			base = "q"
		case strings.HasPrefix(base, "pattern"):
			base = "p"
		}
		rest = strings.ReplaceAll(rest, "[index]", "[i]")
		out = append(out, base+rest)
	}
	return strings.Join(out, ".")
}

type cmpStep struct{ kind, callee, q, p string }

func (s cmpStep) lean() string {
	return fmt.Sprintf("(%q, %q, %q, %q)", s.kind, s.callee, s.q, s.p)
}

func isReturnBool(st ast.Stmt, val string) bool {
	r, ok := st.(*ast.ReturnStmt)
	if !ok || len(r.Results) != 1 {
		return false
	}
	id, ok := r.Results[0].(*ast.Ident)
	return ok && id.Name == val
}

func blockIsReturn(b *ast.BlockStmt, val string) bool {
	return b != nil && len(b.List) == 1 && isReturnBool(b.List[0], val)
}

func censorCallName(e ast.Expr) (string, []ast.Expr, bool) {
	c, ok := e.(*ast.CallExpr)
	if !ok {
		return "", nil, false
	}
	return render(c.Fun), c.Args, true
}

// stepsOf translates a statement list of a comparator; ok=false when a statement has another shape.
func stepsOf(list []ast.Stmt, loop string) (steps []cmpStep, final string, ok bool) {
	ok = true
	kindOf := func(k string) string {
		if loop != "" {
			return "each:" + k
		}
		return k
	}
	for i := 0; i < len(list); i++ {
		switch s := list[i].(type) {
		case *ast.DeclStmt: // var match bool
			continue
		case *ast.AssignStmt:
			// X, ok := query.(T) ; if !ok { return false }
			if len(s.Lhs) == 2 && len(s.Rhs) == 1 {
				if ta, isTA := s.Rhs[0].(*ast.TypeAssertExpr); isTA && i+1 < len(list) {
					if ifs, isIf := list[i+1].(*ast.IfStmt); isIf && render(ifs.Cond) == "!ok" && blockIsReturn(ifs.Body, "false") {
						steps = append(steps, cmpStep{kindOf("cast"), strings.TrimPrefix(strings.TrimPrefix(render(ta.Type), "*"), "sqlparser."), normOperand(render(ta.X)), ""})
						i++
						continue
					}
				}
			}
			// match = CALL(a, b) ; if !match { return false | if ESC(x) { return true }; return false }
			if len(s.Lhs) == 1 && render(s.Lhs[0]) == "match" && len(s.Rhs) == 1 && i+1 < len(list) {
				name, args, isCall := censorCallName(s.Rhs[0])
				ifs, isIf := list[i+1].(*ast.IfStmt)
				if isCall && len(args) == 2 && isIf && render(ifs.Cond) == "!match" && ifs.Else == nil {
					if blockIsReturn(ifs.Body, "false") {
						steps = append(steps, cmpStep{kindOf("cmp"), name, normOperand(render(args[0])), normOperand(render(args[1]))})
						i++
						continue
					}
					if len(ifs.Body.List) == 2 && isReturnBool(ifs.Body.List[1], "false") {
						if esc, isEsc := ifs.Body.List[0].(*ast.IfStmt); isEsc && blockIsReturn(esc.Body, "true") && esc.Else == nil {
							if en, eargs, isECall := censorCallName(esc.Cond); isECall && len(eargs) == 1 {
								steps = append(steps, cmpStep{kindOf("cmpEsc:" + en + ":" + normOperand(render(eargs[0]))), name, normOperand(render(args[0])), normOperand(render(args[1]))})
								i++
								continue
							}
						}
					}
				}
			}
			return nil, "", false
		case *ast.IfStmt:
			if s.Init != nil || s.Else != nil {
				return nil, "", false
			}
			cond := s.Cond
			if render(cond) == "query == nil && pattern == nil" && blockIsReturn(s.Body, "true") {
				steps = append(steps, cmpStep{kindOf("nilboth"), "", "q", "p"})
				continue
			}
			if render(cond) == "query == nil || pattern == nil" && blockIsReturn(s.Body, "false") {
				steps = append(steps, cmpStep{kindOf("nileither"), "", "q", "p"})
				continue
			}
			// if reflect.DeepEqual(pattern, X) { return true }
			if name, args, isCall := censorCallName(cond); isCall && name == "reflect.DeepEqual" && len(args) == 2 && blockIsReturn(s.Body, "true") {
				steps = append(steps, cmpStep{kindOf("shortcut"), name, normOperand(render(args[0])), normOperand(render(args[1]))})
				continue
			}
			if !blockIsReturn(s.Body, "false") {
				return nil, "", false
			}
			if u, isU := cond.(*ast.UnaryExpr); isU && u.Op == token.NOT {
				if name, args, isCall := censorCallName(u.X); isCall && len(args) == 2 {
					steps = append(steps, cmpStep{kindOf("cmp"), name, normOperand(render(args[0])), normOperand(render(args[1]))})
					continue
				}
				return nil, "", false
			}
			if name, args, isCall := censorCallName(cond); isCall && len(args) == 2 {
				// `if areEqualX(a, b) { return false }` – the comparison is inverted
				steps = append(steps, cmpStep{kindOf("cmpNeg"), name, normOperand(render(args[0])), normOperand(render(args[1]))})
				continue
			}
			if be, isB := cond.(*ast.BinaryExpr); isB && be.Op == token.NEQ {
				ln, la, lok := censorCallName(be.X)
				rn, ra, rok := censorCallName(be.Y)
				if lok && rok && ln == "len" && rn == "len" && len(la) == 1 && len(ra) == 1 {
					steps = append(steps, cmpStep{kindOf("len"), "len", normOperand(render(la[0])), normOperand(render(ra[0]))})
					continue
				}
				if !lok && !rok {
					steps = append(steps, cmpStep{kindOf("ne"), "!=", normOperand(render(be.X)), normOperand(render(be.Y))})
					continue
				}
			}
			return nil, "", false
		case *ast.RangeStmt:
			if loop != "" || s.Key == nil || render(s.Key) != "index" || s.Value != nil {
				return nil, "", false
			}
			inner, fin, iok := stepsOf(s.Body.List, normOperand(render(s.X)))
			if !iok || fin != "" {
				return nil, "", false
			}
			steps = append(steps, cmpStep{"range", "range", "", normOperand(render(s.X))})
			steps = append(steps, inner...)
		case *ast.ReturnStmt:
			if i != len(list)-1 || len(s.Results) != 1 {
				return nil, "", false
			}
			if id, isID := s.Results[0].(*ast.Ident); isID && (id.Name == "true" || id.Name == "false") {
				return steps, id.Name, true
			}
			if name, args, isCall := censorCallName(s.Results[0]); isCall && len(args) == 2 {
				steps = append(steps, cmpStep{kindOf("cmp"), name, normOperand(render(args[0])), normOperand(render(args[1]))})
				return steps, "true", true
			}
			if be, isB := s.Results[0].(*ast.BinaryExpr); isB && be.Op == token.EQL {
				steps = append(steps, cmpStep{kindOf("ne"), "!=", normOperand(render(be.X)), normOperand(render(be.Y))})
				return steps, "true", true
			}
			return nil, "", false
		default:
			return nil, "", false
		}
	}
	return steps, "", true
}

// orderedCalls lists, in source order, the calls inside n whose final selector is in names.
func orderedCalls(n ast.Node, names map[string]bool) []string {
	var out []string
	ast.Inspect(n, func(x ast.Node) bool {
		c, ok := x.(*ast.CallExpr)
		if !ok {
			return true
		}
		name := ""
		switch f := c.Fun.(type) {
		case *ast.Ident:
			name = f.Name
		case *ast.SelectorExpr:
			name = f.Sel.Name
		}
		if names[name] {
			out = append(out, name)
		}
		return true
	})
	// ast.Inspect visits a call before its arguments; sort by position to be safe
	return out
}

func lastIsBranch(b *ast.BlockStmt, tok token.Token) bool {
	if b == nil || len(b.List) == 0 {
		return false
	}
	br, ok := b.List[len(b.List)-1].(*ast.BranchStmt)
	return ok && br.Tok == tok
}

func findCaseClause(body *ast.BlockStmt, label string) *ast.CaseClause {
	var found *ast.CaseClause
	ast.Inspect(body, func(x ast.Node) bool {
		cc, ok := x.(*ast.CaseClause)
		if !ok || found != nil {
			return found == nil
		}
		for _, e := range cc.List {
			if render(e) == label {
				found = cc
				return false
			}
		}
		return true
	})
	return found
}

func genCensorTable() {
	lf := newLean("CensorTable", "Sources: sqlparser/ast.go, acra-censor/common/{matching_logic,common}.go, acra-censor/acra-censor_implementation.go, acra-censor/handlers/{allow,deny}_handler.go, decryptor/postgresql/pg_decryptor.go, decryptor/mysql/response_proxy.go.")

	// ---- struct fields of the parse tree ----
	const astRel = "sqlparser/ast.go"
	if f := parseFile(astRel); f != nil {
		var rows []string
		for _, d := range f.Decls {
			gd, ok := d.(*ast.GenDecl)
			if !ok || gd.Tok != token.TYPE {
				continue
			}
			for _, sp := range gd.Specs {
				ts := sp.(*ast.TypeSpec)
				st, ok := ts.Type.(*ast.StructType)
				if !ok {
					continue
				}
				var names []string
				for _, fld := range st.Fields.List {
					if len(fld.Names) == 0 {
						names = append(names, strings.TrimPrefix(render(fld.Type), "*")) // embedded
					}
					for _, n := range fld.Names {
						if n.Name != "_" {
							names = append(names, n.Name)
						}
					}
				}
				rows = append(rows, fmt.Sprintf("(%q, %s)", ts.Name.Name, strList(names)))
			}
		}
		if len(rows) < 40 {
			fail("%s: expected the parse-tree struct types, found %d", astRel, len(rows))
		}
		sort.Strings(rows)
		lf.def("structFields", "List (String × List String)", "[\n  "+strings.Join(rows, ",\n  ")+"]", astRel+": struct types with their fields in declaration order (blank fields omitted)")
	}

	// ---- static Go types of the parse tree (the typing judgement of Censor/Typing.lean) ----
	genCensorTypes(lf)

	// ---- comparators ----
	const mlRel = "acra-censor/common/matching_logic.go"
	if f := parseFile(mlRel); f != nil {
		var rows, irregular []string
		for _, d := range f.Decls {
			fd, ok := d.(*ast.FuncDecl)
			if !ok || fd.Recv != nil {
				continue
			}
			name := fd.Name.Name
			if !(strings.HasPrefix(name, "handle") || strings.HasPrefix(name, "areEqual")) {
				continue
			}
			steps, fin, ok := stepsOf(fd.Body.List, "")
			if !ok || fin == "" {
				irregular = append(irregular, name)
				continue
			}
			var ss []string
			for _, s := range steps {
				ss = append(ss, s.lean())
			}
			rows = append(rows, fmt.Sprintf("(%q, %s, [%s])", name, fin, strings.Join(ss, ", ")))
		}
		if len(rows) < 30 {
			fail("%s: expected the field-by-field comparators, recognised only %d", mlRel, len(rows))
		}
		lf.def("comparators", "List (String × Bool × List (String × String × String × String))", "[\n  "+strings.Join(rows, ",\n  ")+"]",
			mlRel+": (function, value of the final return, steps (kind, callee, query operand, pattern operand)); kinds: cast, shortcut, cmp (`if !f(q,p) {return false}`), cmpNeg (`if f(q,p) {return false}`), cmpEsc:<escape>:<arg>, len, ne, range, each:<kind> (inside the preceding range)")
		lf.def("irregular", "List String", strList(irregular), mlRel+": handle*/areEqual* functions whose body is not a plain field-by-field comparison (type switches, placeholder logic)")

		// plain type switches of the irregular functions
		var tsRows []string
		for _, d := range f.Decls {
			fd, ok := d.(*ast.FuncDecl)
			if !ok || fd.Recv != nil || !strings.HasPrefix(fd.Name.Name, "areEqual") {
				continue
			}
			var sw *ast.TypeSwitchStmt
			for _, st := range fd.Body.List {
				if t, ok := st.(*ast.TypeSwitchStmt); ok && render(t.Assign) == "pattern.(type)" {
					sw = t
				}
			}
			if sw == nil {
				continue
			}
			var cases []string
			for _, c := range sw.Body.List {
				cc := c.(*ast.CaseClause)
				if cc.List == nil {
					continue
				}
				typ := strings.TrimPrefix(strings.TrimPrefix(render(cc.List[0]), "*"), "sqlparser.")
				steps, fin, ok := stepsOf(cc.Body, "")
				if ok && fin == "" && len(steps) == 2 && steps[0].kind == "cast" && steps[0].callee == typ && steps[0].q == "q" && steps[1].kind == "cmp" {
					cases = append(cases, fmt.Sprintf("(%q, %q, %q, %q)", typ, steps[1].callee, steps[1].q, steps[1].p))
				} else {
					cases = append(cases, fmt.Sprintf("(%q, %q, %q, %q)", typ, "special", "", ""))
				}
			}
			tsRows = append(tsRows, fmt.Sprintf("(%q, [%s])", fd.Name.Name, strings.Join(cases, ", ")))
		}
		lf.def("typeSwitches", "List (String × List (String × String × String × String))", "[\n  "+strings.Join(tsRows, ",\n  ")+"]",
			mlRel+": functions that switch on the pattern's type: per case (type, callee, query operand, pattern operand) when the case is `q, ok := query.(T); if !ok {return false}; if !callee(q…, pattern.(T)…) {return false}`, callee = special otherwise")

		// dispatch of checkSinglePatternMatch
		if fd := funcDecl(mlRel, "", "checkSinglePatternMatch"); fd != nil {
			var disp []string
			ast.Inspect(fd.Body, func(x ast.Node) bool {
				cc, ok := x.(*ast.CaseClause)
				if !ok || len(cc.List) != 1 || len(cc.Body) != 1 {
					return true
				}
				r, ok := cc.Body[0].(*ast.ReturnStmt)
				if !ok || len(r.Results) != 1 {
					return true
				}
				if n, _, isCall := censorCallName(r.Results[0]); isCall {
					disp = append(disp, fmt.Sprintf("(%q, %q)", strings.TrimPrefix(strings.TrimPrefix(render(cc.List[0]), "*"), "sqlparser."), n))
				}
				return true
			})
			if len(disp) < 6 {
				fail("%s: checkSinglePatternMatch: type switch not recognised", mlRel)
			}
			lf.def("patternDispatch", "List (String × String)", "["+strings.Join(disp, ", ")+"]", mlRel+": checkSinglePatternMatch: pattern type → handler")
			last := fd.Body.List[len(fd.Body.List)-1]
			lf.def("patternDispatchDefault", "Bool", boolStr(isReturnBool(last, "true")), "checkSinglePatternMatch: value returned for a pattern of any other type")
		}
	}

	// ---- placeholder constants ----
	const cmRel = "acra-censor/common/common.go"
	if parseFile(cmRel) != nil {
		env := newConstEnv(cmRel)
		var rows []string
		for _, n := range []string{"ValueReplacer", "ListOfValuesReplacer", "ColumnReplacer", "SubqueryReplacer", "WhereReplacer", "SelectReplacer", "UnionReplacer", "InsertReplacer", "UpdateReplacer", "DeleteReplacer"} {
			v, ok := env.vals[n]
			if !ok || v.Kind() != constant.String {
				fail("%s: constant %s not found", cmRel, n)
				continue
			}
			rows = append(rows, fmt.Sprintf("(%q, %q)", n, constant.StringVal(v)))
		}
		lf.def("replacers", "List (String × String)", "["+strings.Join(rows, ", ")+"]", cmRel+": the texts the placeholders are replaced with before a pattern is parsed")
	}

	// ---- HandleQuery ----
	const implRel = "acra-censor/acra-censor_implementation.go"
	if fd := funcDecl(implRel, "AcraCensor", "HandleQuery"); fd != nil {
		inactive := false
		parseErr := ""
		var loop []string
		fall := ""
		for _, st := range fd.Body.List {
			switch s := st.(type) {
			case *ast.IfStmt:
				c := render(s.Cond)
				if c == "len(acraCensor.handlers) == 0 && acraCensor.unparsedQueriesWriter == nil" && len(s.Body.List) == 1 && render(s.Body.List[0]) == "return nil" {
					inactive = true
				} else if c == "err == sqlparser.ErrQuerySyntaxError" {
					for _, in := range s.Body.List {
						if ii, ok := in.(*ast.IfStmt); ok && render(ii.Cond) == "acraCensor.ignoreParseError" {
							thenRet := false
							for _, t := range ii.Body.List {
								if _, isRet := t.(*ast.ReturnStmt); isRet {
									thenRet = true
								}
							}
							elseRet := ""
							if eb, ok := ii.Else.(*ast.BlockStmt); ok && len(eb.List) > 0 {
								if r, isRet := eb.List[len(eb.List)-1].(*ast.ReturnStmt); isRet {
									elseRet = render(r)
								}
							}
							parseErr = fmt.Sprintf("ignore:%s;else:%s", map[bool]string{true: "return", false: "continue"}[thenRet], elseRet)
						}
					}
				} else {
					fail("%s: HandleQuery: unexpected top-level if `%s`", implRel, c)
				}
			case *ast.RangeStmt:
				if render(s.X) != "acraCensor.handlers" {
					fail("%s: HandleQuery: loop over %s", implRel, render(s.X))
				}
				for _, in := range s.Body.List {
					switch b := in.(type) {
					case *ast.IfStmt:
						// if h, ok := handler.(*handlers.T); ok { … }
						if as, ok := b.Init.(*ast.AssignStmt); ok && len(as.Rhs) == 1 {
							if ta, ok := as.Rhs[0].(*ast.TypeAssertExpr); ok {
								typ := strings.TrimPrefix(render(ta.Type), "*handlers.")
								call := ""
								outcome := ""
								for _, t := range b.Body.List {
									switch u := t.(type) {
									case *ast.ExprStmt:
										if n, args, isCall := censorCallName(u.X); isCall && strings.HasSuffix(n, ".CheckQuery") {
											call = argList(args)
										}
									case *ast.AssignStmt:
										if n, args, isCall := censorCallName(u.Rhs[0]); isCall && strings.HasSuffix(n, ".CheckQuery") {
											call = argList(args)
										}
									case *ast.IfStmt:
										if render(u.Cond) == "!continueHandling" && len(u.Body.List) > 0 && render(u.Body.List[len(u.Body.List)-1]) == "return nil" {
											outcome += "stop:return nil;"
										}
									case *ast.BranchStmt:
										outcome += u.Tok.String()
									}
								}
								loop = append(loop, fmt.Sprintf("(%q, %q, %q)", typ, call, outcome))
								continue
							}
						}
						c := render(b.Cond)
						last := ""
						if len(b.Body.List) > 0 {
							last = render(b.Body.List[len(b.Body.List)-1])
						}
						if c == "err != nil" {
							loop = append(loop, fmt.Sprintf("(%q, %q, %q)", "default", "err != nil", last))
						} else if c == "!continueHandling" {
							loop = append(loop, fmt.Sprintf("(%q, %q, %q)", "default", "!continueHandling", last))
						} else {
							fail("%s: HandleQuery loop: unexpected if `%s`", implRel, c)
						}
					case *ast.AssignStmt:
						if n, args, isCall := censorCallName(b.Rhs[0]); isCall && n == "handler.CheckQuery" {
							loop = append(loop, fmt.Sprintf("(%q, %q, %q)", "default", argList(args), "call"))
						} else {
							fail("%s: HandleQuery loop: unexpected assignment", implRel)
						}
					}
				}
			case *ast.ReturnStmt:
				fall = render(s)
			}
		}
		// dispatch structure: ONE loop over acraCensor.handlers, in configuration order, and nothing outside that loop
		// looks at the kind of a handler (no pre-pass over a handler kind, no reordering)
		handlerLoops := 0
		var kindTestsOutside []string
		loopOrder := []string{}
		ast.Inspect(fd.Body, func(n ast.Node) bool {
			switch x := n.(type) {
			case *ast.RangeStmt:
				if render(x.X) == "acraCensor.handlers" {
					handlerLoops++
					// `for _, handler := range acraCensor.handlers`: ascending index order, every element
					k, v := "_", "_"
					if x.Key != nil {
						k = render(x.Key)
					}
					if x.Value != nil {
						v = render(x.Value)
					}
					loopOrder = append(loopOrder, "range:"+k+","+v)
				}
			case *ast.ForStmt:
				if strings.Contains(render(x), "acraCensor.handlers") {
					handlerLoops++
					loopOrder = append(loopOrder, "for:"+render(x.Init)+";"+render(x.Cond)+";"+render(x.Post))
				}
			}
			return true
		})
		var scanOutside func(n ast.Node)
		scanOutside = func(n ast.Node) {
			ast.Inspect(n, func(m ast.Node) bool {
				switch x := m.(type) {
				case *ast.RangeStmt:
					if render(x.X) == "acraCensor.handlers" {
						return false // inside the handler loop: described by hqLoop
					}
				case *ast.TypeAssertExpr:
					if x.Type != nil {
						kindTestsOutside = append(kindTestsOutside, render(x.Type))
					} else {
						kindTestsOutside = append(kindTestsOutside, "type-switch")
					}
				case *ast.CallExpr:
					if strings.Contains(render(x.Fun), "sort.") || strings.Contains(render(x.Fun), "reflect.") {
						kindTestsOutside = append(kindTestsOutside, "call:"+render(x.Fun))
					}
				}
				return true
			})
		}
		scanOutside(fd.Body)
		// a second loop over the handlers (the pre-pass) is not "inside the handler loop": report the kind tests of every loop but the last
		seen := 0
		ast.Inspect(fd.Body, func(n ast.Node) bool {
			if x, ok := n.(*ast.RangeStmt); ok && render(x.X) == "acraCensor.handlers" {
				seen++
				if seen < handlerLoops {
					ast.Inspect(x.Body, func(m ast.Node) bool {
						if ta, ok := m.(*ast.TypeAssertExpr); ok && ta.Type != nil {
							kindTestsOutside = append(kindTestsOutside, "pre-pass:"+render(ta.Type))
						}
						return true
					})
				}
				return false
			}
			return true
		})
		lf.def("hqHandlerLoops", "Nat", fmt.Sprint(handlerLoops), implRel+": HandleQuery: number of loops over acraCensor.handlers")
		lf.def("hqLoopOrder", "List String", strList(loopOrder), implRel+": HandleQuery: form of every loop over acraCensor.handlers (`range:<key>,<value>` walks the slice front to back)")
		lf.def("hqKindTestsOutsideLoop", "List String", strList(kindTestsOutside), implRel+": HandleQuery: type assertions / type switches on a handler (and sort/reflect calls) outside the one handler loop, and inside every handler loop but the last (a pre-pass over a handler kind)")
		lf.def("hqInactiveGuard", "Bool", boolStr(inactive), implRel+": HandleQuery starts with `if len(handlers) == 0 && unparsedQueriesWriter == nil { return nil }`")
		lf.def("hqParseError", "String", fmt.Sprintf("%q", parseErr), implRel+": HandleQuery, branch `err == ErrQuerySyntaxError`: what happens with and without ignoreParseError")
		lf.def("hqLoop", "List (String × String × String)", "["+strings.Join(loop, ", ")+"]", implRel+": HandleQuery, body of the handler loop in source order: (handler type or default, CheckQuery arguments / condition, outcome)")
		lf.def("hqFallThrough", "String", fmt.Sprintf("%q", fall), implRel+": HandleQuery after the loop")
	}

	// ---- Allow/Deny CheckQuery ----
	for _, h := range []struct{ rel, recv, def string }{
		{"acra-censor/handlers/allow_handler.go", "AllowHandler", "allowCheck"},
		{"acra-censor/handlers/deny_handler.go", "DenyHandler", "denyCheck"},
	} {
		fd := funcDecl(h.rel, h.recv, "CheckQuery")
		if fd == nil {
			continue
		}
		var rows []string
		for _, st := range fd.Body.List {
			switch s := st.(type) {
			case *ast.IfStmt:
				c := render(s.Cond)
				if c == "parsedQuery == nil" {
					rows = append(rows, fmt.Sprintf("(%q, %q, %q)", "nil-parsed", "", render(s.Body.List[len(s.Body.List)-1])))
					continue
				}
				// if len(handler.X) != 0 { v := common.F(args); if v { …; return R } }
				if !strings.HasPrefix(c, "len(handler.") || len(s.Body.List) != 2 {
					fail("%s: CheckQuery: unexpected if `%s`", h.rel, c)
					continue
				}
				as, ok1 := s.Body.List[0].(*ast.AssignStmt)
				inner, ok2 := s.Body.List[1].(*ast.IfStmt)
				if !ok1 || !ok2 {
					fail("%s: CheckQuery: unexpected body of `%s`", h.rel, c)
					continue
				}
				n, args, _ := censorCallName(as.Rhs[0])
				// which result component is tested
				comp := -1
				for i, l := range as.Lhs {
					if render(l) == render(inner.Cond) {
						comp = i
					}
				}
				ret := render(inner.Body.List[len(inner.Body.List)-1])
				rows = append(rows, fmt.Sprintf("(%q, %q, %q)", c, fmt.Sprintf("%s(%s)#%d", n, argList(args), comp), ret))
			case *ast.ReturnStmt:
				rows = append(rows, fmt.Sprintf("(%q, %q, %q)", "end", "", render(s)))
			}
		}
		lf.def(h.def, "List (String × String × String)", "["+strings.Join(rows, ", ")+"]", h.rel+": CheckQuery in source order: (guard, check#result component tested, what a hit returns)")
	}

	// ---- PostgreSQL proxy ----
	const pgRel = "decryptor/postgresql/pg_decryptor.go"
	if fd := funcDecl(pgRel, "PgProxy", "handleClientPacket"); fd != nil {
		cc := findCaseClause(fd.Body, "SimpleQueryPacket")
		if cc == nil {
			fail("%s: handleClientPacket: case SimpleQueryPacket not found", pgRel)
		} else {
			calls := orderedCalls(&ast.BlockStmt{List: cc.Body}, map[string]bool{"GetSimpleQuery": true, "Add": true, "handleQueryPacket": true})
			lf.def("pgSimpleQueryCalls", "List String", strList(calls), pgRel+": handleClientPacket, case SimpleQueryPacket: order of GetSimpleQuery / pendingQueryPackets.Add / handleQueryPacket (the censor)")
			// is the Add reachable only when not censored: an `if err != nil || censored { return … }` between the two
			guarded := false
			seenCensor := false
			for _, st := range cc.Body {
				if len(orderedCalls(st, map[string]bool{"handleQueryPacket": true})) > 0 {
					seenCensor = true
				}
				if ifs, ok := st.(*ast.IfStmt); ok && seenCensor && strings.Contains(render(ifs.Cond), "censored") && len(ifs.Body.List) > 0 {
					if _, isRet := ifs.Body.List[len(ifs.Body.List)-1].(*ast.ReturnStmt); isRet {
						guarded = true
					}
				}
			}
			lf.def("pgAddGuardedByCensor", "Bool", boolStr(guarded), pgRel+": between handleQueryPacket and Add there is `if … censored … { return … }`")
		}
	}
	if fd := funcDecl(pgRel, "PgProxy", "handleQueryPacket"); fd != nil {
		found := ""
		ast.Inspect(fd.Body, func(x ast.Node) bool {
			ifs, ok := x.(*ast.IfStmt)
			if !ok || ifs.Init == nil || !strings.Contains(render(ifs.Init), "proxy.censor.HandleQuery(query)") {
				return true
			}
			found = render(ifs.Cond) + " => " + render(ifs.Body.List[len(ifs.Body.List)-1])
			return false
		})
		lf.def("pgCensorCall", "String", fmt.Sprintf("%q", found), pgRel+": handleQueryPacket: `if censorErr := proxy.censor.HandleQuery(query); <cond> { …; <last statement> }`")
	}
	if fd := funcDecl(pgRel, "PgProxy", "ProxyClientConnection"); fd != nil {
		var loop *ast.ForStmt
		for _, st := range fd.Body.List {
			if f, ok := st.(*ast.ForStmt); ok {
				loop = f
			}
		}
		if loop == nil {
			fail("%s: ProxyClientConnection: loop not found", pgRel)
		} else {
			calls := orderedCalls(loop.Body, map[string]bool{"ReadClientPacket": true, "handleClientPacket": true, "sendClientError": true, "sendPacket": true})
			lf.def("pgLoopCalls", "List String", strList(calls), pgRel+": ProxyClientConnection loop: order of ReadClientPacket / handleClientPacket / sendClientError / sendPacket")
			branch := ""
			for _, st := range loop.Body.List {
				if ifs, ok := st.(*ast.IfStmt); ok && render(ifs.Cond) == "censored" {
					branch = strings.Join(orderedCalls(ifs.Body, map[string]bool{"sendClientError": true, "sendPacket": true}), ",")
					if lastIsBranch(ifs.Body, token.CONTINUE) {
						branch += ";continue"
					}
				}
			}
			lf.def("pgCensoredBranch", "String", fmt.Sprintf("%q", branch), pgRel+": ProxyClientConnection: calls inside `if censored { … }` and whether it ends with continue")
		}
	}
	if fd := funcDecl(pgRel, "PgProxy", "sendClientError"); fd != nil {
		var writes []string
		ast.Inspect(fd.Body, func(x ast.Node) bool {
			if c, ok := x.(*ast.CallExpr); ok && render(c.Fun) == "proxy.clientConnection.Write" {
				writes = append(writes, render(c.Args[0]))
			}
			return true
		})
		lf.def("pgClientErrorWrites", "List String", strList(writes), pgRel+": sendClientError: what is written to the client connection, in order")
	}

	// ---- MySQL proxy ----
	const myRel = "decryptor/mysql/response_proxy.go"
	if fd := funcDecl(myRel, "Handler", "ProxyClientConnection"); fd != nil {
		cc := findCaseClause(fd.Body, "CommandQuery")
		if cc == nil {
			fail("%s: ProxyClientConnection: case CommandQuery not found", myRel)
		} else {
			calls := orderedCalls(&ast.BlockStmt{List: cc.Body}, map[string]bool{"HandleQuery": true, "sendClientError": true, "OnQuery": true, "setQueryHandler": true, "SetPendingParse": true, "Write": true})
			lf.def("mysqlQueryCalls", "List String", strList(calls), myRel+": ProxyClientConnection, case CommandQuery/CommandStatementPrepare: order of HandleQuery / sendClientError / OnQuery / SetPendingParse / setQueryHandler / Write")
			branch := ""
			for _, st := range cc.Body {
				if ifs, ok := st.(*ast.IfStmt); ok && ifs.Init != nil && strings.Contains(render(ifs.Init), "acracensor.HandleQuery(query)") {
					branch = render(ifs.Cond) + ":" + strings.Join(orderedCalls(ifs.Body, map[string]bool{"sendClientError": true, "Write": true, "setQueryHandler": true}), ",")
					if lastIsBranch(ifs.Body, token.CONTINUE) {
						branch += ";continue"
					}
				}
			}
			lf.def("mysqlDeniedBranch", "String", fmt.Sprintf("%q", branch), myRel+": the `if err := handler.acracensor.HandleQuery(query); …` branch: condition, calls, continue")
		}
	}
}

func argList(args []ast.Expr) string {
	var s []string
	for _, a := range args {
		s = append(s, render(a))
	}
	return strings.Join(s, ",")
}

// ---- type facts ----------------------------------------------------------------------------------
//
// A type descriptor is (mode, name, elem):
//   leaf   ""  ""      string, bool, integers (also named integer types), []byte – one leaf of the reflection dump
//   struct K   ""      struct K by value            ptr K ""   *K (nil allowed by Go)
//   iface  I   ""      interface I (I = "" for interface{})
//   named  N   ""      named slice / named string / named bool / named []byte (the dump wraps these in a node N)
//   list   E   m       anonymous slice whose elements have descriptor (m, E, "")
//   opaque T   ""      anything else (types of other packages, maps, funcs)

type tdesc struct{ mode, name, elem string }

func (d tdesc) lean() string { return fmt.Sprintf("(%q, %q, %q)", d.mode, d.name, d.elem) }

type astTypes struct {
	structs map[string]*ast.StructType
	ifaces  map[string]bool
	named   map[string]ast.Expr // non-struct, non-interface named types → underlying expression
}

func collectAstTypes(f *ast.File) *astTypes {
	t := &astTypes{structs: map[string]*ast.StructType{}, ifaces: map[string]bool{}, named: map[string]ast.Expr{}}
	for _, d := range f.Decls {
		gd, ok := d.(*ast.GenDecl)
		if !ok || gd.Tok != token.TYPE {
			continue
		}
		for _, sp := range gd.Specs {
			ts := sp.(*ast.TypeSpec)
			switch u := ts.Type.(type) {
			case *ast.StructType:
				t.structs[ts.Name.Name] = u
			case *ast.InterfaceType:
				t.ifaces[ts.Name.Name] = true
			default:
				t.named[ts.Name.Name] = ts.Type
			}
		}
	}
	return t
}

var intKinds = map[string]bool{"int": true, "int8": true, "int16": true, "int32": true, "int64": true, "uint": true, "uint8": true, "uint16": true, "uint32": true, "uint64": true, "byte": true}

// underlying resolves a named non-struct type to its underlying type expression (following chains such as ValTuple → Exprs → []Expr).
func (t *astTypes) underlying(name string) ast.Expr {
	for i := 0; i < 8; i++ {
		u, ok := t.named[name]
		if !ok {
			return nil
		}
		id, isID := u.(*ast.Ident)
		if !isID {
			return u
		}
		if _, again := t.named[id.Name]; !again {
			return u
		}
		name = id.Name
	}
	return nil
}

func isByteSlice(e ast.Expr) bool {
	a, ok := e.(*ast.ArrayType)
	if !ok || a.Len != nil {
		return false
	}
	id, ok := a.Elt.(*ast.Ident)
	return ok && (id.Name == "byte" || id.Name == "uint8")
}

func (t *astTypes) desc(e ast.Expr) tdesc {
	switch x := e.(type) {
	case *ast.Ident:
		switch {
		case x.Name == "string" || x.Name == "bool" || intKinds[x.Name]:
			return tdesc{"leaf", "", ""}
		case t.structs[x.Name] != nil:
			return tdesc{"struct", x.Name, ""}
		case t.ifaces[x.Name]:
			return tdesc{"iface", x.Name, ""}
		}
		if u := t.underlying(x.Name); u != nil {
			if id, ok := u.(*ast.Ident); ok && intKinds[id.Name] {
				return tdesc{"leaf", "", ""} // the dump prints named integers as a bare leaf
			}
			return tdesc{"named", x.Name, ""}
		}
		return tdesc{"opaque", x.Name, ""}
	case *ast.StarExpr:
		if id, ok := x.X.(*ast.Ident); ok && t.structs[id.Name] != nil {
			return tdesc{"ptr", id.Name, ""}
		}
		return tdesc{"opaque", render(e), ""}
	case *ast.InterfaceType:
		if x.Methods == nil || len(x.Methods.List) == 0 {
			return tdesc{"iface", "", ""}
		}
		return tdesc{"opaque", render(e), ""}
	case *ast.ArrayType:
		if x.Len != nil {
			return tdesc{"opaque", render(e), ""}
		}
		if isByteSlice(e) {
			return tdesc{"leaf", "", ""}
		}
		el := t.desc(x.Elt)
		if el.mode == "list" || el.mode == "opaque" {
			return tdesc{"opaque", render(e), ""}
		}
		return tdesc{"list", el.name, el.mode}
	}
	return tdesc{"opaque", render(e), ""}
}

func genCensorTypes(lf *leanFile) {
	const astRel = "sqlparser/ast.go"
	f := parseFile(astRel)
	if f == nil {
		return
	}
	t := collectAstTypes(f)

	// field types, same order as structFields
	var names []string
	for n := range t.structs {
		names = append(names, n)
	}
	sort.Strings(names)
	var rows []string
	for _, n := range names {
		var fs []string
		for _, fld := range t.structs[n].Fields.List {
			d := t.desc(fld.Type)
			if len(fld.Names) == 0 {
				fs = append(fs, fmt.Sprintf("(%q, %s)", strings.TrimPrefix(render(fld.Type), "*"), d.lean()))
			}
			for _, nm := range fld.Names {
				if nm.Name != "_" {
					fs = append(fs, fmt.Sprintf("(%q, %s)", nm.Name, d.lean()))
				}
			}
		}
		rows = append(rows, fmt.Sprintf("(%q, [%s])", n, strings.Join(fs, ", ")))
	}
	lf.def("fieldTypes", "List (String × List (String × String × String × String))", "[\n  "+strings.Join(rows, ",\n  ")+"]",
		astRel+": struct types with (field, mode, type name, element mode) in declaration order; modes: leaf (string/bool/integer/[]byte), struct K, ptr K, iface I, named N (named slice or named scalar), list E m (anonymous slice of (m, E)), opaque")

	// named non-struct types
	var nn []string
	for n := range t.named {
		nn = append(nn, n)
	}
	sort.Strings(nn)
	var nrows []string
	for _, n := range nn {
		u := t.underlying(n)
		if u == nil {
			continue
		}
		if id, ok := u.(*ast.Ident); ok {
			if id.Name == "string" || id.Name == "bool" {
				nrows = append(nrows, fmt.Sprintf("(%q, \"scalar\", \"\", \"\")", n))
			}
			continue // named integers are bare leaves
		}
		if isByteSlice(u) {
			nrows = append(nrows, fmt.Sprintf("(%q, \"scalar\", \"\", \"\")", n))
			continue
		}
		if a, ok := u.(*ast.ArrayType); ok && a.Len == nil {
			el := t.desc(a.Elt)
			if el.mode == "list" || el.mode == "opaque" {
				fail("%s: element type of %s not understood", astRel, n)
				continue
			}
			nrows = append(nrows, fmt.Sprintf("(%q, \"list\", %q, %q)", n, el.name, el.mode))
		}
	}
	lf.def("namedTypes", "List (String × String × String × String)", "[\n  "+strings.Join(nrows, ",\n  ")+"]",
		astRel+": named slice types (N, list, element type name, element mode) and named string/bool/[]byte types (N, scalar) – the reflection dump wraps both in a node N")

	// interfaces: implementers by marker method `func (T) i<Iface>() {}`
	impl := map[string][]string{}
	for _, d := range f.Decls {
		fd, ok := d.(*ast.FuncDecl)
		if !ok || fd.Recv == nil || len(fd.Recv.List) != 1 || !strings.HasPrefix(fd.Name.Name, "i") {
			continue
		}
		in := strings.TrimPrefix(fd.Name.Name, "i")
		if !t.ifaces[in] || fd.Type.Params.NumFields() != 0 || len(fd.Body.List) != 0 {
			continue
		}
		impl[in] = append(impl[in], recvName(fd.Recv.List[0].Type))
	}
	var inames []string
	for n := range impl {
		inames = append(inames, n)
	}
	sort.Strings(inames)
	var irows []string
	for _, n := range inames {
		irows = append(irows, fmt.Sprintf("(%q, %s)", n, strList(impl[n])))
	}
	if len(impl["Expr"]) < 20 || len(impl["Statement"]) < 10 {
		fail("%s: marker methods of Expr/Statement not found", astRel)
	}
	lf.def("interfaces", "List (String × List String)", "[\n  "+strings.Join(irows, ",\n  ")+"]",
		astRel+": interface → types that implement it (marker methods `func (T) i<Interface>() {}`), in source order")

	// parameter type of every handle*/areEqual* function (type of `pattern`)
	const mlRel = "acra-censor/common/matching_logic.go"
	if mf := parseFile(mlRel); mf != nil {
		// matching_logic.go qualifies the types with `sqlparser.`
		strip := func(e ast.Expr) ast.Expr {
			switch x := e.(type) {
			case *ast.SelectorExpr:
				return x.Sel
			case *ast.StarExpr:
				if s, ok := x.X.(*ast.SelectorExpr); ok {
					return &ast.StarExpr{X: s.Sel}
				}
			}
			return e
		}
		var prow []string
		for _, d := range mf.Decls {
			fd, ok := d.(*ast.FuncDecl)
			if !ok || fd.Recv != nil || !(strings.HasPrefix(fd.Name.Name, "handle") || strings.HasPrefix(fd.Name.Name, "areEqual")) {
				continue
			}
			var ptypes []ast.Expr
			for _, p := range fd.Type.Params.List {
				n := len(p.Names)
				if n == 0 {
					n = 1
				}
				for i := 0; i < n; i++ {
					ptypes = append(ptypes, p.Type)
				}
			}
			if len(ptypes) != 2 || render(ptypes[0]) != render(ptypes[1]) {
				fail("%s: %s: expected (query, pattern T)", mlRel, fd.Name.Name)
				continue
			}
			d := t.desc(strip(ptypes[1]))
			prow = append(prow, fmt.Sprintf("(%q, %s)", fd.Name.Name, d.lean()))
		}
		lf.def("comparatorParams", "List (String × String × String × String)", "[\n  "+strings.Join(prow, ",\n  ")+"]",
			mlRel+": static Go type (mode, name, element mode) of the two parameters of every handle*/areEqual* function")
	}
}
