package main

import (
	"bytes"
	"go/ast"
	"go/printer"
	"strings"
)

// srcText prints an expression as it stands in the source (white space removed).
func srcText(e ast.Expr) string {
	var b bytes.Buffer
	if err := printer.Fprint(&b, fset, e); err != nil {
		fail("cannot print expression: %v", err)
	}
	return strings.Join(strings.Fields(b.String()), "")
}

// StmtForms: which parts of an INSERT the two query encryptors look at – the methods they call and the lists
// they iterate in encryptInsertQuery (statement text) and encryptInsertValues (bound parameters). The model's
// `xfInsertStmt` / `xfInsertMy` / `bindPlan` / `bindPlanMy` process the VALUES rows and then the upsert
// assignments (ON CONFLICT … DO UPDATE SET / ON DUPLICATE KEY UPDATE); a source in which one of these walks is
// gone (as the PostgreSQL port was before the fix: commit) no longer matches the facts.
func init() { generators = append(generators, genStmtForms) }

func encryptorWalk(rel, fn string) (calls []string, ranges []string) {
	fd := funcDecl(rel, "QueryDataEncryptor", fn)
	if fd == nil {
		fail("%s: QueryDataEncryptor.%s not found", rel, fn)
		return
	}
	ast.Inspect(fd.Body, func(n ast.Node) bool {
		switch x := n.(type) {
		case *ast.CallExpr:
			if name := callName(x); strings.HasPrefix(name, "encryptor.") && strings.Count(name, ".") == 1 {
				calls = append(calls, strings.TrimPrefix(name, "encryptor."))
			}
		case *ast.RangeStmt:
			ranges = append(ranges, srcText(x.X))
		case *ast.IfStmt:
			// `if targets := insert.GetOnConflictClause().GetTargetList(); len(targets) > 0 { … }`
			if as, ok := x.Init.(*ast.AssignStmt); ok && len(as.Rhs) == 1 {
				ranges = append(ranges, srcText(as.Rhs[0]))
			}
		}
		return true
	})
	if len(calls) == 0 {
		fail("%s: QueryDataEncryptor.%s: no calls found", rel, fn)
	}
	return
}

func genStmtForms() {
	lf := newLean("StmtForms", "Sources: encryptor/postgresql/queryDataEncryptor.go, encryptor/mysql/queryDataEncryptor.go.")
	for _, p := range []struct{ rel, name string }{{"encryptor/postgresql/queryDataEncryptor.go", "pg"}, {"encryptor/mysql/queryDataEncryptor.go", "mysql"}} {
		for _, fn := range []string{"encryptInsertQuery", "encryptInsertValues", "encryptUpdateValues"} {
			calls, ranges := encryptorWalk(p.rel, fn)
			short := strings.TrimPrefix(fn, "encrypt")
			lf.def(p.name+short+"Calls", "List String", strList(calls), p.rel+": "+fn+" – methods of the encryptor called, in source order")
			lf.def(p.name+short+"Walks", "List String", strList(ranges), p.rel+": "+fn+" – expressions iterated (range statements, if-initialisers), in source order")
		}
	}
}
