package main

// Facts for `Searchable.matchEnvelope` / `Searchable.pOnColumn` (lean/AcraModel/Searchable/Processor.lean):
// crypto/matcher.go – EnvelopeMatcher.Match hands the WHOLE data to the envelope detector (which looks at every
// offset) and reports whether its callback was invoked; hmac/dataProcessor.go – the first call of
// Processor.OnColumn asks Match about everything behind the extracted hash and cuts the hash off only then.

func init() { generators = append(generators, genSearchMatcher) }

func genSearchMatcher() {
	lf := newLean("SearchMatcher", "Sources: crypto/matcher.go, hmac/dataProcessor.go.")
	strs := func(name string, xs []string, src string) { lf.def(name, "List String", strList(xs), src) }
	const mt = "crypto/matcher.go"
	const dp = "hmac/dataProcessor.go"
	strs("matcherMatchBody", bodyStmts(funcDecl(mt, "EnvelopeMatcher", "Match")), mt+": EnvelopeMatcher.Match")
	strs("matcherNewBody", bodyStmts(funcDecl(mt, "", "NewEnvelopeMatcher")), mt+": NewEnvelopeMatcher")
	strs("matcherCallbackBody", bodyStmts(funcDecl(mt, "EnvelopeMatcher", "OnCryptoEnvelope")), mt+": EnvelopeMatcher.OnCryptoEnvelope")
	oc := funcDecl(dp, "Processor", "OnColumn")
	strs("processorMatchArgs", callArgsText(oc, "envelopeMatcher.Match", 0), dp+": Processor.OnColumn – what Match is asked about")
	body := bodyStmts(oc)
	// the first-call part: everything after the second-call branch
	var first []string
	for i, s := range body {
		if len(s) >= 5 && s[:5] == "ctx =" {
			first = body[i:]
			break
		}
	}
	if first == nil {
		fail("%s: Processor.OnColumn: the statement marking the column's context (ctx = …) was not found", dp)
	}
	strs("processorFirstCall", first, dp+": Processor.OnColumn – the first call for a column (from the context mark on)")
}
