package main

import (
	"fmt"
	"go/ast"
	"go/token"
	"strconv"
	"strings"
)

// KeystoreSec: facts the C07 / C17 / C18 models rely on – context strings, file suffixes, ASN.1
// constants, the key state transition table, call orders of the read/write cycles, and "what is
// assigned / written where" facts of the encrypt-before-write sites.
func init() { generators = append(generators, genKeystoreSec) }

// stringLits returns the string literals of a function body in source order.
func stringLits(fd *ast.FuncDecl) []string {
	var out []string
	if fd == nil || fd.Body == nil {
		return out
	}
	ast.Inspect(fd.Body, func(n ast.Node) bool {
		if bl, ok := n.(*ast.BasicLit); ok && bl.Kind == token.STRING {
			s, err := strconv.Unquote(bl.Value)
			if err == nil {
				out = append(out, s)
			}
		}
		return true
	})
	return out
}

func calleeName(e ast.Expr) string {
	switch t := e.(type) {
	case *ast.Ident:
		return t.Name
	case *ast.SelectorExpr:
		return calleeName(t.X) + "." + t.Sel.Name
	case *ast.CallExpr:
		return calleeName(t.Fun) + "()"
	case *ast.ParenExpr:
		return calleeName(t.X)
	case *ast.FuncLit:
		return "func"
	}
	return "?"
}

// callSeq returns the called functions of a body in source order; calls made inside a `defer`
// statement (directly or in a deferred closure) are prefixed with "defer:". Only callees whose
// rendered name contains one of `keep` are listed (all when keep is empty).
func callSeq(fd *ast.FuncDecl, keep ...string) []string {
	var out []string
	if fd == nil || fd.Body == nil {
		return out
	}
	var walk func(n ast.Node, deferred bool)
	walk = func(n ast.Node, deferred bool) {
		ast.Inspect(n, func(m ast.Node) bool {
			switch t := m.(type) {
			case *ast.DeferStmt:
				walk(t.Call, true)
				return false
			case *ast.CallExpr:
				name := calleeName(t.Fun)
				ok := len(keep) == 0
				for _, k := range keep {
					if strings.Contains(name, k) {
						ok = true
					}
				}
				if ok {
					if deferred {
						name = "defer:" + name
					}
					out = append(out, name)
				}
			}
			return true
		})
	}
	walk(fd.Body, false)
	return out
}

// assignments returns "lhs=rhs" for every assignment statement whose left-hand side rendering starts
// with lhsPrefix, in source order (rhs rendered as callee / identifier path).
func assignments(fd *ast.FuncDecl, lhsPrefix string) []string {
	var out []string
	if fd == nil || fd.Body == nil {
		return out
	}
	ast.Inspect(fd.Body, func(n ast.Node) bool {
		as, ok := n.(*ast.AssignStmt)
		if !ok {
			return true
		}
		for i, l := range as.Lhs {
			ls := calleeName(l)
			if strings.HasPrefix(ls, lhsPrefix) && i < len(as.Rhs) {
				out = append(out, ls+"="+calleeName(as.Rhs[i]))
			}
		}
		return true
	})
	return out
}

// callArgs returns, for every call whose callee name ends with `suffix`, the rendering of argument #idx.
func callArgs(fd *ast.FuncDecl, suffix string, idx int) []string {
	var out []string
	if fd == nil || fd.Body == nil {
		return out
	}
	ast.Inspect(fd.Body, func(n ast.Node) bool {
		c, ok := n.(*ast.CallExpr)
		if ok && strings.HasSuffix(calleeName(c.Fun), suffix) && idx < len(c.Args) {
			out = append(out, calleeName(c.Args[idx]))
		}
		return true
	})
	return out
}

// varStringOrBytes: `var X = []byte("…")` or `= "…"`
func varString(rel, name string) string {
	f := parseFile(rel)
	if f == nil {
		return ""
	}
	for _, d := range f.Decls {
		gd, ok := d.(*ast.GenDecl)
		if !ok || (gd.Tok != token.VAR && gd.Tok != token.CONST) {
			continue
		}
		for _, s := range gd.Specs {
			vs := s.(*ast.ValueSpec)
			for i, n := range vs.Names {
				if n.Name != name || i >= len(vs.Values) {
					continue
				}
				var lit *ast.BasicLit
				switch t := vs.Values[i].(type) {
				case *ast.BasicLit:
					lit = t
				case *ast.CallExpr:
					if len(t.Args) == 1 {
						lit, _ = t.Args[0].(*ast.BasicLit)
					}
				}
				if lit == nil || lit.Kind != token.STRING {
					fail("%s: %s is not a string literal", rel, name)
					return ""
				}
				s, _ := strconv.Unquote(lit.Value)
				return s
			}
		}
	}
	fail("%s: %s not found", rel, name)
	return ""
}

// signedConst evaluates `const name = -<int>` / `= <int>` (the shared evaluator has no unary minus).
func signedConst(env *constEnv, rel, name string) string {
	f := parseFile(rel)
	res := ""
	if f != nil {
		ast.Inspect(f, func(n ast.Node) bool {
			vs, ok := n.(*ast.ValueSpec)
			if !ok || len(vs.Names) != 1 || vs.Names[0].Name != name || len(vs.Values) != 1 {
				return true
			}
			if u, ok := vs.Values[0].(*ast.UnaryExpr); ok && u.Op == token.SUB {
				res = fmt.Sprintf("-%d", env.intOf(u.X, rel+":"+name))
			} else {
				res = fmt.Sprint(env.intOf(vs.Values[0], rel+":"+name))
			}
			return false
		})
	}
	if res == "" {
		fail("%s: constant %s not found", rel, name)
		return "0"
	}
	return res
}

// transitionTable reads the nested switch of api.KeyStateTransitionValid as (old, [new…]) pairs.
func transitionTable(env *constEnv) string {
	const rel = "keystore/v2/keystore/api/key.go"
	fd := funcDecl(rel, "", "KeyStateTransitionValid")
	if fd == nil {
		return "[]"
	}
	var rows []string
	var outer *ast.SwitchStmt
	for _, st := range fd.Body.List {
		if sw, ok := st.(*ast.SwitchStmt); ok {
			outer = sw
		}
	}
	if outer == nil {
		fail("%s: KeyStateTransitionValid: outer switch not found", rel)
		return "[]"
	}
	// the function must end with `return false`
	last, ok := fd.Body.List[len(fd.Body.List)-1].(*ast.ReturnStmt)
	if !ok || len(last.Results) != 1 || calleeName(last.Results[0]) != "false" {
		fail("%s: KeyStateTransitionValid does not end with `return false`", rel)
	}
	for _, c := range outer.Body.List {
		cc := c.(*ast.CaseClause)
		if len(cc.List) != 1 || len(cc.Body) != 1 {
			fail("%s: KeyStateTransitionValid: unexpected outer case shape", rel)
			continue
		}
		inner, ok := cc.Body[0].(*ast.SwitchStmt)
		if !ok {
			fail("%s: KeyStateTransitionValid: inner switch expected", rel)
			continue
		}
		old := env.intOf(cc.List[0], rel)
		var news []uint64
		for _, ic := range inner.Body.List {
			icc := ic.(*ast.CaseClause)
			ret, ok := icc.Body[0].(*ast.ReturnStmt)
			if len(icc.Body) != 1 || !ok || calleeName(ret.Results[0]) != "true" {
				fail("%s: KeyStateTransitionValid: inner case does not `return true`", rel)
			}
			for _, e := range icc.List {
				news = append(news, env.intOf(e, rel))
			}
		}
		rows = append(rows, fmt.Sprintf("(%d, %s)", old, natList(news)))
	}
	return "[" + strings.Join(rows, ", ") + "]"
}

func genKeystoreSec() {
	lf := newLean("KeystoreSec", "Sources: keystore/v2/keystore/{asn1/asn1.go, api/key.go, crypto/signature.go, filesystem/{keyStore.go, keyRing.go, key.go, keyStoreLoad.go, export.go, backend/filesystem.go}}, keystore/filesystem/{server_keystore.go, filesystem_backup.go}.")
	const fsdir = "keystore/v2/keystore/filesystem/"
	strs := func(name string, xs []string, src string) { lf.def(name, "List String", strList(xs), src) }

	// --- context strings and suffixes
	strs("keyStoreContextLits", stringLits(funcDecl(fsdir+"keyStore.go", "KeyStore", "keyStoreContext")), fsdir+"keyStore.go: string literals of keyStoreContext")
	strs("keyRingSignatureContextLits", stringLits(funcDecl(fsdir+"keyStore.go", "KeyStore", "keyRingSignatureContext")), fsdir+"keyStore.go: string literals of keyRingSignatureContext")
	strs("keyRingContextLits", stringLits(funcDecl(fsdir+"keyRing.go", "KeyRing", "keyRingContext")), fsdir+"keyRing.go: string literals of keyRingContext")
	strs("privateKeyContextLits", stringLits(funcDecl(fsdir+"key.go", "KeyRing", "privateKeyContext")), fsdir+"key.go: string literals of privateKeyContext")
	strs("symmetricKeyContextLits", stringLits(funcDecl(fsdir+"key.go", "KeyRing", "symmetricKeyContext")), fsdir+"key.go: string literals of symmetricKeyContext")
	lf.def("exportKeyContext", "String", strconv.Quote(varString(fsdir+"export.go", "exportKeyContext")), fsdir+"export.go: exportKeyContext")
	lf.def("signSeparator", "String", strconv.Quote(varString("keystore/v2/keystore/crypto/signature.go", "separator")), "keystore/v2/keystore/crypto/signature.go: separator")
	lf.def("keyringSuffix", "String", strconv.Quote(varString(fsdir+"keyStoreLoad.go", "keyringSuffix")), fsdir+"keyStoreLoad.go: keyringSuffix")
	lf.def("newSuffix", "String", strconv.Quote(varString(fsdir+"keyStoreLoad.go", "newSuffix")), fsdir+"keyStoreLoad.go: newSuffix")
	// what is hashed, in which order (SignSha256.Sign)
	strs("signWrites", callArgs(funcDecl("keystore/v2/keystore/crypto/signature.go", "SignSha256", "Sign"), "hmac.Write", 0), "crypto/signature.go: arguments of the hmac.Write calls of SignSha256.Sign, in order")

	// --- ASN.1 constants
	const arel = "keystore/v2/keystore/asn1/asn1.go"
	aEnv := newConstEnv(arel)
	nat := func(name, lean string) {
		v, ok := aEnv.vals[name]
		if !ok {
			fail("%s: constant %s not found", arel, name)
			return
		}
		lf.def(lean, "Int", v.ExactString(), arel+": "+name)
	}
	lf.def("asnNoKey", "Int", signedConst(aEnv, arel, "NoKey"), arel+": NoKey")
	for _, n := range []string{"TypeKeyRing", "TypeEncryptedKeys", "KeyRingVersion2", "KeyPreActive", "KeyActive", "KeySuspended", "KeyDeactivated", "KeyCompromised", "KeyDestroyed", "ThemisKeyPairFormat", "ThemisSymmetricKeyFormat"} {
		nat(n, "asn"+n)
	}
	// Sha256OID = asn1.ObjectIdentifier([]int{…})
	{
		f := parseFile(arel)
		found := false
		if f != nil {
			ast.Inspect(f, func(n ast.Node) bool {
				vs, ok := n.(*ast.ValueSpec)
				if !ok || len(vs.Names) != 1 || vs.Names[0].Name != "Sha256OID" || len(vs.Values) != 1 {
					return true
				}
				call, ok := vs.Values[0].(*ast.CallExpr)
				if !ok || len(call.Args) != 1 {
					return true
				}
				cl, ok := call.Args[0].(*ast.CompositeLit)
				if !ok {
					return true
				}
				var arcs []uint64
				for _, e := range cl.Elts {
					arcs = append(arcs, aEnv.intOf(e, arel+":Sha256OID"))
				}
				lf.def("sha256OID", "List Nat", natList(arcs), arel+": Sha256OID")
				found = true
				return false
			})
		}
		if !found {
			fail("%s: Sha256OID not found", arel)
		}
	}
	// firstSeqnum
	kEnv := newConstEnv(fsdir + "keyRing.go")
	if v, ok := kEnv.vals["firstSeqnum"]; ok {
		lf.def("firstSeqnum", "Int", v.ExactString(), fsdir+"keyRing.go: firstSeqnum")
	} else {
		fail("%skeyRing.go: firstSeqnum not found", fsdir)
	}

	// --- key state transition table (api constants are defined through the asn1 ones)
	apiEnv := newConstEnv(arel, "keystore/v2/keystore/api/key.go")
	lf.def("transitions", "List (Nat × List Nat)", transitionTable(apiEnv), "keystore/v2/keystore/api/key.go: KeyStateTransitionValid as (old state, allowed new states)")

	// --- call orders of the read / write cycles
	strs("writeKeyRingCalls", callSeq(funcDecl(fsdir+"keyStoreLoad.go", "KeyStore", "writeKeyRing"), "Lock", "Unlock", "pullRingUpdates", "applyPendingTX", "pushNewRingState", "commitTX"), fsdir+"keyStoreLoad.go: writeKeyRing")
	strs("readKeyRingCalls", callSeq(funcDecl(fsdir+"keyStoreLoad.go", "KeyStore", "readKeyRing"), "Lock", "Unlock", "pullRingUpdates"), fsdir+"keyStoreLoad.go: readKeyRing")
	strs("openKeyRingCalls", callSeq(funcDecl(fsdir+"keyStoreLoad.go", "KeyStore", "openKeyRing"), "Lock", "Unlock", "pullRingUpdates", "pushNewRingState"), fsdir+"keyStoreLoad.go: openKeyRing")
	strs("pullRingUpdatesCalls", callSeq(funcDecl(fsdir+"keyStoreLoad.go", "KeyStore", "pullRingUpdates"), "fetchASNring", "verifyKeyRing", "loadASN1"), fsdir+"keyStoreLoad.go: pullRingUpdates")
	strs("pushNewRingStateCalls", callSeq(funcDecl(fsdir+"keyStoreLoad.go", "KeyStore", "pushNewRingState"), "signKeyRing", "pushASNring"), fsdir+"keyStoreLoad.go: pushNewRingState")
	strs("pushASNringCalls", callSeq(funcDecl(fsdir+"keyStoreLoad.go", "KeyStore", "pushASNring"), "s.fs."), fsdir+"keyStoreLoad.go: pushASNring back-end calls")
	strs("pushASNringPutPath", callArgs(funcDecl(fsdir+"keyStoreLoad.go", "KeyStore", "pushASNring"), "s.fs.Put", 0), fsdir+"keyStoreLoad.go: first argument of Put in pushASNring")
	strs("pushASNringAssigns", assignments(funcDecl(fsdir+"keyStoreLoad.go", "KeyStore", "pushASNring"), ""), fsdir+"keyStoreLoad.go: assignments of pushASNring")
	strs("fetchASNringCalls", callSeq(funcDecl(fsdir+"keyStoreLoad.go", "KeyStore", "fetchASNring"), "s.fs."), fsdir+"keyStoreLoad.go: fetchASNring back-end calls")
	for _, m := range []string{"setCurrent", "changeKeyState", "addKey", "destroyKey"} {
		strs(m+"Calls", callSeq(funcDecl(fsdir+"keyRing.go", "KeyRing", m), "pushTX", "syncKeyRing", "popTX"), fsdir+"keyRing.go: "+m)
	}
	// the optimistic checks: what each transaction's Apply tests before it changes the ring, and which values of
	// the handle's view the ring methods put into the transaction they push
	for _, tx := range []string{"txSetKeyCurrent", "txChangeKeyState", "txAddKey"} {
		strs(tx+"Apply", bodyStmts(funcDecl(fsdir+"keyRingTX.go", tx, "Apply")), fsdir+"keyRingTX.go: "+tx+".Apply")
	}
	strs("setCurrentBody", bodyStmts(funcDecl(fsdir+"keyRing.go", "KeyRing", "setCurrent")), fsdir+"keyRing.go: setCurrent")
	strs("nextSeqnumBody", bodyStmts(funcDecl(fsdir+"keyRing.go", "KeyRing", "nextSeqnum")), fsdir+"keyRing.go: nextSeqnum")
	strs("importASN1Calls", callSeq(funcDecl(fsdir+"export.go", "KeyRing", "importASN1"), "copyKey", "pushTX", "syncKeyRing", "popTX"), fsdir+"export.go: importASN1")

	// --- encrypt-before-write sites
	addKeyData := funcDecl(fsdir+"key.go", "KeyRing", "addKeyData")
	strs("addKeyDataAssigns", assignments(addKeyData, "newData."), fsdir+"key.go: assignments to newData.* in addKeyData")
	strs("addKeyDataEncrypted", append(assignments(addKeyData, "encryptedPrivateKey"), assignments(addKeyData, "encryptedSymmetricKey")...), fsdir+"key.go: where the encrypted values of addKeyData come from")
	strs("encryptPrivateKeyCalls", callSeq(funcDecl(fsdir+"key.go", "KeyRing", "encryptPrivateKey"), "encrypt", "Context"), fsdir+"key.go: encryptPrivateKey")
	strs("encryptSymmetricKeyCalls", callSeq(funcDecl(fsdir+"key.go", "KeyRing", "encryptSymmetricKey"), "encrypt", "Context"), fsdir+"key.go: encryptSymmetricKey")
	strs("ringEncryptCalls", callSeq(funcDecl(fsdir+"keyRing.go", "KeyRing", "encrypt"), "encrypt", "Context"), fsdir+"keyRing.go: KeyRing.encrypt")
	strs("storeEncryptCalls", callSeq(funcDecl(fsdir+"keyStore.go", "KeyStore", "encrypt"), "Encrypt", "Context"), fsdir+"keyStore.go: KeyStore.encrypt")
	copyKey := funcDecl(fsdir+"key.go", "KeyRing", "copyKey")
	strs("copyKeyCalls", callSeq(copyKey, "addKeyData", "After"), fsdir+"key.go: copyKey")
	mentionsDestroyed := false
	if copyKey != nil {
		ast.Inspect(copyKey.Body, func(n ast.Node) bool {
			if se, ok := n.(*ast.SelectorExpr); ok && se.Sel.Name == "KeyDestroyed" {
				mentionsDestroyed = true
			}
			return true
		})
	}
	lf.def("copyKeyAdmitsDestroyed", "Bool", boolStr(mentionsDestroyed), fsdir+"key.go: copyKey's no-data check mentions KeyDestroyed")
	// export bundle: what is encrypted and signed
	eas := funcDecl(fsdir+"export.go", "KeyStore", "encryptAndSignKeyRings")
	strs("encryptAndSignCalls", callSeq(eas, "Marshal", "Encrypt", "Sign", "NewNotary"), fsdir+"export.go: encryptAndSignKeyRings")
	strs("encryptAndSignEncryptArg", callArgs(eas, "KeyEncryptor.Encrypt", 1), fsdir+"export.go: what encryptAndSignKeyRings encrypts")
	dav := funcDecl(fsdir+"export.go", "KeyStore", "decryptAndVerifyKeyRings")
	strs("decryptAndVerifyCalls", callSeq(dav, "Verify", "Decrypt", "UnmarshalEncryptedKeys"), fsdir+"export.go: decryptAndVerifyKeyRings")

	// --- directory back end: every path-taking method goes through osPath; osPath's check
	const brel = fsdir + "backend/filesystem.go"
	strs("osPathCalls", callSeq(funcDecl(brel, "DirectoryBackend", "osPath"), "filepath.", "strings.", "Replace"), brel+": osPath")
	for _, m := range []string{"Get", "Put", "Rename", "RenameNX"} {
		strs("backend"+m+"Calls", callSeq(funcDecl(brel, "DirectoryBackend", m), "osPath", "os.", "ioutil.", "doRenameNX"), brel+": "+m)
	}

	// --- v1: what reaches WritePrivateKey / the cache
	const v1 = "keystore/filesystem/server_keystore.go"
	save := funcDecl(v1, "KeyStore", "SaveKeyPairWithFilename")
	strs("v1SaveKeyPairPrivateArg", callArgs(save, "store.WritePrivateKey", 1), v1+": second argument of WritePrivateKey in SaveKeyPairWithFilename")
	strs("v1SaveKeyPairAssigns", append(assignments(save, "encryptedPrivate"), assignments(save, "cacheEncryptedPrivate")...), v1+": where encryptedPrivate / cacheEncryptedPrivate come from")
	strs("v1SaveKeyPairCacheArgs", callArgs(save, "store.cache.Add", 1), v1+": values added to the cache in SaveKeyPairWithFilename")
	gsym := funcDecl(v1, "KeyStore", "generateAndSaveSymmetricKey")
	strs("v1SaveSymmetricArg", callArgs(gsym, "store.WritePrivateKey", 1), v1+": second argument of WritePrivateKey in generateAndSaveSymmetricKey")
	strs("v1SaveSymmetricAssigns", assignments(gsym, "encryptedSymKey"), v1+": where encryptedSymKey comes from")
	lac := funcDecl(v1, "KeyStore", "loadKeyAndCache")
	strs("v1LoadKeyAndCacheAddArg", callArgs(lac, "store.Add", 1), v1+": value cached by loadKeyAndCache")
	strs("v1LoadKeyAndCacheAssigns", assignments(lac, "cacheEncrypted"), v1+": where cacheEncrypted comes from")
	// v1 export: zeroisation must be deferred
	exp := funcDecl("keystore/filesystem/filesystem_backup.go", "KeyBackuper", "Export")
	strs("v1ExportZeroize", callSeq(exp, "ZeroizeBytes"), "keystore/filesystem/filesystem_backup.go: ZeroizeBytes calls of KeyBackuper.Export (defer: = deferred)")
}
