package main

import (
	"fmt"
	"go/ast"
	"go/token"
	"os"
	"path/filepath"
	"regexp"
	"sort"
	"strconv"
	"strings"
)

// LogSites: every logging call of the packages a client statement travels through – both proxies, the query observers
// (encryptor, searchable filter, tokenizer, hmac), the response processors (crypto envelope detection, masking, type
// awareness), AcraCensor with its handlers, the parser, and the function of acra-server that ends a session.
//
//	walkedFiles     : the files read
//	logSites        : per call of a printing method (Debug…Panic, f/ln forms) on a logger: file, function, method and the
//	                  message as a pattern – the constant pieces of the message, a wildcard between two pieces
//	siteIdents      : per function that logs: every identifier mentioned in the arguments of its printing calls and of
//	                  WithField/WithFields/WithError on a logger (arguments of len(…) are not values: only `len` is listed)
//	conversions     : every strconv.Parse*/Atoi call: file, function, callee, identifiers of its argument, and what
//	                  happens to its error (checked | sanitized | replaced | returned | logged | logged+returned | other)
//	pgParseCalls    : the functions that call pg_query.Parse directly
func init() { generators = append(generators, genLogSites) }

// directories on the query path (not recursive)
var logSiteDirs = []string{
	"acra-censor", "acra-censor/common", "acra-censor/handlers",
	"decryptor/base", "decryptor/base/type_awareness",
	"decryptor/postgresql", "decryptor/postgresql/types",
	"decryptor/mysql", "decryptor/mysql/base", "decryptor/mysql/types",
	"encryptor/base", "encryptor/base/config", "encryptor/postgresql", "encryptor/mysql",
	"hmac", "hmac/decryptor/postgresql", "hmac/decryptor/mysql",
	"pseudonymization", "pseudonymization/common", "pseudonymization/storage",
	"masking", "masking/common", "crypto", "acrablock", "acrastruct", "poison",
	"sqlparser", "utils",
}

// single files outside those directories
var logSiteFiles = []string{"cmd/acra-server/common/listener.go"}

var printMethod = regexp.MustCompile(`^(Debug|Info|Warn|Warning|Error|Print|Trace|Fatal|Panic)(f|ln)?$`)
var withMethod = regexp.MustCompile(`^(WithField|WithFields|WithError)$`)
var fmtVerb = regexp.MustCompile(`%[-+# 0]*[0-9*]*(\.[0-9*]+)?(\[[0-9]+\])?[a-zA-Z]`)

const wildcard = "\x00"

func logSiteFileList() []string {
	var out []string
	for _, d := range logSiteDirs {
		ents, err := os.ReadDir(filepath.Join(repo, d))
		if err != nil {
			fail("log sites: directory %s: %v", d, err)
			continue
		}
		n := 0
		for _, e := range ents {
			name := e.Name()
			if e.IsDir() || !strings.HasSuffix(name, ".go") || strings.HasSuffix(name, "_test.go") {
				continue
			}
			out = append(out, d+"/"+name)
			n++
		}
		if n == 0 && d != "masking/common" {
			fail("log sites: no Go files in %s", d)
		}
	}
	out = append(out, logSiteFiles...)
	return out
}

// constant resolution context of the file being read
var (
	curFile *ast.File
	curRel  string
)

var pkgConstCache = map[string]map[string]ast.Expr{}

// pkgConsts: the constant (and single-value var) declarations of the package in directory dir
func pkgConsts(dir string) map[string]ast.Expr {
	if m, ok := pkgConstCache[dir]; ok {
		return m
	}
	m := map[string]ast.Expr{}
	pkgConstCache[dir] = m
	ents, err := os.ReadDir(filepath.Join(repo, dir))
	if err != nil {
		return m
	}
	for _, e := range ents {
		if e.IsDir() || !strings.HasSuffix(e.Name(), ".go") || strings.HasSuffix(e.Name(), "_test.go") {
			continue
		}
		f := parseFile(dir + "/" + e.Name())
		if f == nil {
			continue
		}
		for _, d := range f.Decls {
			gd, ok := d.(*ast.GenDecl)
			if !ok || gd.Tok != token.CONST {
				continue
			}
			for _, sp := range gd.Specs {
				vs := sp.(*ast.ValueSpec)
				for i, n := range vs.Names {
					if i < len(vs.Values) {
						m[n.Name] = vs.Values[i]
					}
				}
			}
		}
	}
	return m
}

func importDir(f *ast.File, name string) string {
	for _, im := range f.Imports {
		path, _ := strconv.Unquote(im.Path.Value)
		if !strings.HasPrefix(path, "github.com/cossacklabs/acra/") {
			continue
		}
		local := path[strings.LastIndex(path, "/")+1:]
		if im.Name != nil {
			local = im.Name.Name
		}
		if local == name {
			return strings.TrimPrefix(path, "github.com/cossacklabs/acra/")
		}
	}
	return ""
}

// constString: the value of a constant string expression ("a" + "b", named constants of /repo's packages), ok=false otherwise
func constString(e ast.Expr) (string, bool) { return constStringIn(e, curFile, curRel, 0) }

func constStringIn(e ast.Expr, file *ast.File, rel string, depth int) (string, bool) {
	if depth > 4 {
		return "", false
	}
	switch t := e.(type) {
	case *ast.Ident:
		if file == nil {
			return "", false
		}
		dir := filepath.Dir(rel)
		if v, ok := pkgConsts(dir)[t.Name]; ok {
			return constStringIn(v, nil, rel, depth+1)
		}
	case *ast.SelectorExpr:
		if x, ok := t.X.(*ast.Ident); ok && file != nil {
			if dir := importDir(file, x.Name); dir != "" {
				if v, ok := pkgConsts(dir)[t.Sel.Name]; ok {
					return constStringIn(v, nil, dir+"/x.go", depth+1)
				}
			}
		}
	}
	switch t := e.(type) {
	case *ast.BasicLit:
		if t.Kind == token.STRING {
			s, err := strconv.Unquote(t.Value)
			return s, err == nil
		}
	case *ast.BinaryExpr:
		if t.Op == token.ADD {
			a, ok1 := constStringIn(t.X, file, rel, depth)
			b, ok2 := constStringIn(t.Y, file, rel, depth)
			return a + b, ok1 && ok2
		}
	case *ast.ParenExpr:
		return constStringIn(t.X, file, rel, depth)
	}
	return "", false
}

// messagePattern: the message of a printing call as text with wildcard marks
func messagePattern(method string, args []ast.Expr) string {
	switch {
	case strings.HasSuffix(method, "f"):
		if len(args) == 0 {
			return ""
		}
		f, ok := constString(args[0])
		if !ok {
			return wildcard
		}
		f = strings.ReplaceAll(f, "%%", "\x01")
		f = fmtVerb.ReplaceAllString(f, wildcard)
		return strings.ReplaceAll(f, "\x01", "%")
	case strings.HasSuffix(method, "ln"):
		var parts []string
		for _, a := range args {
			if s, ok := constString(a); ok {
				parts = append(parts, s)
			} else {
				parts = append(parts, wildcard)
			}
		}
		return strings.Join(parts, " ")
	default:
		var b strings.Builder
		for _, a := range args {
			if s, ok := constString(a); ok {
				b.WriteString(s)
			} else {
				b.WriteString(wildcard)
			}
		}
		return b.String()
	}
}

func patternPieces(p string) []string {
	for strings.Contains(p, wildcard+wildcard) {
		p = strings.ReplaceAll(p, wildcard+wildcard, wildcard)
	}
	return strings.Split(p, wildcard)
}

// argIdents: identifiers an argument mentions; the argument of len(…) is not a value
func argIdents(e ast.Expr, into map[string]bool) {
	ast.Inspect(e, func(m ast.Node) bool {
		switch t := m.(type) {
		case *ast.CallExpr:
			if id, ok := t.Fun.(*ast.Ident); ok && id.Name == "len" {
				into["len"] = true
				return false
			}
		case *ast.SelectorExpr:
			into[t.Sel.Name] = true
		case *ast.Ident:
			into[t.Name] = true
		case *ast.BasicLit:
			return false
		}
		return true
	})
}

func sortedKeys(m map[string]bool) []string {
	var out []string
	for k := range m {
		out = append(out, k)
	}
	sort.Strings(out)
	return out
}

func funcName(fd *ast.FuncDecl) string {
	if fd.Recv != nil && len(fd.Recv.List) == 1 {
		return recvName(fd.Recv.List[0].Type) + "." + fd.Name.Name
	}
	return fd.Name.Name
}

// errUseAfter classifies what the statements following a conversion do with its error variable.
func errUse(errName string, next ast.Stmt) string {
	ifs, ok := next.(*ast.IfStmt)
	if !ok {
		if rs, ok := next.(*ast.ReturnStmt); ok {
			for _, r := range rs.Results {
				if isIdent(r, errName) {
					return "returned"
				}
			}
		}
		return "other"
	}
	be, ok := ifs.Cond.(*ast.BinaryExpr)
	if !ok || !isIdent(be.X, errName) || !isIdent(be.Y, "nil") {
		return "other"
	}
	if be.Op == token.EQL {
		return "checked"
	}
	logged, returned, sanitized := false, false, false
	ast.Inspect(ifs.Body, func(n ast.Node) bool {
		switch t := n.(type) {
		case *ast.ReturnStmt:
			for _, r := range t.Results {
				if isIdent(r, errName) {
					returned = true
				}
				if c, ok := r.(*ast.CallExpr); ok {
					if sel, ok := c.Fun.(*ast.SelectorExpr); ok && sel.Sel.Name == "ErrorWithoutValue" {
						sanitized = true
					} else {
						// the error handed to another constructor (fmt.Errorf("…%w", err), errors.Wrap…)
						m := map[string]bool{}
						argIdents(r, m)
						if m[errName] {
							returned = true
						}
					}
				}
			}
		case *ast.CallExpr:
			if sel, ok := t.Fun.(*ast.SelectorExpr); ok && (printMethod.MatchString(sel.Sel.Name) || withMethod.MatchString(sel.Sel.Name)) && chainMentionsLog(sel.X) {
				m := map[string]bool{}
				for _, a := range t.Args {
					argIdents(a, m)
				}
				if m[errName] {
					logged = true
				}
			}
		}
		return true
	})
	switch {
	case logged && returned:
		return "logged+returned"
	case logged:
		return "logged"
	case returned:
		return "returned"
	case sanitized:
		return "sanitized"
	}
	return "replaced"
}

func singleIdent(args []ast.Expr) (string, bool) {
	if len(args) != 1 {
		return "", false
	}
	id, ok := args[0].(*ast.Ident)
	if !ok {
		return "", false
	}
	return id.Name, true
}

// localStringValues: the string constants assigned to the local variable `name` in fd – nil if it is assigned anything else
// (or is not a local variable of the function)
func localStringValues(fd *ast.FuncDecl, name string) []string {
	var vals []string
	bad := false
	ast.Inspect(fd.Body, func(n ast.Node) bool {
		as, ok := n.(*ast.AssignStmt)
		if !ok {
			return true
		}
		for i, l := range as.Lhs {
			if !isIdent(l, name) {
				continue
			}
			if len(as.Rhs) != len(as.Lhs) {
				bad = true
				continue
			}
			if v, ok := constString(as.Rhs[i]); ok {
				vals = append(vals, v)
			} else {
				bad = true
			}
		}
		return true
	})
	if bad {
		return nil
	}
	return vals
}

func genLogSites() {
	lf := newLean("LogSites", "Source: every non-test Go file of the packages on the query path (see walkedFiles): logging calls, the identifiers they print, strconv conversions and what happens to their errors, direct pg_query.Parse calls.")
	files := logSiteFileList()
	var siteRows, identRows, convRows, pgRows []string
	nSites := 0
	for _, rel := range files {
		f := parseFile(rel)
		if f == nil {
			continue
		}
		curFile, curRel = f, rel
		for _, d := range f.Decls {
			fd, ok := d.(*ast.FuncDecl)
			if !ok || fd.Body == nil {
				continue
			}
			fn := funcName(fd)
			idents := map[string]bool{}
			logs := false
			// printing calls and With* calls
			ast.Inspect(fd.Body, func(n ast.Node) bool {
				call, ok := n.(*ast.CallExpr)
				if !ok {
					return true
				}
				sel, ok := call.Fun.(*ast.SelectorExpr)
				if !ok {
					return true
				}
				name := sel.Sel.Name
				isPrint, isWith := printMethod.MatchString(name), withMethod.MatchString(name)
				if sel2, ok := sel.X.(*ast.Ident); ok && sel2.Name == "pg_query" && name == "Parse" {
					pgRows = append(pgRows, fmt.Sprintf("(%q, %q)", rel, fn))
				}
				if !(isPrint || isWith) || !chainMentionsLog(sel.X) {
					return true
				}
				// fmt.Printf / log.Printf of the standard library are printing calls too (chainMentionsLog wants "log")
				logs = true
				for _, a := range call.Args {
					argIdents(a, idents)
				}
				if isPrint {
					// a message held in a local variable that is only ever assigned string constants: one site per constant
					if id, ok := singleIdent(call.Args); ok && !strings.HasSuffix(name, "f") {
						if vals := localStringValues(fd, id); len(vals) > 0 {
							for _, v := range vals {
								siteRows = append(siteRows, fmt.Sprintf("(%q, %q, %q, %s)", rel, fn, name, strList([]string{v})))
							}
							nSites++
							return true
						}
					}
					pieces := patternPieces(messagePattern(name, call.Args))
					siteRows = append(siteRows, fmt.Sprintf("(%q, %q, %q, %s)", rel, fn, name, strList(pieces)))
					nSites++
				}
				return true
			})
			if logs {
				identRows = append(identRows, fmt.Sprintf("(%q, %q, %s)", rel, fn, strList(sortedKeys(idents))))
			}
			// conversions
			var walkBlock func(list []ast.Stmt)
			record := func(call *ast.CallExpr, errName string, next ast.Stmt, inIfInit *ast.IfStmt) {
				sel := call.Fun.(*ast.SelectorExpr)
				m := map[string]bool{}
				for i, a := range call.Args {
					if i == 0 {
						argIdents(a, m)
					}
				}
				use := "other"
				switch {
				case errName == "_" || errName == "":
					use = "ignored"
				case inIfInit != nil:
					use = errUse(errName, &ast.IfStmt{Cond: inIfInit.Cond, Body: inIfInit.Body})
				case next != nil:
					use = errUse(errName, next)
				}
				convRows = append(convRows, fmt.Sprintf("(%q, %q, %q, %s, %q)", rel, fn, "strconv."+sel.Sel.Name, strList(sortedKeys(m)), use))
			}
			convCall := func(e ast.Expr) *ast.CallExpr {
				c, ok := e.(*ast.CallExpr)
				if !ok {
					return nil
				}
				sel, ok := c.Fun.(*ast.SelectorExpr)
				if !ok || !isIdent(sel.X, "strconv") {
					return nil
				}
				switch sel.Sel.Name {
				case "ParseInt", "ParseUint", "ParseFloat", "ParseBool", "Atoi", "Unquote":
					return c
				}
				return nil
			}
			assignErr := func(as *ast.AssignStmt) (*ast.CallExpr, string) {
				if len(as.Rhs) != 1 {
					return nil, ""
				}
				c := convCall(as.Rhs[0])
				if c == nil {
					return nil, ""
				}
				errName := ""
				if id, ok := as.Lhs[len(as.Lhs)-1].(*ast.Ident); ok && len(as.Lhs) == 2 {
					errName = id.Name
				}
				return c, errName
			}
			seen := map[*ast.CallExpr]bool{}
			walkBlock = func(list []ast.Stmt) {
				for i, st := range list {
					var next ast.Stmt
					if i+1 < len(list) {
						next = list[i+1]
					}
					if as, ok := st.(*ast.AssignStmt); ok {
						if c, en := assignErr(as); c != nil {
							seen[c] = true
							record(c, en, next, nil)
						}
					}
					if ifs, ok := st.(*ast.IfStmt); ok {
						if as, ok := ifs.Init.(*ast.AssignStmt); ok {
							if c, en := assignErr(as); c != nil {
								seen[c] = true
								record(c, en, nil, ifs)
							}
						}
					}
					if rs, ok := st.(*ast.ReturnStmt); ok && len(rs.Results) == 1 {
						if c := convCall(rs.Results[0]); c != nil {
							seen[c] = true
							sel := c.Fun.(*ast.SelectorExpr)
							m := map[string]bool{}
							argIdents(c.Args[0], m)
							convRows = append(convRows, fmt.Sprintf("(%q, %q, %q, %s, %q)", rel, fn, "strconv."+sel.Sel.Name, strList(sortedKeys(m)), "returned"))
						}
					}
				}
			}
			ast.Inspect(fd.Body, func(n ast.Node) bool {
				switch t := n.(type) {
				case *ast.BlockStmt:
					walkBlock(t.List)
				case *ast.CaseClause:
					walkBlock(t.Body)
				case *ast.CommClause:
					walkBlock(t.Body)
				}
				return true
			})
			// conversions in any other position (argument of another call …)
			ast.Inspect(fd.Body, func(n ast.Node) bool {
				if e, ok := n.(ast.Expr); ok {
					if c := convCall(e); c != nil && !seen[c] {
						seen[c] = true
						sel := c.Fun.(*ast.SelectorExpr)
						m := map[string]bool{}
						argIdents(c.Args[0], m)
						convRows = append(convRows, fmt.Sprintf("(%q, %q, %q, %s, %q)", rel, fn, "strconv."+sel.Sel.Name, strList(sortedKeys(m)), "other"))
					}
				}
				return true
			})
		}
	}
	if nSites < 400 {
		fail("log sites: only %d printing calls found on the query path", nSites)
	}
	if len(convRows) < 20 {
		fail("log sites: only %d strconv conversions found on the query path", len(convRows))
	}
	lf.def("walkedFiles", "List String", "[\n  "+strings.Join(quoteAll(files), ",\n  ")+"]", "the files read (every non-test Go file of the directories on the query path, plus acra-server's session function)")
	lf.def("logSites", "List (String × String × String × List String)", "[\n  "+strings.Join(siteRows, ",\n  ")+"]",
		"every printing call on a logger: file, function, method, and the message as the list of its constant pieces (anything may stand between two pieces; one piece = a constant message)")
	lf.def("siteIdents", "List (String × String × List String)", "[\n  "+strings.Join(identRows, ",\n  ")+"]",
		"per function that logs: identifiers mentioned in the arguments of its printing calls and of WithField/WithFields/WithError on a logger (for len(x) only `len`)")
	lf.def("conversions", "List (String × String × String × List String × String)", "[\n  "+strings.Join(convRows, ",\n  ")+"]",
		"every strconv.Parse*/Atoi/Unquote call: file, function, callee, identifiers of the converted argument, and what becomes of the error")
	lf.def("pgParseCalls", "List (String × String)", "["+strings.Join(pgRows, ", ")+"]", "functions that call pg_query.Parse directly")
}

func quoteAll(xs []string) []string {
	out := make([]string, len(xs))
	for i, x := range xs {
		out[i] = strconv.Quote(x)
	}
	return out
}
