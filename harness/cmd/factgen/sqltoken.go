package main

import (
	"fmt"
	"go/ast"
	"go/constant"
	"go/token"
	"sort"
	"strconv"
	"strings"
	"unicode"
)

// SqlToken: the tables the Lean model of the SQL tokenizer (lean/AcraModel/Sql/Tokenizer.lean) interprets.
//
// tokenIds        : sqlparser/sql.go – every `const NAME = <int>` the grammar generator wrote (token name → id)
// keywords        : sqlparser/token.go `var keywords = map[string]int{…}` – keyword → token NAME, in source order
// stringTokenType : token.go `var stringTokenType` – quote character → token NAME
// eofChar         : token.go const
// letterChars / digitChars / digitVals / blankChars : isLetter, isDigit, digitVal and the loop condition of skipBlank
//                   EVALUATED for every ch in 0 … eofChar (a small evaluator for the comparison expressions they consist of)
// caratShape      : isCarat is `ch == '.' || IsIdentifierQuote(byte(ch)) || IsStringLiteralQuote(byte(ch))`
// scanCaseChars   : the case lists of the inner `switch ch` of Tokenizer.Scan, in order; simpleTokens = the clause whose body
//                   is just `return int(ch), nil`
// letterPrefixes  : the `if ch == 'X' || ch == 'x' { if tkn.lastChar == '\'' { tkn.next(); return tkn.F(…) } }` blocks of the letter case
// mantissaBases   : per scanner the constant bases of its scanMantissa calls, in order
// commentPrefixes : the string arguments of the scanCommentType1 calls of Scan; buffer prefixes of the two block comment scanners
// quote handlers  : dialect/{mysql,postgresql}/quoteHandler.go – IsIdentifierQuote / IsStringLiteralQuote evaluated for every
//                   byte (MySQL with ansiQuotes false and true), GetIdentifierQuote
// versionComment  : comments.go ExtractMysqlComment – the slice offsets, the digit-count limit and whether the
//                   `endOfVersionIndex < 0` case is handled
// unicodeNd / unicodeWhiteSpace / latin1Spaces : the range tables of the Go standard library this factgen was built with
//                   (unicode.IsDigit, unicode.IsSpace as used by ExtractMysqlComment)
func init() { generators = append(generators, genSqlToken) }

// ---- a small evaluator for side-effect free functions over integer/boolean arguments ----

type evalEnv struct {
	consts *constEnv
	vars   map[string]constant.Value
	calls  map[string]func(args []constant.Value) constant.Value
	where  string
	bad    bool
}

func (e *evalEnv) expr(x ast.Expr) constant.Value {
	switch t := x.(type) {
	case *ast.BasicLit:
		return constant.MakeFromLiteral(t.Value, t.Kind, 0)
	case *ast.ParenExpr:
		return e.expr(t.X)
	case *ast.Ident:
		if t.Name == "true" {
			return constant.MakeBool(true)
		}
		if t.Name == "false" {
			return constant.MakeBool(false)
		}
		if v, ok := e.vars[t.Name]; ok {
			return v
		}
		if v := e.consts.eval(t); v != nil {
			return v
		}
	case *ast.SelectorExpr:
		if id, ok := t.X.(*ast.Ident); ok {
			if v, ok := e.vars[id.Name+"."+t.Sel.Name]; ok {
				return v
			}
		}
	case *ast.UnaryExpr:
		v := e.expr(t.X)
		if v != nil && t.Op == token.NOT && v.Kind() == constant.Bool {
			return constant.MakeBool(!constant.BoolVal(v))
		}
	case *ast.BinaryExpr:
		a := e.expr(t.X)
		if a == nil {
			break
		}
		// short circuit
		if t.Op == token.LOR && a.Kind() == constant.Bool && constant.BoolVal(a) {
			return a
		}
		if t.Op == token.LAND && a.Kind() == constant.Bool && !constant.BoolVal(a) {
			return a
		}
		b := e.expr(t.Y)
		if b == nil {
			break
		}
		switch t.Op {
		case token.LOR, token.LAND:
			if a.Kind() == constant.Bool && b.Kind() == constant.Bool {
				return b
			}
		case token.EQL, token.NEQ, token.LSS, token.LEQ, token.GTR, token.GEQ:
			if a.Kind() == constant.Bool || b.Kind() == constant.Bool {
				if a.Kind() == b.Kind() && (t.Op == token.EQL || t.Op == token.NEQ) {
					return constant.MakeBool((constant.BoolVal(a) == constant.BoolVal(b)) == (t.Op == token.EQL))
				}
				break
			}
			return constant.MakeBool(constant.Compare(constant.ToInt(a), t.Op, constant.ToInt(b)))
		case token.ADD, token.SUB, token.MUL:
			return constant.BinaryOp(constant.ToInt(a), t.Op, constant.ToInt(b))
		}
	case *ast.CallExpr:
		name := ""
		switch f := t.Fun.(type) {
		case *ast.Ident:
			name = f.Name
		case *ast.SelectorExpr:
			name = f.Sel.Name
		}
		var args []constant.Value
		for _, a := range t.Args {
			v := e.expr(a)
			if v == nil {
				e.bad = true
				return nil
			}
			args = append(args, v)
		}
		if len(args) == 1 {
			u, ok := constant.Int64Val(constant.ToInt(args[0]))
			switch name {
			case "int", "uint16", "int64", "rune":
				return args[0]
			case "byte", "uint8":
				if ok {
					return constant.MakeInt64(u & 0xff)
				}
			}
		}
		if f, ok := e.calls[name]; ok {
			return f(args)
		}
	}
	fail("%s: expression not understood by the evaluator (%s)", e.where, exprString(x))
	e.bad = true
	return nil
}

// body evaluates a function body made of `return e`, `if c { … }` (with optional else) and tagless `switch { case c: … }`.
func (e *evalEnv) body(stmts []ast.Stmt) constant.Value {
	for _, st := range stmts {
		switch s := st.(type) {
		case *ast.ReturnStmt:
			if len(s.Results) != 1 {
				fail("%s: return with %d results", e.where, len(s.Results))
				e.bad = true
				return nil
			}
			return e.expr(s.Results[0])
		case *ast.IfStmt:
			if s.Init != nil {
				fail("%s: if with init", e.where)
				e.bad = true
				return nil
			}
			c := e.expr(s.Cond)
			if c == nil || c.Kind() != constant.Bool {
				e.bad = true
				return nil
			}
			if constant.BoolVal(c) {
				if v := e.body(s.Body.List); v != nil || e.bad {
					return v
				}
			} else if s.Else != nil {
				if blk, ok := s.Else.(*ast.BlockStmt); ok {
					if v := e.body(blk.List); v != nil || e.bad {
						return v
					}
				} else {
					if v := e.body([]ast.Stmt{s.Else}); v != nil || e.bad {
						return v
					}
				}
			}
		case *ast.SwitchStmt:
			if s.Tag != nil || s.Init != nil {
				fail("%s: switch with tag", e.where)
				e.bad = true
				return nil
			}
			var deflt *ast.CaseClause
			matched := false
			for _, c := range s.Body.List {
				cc := c.(*ast.CaseClause)
				if cc.List == nil {
					deflt = cc
					continue
				}
				for _, ce := range cc.List {
					v := e.expr(ce)
					if v == nil {
						return nil
					}
					if constant.BoolVal(v) {
						matched = true
					}
				}
				if matched {
					if v := e.body(cc.Body); v != nil || e.bad {
						return v
					}
					break
				}
			}
			if !matched && deflt != nil {
				if v := e.body(deflt.Body); v != nil || e.bad {
					return v
				}
			}
		default:
			fail("%s: statement not understood by the evaluator", e.where)
			e.bad = true
			return nil
		}
	}
	return nil
}

func charLit(c uint64) string { return strconv.FormatUint(c, 10) }

func genSqlToken() {
	const tok = "sqlparser/token.go"
	const gram = "sqlparser/sql.go"
	lf := newLean("SqlToken", "Source: sqlparser/token.go, sqlparser/sql.go (token constants), sqlparser/comments.go (ExtractMysqlComment), sqlparser/dialect/{mysql,postgresql}/quoteHandler.go, Go standard library package unicode (tables Nd, White_Space).")
	env := newConstEnv(tok)

	// ---- token ids ----
	gf := parseFile(gram)
	if gf == nil {
		return
	}
	type tid struct {
		name string
		id   uint64
	}
	var ids []tid
	idOf := map[string]uint64{}
	for _, d := range gf.Decls {
		gd, ok := d.(*ast.GenDecl)
		if !ok || gd.Tok != token.CONST || len(gd.Specs) != 1 {
			continue
		}
		vs := gd.Specs[0].(*ast.ValueSpec)
		if len(vs.Names) != 1 || len(vs.Values) != 1 || strings.HasPrefix(vs.Names[0].Name, "yy") {
			continue
		}
		bl, ok := vs.Values[0].(*ast.BasicLit)
		if !ok || bl.Kind != token.INT {
			continue
		}
		v, err := strconv.ParseUint(bl.Value, 10, 64)
		if err != nil {
			continue
		}
		ids = append(ids, tid{vs.Names[0].Name, v})
		idOf[vs.Names[0].Name] = v
	}
	if len(ids) < 100 {
		fail("%s: only %d token constants found", gram, len(ids))
	}
	var idRows []string
	for _, t := range ids {
		idRows = append(idRows, fmt.Sprintf("(%q, %d)", t.name, t.id))
	}
	lf.def("tokenIds", "List (String × Nat)", "[\n  "+strings.Join(idRows, ",\n  ")+"]", "sql.go: `const NAME = id` written by goyacc, in source order")

	// ---- keywords, stringTokenType ----
	tf := parseFile(tok)
	if tf == nil {
		return
	}
	var kwRows, sttRows []string
	for _, d := range tf.Decls {
		gd, ok := d.(*ast.GenDecl)
		if !ok || gd.Tok != token.VAR {
			continue
		}
		for _, s := range gd.Specs {
			vs := s.(*ast.ValueSpec)
			if len(vs.Names) != 1 || len(vs.Values) != 1 {
				continue
			}
			cl, ok := vs.Values[0].(*ast.CompositeLit)
			if !ok {
				continue
			}
			switch vs.Names[0].Name {
			case "keywords":
				seen := map[string]bool{}
				for _, el := range cl.Elts {
					kv := el.(*ast.KeyValueExpr)
					k, ok1 := kv.Key.(*ast.BasicLit)
					v, ok2 := kv.Value.(*ast.Ident)
					if !ok1 || !ok2 || k.Kind != token.STRING {
						fail("%s: keywords: unexpected element shape", tok)
						continue
					}
					ks, _ := strconv.Unquote(k.Value)
					if seen[ks] {
						fail("%s: keywords: duplicate key %q", tok, ks)
					}
					seen[ks] = true
					if _, ok := idOf[v.Name]; !ok {
						fail("%s: keywords: %q maps to %s which is not a token constant of sql.go", tok, ks, v.Name)
					}
					for _, c := range []byte(ks) {
						if c >= 0x80 {
							fail("%s: keywords: non-ASCII keyword %q", tok, ks)
						}
					}
					kwRows = append(kwRows, fmt.Sprintf("(%q, %q)", ks, v.Name))
				}
			case "stringTokenType":
				for _, el := range cl.Elts {
					kv := el.(*ast.KeyValueExpr)
					v, ok := kv.Value.(*ast.Ident)
					if !ok {
						fail("%s: stringTokenType: unexpected value", tok)
						continue
					}
					sttRows = append(sttRows, fmt.Sprintf("(%d, %q)", env.intOf(kv.Key, tok), v.Name))
				}
			}
		}
	}
	if len(kwRows) < 100 {
		fail("%s: keywords map not found or too small (%d)", tok, len(kwRows))
	}
	if len(sttRows) == 0 {
		fail("%s: stringTokenType not found", tok)
	}
	lf.def("keywords", "List (String × String)", "[\n  "+strings.Join(kwRows, ",\n  ")+"]", "token.go `keywords`: keyword → token name (source order; keys are distinct and ASCII – checked by the extractor)")
	lf.def("stringTokenType", "List (Nat × String)", "["+strings.Join(sttRows, ", ")+"]", "token.go `stringTokenType`: quote character → token name")

	eofV := env.vals["eofChar"]
	if eofV == nil {
		fail("%s: eofChar not found", tok)
		return
	}
	eof, _ := constant.Uint64Val(eofV)
	lf.def("eofChar", "Nat", fmt.Sprint(eof), "token.go const eofChar")

	// ---- character classes, evaluated for ch = 0 … eofChar ----
	evalFn := func(name string, ch uint64) constant.Value {
		fd := funcDecl(tok, "", name)
		if fd == nil || len(fd.Type.Params.List) < 1 {
			return nil
		}
		e := &evalEnv{consts: env, vars: map[string]constant.Value{fd.Type.Params.List[0].Names[0].Name: constant.MakeUint64(ch)}, where: tok + ": " + name}
		v := e.body(fd.Body.List)
		if v == nil && !e.bad {
			fail("%s: %s: no value for ch = %d", tok, name, ch)
		}
		return v
	}
	var letters, digits, dvals, blanks []uint64
	for ch := uint64(0); ch <= eof; ch++ {
		if v := evalFn("isLetter", ch); v != nil && constant.BoolVal(v) {
			letters = append(letters, ch)
		}
		if v := evalFn("isDigit", ch); v != nil && constant.BoolVal(v) {
			digits = append(digits, ch)
		}
		if v := evalFn("digitVal", ch); v != nil {
			u, _ := constant.Uint64Val(constant.ToInt(v))
			dvals = append(dvals, u)
		}
		if len(failed) > 0 {
			return
		}
	}
	lf.def("letterChars", "List Nat", natList(letters), "isLetter(ch) holds exactly for these ch in 0 … eofChar")
	lf.def("digitChars", "List Nat", natList(digits), "isDigit(ch) holds exactly for these ch in 0 … eofChar")
	lf.def("digitVals", "List Nat", natList(dvals), "digitVal(ch) for ch = 0 … eofChar (index = ch)")
	// skipBlank: `ch := tkn.lastChar; for COND { tkn.next(); ch = tkn.lastChar }`
	if fd := funcDecl(tok, "Tokenizer", "skipBlank"); fd != nil {
		var loop *ast.ForStmt
		for _, st := range fd.Body.List {
			if f, ok := st.(*ast.ForStmt); ok {
				loop = f
			}
		}
		if loop == nil || loop.Init != nil || loop.Post != nil || loop.Cond == nil || len(loop.Body.List) != 2 || !isCallTo(loop.Body.List[0], "next") {
			fail("%s: skipBlank: loop shape changed", tok)
		} else {
			for ch := uint64(0); ch <= eof; ch++ {
				e := &evalEnv{consts: env, vars: map[string]constant.Value{"ch": constant.MakeUint64(ch)}, where: tok + ": skipBlank"}
				if v := e.expr(loop.Cond); v != nil && constant.BoolVal(v) {
					blanks = append(blanks, ch)
				}
			}
		}
	}
	lf.def("blankChars", "List Nat", natList(blanks), "skipBlank skips exactly these ch")
	// isCarat shape
	if fd := funcDecl(tok, "", "isCarat"); fd != nil {
		shape := ""
		if len(fd.Body.List) == 1 {
			if r, ok := fd.Body.List[0].(*ast.ReturnStmt); ok && len(r.Results) == 1 {
				shape = renderExpr(r.Results[0])
			}
		}
		lf.def("caratShape", "String", strconv.Quote(shape), "isCarat: the returned expression")
	}

	// ---- Scan: case lists of the inner switch, simple tokens, letter prefixes, comment prefixes ----
	// Scan is a loop around scanToken (one round); before the repair of the recursion it was the round itself
	scanFn := "Scan"
	scanLoop := ""
	for _, d := range tf.Decls {
		if fd, ok := d.(*ast.FuncDecl); ok && fd.Name.Name == "scanToken" && fd.Recv != nil {
			scanFn = "scanToken"
		}
	}
	if scanFn == "scanToken" {
		if fd := funcDecl(tok, "Tokenizer", "Scan"); fd != nil {
			scanLoop = renderStmts(fd.Body.List)
		}
	}
	lf.def("scanLoopShape", "String", strconv.Quote(scanLoop), "Tokenizer.Scan when it is a loop around scanToken (\"\" = Scan is the round itself and scanMySQLSpecificComment re-enters it recursively)")
	rescanNeg := false
	for _, d := range tf.Decls {
		if gd, ok := d.(*ast.GenDecl); ok && gd.Tok == token.CONST {
			for _, sp := range gd.Specs {
				vs := sp.(*ast.ValueSpec)
				if len(vs.Names) == 1 && vs.Names[0].Name == "rescan" && len(vs.Values) == 1 {
					if ue, ok := vs.Values[0].(*ast.UnaryExpr); ok && ue.Op == token.SUB {
						if bl, ok := ue.X.(*ast.BasicLit); ok && bl.Kind == token.INT && bl.Value != "0" {
							rescanNeg = true
						}
					}
				}
			}
		}
	}
	lf.def("rescanIsNegative", "Bool", boolStr(rescanNeg), "const rescan < 0: the start-over marker is no token type")
	if fd := funcDecl(tok, "Tokenizer", scanFn); fd != nil {
		var outer *ast.SwitchStmt
		for _, st := range fd.Body.List {
			if s, ok := st.(*ast.SwitchStmt); ok {
				outer = s
			}
		}
		if outer == nil {
			fail("%s: Scan: outer switch not found", tok)
			return
		}
		var outerConds []string
		var inner *ast.SwitchStmt
		var letterCase *ast.CaseClause
		for _, c := range outer.Body.List {
			cc := c.(*ast.CaseClause)
			if cc.List == nil {
				outerConds = append(outerConds, "default")
				if len(cc.Body) == 2 && isCallTo(cc.Body[0], "next") {
					inner, _ = cc.Body[1].(*ast.SwitchStmt)
				}
				continue
			}
			r := renderExpr(cc.List[0])
			outerConds = append(outerConds, r)
			if r == "isLetter(ch)" {
				letterCase = cc
			}
		}
		lf.def("scanOuterCases", "List String", strList(outerConds), "Scan: conditions of the outer `switch ch := tkn.lastChar; {` in order")
		if inner == nil {
			fail("%s: Scan: default clause is no longer `tkn.next(); switch ch {…}`", tok)
			return
		}
		var caseRows []string
		var simple []uint64
		var c1 []string
		for _, c := range inner.Body.List {
			cc := c.(*ast.CaseClause)
			var chars []uint64
			for _, ce := range cc.List {
				chars = append(chars, env.intOf(ce, tok))
			}
			if cc.List == nil {
				caseRows = append(caseRows, "[]")
			} else {
				caseRows = append(caseRows, natList(chars))
			}
			if len(cc.Body) == 1 {
				if r, ok := cc.Body[0].(*ast.ReturnStmt); ok && len(r.Results) == 2 && renderExpr(r.Results[0]) == "int(ch)" && renderExpr(r.Results[1]) == "nil" {
					simple = append(simple, chars...)
				}
			}
			ast.Inspect(cc, func(n ast.Node) bool {
				if ce, ok := n.(*ast.CallExpr); ok {
					if se, ok := ce.Fun.(*ast.SelectorExpr); ok && se.Sel.Name == "scanCommentType1" && len(ce.Args) == 1 {
						if bl, ok := ce.Args[0].(*ast.BasicLit); ok {
							c1 = append(c1, bl.Value)
						}
					}
				}
				return true
			})
		}
		lf.def("scanCaseChars", "List (List Nat)", "["+strings.Join(caseRows, ", ")+"]", "Scan: case lists of the inner `switch ch` in order ([] = default)")
		lf.def("simpleTokens", "List Nat", natList(simple), "Scan: characters whose clause is just `return int(ch), nil`")
		lf.def("lineCommentPrefixes", "List String", "["+strings.Join(c1, ", ")+"]", "Scan: arguments of the scanCommentType1 calls in order")
		// letter case: if ch == 'X' || ch == 'x' { if tkn.lastChar == '\'' { tkn.next(); return tkn.scanHex() } }
		var prefRows []string
		if letterCase != nil {
			for _, st := range letterCase.Body {
				ifs, ok := st.(*ast.IfStmt)
				if !ok || len(ifs.Body.List) != 1 {
					continue
				}
				in, ok := ifs.Body.List[0].(*ast.IfStmt)
				if !ok || len(in.Body.List) != 2 || !isCallTo(in.Body.List[0], "next") {
					continue
				}
				be, ok := in.Cond.(*ast.BinaryExpr)
				if !ok || be.Op != token.EQL || renderExpr(be.X) != "tkn.lastChar" {
					continue
				}
				ret, ok := in.Body.List[1].(*ast.ReturnStmt)
				if !ok || len(ret.Results) != 1 {
					continue
				}
				var chars []uint64
				for ch := uint64(0); ch <= eof; ch++ {
					e := &evalEnv{consts: env, vars: map[string]constant.Value{"ch": constant.MakeUint64(ch)}, where: tok + ": Scan letter prefix"}
					if v := e.expr(ifs.Cond); v != nil && constant.BoolVal(v) {
						chars = append(chars, ch)
					}
				}
				prefRows = append(prefRows, fmt.Sprintf("(%s, %d, %q)", natList(chars), env.intOf(be.Y, tok), renderExpr(ret.Results[0])))
			}
		}
		if len(prefRows) == 0 {
			fail("%s: Scan: no letter-prefix literal blocks found", tok)
		}
		lf.def("letterPrefixes", "List (List Nat × Nat × String)", "["+strings.Join(prefRows, ", ")+"]", "Scan, letter case: (first characters, required next character, call made after consuming it)")
	}
	// ---- scanMantissa bases per scanner ----
	var baseRows []string
	for _, fn := range []string{"scanHex", "scanBitLiteral", "scanNumber"} {
		fd := funcDecl(tok, "Tokenizer", fn)
		if fd == nil {
			continue
		}
		var bases []uint64
		ast.Inspect(fd, func(n ast.Node) bool {
			if ce, ok := n.(*ast.CallExpr); ok {
				if se, ok := ce.Fun.(*ast.SelectorExpr); ok && se.Sel.Name == "scanMantissa" && len(ce.Args) == 2 {
					bases = append(bases, env.intOf(ce.Args[0], tok))
				}
			}
			return true
		})
		baseRows = append(baseRows, fmt.Sprintf("(%q, %s)", fn, natList(bases)))
	}
	lf.def("mantissaBases", "List (String × List Nat)", "["+strings.Join(baseRows, ", ")+"]", "constant bases of the scanMantissa calls of each scanner, in source order")
	// ---- block comment prefixes ----
	var blockRows []string
	for _, fn := range []string{"scanCommentType2", "scanMySQLSpecificComment"} {
		fd := funcDecl(tok, "Tokenizer", fn)
		if fd == nil {
			continue
		}
		pref := ""
		ast.Inspect(fd, func(n ast.Node) bool {
			if ce, ok := n.(*ast.CallExpr); ok {
				if se, ok := ce.Fun.(*ast.SelectorExpr); ok && se.Sel.Name == "WriteString" && len(ce.Args) == 1 && pref == "" {
					if bl, ok := ce.Args[0].(*ast.BasicLit); ok {
						pref, _ = strconv.Unquote(bl.Value)
					}
				}
			}
			return true
		})
		if pref == "" {
			fail("%s: %s: buffer prefix not found", tok, fn)
		}
		blockRows = append(blockRows, fmt.Sprintf("(%q, %q)", fn, pref))
	}
	lf.def("blockCommentPrefixes", "List (String × String)", "["+strings.Join(blockRows, ", ")+"]", "what the block comment scanners write into the buffer before the loop")
	// consumeNext panics on EOF
	if fd := funcDecl(tok, "Tokenizer", "consumeNext"); fd != nil {
		guard := false
		if len(fd.Body.List) >= 1 {
			if ifs, ok := fd.Body.List[0].(*ast.IfStmt); ok && renderExpr(ifs.Cond) == "tkn.lastChar == eofChar" {
				for _, st := range ifs.Body.List {
					if es, ok := st.(*ast.ExprStmt); ok {
						if ce, ok := es.X.(*ast.CallExpr); ok {
							if id, ok := ce.Fun.(*ast.Ident); ok && id.Name == "panic" {
								guard = true
							}
						}
					}
				}
			}
		}
		lf.def("consumeNextPanicsAtEof", "Bool", boolStr(guard), "consumeNext: `if tkn.lastChar == eofChar { panic(…) }`")
	}

	// ---- quote handlers ----
	quoteTable := func(rel, fn string, ansi *bool) []uint64 {
		fd := funcDecl(rel, "QuoteHandler", fn)
		if fd == nil {
			return nil
		}
		cenv := newConstEnv(rel)
		recv := "handler"
		if fd.Recv != nil && len(fd.Recv.List[0].Names) == 1 {
			recv = fd.Recv.List[0].Names[0].Name
		}
		var out []uint64
		for b := uint64(0); b < 256; b++ {
			vars := map[string]constant.Value{}
			if len(fd.Type.Params.List) == 1 {
				vars[fd.Type.Params.List[0].Names[0].Name] = constant.MakeUint64(b)
			}
			if ansi != nil {
				vars[recv+".ansiQuotes"] = constant.MakeBool(*ansi)
			}
			e := &evalEnv{consts: cenv, vars: vars, where: rel + ": " + fn}
			v := e.body(fd.Body.List)
			if v == nil {
				if !e.bad {
					fail("%s: %s: no value", rel, fn)
				}
				return nil
			}
			if v.Kind() == constant.Bool {
				if constant.BoolVal(v) {
					out = append(out, b)
				}
			} else {
				u, _ := constant.Uint64Val(constant.ToInt(v))
				return []uint64{u}
			}
		}
		return out
	}
	yes, no := true, false
	const myq = "sqlparser/dialect/mysql/quoteHandler.go"
	const pgq = "sqlparser/dialect/postgresql/quoteHandler.go"
	one := func(xs []uint64) string {
		if len(xs) != 1 {
			return "0"
		}
		return fmt.Sprint(xs[0])
	}
	lf.def("mysqlIdentQuotes", "List Nat", natList(quoteTable(myq, "IsIdentifierQuote", &no)), "MySQL (ansiQuotes = false): bytes for which IsIdentifierQuote holds")
	lf.def("mysqlStrQuotes", "List Nat", natList(quoteTable(myq, "IsStringLiteralQuote", &no)), "MySQL (ansiQuotes = false): bytes for which IsStringLiteralQuote holds")
	lf.def("mysqlIdentQuote", "Nat", one(quoteTable(myq, "GetIdentifierQuote", &no)), "MySQL (ansiQuotes = false): GetIdentifierQuote()")
	lf.def("ansiIdentQuotes", "List Nat", natList(quoteTable(myq, "IsIdentifierQuote", &yes)), "MySQL (ansiQuotes = true): bytes for which IsIdentifierQuote holds")
	lf.def("ansiStrQuotes", "List Nat", natList(quoteTable(myq, "IsStringLiteralQuote", &yes)), "MySQL (ansiQuotes = true): bytes for which IsStringLiteralQuote holds")
	lf.def("ansiIdentQuote", "Nat", one(quoteTable(myq, "GetIdentifierQuote", &yes)), "MySQL (ansiQuotes = true): GetIdentifierQuote()")
	lf.def("pgIdentQuotes", "List Nat", natList(quoteTable(pgq, "IsIdentifierQuote", nil)), "PostgreSQL: bytes for which IsIdentifierQuote holds")
	lf.def("pgStrQuotes", "List Nat", natList(quoteTable(pgq, "IsStringLiteralQuote", nil)), "PostgreSQL: bytes for which IsStringLiteralQuote holds")
	lf.def("pgIdentQuote", "Nat", one(quoteTable(pgq, "GetIdentifierQuote", nil)), "PostgreSQL: GetIdentifierQuote()")
	// which quote handler a dialect hands out
	if fd := funcDecl("sqlparser/dialect/mysql/dialect.go", "MySQLDialect", "QuoteHandler"); fd != nil {
		lf.def("mysqlQuoteHandlerShape", "String", strconv.Quote(renderStmts(fd.Body.List)), "MySQLDialect.QuoteHandler body")
	}
	if fd := funcDecl("sqlparser/dialect/postgresql/dialect.go", "PostgreSQLDialect", "QuoteHandler"); fd != nil {
		lf.def("pgQuoteHandlerShape", "String", strconv.Quote(renderStmts(fd.Body.List)), "PostgreSQLDialect.QuoteHandler body")
	}

	// ---- ExtractMysqlComment ----
	const com = "sqlparser/comments.go"
	if fd := funcDecl(com, "", "ExtractMysqlComment"); fd != nil {
		cenv := newConstEnv(com)
		var lo, hiOff, limit uint64
		handled := false
		shapeOK := false
		ast.Inspect(fd, func(n ast.Node) bool {
			switch t := n.(type) {
			case *ast.AssignStmt:
				// sql = sql[3 : len(sql)-2]
				if len(t.Lhs) == 1 && len(t.Rhs) == 1 && renderExpr(t.Lhs[0]) == "sql" {
					if se, ok := t.Rhs[0].(*ast.SliceExpr); ok && renderExpr(se.X) == "sql" && se.Low != nil && se.High != nil {
						if be, ok := se.High.(*ast.BinaryExpr); ok && be.Op == token.SUB && renderExpr(be.X) == "len(sql)" {
							lo, hiOff = cenv.intOf(se.Low, com), cenv.intOf(be.Y, com)
							shapeOK = true
						}
					}
				}
			case *ast.BinaryExpr:
				if t.Op == token.EQL && renderExpr(t.X) == "digitCount" {
					limit = cenv.intOf(t.Y, com)
				}
			case *ast.IfStmt:
				// if endOfVersionIndex < 0 { endOfVersionIndex = len(sql) }
				if renderExpr(t.Cond) == "endOfVersionIndex < 0" && len(t.Body.List) == 1 && renderStmts(t.Body.List) == "endOfVersionIndex = len(sql)" {
					handled = true
				}
			}
			return true
		})
		if !shapeOK || limit == 0 {
			fail("%s: ExtractMysqlComment: shape changed", com)
		}
		src := renderStmts(fd.Body.List)
		for _, need := range []string{"endOfVersionIndex := strings.IndexFunc(sql, func(c rune) bool {", "digitCount++", "return !unicode.IsDigit(c) || digitCount == ", "version = sql[0:endOfVersionIndex]", "innerSQL = strings.TrimFunc(sql[endOfVersionIndex:], unicode.IsSpace)"} {
			if !strings.Contains(src, need) {
				fail("%s: ExtractMysqlComment: expected `%s`", com, need)
			}
		}
		lf.def("versionCommentLo", "Nat", fmt.Sprint(lo), "ExtractMysqlComment: sql = sql[LO : len(sql)-HI]")
		lf.def("versionCommentHi", "Nat", fmt.Sprint(hiOff), "ExtractMysqlComment: sql = sql[LO : len(sql)-HI]")
		lf.def("versionDigitLimit", "Nat", fmt.Sprint(limit), "ExtractMysqlComment: the version ends at the first non-digit or at this many runes")
		lf.def("versionOnlyHandled", "Bool", boolStr(handled), "ExtractMysqlComment: `if endOfVersionIndex < 0 { endOfVersionIndex = len(sql) }` present (a comment holding only version digits)")
	}
	// scanMySQLSpecificComment builds the nested tokenizer with NewStringTokenizer (default dialect) and re-enters Scan
	if fd := funcDecl(tok, "Tokenizer", "scanMySQLSpecificComment"); fd != nil {
		src := renderStmts(fd.Body.List)
		tail := ""
		if i := strings.Index(src, "_, sql := "); i >= 0 {
			tail = src[i:]
		}
		lf.def("specialCommentTail", "String", strconv.Quote(tail), "scanMySQLSpecificComment: the statements after the comment loop")
	}

	// ---- unicode tables of the standard library ----
	rows := func(rt *unicode.RangeTable) string {
		var r []string
		for _, x := range rt.R16 {
			r = append(r, fmt.Sprintf("(%d, %d, %d)", x.Lo, x.Hi, x.Stride))
		}
		for _, x := range rt.R32 {
			r = append(r, fmt.Sprintf("(%d, %d, %d)", x.Lo, x.Hi, x.Stride))
		}
		return "[" + strings.Join(r, ", ") + "]"
	}
	lf.def("unicodeNd", "List (Nat × Nat × Nat)", rows(unicode.Nd), "unicode.Nd (= unicode.Digit) of the Go toolchain: (lo, hi, stride)")
	lf.def("unicodeWhiteSpace", "List (Nat × Nat × Nat)", rows(unicode.White_Space), "unicode.White_Space of the Go toolchain: (lo, hi, stride)")
	var l1s, l1d []uint64
	for r := rune(0); r <= unicode.MaxLatin1; r++ {
		if unicode.IsSpace(r) {
			l1s = append(l1s, uint64(r))
		}
		if unicode.IsDigit(r) {
			l1d = append(l1d, uint64(r))
		}
	}
	sort.Slice(l1s, func(i, j int) bool { return l1s[i] < l1s[j] })
	lf.def("latin1Spaces", "List Nat", natList(l1s), "unicode.IsSpace on U+0000 … U+00FF")
	lf.def("latin1Digits", "List Nat", natList(l1d), "unicode.IsDigit on U+0000 … U+00FF")
}

func isCallTo(st ast.Stmt, method string) bool {
	es, ok := st.(*ast.ExprStmt)
	if !ok {
		return false
	}
	ce, ok := es.X.(*ast.CallExpr)
	if !ok {
		return false
	}
	se, ok := ce.Fun.(*ast.SelectorExpr)
	return ok && se.Sel.Name == method
}

func renderExpr(e ast.Expr) string { return render(e) }

func renderStmts(stmts []ast.Stmt) string {
	var out []string
	for _, s := range stmts {
		out = append(out, render(s))
	}
	return strings.Join(out, "; ")
}
