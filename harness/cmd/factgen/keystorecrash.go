package main

import (
	"bytes"
	"flag"
	"go/ast"
	"os"
	"path/filepath"
	"strconv"
	"strings"
)

// KeystoreCrash: shapes the C08 models of import, ring-handle transactions and the key-rotation tool
// rely on.
//
//	keystore/v2/keystore/filesystem/keyRing.go, export.go  – pushTX / popTX balance of every handle write
//	keystore/filesystem/filesystem_backup.go               – storage calls of KeyBackuper.Import
//	cmd/acra-rotate/fileRotation.go, rotator.go            – order of "rewrite data" and "save new keys"
//
// It also copies the file-rotation half of cmd/acra-rotate (package main, not importable) verbatim –
// only the package clause is changed – into harness/internal/rotatetool, so that the harness compiles
// and runs the tool's current functions.
func init() { generators = append(generators, genKeystoreCrash) }

// countCalls counts calls of the method `name` (any receiver) in a node.
func countCalls(n ast.Node, name string) int {
	c := 0
	ast.Inspect(n, func(n ast.Node) bool {
		if call, ok := n.(*ast.CallExpr); ok {
			if sel, ok := call.Fun.(*ast.SelectorExpr); ok && sel.Sel.Name == name {
				c++
			}
		}
		return true
	})
	return c
}

// pushPop: number of pushTX calls of a handle write and number of popTX calls in its `if err != nil` block
// that follows syncKeyRing.
func pushPop(rel, fn string) (push, pop int, ok bool) {
	fd := funcDecl(rel, "KeyRing", fn)
	if fd == nil {
		return 0, 0, false
	}
	push = countCalls(fd.Body, "pushTX")
	syncs := countCalls(fd.Body, "syncKeyRing")
	var errBlocks []*ast.IfStmt
	for _, st := range fd.Body.List {
		if is, isIf := st.(*ast.IfStmt); isIf {
			if be, isBin := is.Cond.(*ast.BinaryExpr); isBin {
				if id, isID := be.X.(*ast.Ident); isID && id.Name == "err" && countCalls(is.Body, "popTX") > 0 {
					errBlocks = append(errBlocks, is)
				}
			}
		}
	}
	if syncs != 1 || len(errBlocks) != 1 || push == 0 {
		fail("%s: %s is not `pushTX…; err := syncKeyRing; if err != nil { popTX… }` (pushTX %d, syncKeyRing %d, error blocks %d)", rel, fn, push, syncs, len(errBlocks))
		return 0, 0, false
	}
	pop = countCalls(errBlocks[0].Body, "popTX")
	if countCalls(fd.Body, "popTX") != pop {
		fail("%s: %s calls popTX outside its error block", rel, fn)
		return 0, 0, false
	}
	return push, pop, true
}

// callsWithDepth lists, in source order, the calls of fn whose selector name is in `want`, prefixed with
// the number of enclosing `for` statements ("2:ReadFile").
func callsWithDepth(fd *ast.FuncDecl, want map[string]bool) []string {
	var out []string
	var walk func(n ast.Node, depth int)
	walk = func(n ast.Node, depth int) {
		ast.Inspect(n, func(m ast.Node) bool {
			switch t := m.(type) {
			case *ast.RangeStmt:
				if m == n {
					return true
				}
				walk(t.X, depth)
				walk(t.Body, depth+1)
				return false
			case *ast.ForStmt:
				if m == n {
					return true
				}
				walk(t.Body, depth+1)
				return false
			case *ast.CallExpr:
				if sel, ok := t.Fun.(*ast.SelectorExpr); ok && want[sel.Sel.Name] {
					// arguments first (source order of evaluation is close enough: none of the wanted calls nest)
					out = append(out, strconv.Itoa(depth)+":"+sel.Sel.Name)
				}
			}
			return true
		})
	}
	walk(fd.Body, 0)
	return out
}

func genKeystoreCrash() {
	lf := newLean("KeystoreCrash", "Sources: keystore/v2/keystore/filesystem/{keyRing.go,export.go}, keystore/filesystem/filesystem_backup.go, cmd/acra-rotate/{fileRotation.go,rotator.go}.")
	const ring = "keystore/v2/keystore/filesystem/keyRing.go"
	const export = "keystore/v2/keystore/filesystem/export.go"
	var rows []string
	for _, e := range [][2]string{{ring, "setCurrent"}, {ring, "changeKeyState"}, {ring, "addKey"}, {ring, "destroyKey"}, {export, "importASN1"}} {
		if push, pop, ok := pushPop(e[0], e[1]); ok {
			rows = append(rows, "("+strconv.Quote(e[1])+", "+strconv.Itoa(push)+", "+strconv.Itoa(pop)+")")
		}
	}
	lf.def("v2TxPushPop", "List (String × Nat × Nat)", "["+strings.Join(rows, ", ")+"]",
		ring+", "+export+": per handle write – transactions pushed before syncKeyRing, transactions popped when it fails")

	// KeyBackuper.Import: storage calls (and clean-ups of the temporary file) in source order
	const backup = "keystore/filesystem/filesystem_backup.go"
	var imp []string
	storageCalls := func(fn string) {
		fd := funcDecl(backup, "KeyBackuper", fn)
		if fd == nil {
			return
		}
		ast.Inspect(fd.Body, func(n ast.Node) bool {
			if call, ok := n.(*ast.CallExpr); ok {
				if sel, ok := call.Fun.(*ast.SelectorExpr); ok {
					if x, ok := sel.X.(*ast.SelectorExpr); ok && x.Sel.Name == "storage" {
						imp = append(imp, fn+"."+sel.Sel.Name)
					}
					if sel.Sel.Name == "removeTemporary" {
						imp = append(imp, fn+".<cleanup>")
					}
				}
			}
			return true
		})
	}
	storageCalls("Import")
	lf.def("v1ImportCalls", "List String", strList(imp), backup+": storage calls of KeyBackuper.Import in source order (<cleanup> = removal of the temporary file on an error path)")

	// acra-rotate, file variant
	const frot = "cmd/acra-rotate/fileRotation.go"
	const rot = "cmd/acra-rotate/rotator.go"
	if fd := funcDecl(frot, "", "rotateFiles"); fd != nil {
		order := callsWithDepth(fd, map[string]bool{"getRotatedPublicKey": true, "ReadFile": true, "rotateAcrastruct": true, "Stat": true, "WriteFile": true, "saveRotatedKeys": true, "saveRotatedKey": true, "Rename": true})
		lf.def("rotateFilesCalls", "List String", strList(order), frot+": rotateFiles – calls in source order, prefixed with their loop depth (1 = per key id, 2 = per file)")
		// is the error of saveRotatedKeys returned to the caller?
		returned := false
		ast.Inspect(fd.Body, func(n ast.Node) bool {
			if is, ok := n.(*ast.IfStmt); ok && is.Init != nil && countCalls(is.Init, "saveRotatedKeys") > 0 {
				ast.Inspect(is.Body, func(m ast.Node) bool {
					if _, ok := m.(*ast.ReturnStmt); ok {
						returned = true
					}
					return true
				})
			}
			return true
		})
		lf.def("rotateSaveErrorReturned", "Bool", boolStr(returned), frot+": rotateFiles returns when saveRotatedKeys fails (false: the error is only logged and the tool reports success)")
	}
	if fd := funcDecl(rot, "keyRotator", "getRotatedPublicKey"); fd != nil {
		lf.def("rotateKeySavedWhenGenerated", "Bool", boolStr(countCalls(fd.Body, "saveRotatedKey") > 0), rot+": getRotatedPublicKey saves the new key pair as soon as it is generated")
	}

	// verbatim copy of the file-rotation half of the tool for the harness
	outFlag := flag.Lookup("out")
	if outFlag == nil {
		fail("factgen: no -out flag")
		return
	}
	dst := filepath.Join(outFlag.Value.String(), "..", "..", "..", "harness", "internal", "rotatetool")
	if _, err := os.Stat(filepath.Join(dst, "..")); err != nil {
		return // not running inside the framework's tree (unit use of factgen): no copy
	}
	os.MkdirAll(dst, 0o755)
	for _, name := range []string{"fileRotation.go", "rotator.go", "idFileMap.go"} {
		src, err := os.ReadFile(filepath.Join(repo, "cmd", "acra-rotate", name))
		if err != nil {
			fail("cmd/acra-rotate/%s: %v", name, err)
			continue
		}
		if bytes.Count(src, []byte("\npackage main\n")) != 1 {
			fail("cmd/acra-rotate/%s: expected exactly one `package main` clause", name)
			continue
		}
		out := append([]byte("// Code generated by /verif/harness/cmd/factgen from /repo/cmd/acra-rotate/"+name+" (only the package clause differs). DO NOT EDIT.\n\n"),
			bytes.Replace(src, []byte("\npackage main\n"), []byte("\npackage rotatetool\n"), 1)...)
		path := filepath.Join(dst, "zz_"+name)
		if old, err := os.ReadFile(path); err == nil && bytes.Equal(old, out) {
			continue
		}
		if err := os.WriteFile(path, out, 0o644); err != nil {
			fail("rotatetool copy: %v", err)
		}
	}
}
