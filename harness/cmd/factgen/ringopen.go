package main

import (
	"fmt"
	"go/ast"
	"go/token"
	"os"
	"path/filepath"
	"sort"
	"strconv"
	"strings"
)

// RingOpen (C07): the shape of the READ-WRITE open of a v2 key ring that the model
// KeystoreSec/RingOpen.lean follows line by line –
//
//   - `openKeyRing`: what follows `err = s.pullRingUpdates(ring)`: the guard under which an empty
//     ring is pushed (comparison operator AND sentinel, as a postfix token list the model evaluates for
//     every load error), what the guarded branch returns, what the unguarded one returns;
//   - `pullRingUpdates` / `verifyKeyRing` / `Notary.Verify`: the steps in order, which of them return
//     their error (and which only log it);
//   - `writeKeyRing`, `importKeyRing`: the same for the two other paths that lead to a push;
//   - who calls `openKeyRing`, `pushNewRingState`, `pushASNring`, `Backend.Put/Rename` in the package;
//   - the table of every method of the v2 `ServerKeyStore` that opens a ring read-write, with the ring
//     path expression and whether the open is the method's first action and its error is returned.
func init() { generators = append(generators, genRingOpen) }

// roText renders a node on one line (comments are not part of the AST rendering).
func roText(n ast.Node) string {
	return strings.Join(strings.Fields(ksCreateText(n)), " ")
}

// roIsLogStmt: an expression statement that only logs (`log.…`, `s.log.…`, `b.log.…`).
func roIsLogStmt(st ast.Stmt) bool {
	es, ok := st.(*ast.ExprStmt)
	if !ok {
		return false
	}
	c, ok := es.X.(*ast.CallExpr)
	if !ok {
		return false
	}
	name := calleeName(c.Fun)
	return strings.HasPrefix(name, "log.") || strings.HasPrefix(name, "s.log.") || strings.HasPrefix(name, "b.log.")
}

// roStmt renders a statement on one line with every log statement dropped, at any nesting depth.
func roStmt(st ast.Stmt) string {
	switch t := st.(type) {
	case *ast.BlockStmt:
		return "{ " + roStmts(t.List) + " }"
	case *ast.IfStmt:
		s := "if "
		if t.Init != nil {
			s += roStmt(t.Init) + "; "
		}
		s += roText(t.Cond) + " " + roStmt(t.Body)
		if t.Else != nil {
			s += " else " + roStmt(t.Else)
		}
		return s
	case *ast.DeferStmt:
		if fl, ok := t.Call.Fun.(*ast.FuncLit); ok {
			return "defer func() " + roStmt(fl.Body)
		}
	}
	return roText(st)
}

func roStmts(list []ast.Stmt) string {
	var out []string
	for _, st := range roNoLog(list) {
		out = append(out, roStmt(st))
	}
	return strings.Join(out, "; ")
}

func roNoLog(list []ast.Stmt) []ast.Stmt {
	var out []ast.Stmt
	for _, st := range list {
		if !roIsLogStmt(st) {
			out = append(out, st)
		}
	}
	return out
}

// roImportPath resolves a package alias of a file to its import path ("" when unknown).
func roImportPath(f *ast.File, alias string) string {
	for _, im := range f.Imports {
		p, _ := strconv.Unquote(im.Path.Value)
		name := filepath.Base(p)
		if im.Name != nil {
			name = im.Name.Name
		}
		if name == alias {
			return p
		}
	}
	return ""
}

const roBackendAPI = "github.com/cossacklabs/acra/keystore/v2/keystore/filesystem/backend/api"

// roSentinel names an error value the way the model's `sentinelOf` expects: the bare name for the
// errors of the back-end API, `<pkg>.<Name>` for anything else.
func roSentinel(f *ast.File, e ast.Expr) (string, bool) {
	switch t := e.(type) {
	case *ast.SelectorExpr:
		id, ok := t.X.(*ast.Ident)
		if !ok {
			return "", false
		}
		if roImportPath(f, id.Name) == roBackendAPI {
			return t.Sel.Name, true
		}
		return id.Name + "." + t.Sel.Name, true
	case *ast.Ident:
		if t.Name == "nil" {
			return "", false
		}
		return t.Name, true
	}
	return "", false
}

// roGuardTokens translates a condition over the variable `errVar` into postfix tokens:
// "==:<sentinel>", "!=:<sentinel>", "||", "&&", "!". ok=false when the condition has any other shape.
func roGuardTokens(f *ast.File, e ast.Expr, errVar string) ([]string, bool) {
	switch t := e.(type) {
	case *ast.ParenExpr:
		return roGuardTokens(f, t.X, errVar)
	case *ast.UnaryExpr:
		if t.Op != token.NOT {
			return nil, false
		}
		x, ok := roGuardTokens(f, t.X, errVar)
		return append(x, "!"), ok
	case *ast.BinaryExpr:
		switch t.Op {
		case token.LOR, token.LAND:
			x, ok1 := roGuardTokens(f, t.X, errVar)
			y, ok2 := roGuardTokens(f, t.Y, errVar)
			op := "||"
			if t.Op == token.LAND {
				op = "&&"
			}
			return append(append(x, y...), op), ok1 && ok2
		case token.EQL, token.NEQ:
			lhs, rhs := t.X, t.Y
			if id, ok := rhs.(*ast.Ident); ok && id.Name == errVar {
				lhs, rhs = rhs, lhs
			}
			id, ok := lhs.(*ast.Ident)
			if !ok || id.Name != errVar {
				return nil, false
			}
			s, ok := roSentinel(f, rhs)
			if !ok {
				return nil, false
			}
			return []string{t.Op.String() + ":" + s}, true
		}
	case *ast.CallExpr:
		// errors.Is(err, X)
		if calleeName(t.Fun) == "errors.Is" && len(t.Args) == 2 {
			if id, ok := t.Args[0].(*ast.Ident); ok && id.Name == errVar {
				if s, ok := roSentinel(f, t.Args[1]); ok {
					return []string{"==:" + s}, true
				}
			}
		}
	}
	return nil, false
}

// roAfterCall finds the top-level statement `… = <callee>(…)` (callee name ends with `callee`) in a
// statement list and returns its index.
func roAssignCallIndex(list []ast.Stmt, callee string) int {
	for i, st := range list {
		as, ok := st.(*ast.AssignStmt)
		if !ok || len(as.Rhs) != 1 {
			continue
		}
		if c, ok := as.Rhs[0].(*ast.CallExpr); ok && strings.HasSuffix(calleeName(c.Fun), callee) {
			return i
		}
	}
	return -1
}

// roErrCheck describes the statement that follows a call: "return" when it is `if err != nil { … return …, err }`
// (log statements ignored), "log-only" when it is `if err != nil { <only log statements> }`, "none" otherwise.
func roErrCheck(next ast.Stmt) string {
	is, ok := next.(*ast.IfStmt)
	if !ok || is.Init != nil || roText(is.Cond) != "err != nil" {
		return "none"
	}
	body := roNoLog(is.Body.List)
	if len(body) == 0 {
		return "log-only"
	}
	if rs, ok := body[len(body)-1].(*ast.ReturnStmt); ok && len(rs.Results) > 0 {
		if id, ok := rs.Results[len(rs.Results)-1].(*ast.Ident); ok && id.Name == "err" {
			if len(body) == 1 {
				return "return"
			}
		}
	}
	return "other"
}

// roSteps lists, for each of the named calls assigned at the top level of a function body, the call and how its
// error is treated by the next statement.
func roSteps(fd *ast.FuncDecl, callees ...string) []string {
	var out []string
	if fd == nil || fd.Body == nil {
		return out
	}
	list := fd.Body.List
	for i, st := range list {
		as, ok := st.(*ast.AssignStmt)
		if !ok || len(as.Rhs) != 1 {
			continue
		}
		c, ok := as.Rhs[0].(*ast.CallExpr)
		if !ok {
			continue
		}
		name := calleeName(c.Fun)
		keep := false
		for _, k := range callees {
			if strings.HasSuffix(name, k) {
				keep = true
			}
		}
		if !keep {
			continue
		}
		how := "none"
		if i+1 < len(list) {
			how = roErrCheck(list[i+1])
		}
		out = append(out, name+":"+how)
	}
	return out
}

func genRingOpen() {
	lf := newLean("RingOpen", "Sources: keystore/v2/keystore/filesystem/{keyStoreLoad.go, keyStore.go, export.go}, keystore/v2/keystore/signature/notary.go, keystore/v2/keystore/*.go (ServerKeyStore), keystore/v2/keystore/filesystem/backend/api/backend.go.")
	const fsdir = "keystore/v2/keystore/filesystem/"
	strs := func(name string, xs []string, src string) { lf.def(name, "List String", strList(xs), src) }
	str := func(name, x, src string) { lf.def(name, "String", strconv.Quote(x), src) }

	// ---- openKeyRing: the guard of the create branch
	loadFile := parseFile(fsdir + "keyStoreLoad.go")
	open := funcDecl(fsdir+"keyStoreLoad.go", "KeyStore", "openKeyRing")
	if open == nil || open.Body == nil || loadFile == nil {
		fail("%skeyStoreLoad.go: openKeyRing not found", fsdir)
		return
	}
	list := open.Body.List
	pi := roAssignCallIndex(list, "s.pullRingUpdates")
	if pi < 0 || pi+2 >= len(list)+1 {
		fail("%skeyStoreLoad.go: openKeyRing no longer assigns the result of s.pullRingUpdates at its top level", fsdir)
		return
	}
	if roText(list[pi]) != "err = s.pullRingUpdates(ring)" {
		fail("%skeyStoreLoad.go: openKeyRing: unexpected pull statement %q", fsdir, roText(list[pi]))
	}
	// every top-level statement before the pull, rendered (lock + deferred unlock); log statements dropped
	var before []string
	for _, st := range roNoLog(list[:pi]) {
		before = append(before, roStmt(st))
	}
	strs("openBeforePull", before, fsdir+"keyStoreLoad.go: openKeyRing – top-level statements before the pull (log statements dropped at every depth)")

	errIf, ok := list[pi+1].(*ast.IfStmt)
	if !ok || errIf.Init != nil || roText(errIf.Cond) != "err != nil" || errIf.Else != nil {
		fail("%skeyStoreLoad.go: openKeyRing: the pull is no longer followed by a plain `if err != nil { … }`", fsdir)
		return
	}
	body := roNoLog(errIf.Body.List)
	if len(body) != 2 {
		fail("%skeyStoreLoad.go: openKeyRing: the error branch of the pull no longer consists of the create guard and a return (has %d statements)", fsdir, len(body))
		return
	}
	guard, ok := body[0].(*ast.IfStmt)
	if !ok || guard.Init != nil || guard.Else != nil {
		fail("%skeyStoreLoad.go: openKeyRing: first statement of the error branch is not a plain if", fsdir)
		return
	}
	toks, ok := roGuardTokens(loadFile, guard.Cond, "err")
	if !ok {
		fail("%skeyStoreLoad.go: openKeyRing: the create guard %q is not a boolean combination of comparisons of err with error values", fsdir, roText(guard.Cond))
		return
	}
	var tb strings.Builder
	tb.WriteString("[")
	for i, t := range toks {
		if i > 0 {
			tb.WriteString(", ")
		}
		op, arg := t, ""
		if j := strings.Index(t, ":"); j >= 0 {
			op, arg = t[:j], t[j+1:]
		}
		fmt.Fprintf(&tb, "(%q, %q)", op, arg)
	}
	tb.WriteString("]")
	lf.def("openCreateGuard", "List (String × String)", tb.String(), fsdir+"keyStoreLoad.go: openKeyRing – the condition (over the error of the pull) under which an empty ring is pushed, in postfix form: (`==`, error value), (`!=`, error value), (`||`, \"\"), (`&&`, \"\"), (`!`, \"\"); error values of the back-end API by bare name, others as `<pkg>.<Name>`")
	var gb []string
	for _, st := range roNoLog(guard.Body.List) {
		gb = append(gb, roStmt(st))
	}
	strs("openCreateBranch", gb, fsdir+"keyStoreLoad.go: openKeyRing – statements of the guarded branch (log statements dropped)")
	str("openErrorReturn", roStmt(body[1]), fsdir+"keyStoreLoad.go: openKeyRing – what the error branch does when the guard is false")
	var after []string
	for _, st := range roNoLog(list[pi+2:]) {
		after = append(after, roStmt(st))
	}
	strs("openAfterPull", after, fsdir+"keyStoreLoad.go: openKeyRing – top-level statements after the error branch of the pull")

	// ---- pull / verify / notary: steps and which errors are returned
	pull := funcDecl(fsdir+"keyStoreLoad.go", "KeyStore", "pullRingUpdates")
	strs("pullSteps", roSteps(pull, "s.fetchASNring", "s.verifyKeyRing", "ring.loadASN1"), fsdir+"keyStoreLoad.go: pullRingUpdates – `<call>:<how the next statement treats its error>` (return = `if err != nil { return err }`)")
	strs("pullVerifyArgs", callArgs(pull, "s.verifyKeyRing", 1), fsdir+"keyStoreLoad.go: pullRingUpdates – second argument of verifyKeyRing (the path that becomes the signature context)")
	strs("pullFetchArgs", callArgs(pull, "s.fetchASNring", 0), fsdir+"keyStoreLoad.go: pullRingUpdates – argument of fetchASNring")

	verify := funcDecl(fsdir+"keyStore.go", "KeyStore", "verifyKeyRing")
	strs("verifySteps", roSteps(verify, "s.notary.Verify", "asn1.UnmarshalKeyRing"), fsdir+"keyStore.go: verifyKeyRing – `<call>:<error treatment>` (the error of UnmarshalKeyRing is only logged)")
	var vconds []string
	if verify != nil && verify.Body != nil {
		for _, st := range verify.Body.List {
			is, ok := st.(*ast.IfStmt)
			if !ok {
				continue
			}
			b := roNoLog(is.Body.List)
			ret := ""
			if len(b) > 0 {
				ret = roStmt(b[len(b)-1])
			}
			vconds = append(vconds, roText(is.Cond)+" => "+ret)
		}
		strs("verifyContextCalls", callSeq(verify, "keyRingSignatureContext"), fsdir+"keyStore.go: verifyKeyRing – where the signature context comes from")
		strs("verifyContextArg", callArgs(verify, "s.keyRingSignatureContext", 0), fsdir+"keyStore.go: verifyKeyRing – argument of keyRingSignatureContext")
		strs("verifyNotaryArgs", append(callArgs(verify, "s.notary.Verify", 0), callArgs(verify, "s.notary.Verify", 1)...), fsdir+"keyStore.go: verifyKeyRing – arguments of notary.Verify")
	}
	strs("verifyChecks", vconds, fsdir+"keyStore.go: verifyKeyRing – every top-level if: `<condition> => <last non-log statement of its body>` (empty = only logs)")

	notary := funcDecl("keystore/v2/keystore/signature/notary.go", "Notary", "Verify")
	strs("notaryVerifySteps", roSteps(notary, "asn1.UnmarshalVerifiedContainer", "s.verifySignatures"), "keystore/v2/keystore/signature/notary.go: Notary.Verify – `<call>:<error treatment>`")
	strs("notaryVerifySigArgs", append(append(callArgs(notary, "s.verifySignatures", 0), callArgs(notary, "s.verifySignatures", 1)...), callArgs(notary, "s.verifySignatures", 2)...), "keystore/v2/keystore/signature/notary.go: Notary.Verify – arguments of verifySignatures (signatures, the raw payload bytes, context)")

	// ---- the two other ways to a push
	write := funcDecl(fsdir+"keyStoreLoad.go", "KeyStore", "writeKeyRing")
	strs("writeSteps", roSteps(write, "s.pullRingUpdates", "ring.applyPendingTX", "s.pushNewRingState"), fsdir+"keyStoreLoad.go: writeKeyRing – `<call>:<error treatment>`")
	read := funcDecl(fsdir+"keyStoreLoad.go", "KeyStore", "readKeyRing")
	strs("readSteps", roSteps(read, "s.pullRingUpdates"), fsdir+"keyStoreLoad.go: readKeyRing – `<call>:<error treatment>`")

	imp := funcDecl(fsdir+"export.go", "KeyStore", "importKeyRing")
	expFile := parseFile(fsdir + "export.go")
	if imp != nil && imp.Body != nil && expFile != nil {
		ri := roAssignCallIndex(imp.Body.List, "s.readKeyRing")
		var sw *ast.SwitchStmt
		if ri >= 0 && ri+1 < len(imp.Body.List) {
			sw, _ = imp.Body.List[ri+1].(*ast.SwitchStmt)
		}
		if sw == nil || sw.Tag == nil || roText(sw.Tag) != "err" {
			fail("%sexport.go: importKeyRing: readKeyRing is no longer followed by `switch err`", fsdir)
		} else {
			var cases, openCases []string
			for _, cc := range sw.Body.List {
				c := cc.(*ast.CaseClause)
				label := "default"
				if len(c.List) > 0 {
					var ls []string
					for _, e := range c.List {
						if id, ok := e.(*ast.Ident); ok && id.Name == "nil" {
							ls = append(ls, "nil")
						} else if s, ok := roSentinel(expFile, e); ok {
							ls = append(ls, s)
						} else {
							ls = append(ls, "?"+roText(e))
						}
					}
					label = strings.Join(ls, ",")
				}
				cases = append(cases, label)
				opens := false
				for _, st := range c.Body {
					ast.Inspect(st, func(n ast.Node) bool {
						if ce, ok := n.(*ast.CallExpr); ok && calleeName(ce.Fun) == "s.openKeyRing" {
							opens = true
						}
						return true
					})
				}
				if opens {
					openCases = append(openCases, label)
				}
				if label == "default" {
					var ds []string
					for _, st := range roNoLog(c.Body) {
						ds = append(ds, roStmt(st))
					}
					strs("importDefaultCase", ds, fsdir+"export.go: importKeyRing – body of the default case of `switch err` after readKeyRing")
				}
			}
			strs("importSwitchCases", cases, fsdir+"export.go: importKeyRing – case labels of `switch err` after readKeyRing, in source order")
			strs("importOpenCases", openCases, fsdir+"export.go: importKeyRing – the case labels whose body calls s.openKeyRing")
		}
	}

	// ---- who reaches a push inside package filesystem (non-test files)
	entries, err := os.ReadDir(filepath.Join(repo, fsdir))
	if err != nil {
		fail("%s: %v", fsdir, err)
		return
	}
	watched := []string{"s.openKeyRing", "s.pushNewRingState", "s.pushASNring", "s.fs.Put", "s.fs.Rename", "s.fs.RenameNX"}
	var callers []string
	for _, e := range entries {
		if e.IsDir() || !strings.HasSuffix(e.Name(), ".go") || strings.HasSuffix(e.Name(), "_test.go") {
			continue
		}
		f := parseFile(fsdir + e.Name())
		if f == nil {
			continue
		}
		for _, d := range f.Decls {
			fd, ok := d.(*ast.FuncDecl)
			if !ok || fd.Body == nil {
				continue
			}
			for _, c := range callSeq(fd, watched...) {
				c = strings.TrimPrefix(c, "defer:")
				for _, w := range watched {
					if c == w {
						callers = append(callers, funcName(fd)+">"+c)
					}
				}
			}
		}
	}
	sort.Strings(callers)
	strs("pushCallers", callers, fsdir+"*.go (not tests): every `<function>><callee>` with callee one of openKeyRing, pushNewRingState, pushASNring, Backend.Put/Rename/RenameNX (sorted)")

	// ---- error values of the back-end API
	apiFile := parseFile(fsdir + "backend/api/backend.go")
	var sentinels []string
	if apiFile != nil {
		for _, d := range apiFile.Decls {
			gd, ok := d.(*ast.GenDecl)
			if !ok || gd.Tok != token.VAR {
				continue
			}
			for _, s := range gd.Specs {
				vs := s.(*ast.ValueSpec)
				for i, n := range vs.Names {
					if i < len(vs.Values) {
						if c, ok := vs.Values[i].(*ast.CallExpr); ok && calleeName(c.Fun) == "errors.New" && strings.HasPrefix(n.Name, "Err") {
							sentinels = append(sentinels, n.Name)
						}
					}
				}
			}
		}
	}
	strs("backendErrors", sentinels, fsdir+"backend/api/backend.go: the error values of the back-end API")

	// ---- every method of the v2 ServerKeyStore that opens a ring read-write
	const ksdir = "keystore/v2/keystore/"
	kentries, err := os.ReadDir(filepath.Join(repo, ksdir))
	if err != nil {
		fail("%s: %v", ksdir, err)
		return
	}
	type row struct{ file, method, path, shape string }
	var rows []row
	rwMethods := map[string]bool{}
	var decls []*ast.FuncDecl
	for _, e := range kentries {
		if e.IsDir() || !strings.HasSuffix(e.Name(), ".go") || strings.HasSuffix(e.Name(), "_test.go") {
			continue
		}
		f := parseFile(ksdir + e.Name())
		if f == nil {
			continue
		}
		for _, d := range f.Decls {
			fd, ok := d.(*ast.FuncDecl)
			if !ok || fd.Body == nil {
				continue
			}
			decls = append(decls, fd)
			n := 0
			ast.Inspect(fd.Body, func(m ast.Node) bool {
				if c, ok := m.(*ast.CallExpr); ok && strings.HasSuffix(calleeName(c.Fun), ".OpenKeyRingRW") {
					n++
				}
				return true
			})
			if n == 0 {
				continue
			}
			r := row{file: e.Name(), method: funcName(fd), shape: "other"}
			if fd.Recv == nil || len(fd.Recv.List) != 1 || recvName(fd.Recv.List[0].Type) != "ServerKeyStore" {
				r.shape = "not-a-ServerKeyStore-method"
			}
			oi := roAssignCallIndex(fd.Body.List, "s.OpenKeyRingRW")
			if n == 1 && oi >= 0 && r.shape == "other" {
				as := fd.Body.List[oi].(*ast.AssignStmt)
				call := as.Rhs[0].(*ast.CallExpr)
				if len(call.Args) == 1 {
					r.path = roText(call.Args[0])
				}
				onlyLogBefore := true
				for _, st := range fd.Body.List[:oi] {
					a, ok := st.(*ast.AssignStmt)
					if !ok || len(a.Lhs) != 1 || calleeName(a.Lhs[0]) != "log" {
						onlyLogBefore = false
					}
				}
				if onlyLogBefore && oi+1 < len(fd.Body.List) && roText(as.Lhs[len(as.Lhs)-1]) == "err" {
					is, ok := fd.Body.List[oi+1].(*ast.IfStmt)
					if ok && is.Init == nil && roText(is.Cond) == "err != nil" {
						b := roNoLog(is.Body.List)
						if len(b) == 1 {
							if rs, ok := b[0].(*ast.ReturnStmt); ok && len(rs.Results) > 0 {
								if id, ok := rs.Results[len(rs.Results)-1].(*ast.Ident); ok && id.Name == "err" {
									r.shape = "open-first-return-err"
								}
							}
						}
					}
				}
			}
			rows = append(rows, r)
			rwMethods[fd.Name.Name] = true
		}
	}
	if len(rows) == 0 {
		fail("%s: no method opens a key ring read-write any more", ksdir)
	}
	sort.Slice(rows, func(i, j int) bool { return rows[i].method < rows[j].method })
	var b strings.Builder
	b.WriteString("[")
	for i, r := range rows {
		if i > 0 {
			b.WriteString(",")
		}
		fmt.Fprintf(&b, "\n  (%q, %q, %q, %q)", r.file, r.method, r.path, r.shape)
	}
	b.WriteString("]")
	lf.def("rwEntryPoints", "List (String × String × String × String)", b.String(), ksdir+"*.go (not tests): every function that calls OpenKeyRingRW, sorted by name: (file, function, ring path expression, shape); shape `open-first-return-err` = the open is the first action (only `log := …` before it) and is followed by `if err != nil { … return …, err }`")
	// unexported read-write methods and the exported methods that reach them
	var reach []string
	for _, fd := range decls {
		seen := map[string]bool{}
		ast.Inspect(fd.Body, func(m ast.Node) bool {
			c, ok := m.(*ast.CallExpr)
			if !ok {
				return true
			}
			se, ok := c.Fun.(*ast.SelectorExpr)
			if !ok {
				return true
			}
			if id, ok := se.X.(*ast.Ident); ok && id.Name == "s" && rwMethods[se.Sel.Name] && !ast.IsExported(se.Sel.Name) && !seen[se.Sel.Name] {
				seen[se.Sel.Name] = true
				reach = append(reach, funcName(fd)+">"+se.Sel.Name)
			}
			return true
		})
	}
	sort.Strings(reach)
	strs("rwInternalCallers", reach, ksdir+"*.go (not tests): `<function>><unexported read-write method it calls>` (sorted)")
}
