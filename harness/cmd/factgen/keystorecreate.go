package main

import (
	"bytes"
	"go/ast"
	"go/printer"
)

// KeystoreCreate: the shape of ring creation in the v2 file-system key store that the C17 model
// (KeystoreSec/Concurrent.lean, `Op.open`) follows: `OpenKeyRingRW` = fresh handle object
// (`newKeyRing`: no keys, `Current: asn1.NoKey`) + `openKeyRing`; `openKeyRing` takes the EXCLUSIVE lock
// first, pulls the ring under it and pushes the new (empty) ring only inside
// `if err != nil { if err == backend.ErrNotExist { … } }` of that pull – check and create under one lock.
func init() { generators = append(generators, genKeystoreCreate) }

func ksCreateText(n ast.Node) string {
	var b bytes.Buffer
	if err := printer.Fprint(&b, fset, n); err != nil {
		return "?"
	}
	return b.String()
}

// enclosingIfConds returns the conditions of the `if` statements enclosing the first call whose callee
// name contains `callee`, outermost first; ok=false when there is no such call. An `else` branch is
// rendered as "else(<cond>)".
func enclosingIfConds(fd *ast.FuncDecl, callee string) (conds []string, ok bool) {
	if fd == nil || fd.Body == nil {
		return nil, false
	}
	var walk func(n ast.Node, stack []string) bool
	walk = func(n ast.Node, stack []string) bool {
		found := false
		ast.Inspect(n, func(m ast.Node) bool {
			if found || m == nil {
				return false
			}
			switch t := m.(type) {
			case *ast.IfStmt:
				if t.Init != nil && walk(t.Init, stack) {
					found = true
					return false
				}
				if walk(t.Cond, stack) {
					found = true
					return false
				}
				if walk(t.Body, append(append([]string{}, stack...), ksCreateText(t.Cond))) {
					found = true
					return false
				}
				if t.Else != nil && walk(t.Else, append(append([]string{}, stack...), "else("+ksCreateText(t.Cond)+")")) {
					found = true
					return false
				}
				return false
			case *ast.CallExpr:
				if name := calleeName(t.Fun); len(name) >= len(callee) && bytes.Contains([]byte(name), []byte(callee)) {
					conds, ok, found = stack, true, true
					return false
				}
			}
			return true
		})
		return found
	}
	walk(fd.Body, nil)
	return conds, ok
}

func genKeystoreCreate() {
	lf := newLean("KeystoreCreate", "Sources: keystore/v2/keystore/filesystem/{keyStore.go, keyRing.go, keyStoreLoad.go}.")
	const fsdir = "keystore/v2/keystore/filesystem/"
	strs := func(name string, xs []string, src string) { lf.def(name, "List String", strList(xs), src) }

	open := funcDecl(fsdir+"keyStoreLoad.go", "KeyStore", "openKeyRing")
	// every lock operation and every read / write cycle openKeyRing goes through, in source order
	strs("openCycleCalls", callSeq(open, "Lock", "Unlock", "pullRingUpdates", "pushNewRingState", "pushASNring", "fetchASNring",
		"readKeyRing", "writeKeyRing", "syncKeyRing", "applyPendingTX", "s.fs."), fsdir+"keyStoreLoad.go: openKeyRing – locks and read/write cycles in source order")
	conds, ok := enclosingIfConds(open, "pushNewRingState")
	if !ok {
		fail("%skeyStoreLoad.go: openKeyRing no longer calls pushNewRingState", fsdir)
	}
	strs("openCreateGuard", conds, fsdir+"keyStoreLoad.go: openKeyRing – conditions of the if statements enclosing the pushNewRingState call, outermost first")
	// what the guarded `err` is: the assignments to err in openKeyRing, in source order
	strs("openErrAssigns", assignments(open, "err"), fsdir+"keyStoreLoad.go: openKeyRing – assignments to err in source order")

	strs("openKeyRingRWCalls", callSeq(funcDecl(fsdir+"keyStore.go", "KeyStore", "OpenKeyRingRW"), "newKeyRing", "KeyRing"), fsdir+"keyStore.go: OpenKeyRingRW")
	strs("openKeyRingROCalls", callSeq(funcDecl(fsdir+"keyStore.go", "KeyStore", "OpenKeyRing"), "newKeyRing", "KeyRing"), fsdir+"keyStore.go: OpenKeyRing")

	// the ring data of a fresh handle object
	nk := funcDecl(fsdir+"keyRing.go", "", "newKeyRing")
	var fields []string
	found := false
	if nk != nil {
		ast.Inspect(nk.Body, func(n ast.Node) bool {
			cl, ok := n.(*ast.CompositeLit)
			if !ok || found {
				return !found
			}
			if se, ok := cl.Type.(*ast.SelectorExpr); ok && se.Sel.Name == "KeyRing" {
				found = true
				for _, el := range cl.Elts {
					if kv, ok := el.(*ast.KeyValueExpr); ok {
						fields = append(fields, ksCreateText(kv.Key)+"="+ksCreateText(kv.Value))
					}
				}
				return false
			}
			return true
		})
	}
	if !found {
		fail("%skeyRing.go: newKeyRing no longer builds an asn1.KeyRing literal", fsdir)
	}
	strs("newKeyRingData", fields, fsdir+"keyRing.go: newKeyRing – fields of the asn1.KeyRing literal of a fresh handle")
}
