package main

import (
	"fmt"
	"go/ast"
	"go/constant"
	"go/token"
	"strconv"
)

// Token: pseudonymization/{random.go,tokenizer.go,dataTokenizer.go}, pseudonymization/common/tokenTypes.pb.go.
//
// charset, TLD tables, the short-buffer threshold and the negative-length guard of randomEmail, the
// retry bound, the data-id delimiter / labels / record prefixes, the numeric TokenType codes and the
// bit size DataTokenizer hands to strconv.ParseInt for each integer token type.
func init() { generators = append(generators, genToken) }

// varStringList evaluates `X = []string{"a", "b"}` declared in a var block of a file.
func varStringList(env *constEnv, rel, name string) []string {
	f := parseFile(rel)
	if f == nil {
		return nil
	}
	for _, d := range f.Decls {
		gd, ok := d.(*ast.GenDecl)
		if !ok || gd.Tok != token.VAR {
			continue
		}
		for _, s := range gd.Specs {
			vs := s.(*ast.ValueSpec)
			for i, n := range vs.Names {
				if n.Name != name || i >= len(vs.Values) {
					continue
				}
				cl, ok := vs.Values[i].(*ast.CompositeLit)
				if !ok {
					fail("%s: var %s is not a composite literal", rel, name)
					return nil
				}
				var out []string
				for _, e := range cl.Elts {
					v := env.eval(e)
					if v == nil || v.Kind() != constant.String {
						fail("%s: var %s: element is not a string constant", rel, name)
						return nil
					}
					out = append(out, constant.StringVal(v))
				}
				return out
			}
		}
	}
	fail("%s: var %s not found", rel, name)
	return nil
}

// byteSliceOfStringConv recognises `[]byte(`lit`)` and returns lit.
func byteSliceOfStringConv(e ast.Expr) (string, bool) {
	c, ok := e.(*ast.CallExpr)
	if !ok || len(c.Args) != 1 {
		return "", false
	}
	at, ok := c.Fun.(*ast.ArrayType)
	if !ok || at.Len != nil {
		return "", false
	}
	if id, ok := at.Elt.(*ast.Ident); !ok || id.Name != "byte" {
		return "", false
	}
	bl, ok := c.Args[0].(*ast.BasicLit)
	if !ok || bl.Kind != token.STRING {
		return "", false
	}
	s, err := strconv.Unquote(bl.Value)
	if err != nil {
		return "", false
	}
	return s, true
}

func genToken() {
	lf := newLean("Token", "Sources: pseudonymization/random.go, tokenizer.go, dataTokenizer.go, common/tokenTypes.pb.go.")
	const rnd = "pseudonymization/random.go"
	const tok = "pseudonymization/tokenizer.go"
	const dtk = "pseudonymization/dataTokenizer.go"
	const pb = "pseudonymization/common/tokenTypes.pb.go"

	// ---- random.go
	env := newConstEnv(rnd)
	lf.def("charset", "String", strconv.Quote(strConst(env, rnd, "charset")), rnd+": charset")
	generic := varStringList(env, rnd, "genericTLDs")
	cc := varStringList(env, rnd, "ccTLDs")
	lf.def("genericTLDs", "List String", strList(generic), rnd+": genericTLDs")
	lf.def("ccTLDs", "List String", strList(cc), rnd+": ccTLDs")
	// allTLDs = append(genericTLDs, ccTLDs...)
	allOK := false
	if f := parseFile(rnd); f != nil {
		ast.Inspect(f, func(n ast.Node) bool {
			vs, ok := n.(*ast.ValueSpec)
			if !ok || len(vs.Names) != 1 || vs.Names[0].Name != "allTLDs" || len(vs.Values) != 1 {
				return true
			}
			if c, ok := vs.Values[0].(*ast.CallExpr); ok && len(c.Args) == 2 && c.Ellipsis.IsValid() {
				a0, ok0 := c.Args[0].(*ast.Ident)
				a1, ok1 := c.Args[1].(*ast.Ident)
				fn, ok2 := c.Fun.(*ast.Ident)
				allOK = ok0 && ok1 && ok2 && fn.Name == "append" && a0.Name == "genericTLDs" && a1.Name == "ccTLDs"
			}
			return true
		})
	}
	if !allOK {
		fail("%s: allTLDs is no longer append(genericTLDs, ccTLDs...)", rnd)
	}
	// randomEmail: `if len(buf) < len("…") { tlds = ccTLDs }`, the guard `if nonTLDlen < 0 { return randomString(buf) }`,
	// `buf[nonTLDlen/2] = '@'`
	var threshold uint64
	guard := false
	atHalf := false
	if fd := funcDecl(rnd, "", "randomEmail"); fd != nil {
		for _, st := range fd.Body.List {
			switch s := st.(type) {
			case *ast.IfStmt:
				be, ok := s.Cond.(*ast.BinaryExpr)
				if !ok || be.Op != token.LSS {
					continue
				}
				if isLenOf(be.X, "buf") {
					threshold = env.intOf(be.Y, rnd)
					continue
				}
				if id, ok := be.X.(*ast.Ident); ok && id.Name == "nonTLDlen" && env.eval(be.Y) != nil && env.intOf(be.Y, rnd) == 0 && len(s.Body.List) == 1 {
					if r, ok := s.Body.List[0].(*ast.ReturnStmt); ok && len(r.Results) == 1 {
						if c, ok := r.Results[0].(*ast.CallExpr); ok && len(c.Args) == 1 {
							fn, ok1 := c.Fun.(*ast.Ident)
							a, ok2 := c.Args[0].(*ast.Ident)
							guard = ok1 && ok2 && fn.Name == "randomString" && a.Name == "buf"
						}
					}
				}
			case *ast.AssignStmt:
				// buf[nonTLDlen/2] = '@'
				if ix, ok := s.Lhs[0].(*ast.IndexExpr); ok {
					if be, ok := ix.Index.(*ast.BinaryExpr); ok && be.Op == token.QUO {
						if id, ok := be.X.(*ast.Ident); ok && id.Name == "nonTLDlen" && env.eval(be.Y) != nil && env.intOf(be.Y, rnd) == 2 {
							if bl, ok := s.Rhs[0].(*ast.BasicLit); ok && bl.Value == "'@'" {
								atHalf = true
							}
						}
					}
				}
			}
		}
		if threshold == 0 {
			fail("%s: randomEmail: `if len(buf) < K` not found", rnd)
		}
		if !atHalf {
			fail("%s: randomEmail: `buf[nonTLDlen/2] = '@'` not found", rnd)
		}
	}
	lf.def("shortEmailThreshold", "Nat", fmt.Sprint(threshold), rnd+": randomEmail chooses among ccTLDs only when len(buf) < this")
	lf.def("emailNegativeGuard", "Bool", boolStr(guard), rnd+": randomEmail has `if nonTLDlen < 0 { return randomString(buf) }` before slicing")

	// ---- tokenizer.go
	tenv := newConstEnv(tok)
	if v, ok := tenv.vals["defaultDataGenerationLoopLimit"]; ok {
		lf.def("loopLimit", "Nat", v.ExactString(), tok+": defaultDataGenerationLoopLimit")
	} else {
		fail("%s: defaultDataGenerationLoopLimit not found", tok)
	}
	// dataIDDelim = []byte(`…`)
	delim := ""
	if f := parseFile(tok); f != nil {
		ast.Inspect(f, func(n ast.Node) bool {
			vs, ok := n.(*ast.ValueSpec)
			if ok && len(vs.Names) == 1 && vs.Names[0].Name == "dataIDDelim" && len(vs.Values) == 1 {
				if s, ok := byteSliceOfStringConv(vs.Values[0]); ok {
					delim = s
				}
			}
			return true
		})
	}
	if delim == "" {
		fail("%s: dataIDDelim not found", tok)
	}
	lf.def("dataIDDelim", "String", strconv.Quote(delim), tok+": dataIDDelim")
	// generateDataID: the sequence of h.Write arguments, flattened:
	// Write(dataIDDelim), Write(data), if len(AdditionalContext) != 0 {Write(`zone`), Write(AdditionalContext)} else {Write(`client`), Write(ClientID)}, Write(dataIDDelim), Write([]byte(strconv.Itoa(int(dataType))))
	var seq []string
	writeArg := func(st ast.Stmt) (string, bool) {
		es, ok := st.(*ast.ExprStmt)
		if !ok {
			return "", false
		}
		c, ok := es.X.(*ast.CallExpr)
		if !ok || len(c.Args) != 1 {
			return "", false
		}
		sel, ok := c.Fun.(*ast.SelectorExpr)
		if !ok || sel.Sel.Name != "Write" {
			return "", false
		}
		switch a := c.Args[0].(type) {
		case *ast.Ident:
			return "var:" + a.Name, true
		case *ast.SelectorExpr:
			return "field:" + a.Sel.Name, true
		case *ast.CallExpr:
			if s, ok := byteSliceOfStringConv(a); ok {
				return "lit:" + s, true
			}
			// []byte(strconv.Itoa(int(dataType)))
			if len(a.Args) == 1 {
				if in, ok := a.Args[0].(*ast.CallExpr); ok {
					if s, ok := in.Fun.(*ast.SelectorExpr); ok && s.Sel.Name == "Itoa" {
						return "itoa:dataType", true
					}
				}
			}
		}
		return "?", true
	}
	if fd := funcDecl(tok, "pseudoanonymizer", "generateDataID"); fd != nil {
		for _, st := range fd.Body.List {
			if s, ok := writeArg(st); ok {
				seq = append(seq, s)
				continue
			}
			if ifs, ok := st.(*ast.IfStmt); ok {
				seq = append(seq, "if-additional")
				for _, b := range ifs.Body.List {
					if s, ok := writeArg(b); ok {
						seq = append(seq, s)
					}
				}
				seq = append(seq, "else")
				if eb, ok := ifs.Else.(*ast.BlockStmt); ok {
					for _, b := range eb.List {
						if s, ok := writeArg(b); ok {
							seq = append(seq, s)
						}
					}
				}
				seq = append(seq, "end")
			}
		}
	}
	lf.def("dataIDWrites", "List String", strList(seq), tok+": generateDataID – the h.Write sequence")
	prefix := func(fn string) string {
		fd := funcDecl(tok, "pseudoanonymizer", fn)
		out := ""
		if fd != nil {
			ast.Inspect(fd, func(n ast.Node) bool {
				if c, ok := n.(*ast.CallExpr); ok {
					if s, ok := byteSliceOfStringConv(c); ok {
						out = s
					}
				}
				return true
			})
		}
		if out == "" {
			fail("%s: %s: prefix literal not found", tok, fn)
		}
		return out
	}
	lf.def("hashPrefix", "String", strconv.Quote(prefix("generateKeyForHash")), tok+": generateKeyForHash")
	lf.def("tokenPrefix", "String", strconv.Quote(prefix("generateKeyForToken")), tok+": generateKeyForToken")

	// ---- token type codes
	penv := newConstEnv(pb)
	var codes []string
	for _, n := range []string{"TokenType_Int32", "TokenType_Int64", "TokenType_String", "TokenType_Bytes", "TokenType_Email"} {
		v, ok := penv.vals[n]
		if !ok {
			fail("%s: %s not found", pb, n)
			continue
		}
		codes = append(codes, fmt.Sprintf("(%s, %s)", strconv.Quote(n), v.ExactString()))
	}
	lf.def("tokenTypeCodes", "List (String × Nat)", "["+joinComma(codes)+"]", pb+": numeric values of the supported token types")

	// ---- dataTokenizer.go: bit size given to strconv.ParseInt per integer token type
	var bits []string
	for _, fn := range []string{"Tokenize", "Detokenize"} {
		fd := funcDecl(dtk, "DataTokenizer", fn)
		if fd == nil {
			continue
		}
		found := 0
		ast.Inspect(fd, func(n ast.Node) bool {
			cc, ok := n.(*ast.CaseClause)
			if !ok || len(cc.List) != 1 {
				return true
			}
			sel, ok := cc.List[0].(*ast.SelectorExpr)
			if !ok || (sel.Sel.Name != "TokenType_Int32" && sel.Sel.Name != "TokenType_Int64") {
				return true
			}
			for _, st := range cc.Body {
				ast.Inspect(st, func(m ast.Node) bool {
					c, ok := m.(*ast.CallExpr)
					if !ok || len(c.Args) != 3 {
						return true
					}
					if s, ok := c.Fun.(*ast.SelectorExpr); ok && s.Sel.Name == "ParseInt" {
						base := penv.intOf(c.Args[1], dtk)
						b := penv.intOf(c.Args[2], dtk)
						if base != 10 {
							fail("%s: %s %s: ParseInt base is %d", dtk, fn, sel.Sel.Name, base)
						}
						bits = append(bits, fmt.Sprintf("(%s, %s, %d)", strconv.Quote(fn), strconv.Quote(sel.Sel.Name), b))
						found++
					}
					return true
				})
			}
			return true
		})
		if found != 2 {
			fail("%s: %s: expected one strconv.ParseInt in each of the Int32/Int64 cases, found %d", dtk, fn, found)
		}
	}
	lf.def("parseIntBits", "List (String × String × Nat)", "["+joinComma(bits)+"]", dtk+": (method, token type, bitSize argument of strconv.ParseInt)")

	// ---- utils.go: decodeInt32 / decodeInt64 – the length a stored integer token value must have
	// (`if len(data) != K { return 0, <error> }` as the first statement; 0 = no such guard, then
	// binary.LittleEndian.UintNN panics on a shorter slice and ignores the bytes of a longer one)
	const utl = "pseudonymization/utils.go"
	uenv := newConstEnv(utl)
	var checks []string
	for _, name := range []string{"decodeInt32", "decodeInt64"} {
		fd := funcDecl(utl, "", name)
		if fd == nil {
			continue
		}
		k := uint64(0)
		if len(fd.Body.List) > 0 {
			if ifs, ok := fd.Body.List[0].(*ast.IfStmt); ok && ifs.Init == nil && ifs.Else == nil && len(ifs.Body.List) == 1 {
				be, isBin := ifs.Cond.(*ast.BinaryExpr)
				_, isRet := ifs.Body.List[0].(*ast.ReturnStmt)
				if isBin && isRet && be.Op == token.NEQ {
					if c, ok := be.X.(*ast.CallExpr); ok && len(c.Args) == 1 {
						fn, ok1 := c.Fun.(*ast.Ident)
						arg, ok2 := c.Args[0].(*ast.Ident)
						if ok1 && ok2 && fn.Name == "len" && arg.Name == "data" && uenv.eval(be.Y) != nil {
							k = uenv.intOf(be.Y, utl)
						}
					}
				}
			}
		}
		checks = append(checks, fmt.Sprintf("(%q, %d)", name, k))
	}
	lf.def("decodeIntLengthChecks", "List (String × Nat)", "["+joinComma(checks)+"]", utl+": K of the leading `if len(data) != K { return 0, err }` of decodeInt32 / decodeInt64 (0 = no length check)")
}

func joinComma(xs []string) string {
	out := ""
	for i, x := range xs {
		if i > 0 {
			out += ", "
		}
		out += x
	}
	return out
}
