package main

import (
	"bytes"
	"fmt"
	"go/ast"
	"go/printer"
	"strings"
)

// TranslatorOps: the shape of the eight encrypt/decrypt operations of AcraTranslator
// (cmd/acra-translator/common/service.go) that the model `Envelope/Translator.lean` relies on:
// how each operation tests the client id (`len(clientID) == 0` or `clientID == nil`), that it refuses
// an additional context, that both tests come before the first use of the key store / registry handler,
// which envelope handler it asks the registry for, which handler method it calls, and – for the
// searchable operations – that the hash is computed from / verified against the (de)crypted data with
// the HMAC key of the client id.
func init() { generators = append(generators, genTranslatorOps) }

func srcOf(n ast.Node) string {
	var b bytes.Buffer
	printer.Fprint(&b, fset, n)
	return strings.Join(strings.Fields(b.String()), " ")
}

// returnsError: the block ends in a return whose last result is not the identifier nil
func returnsError(b *ast.BlockStmt) bool {
	if len(b.List) == 0 {
		return false
	}
	r, ok := b.List[len(b.List)-1].(*ast.ReturnStmt)
	if !ok || len(r.Results) == 0 {
		return false
	}
	last := r.Results[len(r.Results)-1]
	if id, ok := last.(*ast.Ident); ok && id.Name == "nil" {
		return false
	}
	return true
}

func usesService(n ast.Node) bool {
	found := false
	ast.Inspect(n, func(x ast.Node) bool {
		if s, ok := x.(*ast.SelectorExpr); ok {
			t := srcOf(s)
			if strings.HasPrefix(t, "service.handler") || strings.HasPrefix(t, "service.data") || strings.HasPrefix(t, "service.poisonDetector") {
				found = true
			}
		}
		if c, ok := x.(*ast.CallExpr); ok && strings.HasPrefix(callName(c), "crypto.GetHandlerByEnvelopeID") {
			found = true
		}
		return !found
	})
	return found
}

func genTranslatorOps() {
	const rel = "cmd/acra-translator/common/service.go"
	lf := newLean("TranslatorOps", "Sources: "+rel+".")
	f := parseFile(rel)
	if f == nil {
		return
	}
	want := map[string]bool{"Encrypt": true, "Decrypt": true, "EncryptSym": true, "DecryptSym": true, "EncryptSearchable": true,
		"DecryptSearchable": true, "EncryptSymSearchable": true, "DecryptSymSearchable": true}
	var rows, sdec, senc []string
	seen := 0
	for _, d := range f.Decls {
		fd, ok := d.(*ast.FuncDecl)
		if !ok || fd.Recv == nil || recvName(fd.Recv.List[0].Type) != "TranslatorService" || !want[fd.Name.Name] {
			continue
		}
		seen++
		name := fd.Name.Name
		// top-level statements in order: the id test, the context test, then the first use of the service
		idCheck, ctxCheck, checksFirst := "", false, true
		usedService := false
		for _, st := range fd.Body.List {
			if ifs, ok := st.(*ast.IfStmt); ok && ifs.Init == nil {
				switch cond := srcOf(ifs.Cond); {
				case cond == "len(clientID) == 0" && returnsError(ifs.Body):
					idCheck = "len"
					checksFirst = checksFirst && !usedService
					continue
				case cond == "clientID == nil" && returnsError(ifs.Body):
					idCheck = "nil"
					checksFirst = checksFirst && !usedService
					continue
				case cond == "additionalContext != nil" && returnsError(ifs.Body):
					ctxCheck = true
					checksFirst = checksFirst && !usedService && idCheck != ""
					continue
				}
			}
			if _, isDefer := st.(*ast.DeferStmt); !isDefer && usesService(st) {
				usedService = true
			}
		}
		if idCheck == "" {
			fail("%s: %s: no top-level client-id test of a known form (len(clientID) == 0 / clientID == nil) that returns an error", rel, name)
		}
		if !ctxCheck {
			fail("%s: %s: no top-level `if additionalContext != nil` that returns an error", rel, name)
		}
		// registry handler
		var envs, calls []string
		appendsHash, verifiesHash, hashOfData, hmacKeyOfClient := false, false, false, false
		ast.Inspect(fd.Body, func(x ast.Node) bool {
			switch t := x.(type) {
			case *ast.CallExpr:
				switch cn := callName(t); {
				case cn == "crypto.GetHandlerByEnvelopeID" && len(t.Args) == 1:
					envs = append(envs, strings.TrimPrefix(srcOf(t.Args[0]), "crypto."))
				case strings.HasPrefix(cn, "service.handler."):
					calls = append(calls, strings.TrimPrefix(cn, "service.handler."))
				case cn == "hmac.GenerateHMAC" && len(t.Args) == 2 && srcOf(t.Args[1]) == "data":
					hashOfData = true
				case strings.HasSuffix(cn, ".GetHMACSecretKey") && len(t.Args) == 1 && srcOf(t.Args[0]) == "clientID":
					hmacKeyOfClient = true
				}
			case *ast.IfStmt:
				cond := srcOf(t.Cond)
				if cond == "hash != nil" && strings.Contains(srcOf(t.Body), "dataToDecrypt = append(hash, data...)") {
					appendsHash = true
				}
				if cond == "!hashPart.IsEqual(decrypted, clientID, service.data.Keystorage)" && returnsError(t.Body) {
					verifiesHash = true
				}
			}
			return true
		})
		if len(envs) != 1 {
			fail("%s: %s: expected exactly one crypto.GetHandlerByEnvelopeID call, found %d", rel, name, len(envs))
			envs = []string{"?"}
		}
		if len(calls) != 1 {
			fail("%s: %s: expected exactly one call of a service.handler method, found %v", rel, name, calls)
			calls = []string{"?"}
		}
		rows = append(rows, fmt.Sprintf("(%q, %q, %s, %q, %q)", name, idCheck, boolStr(ctxCheck && checksFirst), envs[0], calls[0]))
		if strings.HasPrefix(name, "Decrypt") && strings.HasSuffix(name, "Searchable") {
			sdec = append(sdec, fmt.Sprintf("(%q, %s, %s)", name, boolStr(appendsHash), boolStr(verifiesHash)))
		}
		if strings.HasPrefix(name, "Encrypt") && strings.HasSuffix(name, "Searchable") {
			senc = append(senc, fmt.Sprintf("(%q, %s)", name, boolStr(hashOfData && hmacKeyOfClient)))
		}
	}
	if seen != len(want) {
		fail("%s: expected the %d encrypt/decrypt methods of TranslatorService, found %d", rel, len(want), seen)
	}
	lf.def("ops", "List (String × String × Bool × String × String)", "["+strings.Join(rows, ", ")+"]",
		rel+": per operation (source order) – form of the client-id test (\"len\": len(clientID) == 0, \"nil\": clientID == nil), "+
			"whether `additionalContext != nil` is refused and both tests precede every use of the key store / handlers, "+
			"the envelope id passed to crypto.GetHandlerByEnvelopeID, the service.handler method called")
	lf.def("searchableDecrypts", "List (String × Bool × Bool)", "["+strings.Join(sdec, ", ")+"]",
		rel+": Decrypt*Searchable – `if hash != nil { dataToDecrypt = append(hash, data...) }` present; the decrypted data is verified with `!hashPart.IsEqual(decrypted, clientID, service.data.Keystorage)` ⇒ error")
	lf.def("searchableEncrypts", "List (String × Bool)", "["+strings.Join(senc, ", ")+"]",
		rel+": Encrypt*Searchable – the hash is hmac.GenerateHMAC(key, data) with the key from GetHMACSecretKey(clientID)")
}
