package main

import (
	"go/ast"
	"go/token"
	"sort"
	"strconv"
	"strings"
)

// KeystoreSys: the system-call level shape of the two storage primitives whose INTERNAL failures the C08
// models reason about (Keystore/SysFile.lean):
//
//	keystore/v2/keystore/filesystem/backend/filesystem.go  DirectoryBackend.Put  – MkdirAll, OpenFile(O_EXCL), Write,
//	    Sync, Close and the deferred clean-up (Close, Remove) that must leave no file behind when Put returns an error
//	keystore/filesystem/storage.go                         FileStorage.Copy      – Open, Stat, OpenFile(O_EXCL), io.Copy,
//	    Sync and the flow of `err`: is the error of every call tested (or returned) before `err` is assigned again
//
// For every error-returning call at the top level of the function body the extractor records the callee, the
// first argument AS WRITTEN (a variable name: the model distinguishes `path` from `fullPath`) and whether its
// error is "kept": followed by `if err != nil { … return … }` or flowing into a `return … err` before the next
// assignment to `err`. A small data-flow pass, not a pattern match on one statement: an error that is
// overwritten without having been tested is reported as not kept wherever it happens.
func init() { generators = append(generators, genKeystoreSys) }

type sysCall struct {
	callee, arg0 string
	kept         bool
}

// flattenCallee renders the callee of a call: "os.OpenFile", "file.Write", "b.osPath", "io.Copy".
func flattenCallee(e ast.Expr) string {
	switch t := e.(type) {
	case *ast.Ident:
		return t.Name
	case *ast.SelectorExpr:
		return flattenCallee(t.X) + "." + t.Sel.Name
	}
	return "?"
}

func firstArg(c *ast.CallExpr) string {
	if len(c.Args) == 0 {
		return ""
	}
	return ksCreateText(c.Args[0])
}

func mentionsIdent(n ast.Node, name string) bool {
	found := false
	ast.Inspect(n, func(m ast.Node) bool {
		if id, ok := m.(*ast.Ident); ok && id.Name == name {
			found = true
		}
		return !found
	})
	return found
}

// isErrNotNil: `err != nil`
func isErrNotNil(e ast.Expr) bool {
	be, ok := e.(*ast.BinaryExpr)
	if !ok || be.Op != token.NEQ {
		return false
	}
	x, okx := be.X.(*ast.Ident)
	y, oky := be.Y.(*ast.Ident)
	return okx && oky && x.Name == "err" && y.Name == "nil"
}

func endsWithReturn(b *ast.BlockStmt) bool {
	if b == nil || len(b.List) == 0 {
		return false
	}
	_, ok := b.List[len(b.List)-1].(*ast.ReturnStmt)
	return ok
}

// errFlow walks the top-level statements of a function body. It returns the error-returning calls in
// order, the number of them that precede the first `defer` statement, the deferred closure (nil if none),
// and, for every statement `<name> = nil`, the number of calls that precede it.
func errFlow(where string, fd *ast.FuncDecl) (calls []sysCall, deferAt int, deferred *ast.FuncLit, nilAssign map[string]int, defs [][2]string) {
	deferAt = -1
	nilAssign = map[string]int{}
	pending := -1
	test := func() {
		if pending >= 0 {
			calls[pending].kept = true
			pending = -1
		}
	}
	assign := func(lhs []ast.Expr, rhs []ast.Expr) {
		if len(rhs) != 1 {
			return
		}
		call, isCall := rhs[0].(*ast.CallExpr)
		toErr := false
		for _, l := range lhs {
			if id, ok := l.(*ast.Ident); ok && id.Name == "err" {
				toErr = true
			}
		}
		if isCall && toErr {
			// the previous error, if it has not been tested yet, is lost here
			pending = len(calls)
			calls = append(calls, sysCall{flattenCallee(call.Fun), firstArg(call), false})
			if id, ok := lhs[0].(*ast.Ident); ok && id.Name != "_" && id.Name != "err" {
				defs = append(defs, [2]string{id.Name, ksCreateText(rhs[0])})
			}
			return
		}
		if toErr {
			pending = -1 // err = <not a call>: nothing we track
			return
		}
		if id, ok := lhs[0].(*ast.Ident); ok && len(lhs) == 1 {
			if v, ok := rhs[0].(*ast.Ident); ok && v.Name == "nil" {
				nilAssign[id.Name] = len(calls)
				return
			}
			if isCall && id.Name != "log" {
				defs = append(defs, [2]string{id.Name, ksCreateText(rhs[0])})
			}
		}
	}
	if fd == nil || fd.Body == nil {
		return
	}
	for _, st := range fd.Body.List {
		switch t := st.(type) {
		case *ast.AssignStmt:
			// an error overwritten before it was tested stays "not kept"
			assign(t.Lhs, t.Rhs)
		case *ast.IfStmt:
			if t.Init != nil {
				if as, ok := t.Init.(*ast.AssignStmt); ok {
					assign(as.Lhs, as.Rhs)
				}
			}
			if isErrNotNil(t.Cond) && endsWithReturn(t.Body) && t.Else == nil {
				test()
			} else if mentionsIdent(t.Cond, "err") {
				fail("%s: an `if` on err that is not `if err != nil { …; return … }` – the error-flow pass does not understand it", where)
			}
		case *ast.ReturnStmt:
			for _, r := range t.Results {
				if mentionsIdent(r, "err") {
					test()
				}
			}
		case *ast.DeferStmt:
			if fl, ok := t.Call.Fun.(*ast.FuncLit); ok {
				if deferAt < 0 || deferred == nil {
					deferAt, deferred = len(calls), fl
				} else {
					deferAt, deferred = len(calls), fl // the LAST deferred closure is the one that guards the new file
				}
			}
		case *ast.ExprStmt, *ast.DeclStmt:
			// logging and the like
		default:
			if mentionsIdent(st, "err") {
				fail("%s: statement kind %T touches err – the error-flow pass does not understand it", where, st)
			}
		}
	}
	return
}

func openFlags(where string, fd *ast.FuncDecl) []string {
	var flags []string
	n := 0
	if fd != nil {
		ast.Inspect(fd.Body, func(m ast.Node) bool {
			call, ok := m.(*ast.CallExpr)
			if !ok || flattenCallee(call.Fun) != "os.OpenFile" || len(call.Args) < 2 {
				return true
			}
			n++
			ast.Inspect(call.Args[1], func(x ast.Node) bool {
				if sel, ok := x.(*ast.SelectorExpr); ok {
					flags = append(flags, sel.Sel.Name)
					return false
				}
				return true
			})
			return true
		})
	}
	if n != 1 {
		fail("%s: expected exactly one os.OpenFile call, found %d", where, n)
	}
	sort.Strings(flags)
	return flags
}

// closureCalls: calls inside a deferred closure whose callee starts with one of the given roots
// ("os.", "file."), in source order, with the conditions of the enclosing ifs of the closure.
func closureCalls(fl *ast.FuncLit, roots ...string) (out [][2]string) {
	if fl == nil {
		return nil
	}
	ast.Inspect(fl.Body, func(m ast.Node) bool {
		if call, ok := m.(*ast.CallExpr); ok {
			name := flattenCallee(call.Fun)
			for _, r := range roots {
				if strings.HasPrefix(name, r) {
					out = append(out, [2]string{name, firstArg(call)})
				}
			}
		}
		return true
	})
	return out
}

func sysCallRows(cs []sysCall) string {
	rows := make([]string, len(cs))
	for i, c := range cs {
		rows[i] = "(" + strconv.Quote(c.callee) + ", " + strconv.Quote(c.arg0) + ", " + boolStr(c.kept) + ")"
	}
	return "[" + strings.Join(rows, ", ") + "]"
}

func pairRows(ps [][2]string) string {
	rows := make([]string, len(ps))
	for i, p := range ps {
		rows[i] = "(" + strconv.Quote(p[0]) + ", " + strconv.Quote(p[1]) + ")"
	}
	return "[" + strings.Join(rows, ", ") + "]"
}

func genKeystoreSys() {
	lf := newLean("KeystoreSys", "Sources: keystore/v2/keystore/filesystem/backend/filesystem.go (DirectoryBackend.Put), keystore/filesystem/storage.go (FileStorage.Copy).")

	// ---- DirectoryBackend.Put
	const be = "keystore/v2/keystore/filesystem/backend/filesystem.go"
	put := funcDecl(be, "DirectoryBackend", "Put")
	calls, deferAt, deferred, nils, defs := errFlow(be+": Put", put)
	lf.def("putCalls", "List (String × String × Bool)", sysCallRows(calls),
		be+": DirectoryBackend.Put – error-returning calls at the top level in source order: (callee, first argument as written, the error is tested with `if err != nil { … return }` or returned before err is assigned again)")
	if deferred == nil {
		fail("%s: Put has no deferred clean-up closure", be)
	}
	lf.def("putDeferAt", "Nat", strconv.Itoa(max0(deferAt)), be+": Put – number of those calls that precede the `defer` of the clean-up closure (errors before it return without clean-up)")
	guard := ""
	if deferred != nil && len(deferred.Body.List) == 1 {
		if is, ok := deferred.Body.List[0].(*ast.IfStmt); ok && is.Else == nil {
			guard = ksCreateText(is.Cond)
		}
	}
	if guard == "" {
		fail("%s: the clean-up closure of Put is not a single `if <guard> { … }`", be)
	}
	lf.def("putCleanupGuard", "String", strconv.Quote(guard), be+": Put – condition under which the deferred closure cleans up")
	lf.def("putCleanupCalls", "List (String × String)", pairRows(closureCalls(deferred, "os.", "file.")),
		be+": Put – os/file calls of the clean-up closure in source order: (callee, first argument as written)")
	disarm, ok := nils["file"]
	if !ok {
		fail("%s: Put no longer disarms the clean-up with `file = nil`", be)
	}
	lf.def("putDisarmAt", "Nat", strconv.Itoa(disarm), be+": Put – number of error-returning calls that precede `file = nil` (the clean-up is armed until then)")
	lf.def("putPathDefs", "List (String × String)", pairRows(defs), be+": Put – how the path variables are defined")
	lf.def("putOpenFlags", "List String", strList(openFlags(be+": Put", put)), be+": Put – flags of the os.OpenFile call (sorted)")

	// ---- FileStorage.Copy
	const st = "keystore/filesystem/storage.go"
	cp := funcDecl(st, "FileStorage", "Copy")
	ccalls, cdeferAt, cdeferred, _, _ := errFlow(st+": Copy", cp)
	lf.def("copyCalls", "List (String × String × Bool)", sysCallRows(ccalls),
		st+": FileStorage.Copy – error-returning calls at the top level in source order: (callee, first argument as written, the error is tested or returned before err is assigned again)")
	lf.def("copyDeferAt", "Nat", strconv.Itoa(max0(cdeferAt)), st+": Copy – number of those calls that precede the deferred closure that closes the destination")
	lf.def("copyCleanupCalls", "List (String × String)", pairRows(closureCalls(cdeferred, "os.", "dstFile.")),
		st+": Copy – os/dstFile calls of that closure")
	removes := false
	for _, c := range closureCalls(cdeferred, "os.") {
		if c[0] == "os.Remove" && c[1] == "dst" {
			removes = true
		}
	}
	lf.def("copyRemovesDstOnError", "Bool", boolStr(removes), st+": Copy – the deferred closure removes the destination (a partial copy) when Copy fails")
	named := false
	if cp != nil && cp.Type.Results != nil {
		for _, f := range cp.Type.Results.List {
			for _, n := range f.Names {
				if n.Name == "err" {
					named = true
				}
			}
		}
	}
	lf.def("copyNamedResult", "Bool", boolStr(named), st+": Copy – the result is the named variable err (only then can the deferred closure change what Copy returns)")
	lf.def("copyOpenFlags", "List String", strList(openFlags(st+": Copy", cp)), st+": Copy – flags of the os.OpenFile call (sorted)")
}

func max0(n int) int {
	if n < 0 {
		return 0
	}
	return n
}
