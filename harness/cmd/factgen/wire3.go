package main

import (
	"fmt"
	"go/ast"
	"strings"
)

// Wire, third part: the integer conversions of decryptor/postgresql/utils.go.
//
// Every field of the PostgreSQL extended protocol that counts something (number of parameter type OIDs of Parse,
// number of format codes / parameters / result formats of Bind) is an Int16 on the wire that PostgreSQL reads as an
// unsigned 16-bit count. The Lean models of `NewParsePacket` / `NewBindPacket` INTERPRET the conversion chains found
// here (Wire/PgParse.lean `goConv`), so a source change from `int(binary.BigEndian.Uint16(x))` to
// `int(int16(binary.BigEndian.Uint16(x)))` changes what the model computes, `fact_pg_int_reads` stops checking and the
// round-trip theorems lose the lemma `paramsCount_eq` they rest on.

var goIntTypes = map[string]bool{"int": true, "int8": true, "int16": true, "int32": true, "int64": true,
	"uint": true, "uint8": true, "uint16": true, "uint32": true, "uint64": true, "byte": true}

// bigEndianRead recognises binary.BigEndian.UintN(x) and returns N.
func bigEndianRead(e ast.Expr) (int, bool) {
	c, ok := e.(*ast.CallExpr)
	if !ok || len(c.Args) != 1 {
		return 0, false
	}
	sel, ok := c.Fun.(*ast.SelectorExpr)
	if !ok {
		return 0, false
	}
	inner, ok := sel.X.(*ast.SelectorExpr)
	if !ok || inner.Sel.Name != "BigEndian" {
		return 0, false
	}
	if id, ok := inner.X.(*ast.Ident); !ok || id.Name != "binary" {
		return 0, false
	}
	switch sel.Sel.Name {
	case "Uint16":
		return 16, true
	case "Uint32":
		return 32, true
	case "Uint64":
		return 64, true
	}
	return 0, false
}

// convChain peels integer conversions T(…) off an expression: returns the innermost expression and the conversions
// applied to it, innermost first. ok=false when a single-argument call of an unknown identifier wraps a big-endian read
// (a helper function we cannot interpret).
func convChain(e ast.Expr) (ast.Expr, []string) {
	var outer []string
	for {
		if p, ok := e.(*ast.ParenExpr); ok {
			e = p.X
			continue
		}
		c, ok := e.(*ast.CallExpr)
		if !ok || len(c.Args) != 1 {
			break
		}
		id, ok := c.Fun.(*ast.Ident)
		if !ok || !goIntTypes[id.Name] {
			break
		}
		outer = append(outer, id.Name)
		e = c.Args[0]
	}
	// outer is outermost first: reverse
	for i, j := 0, len(outer)-1; i < j; i, j = i+1, j-1 {
		outer[i], outer[j] = outer[j], outer[i]
	}
	return e, outer
}

func funcFullName(fd *ast.FuncDecl) string {
	if fd.Recv != nil && len(fd.Recv.List) == 1 {
		return recvName(fd.Recv.List[0].Type) + "." + fd.Name.Name
	}
	return fd.Name.Name
}

func genWirePgInts(lf *leanFile) {
	const rel = "decryptor/postgresql/utils.go"
	f := parseFile(rel)
	if f == nil {
		return
	}
	type read struct {
		fn    string
		bits  int
		chain []string
	}
	var reads []read
	for _, d := range f.Decls {
		fd, ok := d.(*ast.FuncDecl)
		if !ok || fd.Body == nil {
			continue
		}
		name := funcFullName(fd)
		// parents: to find the conversions wrapped around a read we walk with an explicit stack
		var stack []ast.Node
		ast.Inspect(fd.Body, func(n ast.Node) bool {
			if n == nil {
				stack = stack[:len(stack)-1]
				return true
			}
			stack = append(stack, n)
			e, ok := n.(ast.Expr)
			if !ok {
				return true
			}
			bits, ok := bigEndianRead(e)
			if !ok {
				return true
			}
			// climb while the parent is an integer conversion (or parentheses) of exactly this expression
			var chain []string
			cur := ast.Node(e)
			for i := len(stack) - 2; i >= 0; i-- {
				switch p := stack[i].(type) {
				case *ast.ParenExpr:
					cur = p
					continue
				case *ast.CallExpr:
					if id, ok := p.Fun.(*ast.Ident); ok && len(p.Args) == 1 && p.Args[0] == cur {
						if goIntTypes[id.Name] {
							chain = append(chain, id.Name)
							cur = p
							continue
						}
						fail("%s: %s: big-endian read wrapped in the unknown call %s(…)", rel, name, id.Name)
					}
				}
				break
			}
			reads = append(reads, read{name, bits, chain})
			return true
		})
	}
	if len(reads) == 0 {
		fail("%s: no binary.BigEndian reads found", rel)
	}
	var rows []string
	for _, r := range reads {
		rows = append(rows, fmt.Sprintf("(%q, %d, %s)", r.fn, r.bits, strList(r.chain)))
	}
	lf.def("pgIntReads", "List (String × Nat × List String)", "[\n  "+strings.Join(rows, ",\n  ")+"]",
		"utils.go: every binary.BigEndian.UintN read with the integer conversions applied to it, innermost first – (function, bits, conversions), in source order")

	// the three reads the Bind model interprets: count of readUint16Array, count and value length of readParameterArray
	pick := func(fn string, bits, k int) ([]string, bool) {
		for _, r := range reads {
			if r.fn == fn && r.bits == bits {
				if k == 0 {
					return r.chain, true
				}
				k--
			}
		}
		return nil, false
	}
	for _, w := range []struct {
		def, fn string
		bits    int
		doc     string
	}{
		{"pgU16ArrayCountConv", "readUint16Array", 16, "readUint16Array: conversions applied to the item count (first 16-bit read), innermost first"},
		{"pgParamArrayCountConv", "readParameterArray", 16, "readParameterArray: conversions applied to the parameter count (first 16-bit read), innermost first"},
		{"pgParamArrayLenConv", "readParameterArray", 32, "readParameterArray: conversions applied to a parameter length (first 32-bit read), innermost first"},
	} {
		chain, ok := pick(w.fn, w.bits, 0)
		if !ok {
			fail("%s: %s: no binary.BigEndian.Uint%d read found", rel, w.fn, w.bits)
			continue
		}
		lf.def(w.def, "List String", strList(chain), w.doc)
	}

	// paramsNum.ToInt: `return <conversions>(binary.BigEndian.Uint16(num))`
	if fd := funcDecl(rel, "paramsNum", "ToInt"); fd != nil {
		okShape := false
		if len(fd.Body.List) == 1 {
			if ret, ok := fd.Body.List[0].(*ast.ReturnStmt); ok && len(ret.Results) == 1 {
				inner, chain := convChain(ret.Results[0])
				if bits, ok := bigEndianRead(inner); ok && bits == 16 {
					if c := inner.(*ast.CallExpr); len(c.Args) == 1 {
						if id, ok := c.Args[0].(*ast.Ident); ok && id.Name == fd.Recv.List[0].Names[0].Name {
							okShape = true
							lf.def("pgParamsNumToInt", "List String", strList(chain),
								"paramsNum.ToInt: conversions applied to binary.BigEndian.Uint16(num), innermost first")
						}
					}
				}
			}
		}
		if !okShape {
			fail("%s: paramsNum.ToInt is no longer `return T…(binary.BigEndian.Uint16(num))`", rel)
		}
	}

	// NewParsePacket: the OID loop is `for i := 0; i < numParams.ToInt(); i++` and collects 4-byte slices
	if fd := funcDecl(rel, "", "NewParsePacket"); fd != nil {
		bound, step := "", uint64(0)
		ast.Inspect(fd.Body, func(n ast.Node) bool {
			fs, ok := n.(*ast.ForStmt)
			if !ok {
				return true
			}
			be, ok := fs.Cond.(*ast.BinaryExpr)
			if !ok || be.Op.String() != "<" {
				return true
			}
			if c, ok := be.Y.(*ast.CallExpr); ok && len(c.Args) == 0 {
				if sel, ok := c.Fun.(*ast.SelectorExpr); ok {
					if id, ok := sel.X.(*ast.Ident); ok {
						bound = id.Name + "." + sel.Sel.Name + "()"
					}
				}
			}
			// endIndex += K inside the loop
			ast.Inspect(fs.Body, func(m ast.Node) bool {
				if as, ok := m.(*ast.AssignStmt); ok && as.Tok.String() == "+=" && len(as.Rhs) == 1 {
					if lit, ok := as.Rhs[0].(*ast.BasicLit); ok {
						step = atoiU(lit.Value)
					}
				}
				return true
			})
			return false
		})
		if bound == "" || step == 0 {
			fail("%s: NewParsePacket: the parameter-OID loop `for i := 0; i < numParams.ToInt(); i++ { … endIndex += 4 }` has an unexpected shape", rel)
		}
		lf.def("pgParseLoopBound", "String", fmt.Sprintf("%q", bound), "NewParsePacket: upper bound of the parameter-OID loop")
		lf.def("pgParseOidWidth", "Nat", fmt.Sprint(step), "NewParsePacket: bytes taken per parameter OID")
	}
}
