package main

import (
	"go/ast"
	"strconv"
	"strings"
)

// SearchWrite: the data flow of `hmac.SearchableDataEncryptor.EncryptWithClientID` (hmac/dataEncryptor.go), the write
// path of searchable columns that C01 (protect-then-reveal for values that arrive ALREADY protected), C09 (blind
// index) and C03 share. The model `Searchable.searchableEncrypt` hashes the DECRYPTED plaintext in the branch of an
// already protected value and the value itself otherwise, and stores the value as it arrived resp. its protected
// form behind the hash. Extracted: the branch condition, every assignment (source text) of the three regions
// "before the branch", "value already is an envelope", "plain value" in source order, what is returned, and per
// `GenerateHMAC` call the region, the hashed expression and whether `data` has been reassigned from
// `e.decryptor.Process(data, …)` before the call in that region.
func init() { generators = append(generators, genSearchWrite) }

func genSearchWrite() {
	const rel = "hmac/dataEncryptor.go"
	lf := newLean("SearchWrite", "Sources: "+rel+".")
	fd := funcDecl(rel, "SearchableDataEncryptor", "EncryptWithClientID")
	if fd == nil {
		return
	}
	// the searchable branch: `if ok && setting.IsSearchable() { … }`
	var outer *ast.IfStmt
	for _, st := range fd.Body.List {
		if ifs, ok := st.(*ast.IfStmt); ok && strings.Contains(srcOf(ifs.Cond), "IsSearchable()") {
			outer = ifs
		}
	}
	if outer == nil {
		fail("%s: EncryptWithClientID: no top-level `if … setting.IsSearchable()` branch", rel)
		return
	}
	lf.def("searchableCond", "String", strconv.Quote(srcOf(outer.Cond)), rel+": EncryptWithClientID – condition of the searchable branch")
	// inside: statements before the match branch, the match branch, the else branch, the return
	var branch *ast.IfStmt
	var pre []ast.Stmt
	ret := ""
	for _, st := range outer.Body.List {
		if ifs, ok := st.(*ast.IfStmt); ok && strings.Contains(srcOf(ifs.Cond), "MatchDataSignature") {
			if branch != nil {
				fail("%s: EncryptWithClientID: more than one MatchDataSignature branch", rel)
			}
			branch = ifs
			continue
		}
		if r, ok := st.(*ast.ReturnStmt); ok && len(r.Results) > 0 {
			ret = srcOf(r.Results[0])
			continue
		}
		if branch == nil {
			pre = append(pre, st)
		}
	}
	if branch == nil {
		fail("%s: EncryptWithClientID: no `if e.decryptor.MatchDataSignature(data)` branch inside the searchable branch", rel)
		return
	}
	els, ok := branch.Else.(*ast.BlockStmt)
	if !ok {
		fail("%s: EncryptWithClientID: the MatchDataSignature branch has no plain else block", rel)
		return
	}
	lf.def("matchCond", "String", strconv.Quote(srcOf(branch.Cond)), rel+": EncryptWithClientID – the test \"the value already is an envelope\"")
	// assignments of a region in source order (nested blocks included, error returns skipped)
	assigns := func(stmts []ast.Stmt) []string {
		var out []string
		for _, st := range stmts {
			ast.Inspect(st, func(n ast.Node) bool {
				switch t := n.(type) {
				case *ast.AssignStmt:
					out = append(out, srcOf(t))
				case *ast.DeclStmt:
					if gd, ok := t.Decl.(*ast.GenDecl); ok {
						for _, s := range gd.Specs {
							if vs, ok := s.(*ast.ValueSpec); ok && len(vs.Values) > 0 {
								out = append(out, srcOf(vs))
							}
						}
					}
				}
				return true
			})
		}
		return out
	}
	lf.def("preBranchAssigns", "List String", strList(assigns(pre)), rel+": EncryptWithClientID – assignments between the start of the searchable branch and the MatchDataSignature test")
	lf.def("matchBranchAssigns", "List String", strList(assigns(branch.Body.List)), rel+": EncryptWithClientID – assignments of the branch \"value already is an envelope\", in source order")
	lf.def("elseBranchAssigns", "List String", strList(assigns(els.List)), rel+": EncryptWithClientID – assignments of the branch \"plain value\", in source order")
	lf.def("returns", "String", strconv.Quote(ret), rel+": EncryptWithClientID – result of the searchable branch")
	// GenerateHMAC calls: (region, hashed expression, data reassigned from decryptor.Process before the call)
	type hc struct {
		region, arg string
		after       bool
	}
	var calls []hc
	scan := func(region string, stmts []ast.Stmt) {
		reassigned := false
		for _, st := range stmts {
			ast.Inspect(st, func(n ast.Node) bool {
				switch t := n.(type) {
				case *ast.AssignStmt:
					// visit the right-hand sides first (a call there is evaluated before the assignment)
					for _, rhs := range t.Rhs {
						ast.Inspect(rhs, func(m ast.Node) bool {
							if c, ok := m.(*ast.CallExpr); ok && strings.HasSuffix(callName(c), "GenerateHMAC") && len(c.Args) == 2 {
								calls = append(calls, hc{region, srcOf(c.Args[1]), reassigned})
							}
							return true
						})
					}
					if len(t.Lhs) >= 1 && len(t.Rhs) == 1 {
						if id, ok := t.Lhs[0].(*ast.Ident); ok && id.Name == "data" && strings.Contains(srcOf(t.Rhs[0]), "decryptor.Process(data") {
							reassigned = true
						}
					}
					return false
				case *ast.CallExpr:
					if strings.HasSuffix(callName(t), "GenerateHMAC") && len(t.Args) == 2 {
						calls = append(calls, hc{region, srcOf(t.Args[1]), reassigned})
					}
				}
				return true
			})
		}
	}
	scan("before", pre)
	scan("match", branch.Body.List)
	scan("else", els.List)
	rows := make([]string, len(calls))
	for i, c := range calls {
		rows[i] = "(" + strconv.Quote(c.region) + ", " + strconv.Quote(c.arg) + ", " + boolStr(c.after) + ")"
	}
	lf.def("hashCalls", "List (String × String × Bool)", "["+strings.Join(rows, ", ")+"]", rel+": EncryptWithClientID – every GenerateHMAC(key, X) call: region (before / match / else), X, and whether `data` was reassigned from e.decryptor.Process(data, …) earlier in that region")
}
