package main

import (
	"bytes"
	"fmt"
	"go/ast"
	"go/parser"
	"go/printer"
	"go/token"
	"os/exec"
	"path/filepath"
	"sort"
	"strconv"
	"strings"
)

// TlsIdentity: how AcraServer / AcraTranslator derive a client id from a TLS client certificate
// (network/tls_authentication.go): which certificate fields the two identifier extractors read, what the
// converter does with the identifier, and – for `extract_stateless` – that the extractor object carries
// no state besides its two components and that ExtractClientID looks at nothing but their results.
// From the Go standard library (GOROOT, the version the harness is built with): the pieces of
// pkix.Name.String() the distinguished-name identifier is made of (attribute short names, RDN order,
// escaped characters) and sha512.Size.
// Second part: which service implementation every RegisterXxxServer call of grpc_api.NewServer receives.
// Used by C02 (`tls_identity_injective_partial`, `extract_stateless`, `fact_every_registration_wrapped`).
func init() { generators = append(generators, genTlsIdentity) }

const tlsAuthRel = "network/tls_authentication.go"

func srcString(n ast.Node) string {
	var b bytes.Buffer
	printer.Fprint(&b, fset, n)
	return strings.Join(strings.Fields(b.String()), " ")
}

// structFieldsOf lists (field name, type) of `type <name> struct {…}`; embedded fields get the name "".
func structFieldsOf(rel, name string) (rows [][2]string, found bool) {
	f := parseFile(rel)
	if f == nil {
		return nil, false
	}
	for _, d := range f.Decls {
		gd, ok := d.(*ast.GenDecl)
		if !ok || gd.Tok != token.TYPE {
			continue
		}
		for _, s := range gd.Specs {
			ts := s.(*ast.TypeSpec)
			st, ok := ts.Type.(*ast.StructType)
			if !ok || ts.Name.Name != name {
				continue
			}
			for _, fl := range st.Fields.List {
				if len(fl.Names) == 0 {
					rows = append(rows, [2]string{"", srcString(fl.Type)})
				}
				for _, n := range fl.Names {
					rows = append(rows, [2]string{n.Name, srcString(fl.Type)})
				}
			}
			return rows, true
		}
	}
	return nil, false
}

// rootedPaths: the maximal selector chains inside n whose leftmost identifier is root (sorted, unique).
func rootedPaths(n ast.Node, root string) []string {
	set := map[string]bool{}
	ast.Inspect(n, func(x ast.Node) bool {
		if s, ok := x.(*ast.SelectorExpr); ok {
			if p := selPath(s); p != "" && strings.HasPrefix(p, root+".") {
				set[p] = true
				return false
			}
		}
		return true
	})
	out := make([]string, 0, len(set))
	for p := range set {
		out = append(out, p)
	}
	sort.Strings(out)
	return out
}

var tlsBuiltins = map[string]bool{"string": true, "len": true, "cap": true, "make": true, "append": true, "copy": true, "byte": true, "new": true}

// effectCalls: the calls of a function body in source order without logging (`log.…` and calls chained on
// a call result) and without builtins / conversions.
func effectCalls(n ast.Node) []string {
	var out []string
	names, _ := callsIn(n)
	for _, c := range names {
		if c == "" || strings.HasPrefix(c, "log.") || tlsBuiltins[c] {
			continue
		}
		out = append(out, c)
	}
	return out
}

// returnedErrors: identifiers returned in the error position of `return nil, ErrX` statements, in order.
func returnedErrors(n ast.Node) []string {
	var out []string
	ast.Inspect(n, func(x ast.Node) bool {
		if r, ok := x.(*ast.ReturnStmt); ok && len(r.Results) == 2 {
			if id, ok := r.Results[1].(*ast.Ident); ok && id.Name != "nil" && id.Name != "err" {
				out = append(out, id.Name)
			}
		}
		return true
	})
	return out
}

func strPairList(rows [][2]string) string {
	s := make([]string, len(rows))
	for i, r := range rows {
		s[i] = fmt.Sprintf("(%q, %q)", r[0], r[1])
	}
	return "[" + strings.Join(s, ", ") + "]"
}

func strListList(rows []struct {
	k string
	v []string
}) string {
	s := make([]string, len(rows))
	for i, r := range rows {
		s[i] = fmt.Sprintf("(%q, %s)", r.k, strList(r.v))
	}
	return "[\n  " + strings.Join(s, ",\n  ") + "]"
}

func gorootFile(parts ...string) (*ast.File, string) {
	out, err := exec.Command("go", "env", "GOROOT").Output()
	if err != nil {
		fail("go env GOROOT: %v", err)
		return nil, ""
	}
	path := filepath.Join(append([]string{strings.TrimSpace(string(out)), "src"}, parts...)...)
	f, err := parser.ParseFile(fset, path, nil, 0)
	if err != nil {
		fail("%s: %v", path, err)
		return nil, path
	}
	return f, path
}

func fileFunc(f *ast.File, recv, name string) *ast.FuncDecl {
	for _, d := range f.Decls {
		fd, ok := d.(*ast.FuncDecl)
		if !ok || fd.Name.Name != name {
			continue
		}
		if recv == "" && fd.Recv == nil {
			return fd
		}
		if recv != "" && fd.Recv != nil && len(fd.Recv.List) == 1 && recvName(fd.Recv.List[0].Type) == recv {
			return fd
		}
	}
	return nil
}

func genTlsIdentity() {
	lf := newLean("TlsIdentity", "Sources: "+tlsAuthRel+", cmd/acra-translator/grpc_api/factory.go, cmd/acra-translator/grpc_api/api_grpc.pb.go; GOROOT/src/crypto/x509/pkix/pkix.go, GOROOT/src/crypto/sha512/sha512.go.")
	type kv = struct {
		k string
		v []string
	}
	// ---- extractor kinds ----
	env := newConstEnv(tlsAuthRel)
	var kinds [][2]string
	if fd := funcDecl(tlsAuthRel, "", "NewIdentifierExtractorByType"); fd != nil {
		ast.Inspect(fd.Body, func(x ast.Node) bool {
			cc, ok := x.(*ast.CaseClause)
			if !ok || len(cc.List) != 1 || len(cc.Body) != 1 {
				return true
			}
			v := env.eval(cc.List[0])
			r, isRet := cc.Body[0].(*ast.ReturnStmt)
			if v == nil || !isRet || len(r.Results) != 2 {
				fail("%s: NewIdentifierExtractorByType: unexpected case shape", tlsAuthRel)
				return true
			}
			cl, ok := r.Results[0].(*ast.CompositeLit)
			if !ok || len(cl.Elts) != 0 {
				fail("%s: NewIdentifierExtractorByType: a case does not return an empty composite literal", tlsAuthRel)
				return true
			}
			kinds = append(kinds, [2]string{constantString(v), srcString(cl.Type)})
			return true
		})
		if len(kinds) == 0 {
			fail("%s: NewIdentifierExtractorByType: no cases found", tlsAuthRel)
		}
	}
	lf.def("extractorByType", "List (String × String)", strPairList(kinds), tlsAuthRel+": NewIdentifierExtractorByType – (configuration value, extractor type it returns)")
	if v, ok := env.vals["DefaultIdentifierExtractorTypeDistinguishedName"]; ok {
		lf.def("defaultExtractorType", "String", strconv.Quote(constantString(v)), tlsAuthRel+": DefaultIdentifierExtractorTypeDistinguishedName (what NewDefaultTLSClientIDExtractor asks for)")
	} else {
		fail("%s: DefaultIdentifierExtractorTypeDistinguishedName not found", tlsAuthRel)
	}
	// ---- what the identifier extractors read of the certificate ----
	var reads, errs []kv
	var fields [][2]string
	for _, k := range kinds {
		fd := funcDecl(tlsAuthRel, k[1], "GetCertificateIdentifier")
		if fd == nil {
			continue
		}
		if fd.Type.Params == nil || len(fd.Type.Params.List) != 1 || len(fd.Type.Params.List[0].Names) != 1 {
			fail("%s: %s.GetCertificateIdentifier: unexpected parameters", tlsAuthRel, k[1])
			continue
		}
		cert := fd.Type.Params.List[0].Names[0].Name
		reads = append(reads, kv{k[1], rootedPaths(fd.Body, cert)})
		errs = append(errs, kv{k[1], returnedErrors(fd.Body)})
		fs, ok := structFieldsOf(tlsAuthRel, k[1])
		if !ok {
			fail("%s: type %s is not a struct", tlsAuthRel, k[1])
		}
		_, star := fd.Recv.List[0].Type.(*ast.StarExpr)
		fields = append(fields, [2]string{k[1], fmt.Sprintf("fields=%d pointer-receiver=%v calls=%s", len(fs), star, strings.Join(effectCalls(fd.Body), ","))})
	}
	lf.def("identifierReads", "List (String × List String)", strListList(reads), tlsAuthRel+": GetCertificateIdentifier – every selector chain that starts at the certificate parameter (the certificate fields that can influence the identifier)")
	lf.def("identifierErrors", "List (String × List String)", strListList(errs), tlsAuthRel+": GetCertificateIdentifier – the errors it returns, in source order")
	lf.def("identifierExtractorShape", "List (String × String)", strPairList(fields), tlsAuthRel+": the identifier extractor types – number of struct fields, receiver kind, non-builtin calls")
	// the DN identifier is `[]byte(certificate.Subject.String())`, the serial one `certificate.SerialNumber.Bytes()`
	var rets []kv
	for _, k := range kinds {
		if fd := funcDecl(tlsAuthRel, k[1], "GetCertificateIdentifier"); fd != nil {
			var rs []string
			// the value returned on the success path: last return statement's first result, resolved through one local assignment
			last, _ := fd.Body.List[len(fd.Body.List)-1].(*ast.ReturnStmt)
			if last == nil || len(last.Results) != 2 || !isIdent(last.Results[1], "nil") {
				fail("%s: %s.GetCertificateIdentifier: the function does not end in `return <id>, nil`", tlsAuthRel, k[1])
				continue
			}
			res := last.Results[0]
			if id, ok := res.(*ast.Ident); ok {
				n := 0
				ast.Inspect(fd.Body, func(x ast.Node) bool {
					if a, ok := x.(*ast.AssignStmt); ok && len(a.Lhs) == 1 && len(a.Rhs) == 1 && isIdent(a.Lhs[0], id.Name) {
						res = a.Rhs[0]
						n++
					}
					return true
				})
				if n != 1 {
					fail("%s: %s.GetCertificateIdentifier: the returned variable is assigned %d times", tlsAuthRel, k[1], n)
				}
			}
			rs = append(rs, describe(res))
			rets = append(rets, kv{k[1], rs})
		}
	}
	lf.def("identifierValue", "List (String × List String)", strListList(rets), tlsAuthRel+": GetCertificateIdentifier – the expression returned on the success path (conversions to []byte stripped)")
	// ---- the converter ----
	if fs, ok := structFieldsOf(tlsAuthRel, "HexIdentifierConverter"); ok {
		lf.def("converterFields", "List (String × String)", strPairList(fs), tlsAuthRel+": fields of HexIdentifierConverter")
	} else {
		fail("%s: type HexIdentifierConverter not found", tlsAuthRel)
	}
	if fd := funcDecl(tlsAuthRel, "", "NewDefaultHexIdentifierConverter"); fd != nil {
		h := ""
		ast.Inspect(fd.Body, func(x ast.Node) bool {
			if kvx, ok := x.(*ast.KeyValueExpr); ok && isIdent(kvx.Key, "newHash") {
				h = selPath(kvx.Value)
			}
			return true
		})
		if h == "" {
			fail("%s: NewDefaultHexIdentifierConverter: newHash is not set from a plain function value", tlsAuthRel)
		}
		lf.def("converterDefaultHash", "String", strconv.Quote(h), tlsAuthRel+": NewDefaultHexIdentifierConverter – the hash constructor")
	}
	if fd := funcDecl(tlsAuthRel, "HexIdentifierConverter", "Convert"); fd != nil {
		recv := fd.Recv.List[0].Names[0].Name
		_, star := fd.Recv.List[0].Type.(*ast.StarExpr)
		lf.def("convertCalls", "List String", strList(effectCalls(fd.Body)), tlsAuthRel+": HexIdentifierConverter.Convert – non-builtin calls in source order")
		lf.def("convertPointerReceiver", "Bool", boolStr(star), tlsAuthRel+": HexIdentifierConverter.Convert has a pointer receiver")
		lf.def("convertReceiverUses", "List String", strList(rootedPaths(fd.Body, recv)), tlsAuthRel+": HexIdentifierConverter.Convert – selector chains starting at the receiver")
		// hex.Encode(out, identifier) where identifier = h.Sum(nil) and h.Write(identifier) before: keep the argument texts
		var args []string
		names, calls := callsIn(fd.Body)
		for i, n := range names {
			switch n {
			case "h.Write", "h.Sum", "hex.Encode":
				as := make([]string, len(calls[i].Args))
				for j, a := range calls[i].Args {
					as[j] = srcString(a)
				}
				args = append(args, n+"("+strings.Join(as, ",")+")")
			}
		}
		lf.def("convertDataFlow", "List String", strList(args), tlsAuthRel+": HexIdentifierConverter.Convert – arguments of the hash and hex calls, in source order")
	}
	// ---- the extractor object ----
	if fs, ok := structFieldsOf(tlsAuthRel, "tlsClientIDExtractor"); ok {
		lf.def("extractorFields", "List (String × String)", strPairList(fs), tlsAuthRel+": fields of tlsClientIDExtractor (everything a long-lived extractor can remember between two calls)")
	} else {
		fail("%s: type tlsClientIDExtractor not found", tlsAuthRel)
	}
	if fd := funcDecl(tlsAuthRel, "tlsClientIDExtractor", "ExtractClientID"); fd != nil {
		recv := fd.Recv.List[0].Names[0].Name
		cert := ""
		if fd.Type.Params != nil && len(fd.Type.Params.List) == 1 && len(fd.Type.Params.List[0].Names) == 1 {
			cert = fd.Type.Params.List[0].Names[0].Name
		} else {
			fail("%s: ExtractClientID: unexpected parameters", tlsAuthRel)
		}
		lf.def("extractCalls", "List String", strList(effectCalls(fd.Body)), tlsAuthRel+": tlsClientIDExtractor.ExtractClientID – calls in source order (logging and builtins left out)")
		lf.def("extractReceiverUses", "List String", strList(rootedPaths(fd.Body, recv)), tlsAuthRel+": ExtractClientID – selector chains starting at the receiver")
		lf.def("extractCertificateReads", "List String", strList(rootedPaths(fd.Body, cert)), tlsAuthRel+": ExtractClientID – certificate fields it reads ITSELF (besides handing the certificate to the identifier extractor)")
		// data flow: identifier := idExtractor.GetCertificateIdentifier(certificate); clientID := idConverter.Convert(identifier); return clientID, nil
		var flow []string
		ast.Inspect(fd.Body, func(x ast.Node) bool {
			switch t := x.(type) {
			case *ast.AssignStmt:
				if len(t.Rhs) == 1 {
					if c, ok := t.Rhs[0].(*ast.CallExpr); ok && strings.HasPrefix(selPath(c.Fun), recv+".") {
						flow = append(flow, srcString(t))
					}
				}
			case *ast.ReturnStmt:
				flow = append(flow, srcString(t))
			}
			return true
		})
		lf.def("extractDataFlow", "List String", strList(flow), tlsAuthRel+": ExtractClientID – assignments from calls through the receiver and every return, in source order")
		// package-level variables of the file that are not errors / constant lists: a cache could live there
		var vars []string
		if f := parseFile(tlsAuthRel); f != nil {
			for _, d := range f.Decls {
				if gd, ok := d.(*ast.GenDecl); ok && gd.Tok == token.VAR {
					for _, s := range gd.Specs {
						vs := s.(*ast.ValueSpec)
						for i, n := range vs.Names {
							if i < len(vs.Values) {
								if c, ok := vs.Values[i].(*ast.CallExpr); ok && selPath(c.Fun) == "errors.New" {
									continue
								}
							}
							vars = append(vars, n.Name)
						}
					}
				}
			}
		}
		sort.Strings(vars)
		lf.def("packageVars", "List String", strList(vars), tlsAuthRel+": package-level variables other than errors.New(…) values")
	}
	var ctors []kv
	for _, fn := range []string{"NewTLSClientIDExtractor", "NewDefaultTLSClientIDExtractor"} {
		if fd := funcDecl(tlsAuthRel, "", fn); fd != nil {
			var lits []string
			ast.Inspect(fd.Body, func(x ast.Node) bool {
				if cl, ok := x.(*ast.CompositeLit); ok && srcString(cl.Type) == "tlsClientIDExtractor" {
					fs, _ := structFieldsOf(tlsAuthRel, "tlsClientIDExtractor")
					for i, e := range cl.Elts {
						if kvx, ok := e.(*ast.KeyValueExpr); ok {
							lits = append(lits, srcString(kvx.Key)+"="+srcString(kvx.Value))
						} else if i < len(fs) {
							lits = append(lits, fs[i][0]+"="+srcString(e))
						} else {
							lits = append(lits, "?="+srcString(e))
						}
					}
				}
				return true
			})
			ctors = append(ctors, kv{fn, lits})
		}
	}
	lf.def("extractorConstructors", "List (String × List String)", strListList(ctors), tlsAuthRel+": the elements of the tlsClientIDExtractor literal each constructor returns")

	// ---- Go standard library: pkix.Name.String() and sha512.Size ----
	if f, path := gorootFile("crypto", "sha512", "sha512.go"); f != nil {
		done := false
		for _, d := range f.Decls {
			gd, ok := d.(*ast.GenDecl)
			if !ok || gd.Tok != token.CONST {
				continue
			}
			for _, s := range gd.Specs {
				vs := s.(*ast.ValueSpec)
				for i, n := range vs.Names {
					if n.Name == "Size" && i < len(vs.Values) {
						if v, ok := evalInt(vs.Values[i], 0); ok {
							lf.def("sha512Size", "Nat", fmt.Sprint(v), "GOROOT crypto/sha512: Size")
							done = true
						}
					}
				}
			}
		}
		if !done {
			fail("%s: const Size not found", path)
		}
	}
	if f, path := gorootFile("crypto", "x509", "pkix", "pkix.go"); f != nil {
		// attributeTypeNames
		var names [][2]string
		oids := map[string]string{}
		for _, d := range f.Decls {
			gd, ok := d.(*ast.GenDecl)
			if !ok || gd.Tok != token.VAR {
				continue
			}
			for _, s := range gd.Specs {
				vs := s.(*ast.ValueSpec)
				for i, n := range vs.Names {
					if i >= len(vs.Values) {
						continue
					}
					cl, ok := vs.Values[i].(*ast.CompositeLit)
					if !ok {
						continue
					}
					if n.Name == "attributeTypeNames" {
						for _, e := range cl.Elts {
							if kvx, ok := e.(*ast.KeyValueExpr); ok {
								k, _ := strconvUnquote(srcString(kvx.Key))
								v, _ := strconvUnquote(srcString(kvx.Value))
								names = append(names, [2]string{k, v})
							}
						}
					} else if strings.HasPrefix(n.Name, "oid") {
						var parts []string
						for _, e := range cl.Elts {
							parts = append(parts, srcString(e))
						}
						oids[n.Name] = strings.Join(parts, ".")
					}
				}
			}
		}
		sort.Slice(names, func(i, j int) bool { return names[i][0] < names[j][0] })
		if len(names) == 0 {
			fail("%s: attributeTypeNames not found", path)
		}
		lf.def("attributeTypeNames", "List (String × String)", strPairList(names), "GOROOT crypto/x509/pkix: attributeTypeNames (object identifier, short name used by RDNSequence.String)")
		// ToRDNSequence: the order of appendRDNs calls
		if fd := fileFunc(f, "Name", "ToRDNSequence"); fd != nil {
			var order [][2]string
			var guarded []string
			var walk func(list []ast.Stmt, guard string)
			walk = func(list []ast.Stmt, guard string) {
				for _, st := range list {
					switch t := st.(type) {
					case *ast.AssignStmt:
						if len(t.Rhs) == 1 {
							if c, ok := t.Rhs[0].(*ast.CallExpr); ok && selPath(c.Fun) == "n.appendRDNs" && len(c.Args) == 3 {
								field := strings.TrimPrefix(selPath(c.Args[1]), "n.")
								if cl, ok := c.Args[1].(*ast.CompositeLit); ok && len(cl.Elts) == 1 {
									field = strings.TrimPrefix(selPath(cl.Elts[0]), "n.")
									if guard == field {
										guarded = append(guarded, field)
									}
								}
								order = append(order, [2]string{field, oids[selPath(c.Args[2])]})
							}
						}
					case *ast.IfStmt:
						g := ""
						if be, ok := t.Cond.(*ast.BinaryExpr); ok && be.Op == token.GTR && srcString(be.Y) == "0" {
							if c, ok := be.X.(*ast.CallExpr); ok && selPath(c.Fun) == "len" && len(c.Args) == 1 {
								g = strings.TrimPrefix(selPath(c.Args[0]), "n.")
							}
						}
						walk(t.Body.List, g)
					}
				}
			}
			walk(fd.Body.List, "")
			if len(order) == 0 {
				fail("%s: Name.ToRDNSequence: no appendRDNs calls found", path)
			}
			lf.def("rdnOrder", "List (String × String)", strPairList(order), "GOROOT crypto/x509/pkix: Name.ToRDNSequence – (Name field, object identifier) in the order the RDNs are appended (RDNSequence.String prints them last to first)")
			lf.def("rdnSingleNonEmpty", "List String", strList(guarded), "GOROOT crypto/x509/pkix: Name.ToRDNSequence – single-valued fields appended only when non-empty")
			// what RDNSequence.String prints in front of every value of a field, in PRINT order (last appended first)
			short := map[string]string{}
			for _, n := range names {
				short[n[0]] = n[1]
			}
			var printed []string
			for i := len(order) - 1; i >= 0; i-- {
				sn, ok := short[order[i][1]]
				if !ok {
					fail("%s: no short name for %s (%s)", path, order[i][0], order[i][1])
				}
				printed = append(printed, fmt.Sprintf("(%q, %s)", order[i][0], bytesOf(sn+"=")))
			}
			lf.def("rdnPrinted", "List (String × List Nat)", "[\n  "+strings.Join(printed, ",\n  ")+"]", "GOROOT crypto/x509/pkix: (Name field, bytes of `<short name>=`) in the order Name.String() prints the standard attributes (reverse of ToRDNSequence)")
		} else {
			fail("%s: Name.ToRDNSequence not found", path)
		}
		if fd := fileFunc(f, "Name", "appendRDNs"); fd != nil {
			cond := ""
			if len(fd.Body.List) > 0 {
				if is, ok := fd.Body.List[0].(*ast.IfStmt); ok {
					cond = srcString(is.Cond)
				}
			}
			lf.def("appendRDNsSkip", "String", strconv.Quote(cond), "GOROOT crypto/x509/pkix: Name.appendRDNs returns its input unchanged when")
		}
		// RDNSequence.String: escaped characters and separators
		if fd := fileFunc(f, "RDNSequence", "String"); fd != nil {
			var cases []string
			ast.Inspect(fd.Body, func(x ast.Node) bool {
				cc, ok := x.(*ast.CaseClause)
				if !ok || len(cc.Body) != 1 {
					return true
				}
				a, ok := cc.Body[0].(*ast.AssignStmt)
				if !ok || len(a.Lhs) != 1 || !isIdent(a.Lhs[0], "escape") {
					return true
				}
				var chars []string
				for _, e := range cc.List {
					if bl, ok := e.(*ast.BasicLit); ok && bl.Kind == token.CHAR {
						if r, _, _, err := strconv.UnquoteChar(bl.Value[1:len(bl.Value)-1], '\''); err == nil {
							chars = append(chars, fmt.Sprint(int(r)))
						}
					}
				}
				cases = append(cases, strings.Join(chars, ",")+" => "+srcString(a.Rhs[0]))
				return true
			})
			if len(cases) == 0 {
				fail("%s: RDNSequence.String: escape switch not found", path)
			}
			lf.def("rdnEscapeCases", "List String", strList(cases), "GOROOT crypto/x509/pkix: RDNSequence.String – `case <code points> => escape = <condition>` (k = byte index of the character in the value)")
			lf.def("rdnStringLits", "List String", strList(tlsStringLits(fd.Body)), "GOROOT crypto/x509/pkix: RDNSequence.String – string literals in source order (initial value, RDN separator, value separator, hex form, type/value separator)")
		} else {
			fail("%s: RDNSequence.String not found", path)
		}
	}
	genServerRegistrations(lf)
}

// genServerRegistrations: cmd/acra-translator/grpc_api/factory.go NewServer – every RegisterXxxServer call with
// the variable it passes, and whether that variable, at the point of the call, holds
// NewTLSDecryptServiceWrapper(<the plain service>, data.TLSClientIDExtractor) whenever data.UseConnectionClientID is set.
func genServerRegistrations(lf *leanFile) {
	const facRel = "cmd/acra-translator/grpc_api/factory.go"
	fd := funcDecl(facRel, "", "NewServer")
	if fd == nil {
		return
	}
	dataParam := ""
	if fd.Type.Params != nil && len(fd.Type.Params.List) >= 1 && len(fd.Type.Params.List[0].Names) == 1 {
		dataParam = fd.Type.Params.List[0].Names[0].Name
	}
	// abstract value of every variable: "plain" (NewTranslatorService result), "tls" (wrapper when the flag is set, plain otherwise), "?" otherwise
	val := map[string]string{}
	var regs, hook []string
	assign := func(t *ast.AssignStmt, inTLSBranch bool) {
		if len(t.Rhs) != 1 || len(t.Lhs) == 0 {
			for _, l := range t.Lhs {
				if id, ok := l.(*ast.Ident); ok {
					val[id.Name] = "?"
				}
			}
			return
		}
		target, ok := t.Lhs[0].(*ast.Ident)
		if !ok {
			return
		}
		switch r := t.Rhs[0].(type) {
		case *ast.CallExpr:
			switch selPath(r.Fun) {
			case "NewTranslatorService":
				val[target.Name] = "plain"
			case "NewTLSDecryptServiceWrapper":
				if inTLSBranch && len(r.Args) == 2 {
					if id, ok := r.Args[0].(*ast.Ident); ok && val[id.Name] == "plain" && selPath(r.Args[1]) == dataParam+".TLSClientIDExtractor" {
						val[target.Name] = "tls"
						return
					}
				}
				val[target.Name] = "?"
			default:
				val[target.Name] = "other:" + selPath(r.Fun)
			}
		case *ast.Ident:
			if v, ok := val[r.Name]; ok {
				val[target.Name] = v
			} else {
				val[target.Name] = "?"
			}
		default:
			val[target.Name] = "?"
		}
	}
	for _, st := range fd.Body.List {
		switch t := st.(type) {
		case *ast.AssignStmt:
			assign(t, false)
		case *ast.IfStmt:
			isFlag := selPath(t.Cond) == dataParam+".UseConnectionClientID" && t.Else == nil && t.Init == nil
			// an `if err != nil { return … }` does not change any service variable
			for _, s := range t.Body.List {
				if a, ok := s.(*ast.AssignStmt); ok {
					if isFlag {
						assign(a, true)
					} else {
						// assignment under some other condition: the value is no longer known
						for _, l := range a.Lhs {
							if id, ok := l.(*ast.Ident); ok {
								if _, tracked := val[id.Name]; tracked {
									val[id.Name] = "?"
								}
							}
						}
					}
				}
			}
		case *ast.ExprStmt:
			c, ok := t.X.(*ast.CallExpr)
			if !ok {
				continue
			}
			name := selPath(c.Fun)
			if name == "OngRPCServerInit" && len(c.Args) == 3 {
				arg := selPath(c.Args[2])
				v, ok := val[arg]
				if !ok {
					v = "?"
				}
				hook = append(hook, fmt.Sprintf("(%q, %q, %q)", name, arg, v))
			}
			if strings.HasPrefix(name, "Register") && strings.HasSuffix(name, "Server") && len(c.Args) == 2 {
				arg := selPath(c.Args[1])
				v, ok := val[arg]
				if !ok {
					v = "?"
				}
				regs = append(regs, fmt.Sprintf("(%q, %q, %q)", strings.TrimSuffix(strings.TrimPrefix(name, "Register"), "Server"), arg, v))
			}
		}
	}
	if len(regs) == 0 {
		fail("%s: NewServer registers no service", facRel)
	}
	lf.def("serverRegistrations", "List (String × String × String)", "[\n  "+strings.Join(regs, ",\n  ")+"]",
		facRel+": NewServer – every Register<Service>Server(grpcServer, x) call as (service, x, what x holds there: \"tls\" = NewTLSDecryptServiceWrapper(plain service, data.TLSClientIDExtractor) when data.UseConnectionClientID is set and the plain service otherwise; \"plain\" = NewTranslatorService(…) in both cases)")
	lf.def("serverInitHook", "List (String × String × String)", "["+strings.Join(hook, ", ")+"]",
		facRel+": NewServer – the service handed to the server-init subscribers (they may register further services with it), same encoding")
	// the RPCs of every gRPC service of the API (interfaces <Service>Server of api_grpc.pb.go)
	type kv = struct {
		k string
		v []string
	}
	var svcs []kv
	if f := parseFile(grpcRel); f != nil {
		for _, d := range f.Decls {
			gd, ok := d.(*ast.GenDecl)
			if !ok || gd.Tok != token.TYPE {
				continue
			}
			for _, s := range gd.Specs {
				ts := s.(*ast.TypeSpec)
				it, ok := ts.Type.(*ast.InterfaceType)
				if !ok || !strings.HasSuffix(ts.Name.Name, "Server") || strings.HasPrefix(ts.Name.Name, "Unsafe") {
					continue
				}
				var ms []string
				for _, m := range it.Methods.List {
					for _, n := range m.Names {
						if ast.IsExported(n.Name) {
							ms = append(ms, n.Name)
						}
					}
				}
				sort.Strings(ms)
				svcs = append(svcs, kv{strings.TrimSuffix(ts.Name.Name, "Server"), ms})
			}
		}
	}
	sort.Slice(svcs, func(i, j int) bool { return svcs[i].k < svcs[j].k })
	if len(svcs) == 0 {
		fail("%s: no <Service>Server interfaces found", grpcRel)
	}
	lf.def("serviceRpcs", "List (String × List String)", strListList(svcs), grpcRel+": (gRPC service, its RPCs)")
}
