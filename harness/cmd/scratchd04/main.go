package main

import (
	"fmt"

	"github.com/cossacklabs/acra/sqlparser"
)

func main() {
	p := sqlparser.New(sqlparser.ModeDefault)
	for _, q := range []string{
		"insert into t (id, c0) values (?, 'a\\'b\\\\c') on duplicate key update c0 = ?, c1 = 'lit'",
		"insert into t (id, c0) values (1, X'4142'), (2, 0x4142)",
		"insert into t (id, c0) select 1, 'plain'",
		"insert into t select 1, 'plain' from dual",
		"update t as x set x.c0 = 'a', c1 = ? where id = 1",
		"select x.c0, c1, x.*, * from t x where id = ?",
		"select 1 + 1, c0 from t",
		"insert into t (id, c0) values (1, 'a') on duplicate key update c0 = values(c0)",
		"insert into t set id = 1, c0 = 'x'",
		"replace into t (id, c0) values (1, 'secret')",
	} {
		st, err := p.Parse(q)
		if err != nil {
			fmt.Println("ERR", q, err)
			continue
		}
		fmt.Printf("%T | %s\n", st, sqlparser.String(st))
		if ins, ok := st.(*sqlparser.Insert); ok {
			fmt.Printf("   rows=%T ondup=%d action=%q\n", ins.Rows, len(ins.OnDup), ins.Action)
		}
	}
}
