// vh – the verification harness: runs the real Acra code (linked against the Themis stand-in) on
// generated cases, diffs it against the Lean model driver and judges the properties directly.
//
//	vh run <Cxx> --tier quick|thorough --seed N --model <acra_model> --out result.json [--widen]
//	vh replay <file> --model <acra_model>
//	vh exec-op                      (line protocol server for the implementation side)
package main

import (
	"encoding/json"
	"flag"
	"fmt"
	"io"
	"os"
	"strings"

	log "github.com/sirupsen/logrus"

	"verifharness/internal/core"
	_ "verifharness/internal/c01"
	_ "verifharness/internal/c02"
	_ "verifharness/internal/c03"
	_ "verifharness/internal/c04"
	_ "verifharness/internal/c05"
	_ "verifharness/internal/c06"
	_ "verifharness/internal/c07"
	_ "verifharness/internal/c08"
	_ "verifharness/internal/c09"
	_ "verifharness/internal/c10"
	_ "verifharness/internal/c11"
	_ "verifharness/internal/c12"
	_ "verifharness/internal/c13"
	_ "verifharness/internal/c14"
	_ "verifharness/internal/c15"
	_ "verifharness/internal/c16"
	_ "verifharness/internal/c17"
	_ "verifharness/internal/c18"
	_ "verifharness/internal/c19"
	_ "verifharness/internal/c20"
	_ "verifharness/internal/envops"
	_ "verifharness/internal/shimcore"
)

func main() {
	if len(os.Args) < 2 {
		fmt.Fprintln(os.Stderr, "usage: vh run|replay|exec-op …")
		os.Exit(64)
	}
	log.SetOutput(io.Discard)
	log.SetLevel(log.PanicLevel)
	switch os.Args[1] {
	case "exec-op":
		core.ServeOps(os.Stdin, os.Stdout)
	case "run":
		fs := flag.NewFlagSet("run", flag.ExitOnError)
		tier := fs.String("tier", "quick", "")
		seed := fs.Uint64("seed", 1, "")
		model := fs.String("model", "/verif/lean/.lake/build/bin/acra_model", "")
		out := fs.String("out", "", "")
		dir := fs.String("dir", "/verif", "")
		widen := fs.Bool("widen", false, "")
		prop := os.Args[2]
		fs.Parse(os.Args[3:])
		f := core.Prop(prop)
		if f == nil {
			fmt.Fprintln(os.Stderr, "unknown property", prop)
			os.Exit(64)
		}
		m, err := core.StartModel(*model)
		if err != nil {
			fmt.Fprintln(os.Stderr, "cannot start model:", err)
			os.Exit(70)
		}
		r := core.NewRun(prop, *tier, *seed, m, *dir)
		r.Widen = *widen
		f(r)
		code := r.Finish(*out)
		m.Close()
		os.Exit(code)
	case "replay":
		fs := flag.NewFlagSet("replay", flag.ExitOnError)
		model := fs.String("model", "/verif/lean/.lake/build/bin/acra_model", "")
		file := os.Args[2]
		fs.Parse(os.Args[3:])
		b, err := os.ReadFile(file)
		if err != nil {
			fmt.Fprintln(os.Stderr, err)
			os.Exit(66)
		}
		var rp struct {
			Property  string   `json:"property"`
			Kind      string   `json:"kind"`
			WhatFails string   `json:"what_fails"`
			Lines     []string `json:"lines"`
		}
		if err := json.Unmarshal(b, &rp); err != nil {
			fmt.Fprintln(os.Stderr, err)
			os.Exit(65)
		}
		fmt.Printf("replay of %s (%s): %s\n", rp.Property, rp.Kind, rp.WhatFails)
		m, _ := core.StartModel(*model)
		for _, l := range rp.Lines {
			impl := core.Exec(l)
			mod := "(no model)"
			if m != nil {
				mod = m.Ask(l)
			}
			fmt.Printf("op    %s\n impl  %s\n model %s\n", clip(l), clip(impl), clip(mod))
			if impl == core.Panic {
				fmt.Println(" panic:", strings.SplitN(core.LastPanic, "\n", 2)[0])
			}
		}
		m.Close()
	default:
		fmt.Fprintln(os.Stderr, "unknown command", os.Args[1])
		os.Exit(64)
	}
}

func clip(s string) string {
	if len(s) > 400 {
		return s[:400] + "…"
	}
	return s
}
