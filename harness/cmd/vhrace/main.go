// vhrace: the race-detector build of the C17 v1 shared-handle workload. Built by the C17 run itself
// (`go build -race -tags verif -o .build/vh-race ./cmd/vhrace`) and started as a child process:
//
//	vh-race C17.v1race <seed> <goroutines> <cache size> <clients> <rounds> <budget ms>
//
// prints the outcome of the workload on stdout. A data race makes the Go race runtime print
// "WARNING: DATA RACE" on stderr and exit with code 66.
package main

import (
	"fmt"
	"io"
	"os"
	"strconv"
	"time"

	log "github.com/sirupsen/logrus"

	"verifharness/internal/c17/v1race"
)

func main() {
	log.SetOutput(io.Discard)
	log.SetLevel(log.PanicLevel)
	if len(os.Args) != 8 || os.Args[1] != "C17.v1race" {
		fmt.Fprintln(os.Stderr, "usage: vh-race C17.v1race <seed> <goroutines> <cache> <clients> <rounds> <ms>")
		os.Exit(64)
	}
	n := make([]uint64, 6)
	for i := range n {
		v, err := strconv.ParseUint(os.Args[2+i], 10, 64)
		if err != nil {
			fmt.Fprintln(os.Stderr, "bad number", os.Args[2+i])
			os.Exit(64)
		}
		n[i] = v
	}
	fmt.Println(v1race.Run(v1race.Config{Seed: n[0], Goroutines: int(n[1]), CacheSize: int(n[2]), Clients: int(n[3]),
		Rounds: int(n[4]), Budget: time.Duration(n[5]) * time.Millisecond}))
}
