import Driver.Core
import Driver.C12
/-!
`acra_model`: one operation per input line, one canonical result per output line. It runs the very
definitions the theorems of `AcraModel/Props` are about. Unknown or unparseable ops print `bad-op`
(the harness treats that as its own bug, never as agreement).
-/

def dispatch (line : String) : String :=
  match (line.trimAscii.toString.splitOn " ").filter (· ≠ "") with
  | [] => "bad-op"
  | op :: args =>
    let r :=
      match op.splitOn "." with
      | "core" :: rest => Driver.Core.handle (".".intercalate rest) args
      | "C12" :: rest => Driver.C12.handle (".".intercalate rest) args
      | _ => none
    r.getD "bad-op"

partial def loop (hin hout : IO.FS.Stream) : IO Unit := do
  let line ← hin.getLine
  if line.isEmpty then return ()
  hout.putStrLn (dispatch line)
  hout.flush
  loop hin hout

def main : IO Unit := do
  loop (← IO.getStdin) (← IO.getStdout)
