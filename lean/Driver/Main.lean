import Driver.Core
import Driver.C01
import Driver.C02
import Driver.C03
import Driver.C04
import Driver.C05
import Driver.C06
import Driver.C07
import Driver.C08
import Driver.C09
import Driver.C10
import Driver.C11
import Driver.C12
import Driver.C13
import Driver.C14
import Driver.C15
import Driver.C16
import Driver.C17
import Driver.C18
import Driver.C19
import Driver.C20
/-!
`acra_model`: one operation per input line, one canonical result per output line. It runs the very
definitions the theorems of `AcraModel/Props` are about. Unknown or unparseable ops print `bad-op`
(the harness treats that as its own bug, never as agreement).
-/

def dispatch (line : String) : String :=
  match (line.trimAscii.toString.splitOn " ").filter (· ≠ "") with
  | [] => "bad-op"
  | op :: args =>
    let r :=
      match op.splitOn "." with
      | "core" :: rest => Driver.Core.handle (".".intercalate rest) args
      | "C01" :: rest => Driver.C01.handle (".".intercalate rest) args
      | "C02" :: rest => Driver.C02.handle (".".intercalate rest) args
      | "C03" :: rest => Driver.C03.handle (".".intercalate rest) args
      | "C04" :: rest => Driver.C04.handle (".".intercalate rest) args
      | "C05" :: rest => Driver.C05.handle (".".intercalate rest) args
      | "C06" :: rest => Driver.C06.handle (".".intercalate rest) args
      | "C07" :: rest => Driver.C07.handle (".".intercalate rest) args
      | "C08" :: rest => Driver.C08.handle (".".intercalate rest) args
      | "C09" :: rest => Driver.C09.handle (".".intercalate rest) args
      | "C10" :: rest => Driver.C10.handle (".".intercalate rest) args
      | "C11" :: rest => Driver.C11.handle (".".intercalate rest) args
      | "C12" :: rest => Driver.C12.handle (".".intercalate rest) args
      | "C13" :: rest => Driver.C13.handle (".".intercalate rest) args
      | "C14" :: rest => Driver.C14.handle (".".intercalate rest) args
      | "C15" :: rest => Driver.C15.handle (".".intercalate rest) args
      | "C16" :: rest => Driver.C16.handle (".".intercalate rest) args
      | "C17" :: rest => Driver.C17.handle (".".intercalate rest) args
      | "C18" :: rest => Driver.C18.handle (".".intercalate rest) args
      | "C19" :: rest => Driver.C19.handle (".".intercalate rest) args
      | "C20" :: rest => Driver.C20.handle (".".intercalate rest) args
      | _ => none
    r.getD "bad-op"

partial def loop (hin hout : IO.FS.Stream) : IO Unit := do
  let line ← hin.getLine
  if line.isEmpty then return ()
  hout.putStrLn (dispatch line)
  hout.flush
  loop hin hout

def main : IO Unit := do
  loop (← IO.getStdin) (← IO.getStdout)
