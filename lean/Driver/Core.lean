import AcraModel.Basic.Bytes
import AcraModel.Basic.Sha256
import AcraModel.Crypto.Shim
/-! Driver ops `core.*`: the Lean twin of the Themis stand-in, compared byte for byte with the Go one. -/
namespace Driver.Core
open AcraModel

def optHex : Option Bytes → String
  | some b => "some " ++ hexOf b
  | none => "none"

def S := Shim.ops Sha256.sha256

def handle (op : String) (args : List String) : Option String :=
  match op, args with
  | "sha256", [h] => do let b ← ofHex h; pure (hexOf (Sha256.sha256 b))
  | "hmac", [k, m] => do let k ← ofHex k; let m ← ofHex m; pure (hexOf (Sha256.hmacSha256 k m))
  | "seal", [k, x, m, n] => do
      let k ← ofHex k; let x ← ofHex x; let m ← ofHex m; let n ← ofHex n
      pure (optHex (shimOps.enc k x m n))
  | "unseal", [k, x, c] => do
      let k ← ofHex k; let x ← ofHex x; let c ← ofHex c
      pure (optHex (shimOps.dec k x c))
  | "keypair", [d] => do
      let d ← ofHex d
      let p := Shim.privOfSeed Sha256.sha256 d
      pure (hexOf p ++ " " ++ hexOf (shimOps.pubOf p))
  | "wrap", [a, b, m, n] => do
      let a ← ofHex a; let b ← ofHex b; let m ← ofHex m; let n ← ofHex n
      pure (optHex (shimOps.wrap a b m n))
  | "unwrap", [a, b, c] => do
      let a ← ofHex a; let b ← ofHex b; let c ← ofHex c
      pure (optHex (shimOps.unwrap a b c))
  | _, _ => none

end Driver.Core
