import AcraModel.Typed.Describe
import AcraModel.Typed.Kinds
import AcraModel.Typed.Row
/-! Driver ops for C19 (typed columns). -/
namespace Driver.C19
open AcraModel AcraModel.Typed

def parseType : String → Option (Option DataType)
  | "int32" => some (some .int32) | "int64" => some (some .int64)
  | "str" => some (some .str) | "bytes" => some (some .bytes)
  | "none" => some none
  | _ => none

/-- `empty` = response_on_fail not given -/
def parseOnFail : String → Option (Option Policy)
  | "ciphertext" => some (some .ciphertext) | "default_value" => some (some .defaultValue)
  | "error" => some (some .error) | "empty" => some none
  | _ => none

def parseOptBytes (s : String) : Option (Option Bytes) :=
  if s = "none" then some none else (ofHex s).map some

def parseBool : String → Option Bool
  | "true" => some true | "false" => some false | _ => none

def showRes : Res → String
  | .value b rb => s!"value {hexOf b} {rb}"
  | .encodingError => "encerr"
  | .otherError => "err"

def mkRaw (t onFail dflt utf8 b64 : String) : Option RawSetting := do
  let t ← parseType t
  let p ← parseOnFail onFail
  let d ← parseOptBytes dflt
  let u ← parseBool utf8
  let b ← parseOptBytes b64
  pure ⟨t, p, d, u, b⟩

def parseKind : String → Option Kind
  | "plain" => some .plain | "searchable" => some .searchable
  | "masked" => some .masked | "tokenized" => some .tokenized
  | _ => none

/-- `<kind> <typeById> <tokenAndType> <acrastruct> <reencrypt>` + the five tokens of `mkRaw` -/
def mkColumn (kind byId tokAndType acrastruct reenc t onFail dflt utf8 b64 : String) : Option RawColumn := do
  let k ← parseKind kind
  let i ← parseBool byId
  let ta ← parseBool tokAndType
  let a ← parseBool acrastruct
  let re ← parseBool reenc
  let raw ← mkRaw t onFail dflt utf8 b64
  pure ⟨raw, k, i, ta, a, re⟩

def showPolicy : Policy → String
  | .ciphertext => "ciphertext" | .defaultValue => "default_value" | .error => "error"

/-- the OID the harness uses for "what the database / the client said" in the description ops -/
def probeOid : Nat := 17

/-! ### whole rows -/

def parseFmt (s : String) : Option Bool :=
  if s = "binary" then some true else if s = "text" then some false else none

/-- result format codes of the Bind packet: `simple` = simple query, `_` = no codes, otherwise a comma list -/
def parseCodes (s : String) : Option (Option (List Nat)) :=
  if s = "simple" then some none
  else if s = "_" then some (some [])
  else ((s.splitOn ",").mapM String.toNat?).map some

/-- stored value of a column: `null` or hex -/
def parseWire (s : String) : Option (Option Bytes) :=
  if s = "null" then some none else (ofHex s).map some

/-- one column of `pg.row`: `<type> <onFail> <default> <utf8> <b64> <reveal> <wire>`; `none` = setting rejected -/
def pgRowColumn (a : List String) : Option (Option (RowColumn × Option Bytes)) :=
  match a with
  | [t, onFail, dflt, utf8, b64, reveal, wire] => do
    let raw ← mkRaw t onFail dflt utf8 b64
    let reveal ← parseOptBytes reveal
    let wire ← parseWire wire
    pure ((initSetting raw).map fun s => (⟨some (s, ⟨raw.defaultB64⟩), fun _ => reveal, 0, 0⟩, wire))
  | _ => none

/-- one column of `my.row`: `<type> <onFail> <default> <utf8> <b64> <origType> <reveal> <wire>` -/
def myRowColumn (a : List String) : Option (Option (RowColumn × Option Bytes × Setting × Nat)) :=
  match a with
  | [t, onFail, dflt, utf8, b64, origType, reveal, wire] => do
    let raw ← mkRaw t onFail dflt utf8 b64
    let origType ← origType.toNat?
    let reveal ← parseOptBytes reveal
    let wire ← parseWire wire
    pure ((initSetting raw).map fun s =>
      let (colType, originType) := match s.dataType with
        | some dt => (myTypeCode dt, origType)
        | none => (origType, 0)
      (⟨some (s, ⟨raw.defaultB64⟩), fun _ => reveal, colType, originType⟩, wire, s, origType))
  | _ => none

def chunks (k : Nat) : List String → Nat → List (List String)
  | _, 0 => []
  | l, n+1 => l.take k :: chunks k (l.drop k) n

def showRowRes (f : Nat → Bytes → Bool → String) : RowRes → String
  | .cols l => "cols " ++ (if l.isEmpty then "_" else ",".intercalate (l.mapIdx fun i v => match v with
      | none => "null"
      | some (b, rb) => f i b rb))
  | .encodingError => "encerr"
  | .otherError => "err"

def handleRow (op : String) (args : List String) : Option String :=
  match op, args with
  -- a DataRow through `handleQueryDataPacket`: result format codes of the Bind packet, then the columns
  | "pg.row", codes :: n :: rest => do
      let codes ← parseCodes codes
      let n ← n.toNat?
      if rest.length ≠ 7 * n then none else
      let cols ← (chunks 7 rest n).mapM pgRowColumn
      match cols.mapM id with
      | none => pure "badsetting"
      | some cols => pure (showRowRes (fun _ b _ => hexOf b) (pgRow codes Ctx.fresh cols))
  -- a MySQL result row through `processTextDataRow` / `processBinaryDataRow`
  | "my.row", fmt :: n :: rest => do
      let binary ← parseFmt fmt
      let n ← n.toNat?
      if rest.length ≠ 8 * n then none else
      let cols ← (chunks 8 rest n).mapM myRowColumn
      match cols.mapM id with
      | none => pure "badsetting"
      | some cols =>
        let row := cols.map fun c => (c.1, c.2.1)
        let res := if binary then myBinaryRow Ctx.fresh row else myTextRow Ctx.fresh row
        pure (showRowRes (fun i b rb =>
          match cols[i]? with
          | some c => s!"{hexOf b}:{rb}:{myDescribe c.2.2.1 c.2.2.2 rb}"
          | none => "?") res)
  | _, _ => none

def handle (op : String) (args : List String) : Option String :=
  match handleRow op args with
  | some r => some r
  | none =>
  match op, args with
  -- configuration of a column of any kind: accepted?, policy, type aware?, binary operation?, and the descriptions
  -- (PostgreSQL: RowDescription / ParameterDescription OID for a bytea column, Parse OID for a parameter the client
  -- declared as `clientOid`; MySQL: column type for a VAR_STRING column)
  | "column.pg", [kind, byId, ta, a, re, t, onFail, dflt, utf8, b64, clientOid] => do
      let rc ← mkColumn kind byId ta a re t onFail dflt utf8 b64
      let clientOid ← clientOid.toNat?
      pure (match initColumn rc with
        | none => "err"
        | some c => s!"ok {showPolicy c.setting.policy} aware={hasTypeAwareSupport c} binop={c.setting.binaryOp} row={pgRowOid c probeOid} param={pgParamOid c probeOid} parse={pgParseOid c clientOid}")
  | "column.my", [kind, byId, ta, a, re, t, onFail, dflt, utf8, b64, dbType] => do
      let rc ← mkColumn kind byId ta a re t onFail dflt utf8 b64
      let dbType ← dbType.toNat?
      pure (match initColumn rc with
        | none => "err"
        | some c => s!"ok {showPolicy c.setting.policy} binop={c.setting.binaryOp} type={myColumnType c dbType false}")
  -- decoder → reveal → encoder for a column of any kind (default envelope, type written as data_type / token_type)
  | "pg.readk", [kind, t, onFail, dflt, utf8, b64, fmt, reveal, wire] => do
      let rc ← mkColumn kind "false" "false" "false" "true" t onFail dflt utf8 b64
      let binary ← (if fmt = "binary" then some true else if fmt = "text" then some false else none)
      let reveal ← parseOptBytes reveal
      let wire ← ofHex wire
      match initColumn rc with
      | none => pure "badsetting"
      | some c => pure (showRes (pgTypedRead c.setting binary ⟨rc.raw.defaultB64⟩ (fun _ => reveal) wire))
  | "my.readk", [kind, t, onFail, dflt, utf8, b64, fmt, origType, reveal, wire] => do
      let rc ← mkColumn kind "false" "false" "false" "true" t onFail dflt utf8 b64
      let binary ← (if fmt = "binary" then some true else if fmt = "text" then some false else none)
      let origType ← origType.toNat?
      let reveal ← parseOptBytes reveal
      let wire ← ofHex wire
      match initColumn rc with
      | none => pure "badsetting"
      | some c =>
        let s := c.setting
        let (colType, originType) := match s.dataType with
          | some dt => (myTypeCode dt, origType)
          | none => (origType, 0)
        let r := myTypedRead s binary colType originType ⟨rc.raw.defaultB64⟩ (fun _ => reveal) wire
        pure (match myDeliveredType s origType r with
          | some d => s!"{showRes r} {d}"
          | none => showRes r)
  | "parseint", [bits, s] => do
      let bits ← bits.toNat?
      let s ← ofHex s
      pure (match parseInt s bits with | some n => s!"ok {n}" | none => "err")
  | "formatint", [n] => do
      let n ← n.toInt?
      pure ("ok " ++ hexOf (formatInt n))
  | "int.bin", [order, k, n] => do
      let k ← k.toNat?
      let n ← n.toInt?
      if order = "be" then pure (hexOf (intToBE k n)) else if order = "le" then pure (hexOf (intToLE k n)) else none
  | "int.unbin", [order, b] => do
      let b ← ofHex b
      if order = "be" then pure s!"{beToInt b}" else if order = "le" then pure s!"{leToInt b}" else none
  -- configuration validation: does Init accept the column setting, and what does it become
  | "setting.pg", [t, onFail, dflt, utf8, b64] | "setting.my", [t, onFail, dflt, utf8, b64] => do
      let raw ← mkRaw t onFail dflt utf8 b64
      pure (match initSetting raw with
        | some s => "ok " ++ (match s.policy with | .ciphertext => "ciphertext" | .defaultValue => "default_value" | .error => "error")
        | none => "err")
  -- PostgreSQL: decoder → reveal → encoder for one column
  | "pg.read", [t, onFail, dflt, utf8, b64, fmt, reveal, wire] => do
      let raw ← mkRaw t onFail dflt utf8 b64
      let binary ← (if fmt = "binary" then some true else if fmt = "text" then some false else none)
      let reveal ← parseOptBytes reveal
      let wire ← ofHex wire
      match initSetting raw with
      | none => pure "badsetting"
      | some s => pure (showRes (pgTypedRead s binary ⟨raw.defaultB64⟩ (fun _ => reveal) wire))
  | "pg.describe", [t, dbOid] => do
      let t ← parseType t
      let dbOid ← dbOid.toNat?
      pure s!"{pgDescribe ⟨t, .ciphertext, none, true⟩ true dbOid}"
  -- MySQL: decoder → reveal → encoder for one column stored under `origType`
  | "my.read", [t, onFail, dflt, utf8, b64, fmt, origType, reveal, wire] => do
      let raw ← mkRaw t onFail dflt utf8 b64
      let binary ← (if fmt = "binary" then some true else if fmt = "text" then some false else none)
      let origType ← origType.toNat?
      let reveal ← parseOptBytes reveal
      let wire ← ofHex wire
      match initSetting raw with
      | none => pure "badsetting"
      | some s =>
        -- column info as `onColumnDecryption` builds it: (field.Type, field.originType)
        let (colType, originType) := match s.dataType with
          | some dt => (myTypeCode dt, origType)
          | none => (origType, 0)
        let r := myTypedRead s binary colType originType ⟨raw.defaultB64⟩ (fun _ => reveal) wire
        pure (match myDeliveredType s origType r with
          | some d => s!"{showRes r} {d}"
          | none => showRes r)
  | _, _ => none

end Driver.C19
