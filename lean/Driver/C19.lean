import AcraModel.Basic.Bytes
/-! Driver ops for C19. -/
namespace Driver.C19
open AcraModel

def handle (op : String) (args : List String) : Option String :=
  match op, args with
  | _, _ => none

end Driver.C19
