import AcraModel.Basic.Bytes
/-! Driver ops for C18. -/
namespace Driver.C18
open AcraModel

def handle (op : String) (args : List String) : Option String :=
  match op, args with
  | _, _ => none

end Driver.C18
