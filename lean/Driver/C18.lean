import AcraModel.KeystoreSec.Der
import AcraModel.Crypto.Shim
import Driver.V1Keys
/-!
Driver ops for C18 (v2 export / import at the level of plaintext key-ring views).

`C18.v2 <wp 0|1> <nsrc> <ring>… <nsel> <path>… <ntgt> <ring>…`
* ring = `<path hex>;<current>;<key>|<key>…` (`-` = no keys)
* key  = `<seq>,<state>,<since>,<until>,<data>&<data>…` (`-` = no data)
* data = `<format>:<pub hex>:<priv hex>:<sym hex>` – all material in plaintext
Result: `<xerr | ok | err> <n> <ring>…` = export failed | import succeeded | import failed, followed
by the plaintext view of every ring of the target afterwards (sorted by path).
-/
namespace Driver.C18
open AcraModel AcraModel.KeystoreSec AcraModel.KeystoreSec.Export

def parseInt (s : String) : Option Int :=
  if s.startsWith "-" then (s.drop 1).toNat?.map fun n => -(n : Int) else s.toNat?.map fun n => (n : Int)

def parseData (s : String) : Option KeyData :=
  match s.splitOn ":" with
  | [f, a, b, c] => do
    let f ← f.toNat?; let a ← ofHex a; let b ← ofHex b; let c ← ofHex c
    pure ⟨f, a, b, c⟩
  | _ => none

def parseKey (s : String) : Option Key :=
  match s.splitOn "," with
  | [a, b, c, d, e] => do
    let a ← parseInt a; let b ← b.toNat?; let c ← parseInt c; let d ← parseInt d
    let ds ← if e = "-" then some [] else (e.splitOn "&").mapM parseData
    pure ⟨a, b, c, d, ds⟩
  | _ => none

def parseRing (s : String) : Option Ring :=
  match s.splitOn ";" with
  | [p, c, ks] => do
    let p ← ofHex p; let c ← parseInt c
    let ks ← if ks = "-" then some [] else (ks.splitOn "|").mapM parseKey
    pure ⟨p, ks, c⟩
  | _ => none

def showData (d : KeyData) : String := s!"{d.format}:{hexOf d.pub}:{hexOf d.priv}:{hexOf d.sym}"
def showKey (k : Key) : String :=
  s!"{k.seq},{k.state},{k.since},{k.until_}," ++ (if k.data.isEmpty then "-" else "&".intercalate (k.data.map showData))
def showRing (r : Ring) : String :=
  s!"{hexOf r.purpose};{r.current};" ++ (if r.keys.isEmpty then "-" else "|".intercalate (r.keys.map showKey))

def fixedNonce : Nonces := fun _ _ => List.replicate 12 0

/-- store a plaintext ring the way the key store would (every key data item encrypted for its ring
and seqnum); keys without data (destroyed) are stored as they are -/
def storeRing (master : Bytes) (x : Ring) : Option Ring := do
  let ks ← x.keys.mapM fun k => do
    let ds ← k.data.mapM (addKeyData shimOps fixedNonce master x.purpose k.seq)
    pure { k with data := ds }
  pure { x with keys := ks }

/-- what a ring looks like after it went through a DER round trip: the data items of every key
(a SET OF) come back sorted by their encodings. Identity for keys with at most one data item. -/
def canonRing (r : Ring) : Ring :=
  { r with keys := r.keys.map fun k => { k with data := Der.sortBy Der.derKeyData k.data } }

/-- a ring list after a DER round trip (SET OF rings, SET OF data) -/
def canonRings (rs : List Ring) : List Ring := Der.sortBy Der.derRing (rs.map canonRing)

/-- `importRings` with the stored form of every written ring canonicalised (it is serialised) -/
def importRingsC : Store → List Ring → Store × Bool
  | s, [] => (s, true)
  | s, x :: xs =>
    match importKeyRing shimOps fixedNonce s x with
    | (s', true) =>
      let s'' := match s'.get x.purpose with
        | some r => s'.put x.purpose (canonRing r)
        | none => s'
      importRingsC s'' xs
    | (s', false) => (s', false)

def mkStore (master : Bytes) (rs : List Ring) : Option Store := do
  let stored ← rs.mapM (storeRing master)
  pure (stored.foldl (fun s r => s.put r.purpose (canonRing r)) ⟨master, fun _ => none⟩)

def takeN {α} (n : Nat) (xs : List α) : Option (List α × List α) :=
  if xs.length < n then none else some (xs.take n, xs.drop n)

def insertSorted (p : Bytes) : List Bytes → List Bytes
  | [] => [p]
  | q :: r => if p = q then q :: r else if decide (hexOf p < hexOf q) then p :: q :: r else q :: insertSorted p r

def srcMaster : Bytes := Path.ofStr "source-master-key-0123456789abcdef"
def tgtMaster : Bytes := Path.ofStr "target-master-key-0123456789abcdef"

def view (T : Store) (paths : List Bytes) : String :=
  let rs := paths.filterMap fun p =>
    match T.get p with
    | none => none
    | some r => match exportRing shimOps T.master p true r with
      | .ok x => some (showRing x)
      | _ => some (hexOf p ++ ";undecryptable")
  s!"{rs.length}" ++ String.join (rs.map (" " ++ ·))

def handle (op : String) (args : List String) : Option String :=
  match op, args with
  | "v2", wp :: ns :: rest => do
    let wp := wp = "1"
    let ns ← ns.toNat?
    let (src, rest) ← takeN ns rest
    let src ← src.mapM parseRing
    match rest with
    | nsel :: rest => do
      let nsel ← nsel.toNat?
      let (sel, rest) ← takeN nsel rest
      let sel ← sel.mapM ofHex
      match rest with
      | nt :: rest => do
        let nt ← nt.toNat?
        let (tgt, rest) ← takeN nt rest
        if rest ≠ [] then none
        let tgt ← tgt.mapM parseRing
        let S ← mkStore srcMaster src
        let T ← mkStore tgtMaster tgt
        let paths := (tgt.map (·.purpose) ++ src.map (·.purpose)).foldl (fun acc p => insertSorted p acc) []
        match exportRings shimOps S wp sel with
        | none => pure ("xerr " ++ view T paths)
        | some xs =>
          let (T', ok) := importRingsC T (canonRings xs)
          pure ((if ok then "ok " else "err ") ++ view T' paths)
      | _ => none
    | _ => none
  | op, args => Driver.V1Keys.handleC18 op args

end Driver.C18
