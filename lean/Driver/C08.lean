import AcraModel.Keystore.Calls
import Driver.C06
/-! Driver ops for C08: a history, one write operation under a fault, reopen, follow-ups.

`C08.v1 <cache> <mode> <k> H <op>… O <op> F <op>…` (and `C08.v2m`/`C08.v2d` without `<cache>`)
→ `<calls>;<outcome>;<follow-up observations>` (see harness/internal/c08/c08.go). -/
namespace Driver.C08
open AcraModel AcraModel.Keystore Driver.C06

def fileTokOf (f : FileId) : String := fileTok (f.slot, f.pub)

def renderCall (pre : FS) : Call → String
  | .mkdirAll _ => "MkdirAll:dir"
  | .tempFile f => "TempFile:" ++ fileTokOf f
  | .writeFile _ f _ => "WriteFile:tmp(" ++ fileTokOf f ++ ")"
  | .stat f => "Stat:" ++ fileTokOf f
  | .mkdirOld f => "MkdirAll:" ++ fileTokOf f ++ ".old"
  | .link f => "Link:" ++ fileTokOf f
  | .copy f => "Copy:" ++ fileTokOf f
  | .rename _ f => "Rename:tmp(" ++ fileTokOf f ++ ")>" ++ fileTokOf f
  | .remove f => "Remove:" ++ fileTokOf f
  | .readDirOld f => "ReadDir:" ++ fileTokOf f ++ ".old"
  | .readDirHist f => "ReadDir:" ++ fileTokOf f ++ ".old"
  | .removeOld f t => "Remove:" ++ fileTokOf f ++ ".old/@" ++ toString (((pre.old f).map (·.1)).idxOf t)

def renderBCall : BCall → String
  | .lock => "Lock" | .unlock => "Unlock" | .rlock => "RLock" | .runlock => "RUnlock"
  | .get s => "Get:" ++ slotTok s
  | .putNew s => "Put:" ++ slotTok s ++ ".new"
  | .renameNew s => "Rename:" ++ slotTok s ++ ".new"
  | .listAll => "ListAll"

def renderOutcome : Outcome → String
  | .ok => "ok" | .err => "err" | .crash => "crash"

def parseMode : String → Option FaultMode
  | "none" => some .none | "err" => some .err | "cb" => some .cb | "ca" => some .ca | "torn" => some .torn
  | _ => none

structure Scenario where
  hist : List Op
  op : Op
  follow : List Op

def parseSections (toks : List String) : Option Scenario := do
  let (h, rest) := (toks.drop 1).span (· ≠ "O")
  guard (toks.head? = some "H")
  match rest with
  | "O" :: o :: "F" :: f => do
    let hist ← h.mapM parseOp
    let op ← parseOp o
    let follow ← f.mapM parseOp
    pure ⟨hist, op, follow⟩
  | _ => none

def opSlot : Op → Option Slot
  | .gen s | .cur s | .pub s | .all s | .dcur s | .drot s _ => some s
  | _ => none

/-- side effect of the harness's snapshot reads on a v2 store: reading a poison kind opens its ring
read-write, which creates a missing ring -/
def snapshotV2 (st : V2) (slots : List Slot) : V2 :=
  slots.foldl (fun st s => match s.kind with
    | .pp | .ps => match st.openRW s with | some (st', _) => st' | none => st
    | _ => st) st

def handle (op : String) (args : List String) : Option String :=
  match op, args with
  | "v1", c :: m :: k :: rest => do
      let c ← parseInt c
      let mode ← parseMode m
      let k ← k.toNat?
      let sc ← parseSections rest
      let (st, _) := (V1.init c).run sc.hist
      let (st1, trace, out) := st.stepF ⟨mode, k⟩ sc.op
      let (_, obs) := st1.clear.run sc.follow
      pure (joinOr "," (trace.map (renderCall st.fs)) ++ ";" ++ renderOutcome out ++ ";" ++
        (if obs.isEmpty then "-" else "|".intercalate (obs.map (renderObs Generated.KeyNames.v1FirstListedIndex))))
  | "v2m", m :: k :: rest | "v2d", m :: k :: rest => do
      let mode ← parseMode m
      let k ← k.toNat?
      let sc ← parseSections rest
      let slots := ((sc.hist ++ [sc.op] ++ sc.follow).filterMap opSlot).eraseDups
      let (st, _) := V2.init.run sc.hist
      let st := snapshotV2 st slots
      let (st1, trace, out) := st.stepF ⟨mode, k⟩ sc.op
      let st1 := snapshotV2 st1 slots
      let (_, obs) := st1.run sc.follow
      pure (joinOr "," (trace.map renderBCall) ++ ";" ++ renderOutcome out ++ ";" ++
        (if obs.isEmpty then "-" else "|".intercalate (obs.map (renderObs Generated.KeyNames.v2FirstListedIndex))))
  | _, _ => none

end Driver.C08
