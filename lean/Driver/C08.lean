import AcraModel.Keystore.CallsImport
import AcraModel.Keystore.RotateTool
import AcraModel.Keystore.SysFile
import Driver.C06
/-! Driver ops for C08: a history, one write operation under a fault, operations on the same handle
(when the process survives), reopen, follow-ups.

`C08.v1 <cache> <mode> <k> H <op>… O <op> [S <op>…] F <op>…` (and `C08.v2m`/`C08.v2d` without `<cache>`)
→ `<calls>;<outcome>[;<same-handle observations>];<follow-up observations>` (see harness/internal/c08/c08.go).
`C08.rot <v1|v2> <mode> <k> <n>` → `<outcome>;<files>;<offered>` (harness/internal/c08/rotate.go). -/
namespace Driver.C08
open AcraModel AcraModel.Keystore Driver.C06

def fileTokOf (f : FileId) : String := fileTok (f.slot, f.pub)

def renderCall (pre : FS) : Call → String
  | .mkdirAll _ => "MkdirAll:dir"
  | .tempFile f => "TempFile:" ++ fileTokOf f
  | .writeFile _ f _ => "WriteFile:tmp(" ++ fileTokOf f ++ ")"
  | .stat f => "Stat:" ++ fileTokOf f
  | .mkdirOld f => "MkdirAll:" ++ fileTokOf f ++ ".old"
  | .link f => "Link:" ++ fileTokOf f
  | .copy f => "Copy:" ++ fileTokOf f
  | .rename _ f => "Rename:tmp(" ++ fileTokOf f ++ ")>" ++ fileTokOf f
  | .remove f => "Remove:" ++ fileTokOf f
  | .readDirOld f => "ReadDir:" ++ fileTokOf f ++ ".old"
  | .readDirHist f => "ReadDir:" ++ fileTokOf f ++ ".old"
  | .removeOld f t => "Remove:" ++ fileTokOf f ++ ".old/@" ++ toString (((pre.old f).map (·.1)).idxOf t)

def renderBCall : BCall → String
  | .lock => "Lock" | .unlock => "Unlock" | .rlock => "RLock" | .runlock => "RUnlock"
  | .get s => "Get:" ++ slotTok s
  | .putNew s => "Put:" ++ slotTok s ++ ".new"
  | .renameNew s => "Rename:" ++ slotTok s ++ ".new"
  | .listAll => "ListAll"

def renderOutcome : Outcome → String
  | .ok => "ok" | .err => "err" | .crash => "crash"

/-- `sys<n>`: the back-end call is a `Put` whose `write(2)` fails after `n` bytes (file size limit). At call
level that is a `Put` that returned an error without having done anything – theorem `C08.put_error_leaves_no_file`. -/
def parseMode (t : String) : Option FaultMode :=
  match t with
  | "none" => some .none | "err" => some .err | "cb" => some .cb | "ca" => some .ca | "torn" => some .torn
  | _ => if t.startsWith "sys" && (t.drop 3).toNat?.isSome then some .err else none

/-- the write operation under test -/
inductive WOp
  | api (op : Op)
  | imp (overwrite : Bool) (items : List (Slot × Bool))
  | mig (slots : List Slot)
  | hop (s : Slot) (h : HOp)

def parseItem (t : String) : Option (Slot × Bool) :=
  if t.endsWith ".pub" then (parseSlot (t.dropRight 4)).map (·, true) else (parseSlot t).map (·, false)

def parseHop (t : String) : Option HOp :=
  if t = "A" then some .add
  else if t.startsWith "C" then (t.drop 1).toNat?.map .setCurrent
  else if t.startsWith "D" then (t.drop 1).toNat?.map .destroy
  else none

def parseWOp (t : String) : Option WOp :=
  match parseOp t with
  | some op => some (.api op)
  | none =>
    match t.splitOn ":" with
    | ["i", items] => ((items.splitOn "+").mapM parseItem).map (.imp false)
    | ["io", items] => ((items.splitOn "+").mapM parseItem).map (.imp true)
    | ["m", items] => ((items.splitOn "+").mapM parseSlot).map .mig
    | ["h", s, h] => do let s ← parseSlot s; let h ← parseHop h; pure (.hop s h)
    | _ => none

def WOp.slots : WOp → List Slot
  | .api op => (match op with
      | .gen s | .cur s | .pub s | .all s | .dcur s | .drot s _ => [s]
      | _ => [])
  | .imp _ items => items.map (·.1)
  | .mig slots => slots
  | .hop s _ => [s]

structure Scenario where
  hist : List Op
  op : WOp
  /-- raw tokens: API ops, or handle ops when `op` is a handle op; `none` = no S section -/
  same : Option (List String)
  follow : List Op

def parseSections (toks : List String) : Option Scenario := do
  let (h, rest) := (toks.drop 1).span (· ≠ "O")
  guard (toks.head? = some "H")
  match rest with
  | "O" :: o :: rest2 => do
    let hist ← h.mapM parseOp
    let op ← parseWOp o
    let (same, rest3) : Option (List String) × List String := match rest2 with
      | "S" :: r => let (s, r') := r.span (· ≠ "F"); (some s, r')
      | r => (none, r)
    match rest3 with
    | "F" :: f => do
      let follow ← f.mapM parseOp
      pure ⟨hist, op, same, follow⟩
    | _ => none
  | _ => none

def opSlot : Op → Option Slot
  | .gen s | .cur s | .pub s | .all s | .dcur s | .drot s _ => some s
  | _ => none

def Scenario.slots (sc : Scenario) : List Slot :=
  let sameSlots := match sc.same, sc.op with
    | some toks, .api _ => (toks.filterMap parseOp).filterMap opSlot
    | _, _ => []
  (sc.hist.filterMap opSlot ++ sc.op.slots ++ sameSlots ++ sc.follow.filterMap opSlot).eraseDups

/-- side effect of the harness's snapshot reads on a v2 store: reading a poison kind opens its ring
read-write, which creates a missing ring -/
def snapshotV2 (st : V2) (slots : List Slot) : V2 :=
  slots.foldl (fun st s => match s.kind with
    | .pp | .ps => match st.openRW s with | some (st', _) => st' | none => st
    | _ => st) st

/-- the harness's snapshot reads THROUGH THE HANDLE UNDER TEST (v1: they go through its cache) -/
def snapshotOps (slots : List Slot) : List Op :=
  slots.flatMap fun s => [Op.cur s] ++ (if s.kind == .sp then [Op.pub s] else []) ++ (if s.kind.hasAll then [Op.all s] else [])

def renderObsList (first : Nat) (obs : List Obs) : String :=
  if obs.isEmpty then "-" else "|".intercalate (obs.map (renderObs first))

def assemble (calls : String) (out : Outcome) (same : Option String) (follow : String) : String :=
  calls ++ ";" ++ renderOutcome out ++ (match same with | some s => ";" ++ s | none => "") ++ ";" ++ follow

/-- the faulted call was an unlock that "failed": it was not performed, the handle keeps the store's lock -/
def unlockFailed (mode : FaultMode) (k : Nat) (trace : List BCall) : Bool :=
  mode == .err && (trace[k]? == some .unlock || trace[k]? == some .runlock)

def handleV1 (c : Int) (mode : FaultMode) (k : Nat) (sc : Scenario) : Option String :=
  let first := Generated.KeyNames.v1FirstListedIndex
  let (st, _) := (V1.init c).run sc.hist
  let slots := sc.slots
  match sc.op with
  | .api op =>
    -- with same-handle follow-ups the harness first reads everything through the handle under test
    let st := if sc.same.isSome then (st.run (snapshotOps slots)).1 else st
    let (st1, trace, out) := st.stepF ⟨mode, k⟩ op
    let calls := joinOr "," (trace.map (renderCall st.fs))
    let died := out == .crash
    let (st2, same) : V1 × Option String := match sc.same with
      | none => (st1, none)
      | some toks =>
        if died then (st1, some "-") else
        match toks.mapM parseOp with
        | none => (st1, some "?")
        | some ops =>
          let (sa, _) := st1.run (snapshotOps slots)
          let (sb, obs) := sa.run ops
          let (sc', _) := sb.run (snapshotOps slots)
          (sc', some (renderObsList first obs))
    let (_, obs) := st2.clear.run sc.follow
    some (assemble calls out same (renderObsList first obs))
  | .imp _ items =>
    let (st1, trace, cleaned, out) := st.importF ⟨mode, k⟩ (items.map fun (s, p) => ⟨s, p⟩)
    let calls := trace.map (renderCall st.fs) ++ (match cleaned with | some f => ["Remove:tmp(" ++ fileTokOf f ++ ")"] | none => [])
    let (_, obs) := st1.clear.run sc.follow
    some (assemble (joinOr "," calls) out none (renderObsList first obs))
  | _ => none

def handleV2 (mode : FaultMode) (k : Nat) (sc : Scenario) : Option String :=
  let first := Generated.KeyNames.v2FirstListedIndex
  let slots := sc.slots
  let (st, _) := V2.init.run sc.hist
  let st := snapshotV2 st slots
  let ft : Fault := ⟨mode, k⟩
  let finish (st1 : V2) (trace : List BCall) (out : Outcome) (same : Option String) : Option String :=
    let st1 := snapshotV2 st1 slots
    let (_, obs) := st1.run sc.follow
    some (assemble (joinOr "," (trace.map renderBCall)) out same (renderObsList first obs))
  match sc.op with
  | .api op =>
    let (st1, trace, out) := st.stepF ft op
    let died := out == .crash || unlockFailed mode k trace
    match sc.same with
    | none => finish st1 trace out none
    | some toks =>
      if died then finish st1 trace out (some "-") else
      match toks.mapM parseOp with
      | none => none
      | some ops =>
        let (st2, obs) := (snapshotV2 st1 slots).run ops
        finish st2 trace out (some (renderObsList first obs))
  | .imp ow items =>
    let (st1, trace, out) := st.importF ft ow (items.map (·.1))
    finish st1 trace out none
  | .mig ss =>
    let (st1, trace, out) := V2.migrateF ft st 0 false ss
    finish st1 trace out none
  | .hop s h =>
    match H2.open st s with
    | none => none
    | some h0 =>
      let (h1, out) := h0.hop ft s h
      let trace := h1.x.trace.reverse
      let died := out == .crash || unlockFailed mode k trace
      match sc.same with
      | none => finish h1.x.st trace out none
      | some toks =>
        if died then finish h1.x.st trace out (some "-") else
        match toks.mapM parseHop with
        | none => none
        | some hops =>
          -- the single fault of the scenario belongs to the first handle operation
          let (h2, outs) := H2.hops ft s { h1 with x := { h1.x with fired := true } } hops
          finish h2.x.st trace out (some (if outs.isEmpty then "-" else "|".intercalate (outs.map renderOutcome)))

def renderFiles (st : Rotate.RSt) (n : Nat) : String :=
  String.join ((List.range n).map fun i => match st.files 0 i with
    | some 0 => "o" | some _ => "n" | none => "x")

/-! ### system-call level ops (`Keystore/SysFile.lean`) -/

def parseLimit (t : String) : Option (Option Nat) := if t = "-" then some none else t.toNat?.map some

def sysData (len : Nat) : Bytes := List.replicate len 0xAB
def sysPre : Bytes := [0x70]

def renderRes : Sys.Res → String
  | .ok => "ok" | .err => "err"

/-- what sits at `p`: nothing, the data, the file that was there before, or `n` other bytes -/
def renderFile (d : Sys.Disk) (p : Sys.Path) (data : Bytes) : String :=
  match d p with
  | none => "absent"
  | some b => if b = data then "data" else if b = sysPre then "pre" else "len:" ++ toString b.length

/-- `C08.putsys <limit|-> <len> <free|taken>`: `Put` of `len` bytes under a file size limit, then the same `Put`
again without a limit → `<outcome>;<file>;<retry outcome>;<file>` -/
def handlePutSys (limit : Option Nat) (len : Nat) (taken : Bool) : String :=
  let e : Sys.PutEnv := ⟨"rel", "full"⟩
  let d0 : Sys.Disk := fun p => if p = "full" && taken then some sysPre else none
  let data := sysData len
  let flt : Sys.PutFaults := { write := limit.bind fun n => if n < len then some n else none }
  let r1 := Sys.put e flt d0 data
  let r2 := Sys.put e Sys.PutFaults.none r1.1 data
  renderRes r1.2 ++ ";" ++ renderFile r1.1 "full" data ++ ";" ++ renderRes r2.2 ++ ";" ++ renderFile r2.1 "full" data

/-- `C08.copysys <limit|-> <len> <free|taken>`: `Copy` of a `len`-byte file under a file size limit
→ `<outcome>;<destination>` -/
def handleCopySys (limit : Option Nat) (len : Nat) (taken : Bool) : String :=
  let data := sysData len
  let d0 : Sys.Disk := fun p => if p = "src" then some data else if p = "dst" && taken then some sysPre else none
  let flt : Sys.CopyFaults := { copy := limit.bind fun n => if n < len then some n else none }
  let r := Sys.copy flt d0 "src" "dst"
  renderRes r.2 ++ ";" ++ renderFile r.1 "dst" data

/-- `C08.putsec <fsync|close> <len>` / `C08.copysec <fsync|close> <len>`: the system call fails for good (seccomp
filter of the child process) → `<outcome>;<file at the path / destination>` -/
def handleSec (put : Bool) (what : String) (len : Nat) : Option String := do
  guard (what = "fsync" || what = "close")
  let data := sysData len
  if put then
    let flt : Sys.PutFaults := { sync := what = "fsync", close := what = "close" }
    let r := Sys.put ⟨"rel", "full"⟩ flt (fun _ => none) data
    pure (renderRes r.2 ++ ";" ++ renderFile r.1 "full" data)
  else
    let d0 : Sys.Disk := fun p => if p = "src" then some data else none
    let flt : Sys.CopyFaults := { sync := what = "fsync", close := what = "close" }
    let r := Sys.copy flt d0 "src" "dst"
    pure (renderRes r.2 ++ ";" ++ renderFile r.1 "dst" data)

/-- `C08.v1nl <limit|-> <len> H <op>… O g:<slot> F <op>…`: v1 store without cache on a storage without hard
links; the history copy of the rotation under test runs under the file size limit -/
def handleV1NoLink (limit : Option Nat) (len : Nat) (sc : Scenario) : Option String :=
  let first := Generated.KeyNames.v1FirstListedIndex
  let (st, _) := (V1.init (-1)).run sc.hist
  match sc.op with
  | .api (.gen s) =>
    if s.kind.isPair then none else
    let (st1, trace, out) := Sys.V1.genNoLink Sys.copyCode st s len limit
    let (_, obs) := st1.clear.run sc.follow
    some (assemble (joinOr "," (trace.map (renderCall st.fs))) out none (renderObsList first obs))
  | _ => none

def handle (op : String) (args : List String) : Option String :=
  match op, args with
  | "putsys", [l, n, pre] => do
      let limit ← parseLimit l
      let len ← n.toNat?
      guard (pre = "free" || pre = "taken")
      pure (handlePutSys limit len (pre = "taken"))
  | "copysys", [l, n, pre] => do
      let limit ← parseLimit l
      let len ← n.toNat?
      guard (pre = "free" || pre = "taken")
      pure (handleCopySys limit len (pre = "taken"))
  | "putsec", [what, n] => do handleSec true what (← n.toNat?)
  | "copysec", [what, n] => do handleSec false what (← n.toNat?)
  | "v1nl", l :: n :: rest => do
      let limit ← parseLimit l
      let len ← n.toNat?
      let sc ← parseSections rest
      handleV1NoLink limit len sc
  | "v1", c :: m :: k :: rest => do
      let c ← parseInt c
      let mode ← parseMode m
      let k ← k.toNat?
      let sc ← parseSections rest
      handleV1 c mode k sc
  | "v2m", m :: k :: rest | "v2d", m :: k :: rest => do
      let mode ← parseMode m
      let k ← k.toNat?
      let sc ← parseSections rest
      handleV2 mode k sc
  | "rot", [_, m, k, n] => do
      let mode ← parseMode m
      let k ← k.toNat?
      let n ← n.toNat?
      let (st, out) := Rotate.exec Rotate.codeVariant ⟨mode, k⟩ 0 Rotate.RSt.init (Rotate.codeEvents [(0, n)])
      pure (renderOutcome out ++ ";" ++ renderFiles st n ++ ";" ++ ".".intercalate ((st.offered 0).map toString))
  | "rotin", [fmt, j, n] => do
      -- cut INSIDE the save of the new key pair, right after its j-th storage / back-end call
      let j ← j.toNat?
      let n ← n.toNat?
      let pre := ((V1.init (-1)).run [.gen Rotate.pairSlot]).1.fs
      let (calls, out, offered) ← (match fmt with
        | "v1" => let r := Rotate.saveCutV1 j; some (r.1.map (renderCall pre), r.2.1, r.2.2)
        | "v2" => let r := Rotate.saveCutV2 j; some (r.1.map renderBCall, r.2.1, r.2.2)
        | _ => none)
      let off := match offered with
        | some l => ".".intercalate (l.map toString)
        | none => "err"
      pure (joinOr "," calls ++ ";" ++ renderOutcome out ++ ";" ++ String.join (List.replicate n "n") ++ ";" ++ off)
  | _, _ => none

end Driver.C08
