import AcraModel.Basic.Bytes
/-! Driver ops for C08. -/
namespace Driver.C08
open AcraModel

def handle (op : String) (args : List String) : Option String :=
  match op, args with
  | _, _ => none

end Driver.C08
