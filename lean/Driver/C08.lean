import AcraModel.Keystore.CallsImport
import AcraModel.Keystore.RotateTool
import Driver.C06
/-! Driver ops for C08: a history, one write operation under a fault, operations on the same handle
(when the process survives), reopen, follow-ups.

`C08.v1 <cache> <mode> <k> H <op>… O <op> [S <op>…] F <op>…` (and `C08.v2m`/`C08.v2d` without `<cache>`)
→ `<calls>;<outcome>[;<same-handle observations>];<follow-up observations>` (see harness/internal/c08/c08.go).
`C08.rot <v1|v2> <mode> <k> <n>` → `<outcome>;<files>;<offered>` (harness/internal/c08/rotate.go). -/
namespace Driver.C08
open AcraModel AcraModel.Keystore Driver.C06

def fileTokOf (f : FileId) : String := fileTok (f.slot, f.pub)

def renderCall (pre : FS) : Call → String
  | .mkdirAll _ => "MkdirAll:dir"
  | .tempFile f => "TempFile:" ++ fileTokOf f
  | .writeFile _ f _ => "WriteFile:tmp(" ++ fileTokOf f ++ ")"
  | .stat f => "Stat:" ++ fileTokOf f
  | .mkdirOld f => "MkdirAll:" ++ fileTokOf f ++ ".old"
  | .link f => "Link:" ++ fileTokOf f
  | .copy f => "Copy:" ++ fileTokOf f
  | .rename _ f => "Rename:tmp(" ++ fileTokOf f ++ ")>" ++ fileTokOf f
  | .remove f => "Remove:" ++ fileTokOf f
  | .readDirOld f => "ReadDir:" ++ fileTokOf f ++ ".old"
  | .readDirHist f => "ReadDir:" ++ fileTokOf f ++ ".old"
  | .removeOld f t => "Remove:" ++ fileTokOf f ++ ".old/@" ++ toString (((pre.old f).map (·.1)).idxOf t)

def renderBCall : BCall → String
  | .lock => "Lock" | .unlock => "Unlock" | .rlock => "RLock" | .runlock => "RUnlock"
  | .get s => "Get:" ++ slotTok s
  | .putNew s => "Put:" ++ slotTok s ++ ".new"
  | .renameNew s => "Rename:" ++ slotTok s ++ ".new"
  | .listAll => "ListAll"

def renderOutcome : Outcome → String
  | .ok => "ok" | .err => "err" | .crash => "crash"

def parseMode : String → Option FaultMode
  | "none" => some .none | "err" => some .err | "cb" => some .cb | "ca" => some .ca | "torn" => some .torn
  | _ => none

/-- the write operation under test -/
inductive WOp
  | api (op : Op)
  | imp (overwrite : Bool) (items : List (Slot × Bool))
  | mig (slots : List Slot)
  | hop (s : Slot) (h : HOp)

def parseItem (t : String) : Option (Slot × Bool) :=
  if t.endsWith ".pub" then (parseSlot (t.dropRight 4)).map (·, true) else (parseSlot t).map (·, false)

def parseHop (t : String) : Option HOp :=
  if t = "A" then some .add
  else if t.startsWith "C" then (t.drop 1).toNat?.map .setCurrent
  else if t.startsWith "D" then (t.drop 1).toNat?.map .destroy
  else none

def parseWOp (t : String) : Option WOp :=
  match parseOp t with
  | some op => some (.api op)
  | none =>
    match t.splitOn ":" with
    | ["i", items] => ((items.splitOn "+").mapM parseItem).map (.imp false)
    | ["io", items] => ((items.splitOn "+").mapM parseItem).map (.imp true)
    | ["m", items] => ((items.splitOn "+").mapM parseSlot).map .mig
    | ["h", s, h] => do let s ← parseSlot s; let h ← parseHop h; pure (.hop s h)
    | _ => none

def WOp.slots : WOp → List Slot
  | .api op => (match op with
      | .gen s | .cur s | .pub s | .all s | .dcur s | .drot s _ => [s]
      | _ => [])
  | .imp _ items => items.map (·.1)
  | .mig slots => slots
  | .hop s _ => [s]

structure Scenario where
  hist : List Op
  op : WOp
  /-- raw tokens: API ops, or handle ops when `op` is a handle op; `none` = no S section -/
  same : Option (List String)
  follow : List Op

def parseSections (toks : List String) : Option Scenario := do
  let (h, rest) := (toks.drop 1).span (· ≠ "O")
  guard (toks.head? = some "H")
  match rest with
  | "O" :: o :: rest2 => do
    let hist ← h.mapM parseOp
    let op ← parseWOp o
    let (same, rest3) : Option (List String) × List String := match rest2 with
      | "S" :: r => let (s, r') := r.span (· ≠ "F"); (some s, r')
      | r => (none, r)
    match rest3 with
    | "F" :: f => do
      let follow ← f.mapM parseOp
      pure ⟨hist, op, same, follow⟩
    | _ => none
  | _ => none

def opSlot : Op → Option Slot
  | .gen s | .cur s | .pub s | .all s | .dcur s | .drot s _ => some s
  | _ => none

def Scenario.slots (sc : Scenario) : List Slot :=
  let sameSlots := match sc.same, sc.op with
    | some toks, .api _ => (toks.filterMap parseOp).filterMap opSlot
    | _, _ => []
  (sc.hist.filterMap opSlot ++ sc.op.slots ++ sameSlots ++ sc.follow.filterMap opSlot).eraseDups

/-- side effect of the harness's snapshot reads on a v2 store: reading a poison kind opens its ring
read-write, which creates a missing ring -/
def snapshotV2 (st : V2) (slots : List Slot) : V2 :=
  slots.foldl (fun st s => match s.kind with
    | .pp | .ps => match st.openRW s with | some (st', _) => st' | none => st
    | _ => st) st

/-- the harness's snapshot reads THROUGH THE HANDLE UNDER TEST (v1: they go through its cache) -/
def snapshotOps (slots : List Slot) : List Op :=
  slots.flatMap fun s => [Op.cur s] ++ (if s.kind == .sp then [Op.pub s] else []) ++ (if s.kind.hasAll then [Op.all s] else [])

def renderObsList (first : Nat) (obs : List Obs) : String :=
  if obs.isEmpty then "-" else "|".intercalate (obs.map (renderObs first))

def assemble (calls : String) (out : Outcome) (same : Option String) (follow : String) : String :=
  calls ++ ";" ++ renderOutcome out ++ (match same with | some s => ";" ++ s | none => "") ++ ";" ++ follow

/-- the faulted call was an unlock that "failed": it was not performed, the handle keeps the store's lock -/
def unlockFailed (mode : FaultMode) (k : Nat) (trace : List BCall) : Bool :=
  mode == .err && (trace[k]? == some .unlock || trace[k]? == some .runlock)

def handleV1 (c : Int) (mode : FaultMode) (k : Nat) (sc : Scenario) : Option String :=
  let first := Generated.KeyNames.v1FirstListedIndex
  let (st, _) := (V1.init c).run sc.hist
  let slots := sc.slots
  match sc.op with
  | .api op =>
    -- with same-handle follow-ups the harness first reads everything through the handle under test
    let st := if sc.same.isSome then (st.run (snapshotOps slots)).1 else st
    let (st1, trace, out) := st.stepF ⟨mode, k⟩ op
    let calls := joinOr "," (trace.map (renderCall st.fs))
    let died := out == .crash
    let (st2, same) : V1 × Option String := match sc.same with
      | none => (st1, none)
      | some toks =>
        if died then (st1, some "-") else
        match toks.mapM parseOp with
        | none => (st1, some "?")
        | some ops =>
          let (sa, _) := st1.run (snapshotOps slots)
          let (sb, obs) := sa.run ops
          let (sc', _) := sb.run (snapshotOps slots)
          (sc', some (renderObsList first obs))
    let (_, obs) := st2.clear.run sc.follow
    some (assemble calls out same (renderObsList first obs))
  | .imp _ items =>
    let (st1, trace, cleaned, out) := st.importF ⟨mode, k⟩ (items.map fun (s, p) => ⟨s, p⟩)
    let calls := trace.map (renderCall st.fs) ++ (match cleaned with | some f => ["Remove:tmp(" ++ fileTokOf f ++ ")"] | none => [])
    let (_, obs) := st1.clear.run sc.follow
    some (assemble (joinOr "," calls) out none (renderObsList first obs))
  | _ => none

def handleV2 (mode : FaultMode) (k : Nat) (sc : Scenario) : Option String :=
  let first := Generated.KeyNames.v2FirstListedIndex
  let slots := sc.slots
  let (st, _) := V2.init.run sc.hist
  let st := snapshotV2 st slots
  let ft : Fault := ⟨mode, k⟩
  let finish (st1 : V2) (trace : List BCall) (out : Outcome) (same : Option String) : Option String :=
    let st1 := snapshotV2 st1 slots
    let (_, obs) := st1.run sc.follow
    some (assemble (joinOr "," (trace.map renderBCall)) out same (renderObsList first obs))
  match sc.op with
  | .api op =>
    let (st1, trace, out) := st.stepF ft op
    let died := out == .crash || unlockFailed mode k trace
    match sc.same with
    | none => finish st1 trace out none
    | some toks =>
      if died then finish st1 trace out (some "-") else
      match toks.mapM parseOp with
      | none => none
      | some ops =>
        let (st2, obs) := (snapshotV2 st1 slots).run ops
        finish st2 trace out (some (renderObsList first obs))
  | .imp ow items =>
    let (st1, trace, out) := st.importF ft ow (items.map (·.1))
    finish st1 trace out none
  | .mig ss =>
    let (st1, trace, out) := V2.migrateF ft st 0 false ss
    finish st1 trace out none
  | .hop s h =>
    match H2.open st s with
    | none => none
    | some h0 =>
      let (h1, out) := h0.hop ft s h
      let trace := h1.x.trace.reverse
      let died := out == .crash || unlockFailed mode k trace
      match sc.same with
      | none => finish h1.x.st trace out none
      | some toks =>
        if died then finish h1.x.st trace out (some "-") else
        match toks.mapM parseHop with
        | none => none
        | some hops =>
          -- the single fault of the scenario belongs to the first handle operation
          let (h2, outs) := H2.hops ft s { h1 with x := { h1.x with fired := true } } hops
          finish h2.x.st trace out (some (if outs.isEmpty then "-" else "|".intercalate (outs.map renderOutcome)))

def renderFiles (st : Rotate.RSt) (n : Nat) : String :=
  String.join ((List.range n).map fun i => match st.files 0 i with
    | some 0 => "o" | some _ => "n" | none => "x")

def handle (op : String) (args : List String) : Option String :=
  match op, args with
  | "v1", c :: m :: k :: rest => do
      let c ← parseInt c
      let mode ← parseMode m
      let k ← k.toNat?
      let sc ← parseSections rest
      handleV1 c mode k sc
  | "v2m", m :: k :: rest | "v2d", m :: k :: rest => do
      let mode ← parseMode m
      let k ← k.toNat?
      let sc ← parseSections rest
      handleV2 mode k sc
  | "rot", [_, m, k, n] => do
      let mode ← parseMode m
      let k ← k.toNat?
      let n ← n.toNat?
      let (st, out) := Rotate.exec Rotate.codeVariant ⟨mode, k⟩ 0 Rotate.RSt.init (Rotate.codeEvents [(0, n)])
      pure (renderOutcome out ++ ";" ++ renderFiles st n ++ ";" ++ ".".intercalate ((st.offered 0).map toString))
  | _, _ => none

end Driver.C08
