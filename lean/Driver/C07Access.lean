import AcraModel.KeystoreSec.V1Methods
import AcraModel.KeystoreSec.Perms
import Driver.V1Keys
/-!
Driver ops of the C07 deepening wave (dispatched from `Driver.C07`):

* `C07.v1.access <Receiver.Method> <id> <present> <index> <tmpPriv> <tmpPub> <tsPriv> <tsPub> <n> <hist>… <m> <pubhist>… => <observed>`
  → `rejected` | `touched <n> <path>…` (sorted set of the paths, relative to the key folder, the method hands to the storage)
* `C07.perm.effective <site> <umask>` → octal mode a file / directory created at that site ends up with
* `C07.perm.open <v1|v2create|v2open> <mode>` → `ok` | `err`: opening a key store over an existing directory of that mode
* `C07.perm.load <mode> <uid0>` → `ok` | `err`: `loadPrivateKey` on a key file of that mode
-/
namespace Driver.C07Access
open AcraModel AcraModel.KeystoreSec AcraModel.KeystoreSec.V1Methods
open Driver.V1Keys (takeList sortStr showList)

def dedup : List String → List String
  | a :: b :: r => if a = b then dedup (b :: r) else a :: dedup (b :: r)
  | l => l

def octal (n : Nat) : String := String.mk (Nat.toDigits 8 n)

def parseOctal (s : String) : Option Nat :=
  s.toList.foldlM (fun acc c => if '0' ≤ c ∧ c ≤ '7' then some (acc * 8 + (c.toNat - '0'.toNat)) else none) 0

def handle (op : String) (args : List String) : Option String :=
  match op, args with
  | "v1.access", m :: id :: present :: index :: tmpPriv :: tmpPub :: tsPriv :: tsPub :: rest => do
      let m ← Method.ofGoName m
      let id ← ofHex id
      let index ← index.toNat?
      let tmpPriv ← ofHex tmpPriv; let tmpPub ← ofHex tmpPub; let tsPriv ← ofHex tsPriv; let tsPub ← ofHex tsPub
      let (ph, rest) ← takeList rest
      let (uh, _) ← takeList rest
      let ph ← ph.mapM ofHex
      let uh ← uh.mapM ofHex
      let e : Env := ⟨present == "1", ph, uh, tmpPriv, tmpPub, tsPriv, tsPub, index⟩
      pure (match access m id e with
        | none => "rejected"
        | some ps => "touched " ++ showList (dedup (sortStr (ps.map hexOf))))
  | "perm.effective", site :: umask :: _ => do
      let umask ← parseOctal umask
      let s ← Perms.Site.ofName site
      pure (octal (Perms.effectiveAt s umask))
  | "perm.open", [kind, mode] => do
      let mode ← parseOctal mode
      match kind with
      | "v1" => pure (if Perms.v1OpenAccepts mode then "ok" else "err")
      | "v2create" | "v2open" => pure (if Perms.v2OpenAccepts mode then "ok" else "err")
      | _ => none
  | "perm.load", [mode, uid0] => do
      let mode ← parseOctal mode
      pure (if Perms.v1LoadAccepts mode (uid0 == "1") then "ok" else "err")
  | _, _ => none

end Driver.C07Access
