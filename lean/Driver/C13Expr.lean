import AcraModel.Sql.Expr
import AcraModel.Sql.ExprTokens
/-! Driver ops for the expression fragment of C13: `expr.parse`, `expr.format`, `expr.tokens`, `expr.producible`,
`expr.roundtrip`.

Trees travel in prefix form: `val <ty> <hex>` | `null` | `bool <0|1>` | `col <hex>` | `func <hex> <n> arg…` | `paren X` |
`and L R` | `or L R` | `not X` | `is <op> X` | `cmp <op> L R` | `range <0|1> L LO HI` | `bin <op> L R` | `un <op> X`
where `<op>` is the operator text of `ast.go` with `_` for a space. Tokens: `s:<yacc name>` | `l:<ty>:<hex>` | `i:<hex>`
| anything else (a token outside the fragment). -/
namespace Driver.C13Expr
open AcraModel AcraModel.Sql.Expr

def key (s : String) : String := s.replace " " "_"

def symsText (ss : List Sym) : String := " ".intercalate (ss.map Sym.text)

def cmpText (o : CmpOp) : String := symsText o.syms
def isText (o : IsOp) : String := "is " ++ symsText o.syms

mutual
def showTree : Expr → String
  | .val ty v => s!"val {ty} {hexOf v}"
  | .null => "null"
  | .bool b => if b then "bool 1" else "bool 0"
  | .col n => s!"col {hexOf n}"
  | .func n args => s!"func {hexOf n} {args.length}" ++ showArgs args
  | .paren e => "paren " ++ showTree e
  | .and l r => "and " ++ showTree l ++ " " ++ showTree r
  | .or l r => "or " ++ showTree l ++ " " ++ showTree r
  | .not e => "not " ++ showTree e
  | .is op e => "is " ++ key (isText op) ++ " " ++ showTree e
  | .cmp op l r => "cmp " ++ key (cmpText op) ++ " " ++ showTree l ++ " " ++ showTree r
  | .range neg l lo hi =>
      (if neg then "range 1 " else "range 0 ") ++ showTree l ++ " " ++ showTree lo ++ " " ++ showTree hi
  | .bin op l r => "bin " ++ key op.text ++ " " ++ showTree l ++ " " ++ showTree r
  | .un op e => "un " ++ key op.text ++ " " ++ showTree e
def showArgs : List Expr → String
  | [] => ""
  | e :: es => " " ++ showTree e ++ showArgs es
end

def readTree : Nat → List String → Option (Expr × List String)
  | 0, _ => none
  | n + 1, ts =>
    match ts with
    | "val" :: ty :: h :: r => do
        let t ← ty.toNat?
        let v ← ofHex h
        pure (.val t v, r)
    | "null" :: r => pure (.null, r)
    | "bool" :: b :: r => pure (.bool (b == "1"), r)
    | "col" :: h :: r => do let v ← ofHex h; pure (.col v, r)
    | "func" :: h :: k :: r => do
        let v ← ofHex h
        let k ← k.toNat?
        let rec go (i : Nat) (acc : List Expr) (r : List String) : Option (List Expr × List String) :=
          match i with
          | 0 => some (acc.reverse, r)
          | i + 1 => do
              let (e, r') ← readTree n r
              go i (e :: acc) r'
        let (args, r') ← go k [] r
        pure (.func v args, r')
    | "paren" :: r => do let (e, r) ← readTree n r; pure (.paren e, r)
    | "and" :: r => do let (a, r) ← readTree n r; let (b, r) ← readTree n r; pure (.and a b, r)
    | "or" :: r => do let (a, r) ← readTree n r; let (b, r) ← readTree n r; pure (.or a b, r)
    | "not" :: r => do let (e, r) ← readTree n r; pure (.not e, r)
    | "is" :: o :: r => do
        let op ← IsOp.all.find? (fun x => key (isText x) == o)
        let (e, r) ← readTree n r
        pure (.is op e, r)
    | "cmp" :: o :: r => do
        let op ← CmpOp.all.find? (fun x => key (cmpText x) == o)
        let (a, r) ← readTree n r
        let (b, r) ← readTree n r
        pure (.cmp op a b, r)
    | "range" :: ng :: r => do
        let (a, r) ← readTree n r
        let (b, r) ← readTree n r
        let (c, r) ← readTree n r
        pure (.range (ng == "1") a b c, r)
    | "bin" :: o :: r => do
        let op ← BinOp.all.find? (fun x => key x.text == o)
        let (a, r) ← readTree n r
        let (b, r) ← readTree n r
        pure (.bin op a b, r)
    | "un" :: o :: r => do
        let op ← UnOp.all.find? (fun x => key x.text == o)
        let (e, r) ← readTree n r
        pure (.un op e, r)
    | _ => none

def readWhole (ts : List String) : Option Expr :=
  match readTree (ts.length + 1) ts with
  | some (e, []) => some e
  | _ => none

def showTok : Tok → String
  | .sym s => "s:" ++ s.yacc
  | .lit ty v => s!"l:{ty}:{hexOf v}"
  | .id n => "i:" ++ hexOf n

/-- a token outside the fragment makes the token list unreadable for the model: the answer is `err` -/
def readTok (s : String) : Option Tok :=
  match s.splitOn ":" with
  | ["s", y] => (Sym.all.find? (fun x => x.yacc == y)).map .sym
  | ["s", "'", "'"] => none
  | ["l", ty, h] => do let t ← ty.toNat?; let v ← ofHex h; pure (.lit t v)
  | ["i", h] => do let v ← ofHex h; pure (.id v)
  | _ => none

def handle (op : String) (args : List String) : Option String :=
  match op, args with
  | "expr.parse", _ :: _ :: _ :: toks =>
      match toks.mapM readTok with
      | none => some "err"
      | some ts =>
          match parseExpr ts with
          | some e => some ("ok " ++ showTree e)
          | none => some "err"
  | "expr.conserve", _ :: _ :: _ :: toks =>
      match toks.mapM readTok with
      | none => some "err"
      | some ts =>
          match parseExpr ts with
          | some e =>
              let carries (l : List Tok) : String :=
                let v := (lexemes l).map showTok
                if v.isEmpty then "-" else ",".intercalate v
              some s!"ok {carries ts} | {carries (tokens (format e))}"
          | none => some "err"
  | "expr.format", _ :: tree => do
      let e ← readWhole tree
      pure ("ok " ++ hexOf (render (format e)))
  | "expr.tokens", _ :: tree => do
      let e ← readWhole tree
      pure ("ok " ++ " ".intercalate ((tokens (format e)).map showTok))
  | "expr.ops", _ =>
      -- the operator table of the model (all derived from the regenerated tables): the harness enumerates every pair
      some ("infix or and " ++ " ".intercalate (CmpOp.all.map (fun o => key (cmpText o))) ++ " " ++
        " ".intercalate (BinOp.all.map (fun o => key o.text)) ++
        " prefix not " ++ " ".intercalate (UnOp.all.map (fun o => key o.text)) ++
        " postfix " ++ " ".intercalate (IsOp.all.map (fun o => key (isText o))))
  | "expr.producible", tree => do
      let e ← readWhole tree
      pure (if producibleB e then "yes" else "no")
  | "expr.roundtrip", _ :: tree => do
      let e ← readWhole tree
      match parseExpr (tokens (format e)) with
      | some e' => pure (if Expr.beq e e' then "same" else "diff " ++ showTree e')
      | none => pure "err"
  | _, _ => none

end Driver.C13Expr
