import AcraModel.Basic.Bytes
/-! Driver ops for C10. -/
namespace Driver.C10
open AcraModel

def handle (op : String) (args : List String) : Option String :=
  match op, args with
  | _, _ => none

end Driver.C10
