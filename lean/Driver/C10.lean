import AcraModel.Basic.Bytes
import AcraModel.Crypto.Shim
import AcraModel.Token.Concurrent
import AcraModel.Token.Data
/-! Driver ops for C10 (tokenization). The crypto instance is `shimOps` (real SHA-256), so the record
ids the model computes are the very ids the implementation uses. -/
namespace Driver.C10
open AcraModel AcraModel.Token

def C := shimOps

def tyOf : String → Option TokenType
  | "int32" => some .int32 | "int64" => some .int64 | "str" => some .str
  | "bytes" => some .bytes | "email" => some .email | _ => none

def hexList (s : String) : Option (List Bytes) :=
  if s = "_" then some [] else (s.splitOn ",").mapM ofHex

def resStr : Res → String
  | .ok b => "ok." ++ hexOf b
  | .err => "err"
  | .panic => "panic"

def hex8 (b : Bytes) : String := String.ofList ((hexOf (b.take 4)).toList)

def keyStr (k : Key) : String :=
  -- 4 hex chars of the context bucket, the record prefix letter, 8 hex chars of the id hash
  let pre := match k.2 with | p :: _ => String.singleton (Char.ofNat p.toNat) | [] => "?"
  String.ofList ((hexOf (k.1.take 2)).toList) ++ pre ++ hex8 (k.2.drop 2)

def evStr : Ev → String
  | .get k (.found _) => "G" ++ keyStr k ++ "f"
  | .get k .notFound => "G" ++ keyStr k ++ "n"
  | .get k .disabled => "G" ++ keyStr k ++ "d"
  | .save k true => "S" ++ keyStr k ++ "1"
  | .save k false => "S" ++ keyStr k ++ "0"
  | .saveFail k => "S" ++ keyStr k ++ "E"
  | .none => "-"

/-- a model thread plus how its result is rendered (DataTokenizer threads print text) -/
structure DThread where
  th : Option Thread     -- `none`: the text did not parse (DataTokenizer returned the parse error)
  text : Bool
  ty : TokenType

structure DState where
  enc : Bool
  store : Store
  threads : Array DThread
  events : Array String

def rndOf (ty : TokenType) (vlen : Nat) (cands : List Bytes) : Nat → Draws :=
  fun n => drawsOf ty vlen (cands.getD n [])

def stepI (st : DState) (i : Nat) : DState :=
  match st.threads[i]? with
  | some { th := some t, text, ty } =>
    match t.pc with
    | .done _ => st
    | _ =>
      let (s', t', ev) := stepThread C st.enc st.store t
      { st with store := s', threads := st.threads.set! i { th := some t', text, ty },
                events := if ev == Ev.none then st.events else st.events.push (evStr ev) }
  | _ => st

def isDone (st : DState) (i : Nat) : Bool :=
  match st.threads[i]? with
  | some { th := some t, .. } => match t.pc with | .done _ => true | _ => false
  | _ => true

def completeI (st : DState) (i : Nat) : Nat → DState
  | 0 => st
  | f + 1 => if isDone st i then st else completeI (stepI st i) i f

def actOf (action sel : String) : Option (Key → Rec → Action) := do
  let a ← match action with
    | "disable" => some Action.disable | "enable" => some Action.enable
    | "remove" => some Action.remove | "continue" => some Action.continue | _ => none
  match sel with
  | "all" => some fun _ _ => a
  | "dis" => some fun _ r => if r.disabled then a else .continue
  | "ena" => some fun _ r => if r.disabled then .continue else a
  | _ => none

def ctxOf (cid ac : String) : Option Ctx := do
  let c ← ofHex cid; let a ← ofHex ac; pure ⟨c, a⟩

def spawn (st : DState) (seq : Bool) (dt : DThread) : DState :=
  let st := { st with threads := st.threads.push dt }
  if seq then completeI st (st.threads.size - 1) 64 else st

def item (st : DState) (seq : Bool) (it : String) : Option DState :=
  match it.splitOn ":" with
  | ["A", mode, cid, ac, ty, v, cands] => do
    let x ← ctxOf cid ac; let ty ← tyOf ty; let v ← ofHex v; let cs ← hexList cands
    let cons ← match mode with | "c" => some true | "r" => some false | _ => none
    let t := Thread.start ⟨.anon cons, x, ty, v⟩ (rndOf ty v.length cs)
    pure (spawn st seq { th := some t, text := false, ty })
  | ["D", cid, ac, ty, v] => do
    let x ← ctxOf cid ac; let ty ← tyOf ty; let v ← ofHex v
    let t := Thread.start ⟨.deanon, x, ty, v⟩ (fun _ _ => 0)
    pure (spawn st seq { th := some t, text := false, ty })
  | ["T", mode, cid, ac, ty, text, cands] => do
    let x ← ctxOf cid ac; let ty ← tyOf ty; let text ← ofHex text; let cs ← hexList cands
    let cons ← match mode with | "c" => some true | "r" => some false | _ => none
    match textToValue "Tokenize" ty text with
    | none => pure (spawn st seq { th := none, text := true, ty })
    | some v =>
      let t := Thread.start ⟨.anon cons, x, ty, v⟩ (rndOf ty v.length cs)
      pure (spawn st seq { th := some t, text := true, ty })
  | ["U", cid, ac, ty, text] => do
    let x ← ctxOf cid ac; let ty ← tyOf ty; let text ← ofHex text
    match textToValue "Detokenize" ty text with
    | none => pure (spawn st seq { th := none, text := true, ty })
    | some v =>
      let t := Thread.start ⟨.deanon, x, ty, v⟩ (fun _ _ => 0)
      pure (spawn st seq { th := some t, text := true, ty })
  -- plant a record under the id the tokenizer looks up (damaged store / record of another type)
  | ["P", which, cid, ac, ty, key, rty, data] => do
    let x ← ctxOf cid ac; let ty ← tyOf ty; let key ← ofHex key; let data ← ofHex data
    let (k, payload) ← match which with
      | "h" => some (hKey C x ty key, data)
      | "t" => do let rty ← tyOf rty; some (tKey C x ty key, encTV rty data)
      | _ => none
    -- the encrypting wrapper cannot store an empty payload; an occupied id keeps its record
    if st.enc && payload.isEmpty then pure st
    else pure { st with store := (st.store.save k payload).getD st.store }
  | ["M", action, sel] => do
    let act ← actOf action sel
    pure { st with store := st.store.visit act, events := st.events.push "V" }
  | ["R", i] => do
    let i ← i.toNat?
    pure (stepI st i)
  | _ => none

def render (st : DState) : String :=
  let rs := st.threads.toList.map fun dt =>
    match dt.th with
    | none => "err"
    | some t => match t.pc with
      | .done r => resStr (if dt.text then resToText dt.ty r else r)
      | _ => "running"
  ",".intercalate rs ++ ";" ++ ",".intercalate st.events.toList

def trace (seq : Bool) (enc : Bool) (items : List String) : Option String := do
  let st ← items.foldlM (fun st it => item st seq it) ({ enc, store := Store.empty, threads := #[], events := #[] } : DState)
  let st := (List.range st.threads.size).foldl (fun st i => completeI st i 64) st
  pure (render st)

def handle (op : String) (args : List String) : Option String :=
  match op, args with
  | "trace", mode :: kind :: _seed :: items =>
    let enc := kind.endsWith "+enc"
    match mode with
    | "seq" => trace true enc items
    | "conc" => trace false enc items
    | _ => none
  | "gen", [ty, n, _seed, cand] => do
    -- is `cand` in the image of the generator for a value of n bytes? (ok <hex> | panic | shape)
    let ty ← tyOf ty; let n ← n.toNat?; let cand ← ofHex cand
    match genToken ty n (drawsOf ty n cand) with
    | .ok t => pure (if t = cand && shapeOK ty n cand then "ok" else "shape")
    | _ => pure "panic"
  | "parseint", [bits, s] => do
    let bits ← bits.toNat?; let s ← ofHex s
    match parseInt bits s with
    | some i => pure ("ok " ++ String.ofList ((formatInt i).map fun b => Char.ofNat b.toNat))
    | none => pure "err"
  | _, _ => none

end Driver.C10
