import AcraModel.Basic.Bytes
/-! Driver ops for C03. -/
namespace Driver.C03
open AcraModel

def handle (op : String) (args : List String) : Option String :=
  match op, args with
  | _, _ => none

end Driver.C03
