import AcraModel.Basic.Bytes
/-! Driver ops for C04. -/
namespace Driver.C04
open AcraModel

def handle (op : String) (args : List String) : Option String :=
  match op, args with
  | _, _ => none

end Driver.C04
