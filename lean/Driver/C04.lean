import AcraModel.Proxy.MySQL
import AcraModel.Proxy.SqlPrepared
import AcraModel.Crypto.Shim
import Driver.C01
/-!
Driver ops for C04 (the SQL proxy). Token formats (no spaces inside a token):

* schema  : tables joined by `/`; table = `name:cols:enc`; cols = `a,b,c` or `_`; enc = `col=kind.dtype.reenc` joined by `+`, or `_`
            (kind = struct|block, dtype = none|bytes|str, reenc = 0|1)
* cell    : `L<hex>` string literal, `N<hex>` number, `P<n>` placeholder, `Z` NULL, `O<n>` other
* targets : `*`, `q.*`, `c`, `q.c`, `?` joined by `,`; `_` = none
* stmt    : `I:table:cols:rows:returning[:ondup:src]` (rows joined by `;`, cells by `,`; ondup = sets of
            ON CONFLICT DO UPDATE / ON DUPLICATE KEY UPDATE, src = `V` VALUES | `S` SELECT <rows[0]>) |
            `U:table:alias:sets:returning[:M]` (sets = `col=cell` joined by `,`; `M` = `SET (a, b) = (x, y)`) |
            `S:table:alias:items` | `X`
* params  : `t<hex>` / `b<hex>` text / binary value, `tZ` / `bZ` NULL, joined by `,`; `_` = none
-/
namespace Driver.C04
open AcraModel AcraModel.Envelope AcraModel.Proxy

def C := Driver.C01.C

def splitList (s : String) (sep : String) : List String := if s = "_" then [] else s.splitOn sep

def parseSetting (s : String) : Option ColSetting :=
  match s.splitOn "." with
  | [k, d, r] => do
    let kind ← Driver.C01.parseKind k
    let dtype ← (match d with | "none" => some DType.none | "bytes" => some .bytes | "str" => some .str | _ => none)
    pure { kind := kind, dtype := dtype, reenc := r == "1" }
  | _ => none

def parseTable (s : String) : Option Table :=
  match s.splitOn ":" with
  | [name, cols, enc] => do
    let e ← (splitList enc "+").mapM fun x =>
      match x.splitOn "=" with
      | [c, st] => (parseSetting st).map fun v => (c, v)
      | _ => none
    pure { name := name, columns := splitList cols ",", encrypted := e }
  | _ => none

def parseSchema (s : String) : Option Schema := (splitList s "/").mapM parseTable

def parseCell (s : String) : Option Cell :=
  match s.toList with
  | 'L' :: r => (ofHex (String.ofList r)).map .lit
  | 'N' :: r => (ofHex (String.ofList r)).map .num
  | 'P' :: r => (String.ofList r).toNat?.map .param
  | ['Z'] => some .null
  | 'O' :: r => (String.ofList r).toNat?.map .other
  | _ => none

def showCell : Cell → String
  | .lit b => "L" ++ hexOf b
  | .num b => "N" ++ hexOf b
  | .param i => s!"P{i}"
  | .null => "Z"
  | .other t => s!"O{t}"

def parseTarget (s : String) : Option Target :=
  if s = "*" then some .star else if s = "?" then some .expr else
  match s.splitOn "." with
  | [c] => some (.col c)
  | [q, "*"] => some (.qstar q)
  | [q, c] => some (.qcol q c)
  | _ => none

def parseTargets (s : String) : Option (List Target) := (splitList s ",").mapM parseTarget

def showTarget : Target → String
  | .star => "*"
  | .qstar q => q ++ ".*"
  | .col c => c
  | .qcol q c => q ++ "." ++ c
  | .expr => "?"

def showList (l : List String) (sep : String) : String := if l.isEmpty then "_" else sep.intercalate l

def parseAlias (s : String) : Option Name := if s = "_" then none else some s

def parseSets (sets : String) : Option (List (Name × Cell)) :=
  (splitList sets ",").mapM fun x =>
    match x.splitOn "=" with
    | [c, v] => (parseCell v).map fun v => (c, v)
    | _ => none

def parseStmt (s : String) : Option Stmt :=
  match s.splitOn ":" with
  | ["I", t, cols, rows, ret] => do
    let rs ← (splitList rows ";").mapM fun r => (splitList r ",").mapM parseCell
    pure (.insert { table := t, cols := splitList cols ",", rows := rs, returning := ← parseTargets ret })
  | ["I", t, cols, rows, ret, ondup, src] => do
    let rs ← (splitList rows ";").mapM fun r => (splitList r ",").mapM parseCell
    pure (.insert { table := t, cols := splitList cols ",", rows := rs, returning := ← parseTargets ret,
                    onDup := ← parseSets ondup, fromSelect := src == "S" })
  | ["U", t, al, sets, ret] => do
    pure (.update { table := t, alias := parseAlias al, sets := ← parseSets sets, returning := ← parseTargets ret })
  | ["U", t, al, sets, ret, "M"] => do
    pure (.update { table := t, alias := parseAlias al, sets := ← parseSets sets, returning := ← parseTargets ret, multi := true })
  | ["S", t, al, items] => do
    pure (.select { table := t, alias := parseAlias al, items := ← parseTargets items })
  | ["X"] => some (.other 0)
  | _ => none

def showSets (l : List (Name × Cell)) : String := showList (l.map fun (c, v) => c ++ "=" ++ showCell v) ","

def showStmt : Stmt → String
  | .insert i =>
    "I:" ++ i.table ++ ":" ++ showList i.cols "," ++ ":" ++ showList (i.rows.map fun r => showList (r.map showCell) ",") ";" ++ ":" ++ showList (i.returning.map showTarget) "," ++
      (if i.onDup.isEmpty && !i.fromSelect then "" else ":" ++ showSets i.onDup ++ ":" ++ (if i.fromSelect then "S" else "V"))
  | .update u =>
    "U:" ++ u.table ++ ":" ++ u.alias.getD "_" ++ ":" ++ showSets u.sets ++ ":" ++ showList (u.returning.map showTarget) "," ++
      (if u.multi then ":M" else "")
  | .select s => "S:" ++ s.table ++ ":" ++ s.alias.getD "_" ++ ":" ++ showList (s.items.map showTarget) ","
  | .other _ => "X"

def parseFmt (c : Char) : Option Fmt := if c = 't' then some .text else if c = 'b' then some .binary else none

def parseParam (s : String) : Option Param :=
  match s.toList with
  | f :: 'Z' :: [] => (parseFmt f).map fun f => (f, none)
  | f :: r => do pure (← parseFmt f, some (← ofHex (String.ofList r)))
  | _ => none

def parseParams (s : String) : Option (List Param) := (splitList s ",").mapM parseParam

def showOpt : Option Bytes → String
  | none => "Z"
  | some b => "V" ++ hexOf b

def parseOptVal (s : String) : Option (Option Bytes) :=
  match s.toList with
  | ['Z'] => some none
  | 'V' :: r => (ofHex (String.ofList r)).map some
  | _ => none

def showSettings (l : List (Option ColSetting)) : String :=
  showList (l.map fun
    | none => "-"
    | some s => (match s.kind with | .struct => "struct" | .block => "block") ++ "." ++
        (match s.dtype with | .none => "none" | .bytes => "bytes" | .str => "str")) ","

/-- events of the protocol-state ops: `q<id>` simple query, `Q<id>` censored query, `p<name>=<id>` Parse,
`b<portal>=<stmt>` Bind, `e<portal>` Execute, `s` Sync, `o` other; database side: `D` DataRow, `C` done, `S` PortalSuspended,
`E` error, `Z` ready, `O` other -/
def showSrc : Src Nat Nat → String
  | .simple s => s!"simple{s}"
  | .extended s b => s!"ext{s}.{b}"

def showQueue (l : List (Entry (Src Nat Nat))) : String :=
  showList (l.map fun | .sync => "sync" | .query q => showSrc q) ","

def nm (s : String) : String := if s = "~" then "" else s

def pendingRun : PState Nat Nat → Nat → List String → List String → Option (List String)
  | _, _, [], acc => some acc.reverse
  | st, n, e :: es, acc =>
    match e.toList with
    | 'q' :: r => do
      let (st', _) ← clStep st (.query (← (String.ofList r).toNat?) false)
      pendingRun st' n es (showQueue st'.pending :: acc)
    | 'Q' :: r => do
      let (st', _) ← clStep st (.query (← (String.ofList r).toNat?) true)
      pendingRun st' n es (showQueue st'.pending :: acc)
    | 'p' :: r =>
      match (String.ofList r).splitOn "=" with
      | [name, id] => do
        let (st', _) ← clStep st (.parse (nm name) (← id.toNat?) false)
        pendingRun st' n es (showQueue st'.pending :: acc)
      | _ => none
    | 'b' :: r =>
      match (String.ofList r).splitOn "=" with
      | [portal, stmt] =>
        match clStep st (.bind (nm portal) (nm stmt) n) with
        | some (st', _) => pendingRun st' (n + 1) es (showQueue st'.pending :: acc)
        | none => some (("closed" :: acc).reverse)
      | _ => none
    | 'e' :: r =>
      match clStep st (.execute (nm (String.ofList r))) with
      | some (st', _) => pendingRun st' n es (showQueue st'.pending :: acc)
      | none => some (("closed" :: acc).reverse)
    | ['s'] => do
      let (st', _) ← clStep st .sync
      pendingRun st' n es (showQueue st'.pending :: acc)
    | ['o'] => pendingRun st n es (showQueue st.pending :: acc)
    | ['D'] =>
      let used := match rowEntry st.pending with | some q => "row:" ++ showSrc q | none => "row:none"
      pendingRun st n es (used :: acc)
    | ['C'] => let st' := { st with pending := dbStep st.pending .done }; pendingRun st' n es (showQueue st'.pending :: acc)
    -- PortalSuspended ends a row-limited Execute like CommandComplete
    | ['S'] => let st' := { st with pending := dbStep st.pending .done }; pendingRun st' n es (showQueue st'.pending :: acc)
    | ['E'] => let st' := { st with pending := dbStep st.pending .error }; pendingRun st' n es (showQueue st'.pending :: acc)
    | ['Z'] => let st' := { st with pending := dbStep st.pending .ready }; pendingRun st' n es (showQueue st'.pending :: acc)
    | ['O'] => pendingRun st n es (showQueue st.pending :: acc)
    | _ => none

/-- events of `sqlprep`: those of `pending` (`q<id>` simple query, `p<name>=<id>` Parse, `b<portal>=<stmt>` Bind,
`e<portal>` Execute, `s` Sync, `o` other; `D` `C` `S` `E` `Z` `O`) plus the SQL-level prepared statements of the
simple protocol: `r<name>=<id>` PREPARE name AS statement id, `x<name>` EXECUTE name, `d<name>` DEALLOCATE name,
`a` DEALLOCATE ALL. A `D` prints the statement whose settings the row is processed with (`row:0` = none). -/
def showSSrc : SSrc Nat Nat → String
  | .sql (.plain s) => s!"simple{s}"
  | .sql (.prepare n s) => s!"prep{n}={s}"
  | .sql (.execute n) => s!"exec{n}"
  | .sql (.deallocate n) => s!"dealloc{n}"
  | .sql .deallocateAll => "deallocall"
  | .extended s _ => s!"ext{s}"

def showSQueue (l : List (Entry (SSrc Nat Nat))) : String :=
  showList (l.map fun | .sync => "sync" | .query q => showSSrc q) ","

def sqlprepRun : SState Nat Nat → Nat → List String → List String → Option (List String)
  | _, _, [], acc => some acc.reverse
  | st, n, e :: es, acc =>
    let client (ev : SClEv Nat Nat) (n' : Nat) : Option (List String) :=
      match sclStep st ev with
      | some (st', _) => sqlprepRun st' n' es (showSQueue st'.pending :: acc)
      | none => some (("closed" :: acc).reverse)
    let db (ev : DbEv) : Option (List String) :=
      let st' := { st with pending := dbStep st.pending ev }
      sqlprepRun st' n es (showSQueue st'.pending :: acc)
    match e.toList with
    | 'q' :: r => do client (.query (.plain (← (String.ofList r).toNat?)) false) n
    | 'r' :: r =>
      match (String.ofList r).splitOn "=" with
      | [name, id] => do client (.query (.prepare name (← id.toNat?)) false) n
      | _ => none
    | 'x' :: r => client (.query (.execute (String.ofList r)) false) n
    | 'd' :: r => client (.query (.deallocate (String.ofList r)) false) n
    | ['a'] => client (.query .deallocateAll false) n
    | 'p' :: r =>
      match (String.ofList r).splitOn "=" with
      | [name, id] => do client (.parse (nm name) (← id.toNat?) false) n
      | _ => none
    | 'b' :: r =>
      match (String.ofList r).splitOn "=" with
      | [portal, stmt] => client (.bind (nm portal) (nm stmt) n) (n + 1)
      | _ => none
    | 'e' :: r => client (.execute (nm (String.ofList r))) n
    | ['s'] => client .sync n
    | ['o'] => client .other n
    | ['D'] =>
      match rowResolve st.reg st.pending with
      | .stmt k => sqlprepRun st n es (s!"row:{k}" :: acc)
      | .closed => some (("closed" :: acc).reverse)
      | _ => sqlprepRun st n es ("row:0" :: acc)
    | ['C'] => db .done
    | ['S'] => db .done
    | ['E'] => db .error
    | ['Z'] => db .ready
    | ['O'] => db .other
    | _ => none

def parseMyLit (s : String) : Option MyLit :=
  match s with
  | "str" => some .str | "int" => some .int | "hexval" => some .hexVal | "hexnum" => some .hexNum | _ => none

def handle (op : String) (args : List String) : Option String :=
  match op, args with
  -- stmt schema [kv×4] stmt rnd  → the statement as forwarded
  | "stmt", [_, sch, pub, privs, sym, syms, st, rnd] => do
      let kv ← Driver.C01.parseKV pub privs sym syms
      pure ("ok " ++ showStmt (forwardStmt C kv (← parseSchema sch) (← parseStmt st) (← ofHex rnd)))
  -- mystmt schema [kv×4] stmt rnd → the statement as the MySQL query encryptor forwards it (literals by value)
  | "mystmt", [sch, pub, privs, sym, syms, st, rnd] => do
      let kv ← Driver.C01.parseKV pub privs sym syms
      pure ("ok " ++ showStmt (forwardStmtMy C kv (← parseSchema sch) (← parseStmt st) (← ofHex rnd)))
  -- myfwd <q|p> schema [kv×4] stmt rnd → the statement as the MySQL proxy forwards it (COM_QUERY / COM_STMT_PREPARE)
  | "myfwd", [_, sch, pub, privs, sym, syms, st, rnd] => do
      let kv ← Driver.C01.parseKV pub privs sym syms
      pure ("ok " ++ showStmt (forwardStmtMy C kv (← parseSchema sch) (← parseStmt st) (← ofHex rnd)))
  -- mybind schema [kv×4] stmt <wire params> params order rnd → the parameter values the database receives
  | "mybind", [sch, pub, privs, sym, syms, st, _, ps, order, rnd] => do
      let kv ← Driver.C01.parseKV pub privs sym syms
      let ord ← (splitList order ",").mapM (·.toNat?)
      let schema ← parseSchema sch
      let stmt ← parseStmt st
      -- COM_STMT_PREPARE came first: its protected literals have already drawn randomness
      let rnd0 ← ofHex rnd
      let rnd' := match stmt with
        | .insert i => (match xfInsertMy (encCellMy C kv) schema i rnd0 with | some (_, r) => r | none => rnd0)
        | .update u => (match xfUpdate (encCellMy C kv) schema u rnd0 with | some (_, r) => r | none => rnd0)
        | _ => rnd0
      let params := (← parseParams ps).map (·.2)
      match forwardBindMy C kv schema stmt params ord rnd' with
      | .same => pure ("vals " ++ showList (params.map showOpt) ",")
      | .changed vs => pure ("vals " ++ showList (vs.map showOpt) ",")
  -- myrow schema [kv×4] stmt fmt types cols → the values of the row as the client reads them off the wire
  | "myrow", [sch, pub, privs, sym, syms, st, fmt, types, cols] => do
      let kv ← Driver.C01.parseKV pub privs sym syms
      let f ← (match fmt.toList with | [c] => parseFmt c | _ => none)
      let tys ← (splitList types ",").mapM fun x =>
        match x with | "s" => some MyType.str | "i4" => some (MyType.int 4) | "i8" => some (MyType.int 8) | _ => none
      let cs ← (splitList cols ",").mapM parseOptVal
      let out := deliverRowMy C kv (← parseSchema sch) (← parseStmt st) f tys cs
      -- strip the wire framing the way a client does
      let strip (vs : List (Option Bytes)) : List (Option Bytes) :=
        vs.zipIdx.map fun (v, i) => v.bind fun w => clientValueMy f ((tys[i]?).getD .str) w
      pure (out.render fun vs => showList ((strip vs).map showOpt) ",")
  -- bind schema [kv×4] stmt params order rnd → same | changed <values>
  | "bind", [sch, pub, privs, sym, syms, st, ps, order, rnd] => do
      let kv ← Driver.C01.parseKV pub privs sym syms
      let ord ← (splitList order ",").mapM (·.toNat?)
      -- the Parse of the statement came first: its protected literals have already drawn randomness
      let schema ← parseSchema sch
      let stmt ← parseStmt st
      let rnd' := (xfStmt (encCell C kv) schema stmt (← ofHex rnd)).2
      let params ← parseParams ps
      match forwardBind C kv schema stmt params ord rnd' with
      | .same => pure ("vals " ++ showList (params.map fun p => showOpt p.2) ",")
      | .changed vs => pure ("vals " ++ showList (vs.map showOpt) ",")
  -- plan schema stmt nvalues → which parameters are transformed
  | "plan", [sch, st, n] => do
      match bindPlan (← parseSchema sch) (← parseStmt st) (← n.toNat?) with
      | .untouched => pure "changed _"
      | .error => pure "changed _"
      | .plan m =>
        let idx := (List.range (← n.toNat?)).filter fun i => m.any (·.1 == i)
        pure ("changed " ++ showList (idx.map toString) ",")
  -- settings schema stmt → per result column
  | "settings", [sch, st] => do pure (showSettings (resultSettings (← parseSchema sch) (← parseStmt st)))
  -- row schema [kv×4] stmt fmts cols → the DataRow as delivered
  | "row", [sch, pub, privs, sym, syms, st, fmts, cols] => do
      let kv ← Driver.C01.parseKV pub privs sym syms
      let fs ← (splitList fmts ",").mapM fun x => match x.toList with | [c] => parseFmt c | _ => none
      let cs ← (splitList cols ",").mapM parseOptVal
      let pending ← (if st = "none" then some none else (parseStmt st).map some)
      pure ((deliverRow C kv (← parseSchema sch) pending (fmtOf fs) cs).render fun vs => showList (vs.map showOpt) ",")
  -- value-level ops
  | "write", [pub, privs, sym, syms, setting, d, rnd] => do
      let kv ← Driver.C01.parseKV pub privs sym syms
      pure (Driver.C01.outHex (writeChain C kv (← parseSetting setting) (← ofHex d) (← ofHex rnd)))
  | "read", [pub, privs, sym, syms, setting, fmt, d] => do
      let kv ← Driver.C01.parseKV pub privs sym syms
      let s ← (if setting = "none" then some none else (parseSetting setting).map some)
      let f ← (match fmt.toList with | [c] => parseFmt c | _ => none)
      pure (Driver.C01.outHex (readChain C kv s f (← ofHex d)))
  | "escaped", [d] => do
      match decodeEscaped (← ofHex d) with
      | .ok b => pure ("ok " ++ hexOf b)
      | .hexErr => pure "hexerr"
      | .octalErr => pure "octalerr"
  | "utf8", [d] => do pure (toString (utf8Valid (← ofHex d)))
  -- escapedgo <data> → utils.DecodeEscaped with BOTH results: the slice and the error
  | "escapedgo", [d] => do
      match decodeEscapedGo (← ofHex d) with
      | (b, none) => pure ("ok " ++ hexOf b)
      | (b, some .hex) => pure ("hexerr " ++ hexOf b)
      | (b, some .octal) => pure ("octalerr " ++ hexOf b)
  -- litdecode <none|bytes|str> <literal text> → PgQueryDBDataCoder.Decode of a string literal
  | "litdecode", [dt, d] => do
      let dtype ← (match dt with | "none" => some DType.none | "bytes" => some .bytes | "str" => some .str | _ => none)
      match decodeLit { kind := .block, dtype := dtype } (← ofHex d) with
      | some b => pure ("ok " ++ hexOf b)
      | none => pure "err"
  -- mylitdecode <str|int|hexval|hexnum> <literal value> → mysql.DBDataCoder.Decode
  | "mylitdecode", [k, d] => do
      match myDecode (← parseMyLit k) (← ofHex d) with
      | some b => pure ("ok " ++ hexOf b)
      | none => pure "err"
  -- sqlprep <events joined by ,> → queue after each event / statement used per DataRow, joined by `|`
  | "sqlprep", [evs] => do
      let out ← sqlprepRun {} 0 (splitList evs ",") []
      pure ("|".intercalate out)
  -- pending <events joined by ,> → queue after each event / entry used per DataRow, joined by `|`
  | "pending", [evs] => do
      let out ← pendingRun {} 0 (splitList evs ",") []
      pure ("|".intercalate out)
  | _, _ => none

end Driver.C04
