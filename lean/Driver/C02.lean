import AcraModel.CrossClient.Reveal
import AcraModel.CrossClient.Hash
import AcraModel.CrossClient.Context
import AcraModel.CrossClient.Token
import AcraModel.CrossClient.TokenColumn
import AcraModel.CrossClient.Tls
import AcraModel.CrossClient.Keys
import AcraModel.CrossClient.TlsIdentity
import AcraModel.CrossClient.TlsServer
import AcraModel.CrossClient.TlsConn
import AcraModel.CrossClient.ServerOps
import AcraModel.Crypto.Shim
import Driver.C01
/-! Driver ops for C02: every reveal-type entry point run under a chosen identity of a key store with
several identities, the TLS wrapper, token histories, key contexts of both key store formats. -/
namespace Driver.C02
open AcraModel AcraModel.Envelope AcraModel.CrossClient Driver.C01

def C := shimOps

/-- one identity of the line: id, key view, HMAC key -/
structure Ident where
  id : Bytes
  kv : KeyView
  hmac : Option Bytes

def noKeys : KeyView := { pub := none, privs := none, sym := none, syms := none }

/-- `n (id pub privs sym syms hmac)×n` -/
def parseIdents : Nat → List String → Option (List Ident × List String)
  | 0, rest => some ([], rest)
  | n + 1, id :: pub :: privs :: sym :: syms :: hm :: rest => do
    let i : Ident := { id := ← ofHex id, kv := ← parseKV pub privs sym syms, hmac := ← parseOpt hm }
    let (is, rest') ← parseIdents n rest
    pure (i :: is, rest')
  | _, _ => none

def storeOfIdents (is : List Ident) : Store := fun id =>
  match is.find? (·.id == id) with
  | some i => i.kv
  | none => noKeys

def hmacOfIdents (is : List Ident) : HmacStore := fun id =>
  match is.find? (·.id == id) with
  | some i => i.hmac
  | none => none

def searchStr (grpc : Bool) : SearchOut → String
  | .ok m => s!"ok {hexOf m}"
  | .errBack _ => if grpc then "err" else "errback"
  | .err => "err"
  | .panic => "panic"

/-- run one entry point under identity `id` -/
def runEntry (entry : String) (is : List Ident) (id : Bytes) (k : Kind) (data : Bytes) (hash : Option Bytes) (grpc : Bool) : Option String :=
  let ks := storeOfIdents is
  match entry with
  | "lib" => some (outHex (revealAs C ks id data))
  | "tr.decrypt" =>
    -- `len(clientID) == 0` (Decrypt) / `clientID == nil` (DecryptSym, unreachable from the harness) is an error
    if id.isEmpty && k == .struct then some "err" else some (outHex (decryptAs C ks id k data))
  | "tr.search" => some (searchStr grpc (decryptSearchable C (ks id) (hmacOfIdents is id) k data hash))
  | "col" => some (scanStr (columnAs C ks id data))
  | "colcompat" => some (scanStr (columnCompatAs C ks id data))
  | "hash.verify" =>
    match hash with
    | none => none
    | some h =>
      match extractHashAndData h with
      | none => some "nohash"
      | some (hp, _) => some (toString (hashVerifyAs C (hmacOfIdents is) id hp data))
  | _ => none

def rpcEntry (rpc : String) : Option (String × Kind) :=
  match rpc with
  | "Decrypt" => some ("tr.decrypt", .struct)
  | "DecryptSym" => some ("tr.decrypt", .block)
  | "DecryptSearchable" => some ("tr.search", .struct)
  | "DecryptSymSearchable" => some ("tr.search", .block)
  | _ => none

def parsePurpose (s : String) : Option V1Purpose :=
  match s with
  | "private" => some .storagePrivate
  | "sym" => some .storageSym
  | "hmac" => some .searchHmac
  | _ => none

def parseRing (s : String) : Option V2Ring :=
  match s with
  | "private" => some .storage
  | "sym" => some .storageSym
  | "hmac" => some .hmacSym
  | _ => none

def parseV2Kind (s : String) : Option V2Kind :=
  match s with
  | "private" => some .privateKey
  | "sym" => some .symmetricKey
  | _ => none

def optOut : Option Bytes → String
  | some b => "ok " ++ hexOf b
  | none => "err"

/-- split the random stream into the candidates the anonymizer draws for a value of `len` bytes -/
def candidates (len : Nat) (rnd : Bytes) : Nat → List Bytes
  | 0 => []
  | fuel + 1 => if rnd.length < len then [] else rnd.take len :: candidates len (rnd.drop len) fuel

def parseTokOps : Nat → List String → Option (List TokOp)
  | 0, [] => some []
  | n + 1, id :: v :: ty :: rnd :: rest => do
    let v ← ofHex v
    let op : TokOp := { id := ← ofHex id, v := v, ty := ← ty.toNat?, cands := candidates v.length (← ofHex rnd) loopLimit }
    let ops ← parseTokOps n rest
    pure (op :: ops)
  | _, _ => none

/-- run the history and collect each request's token (`-err-` for a failed request) -/
def runTokCollect (st : TokStore) : List TokOp → TokStore × List String
  | [] => (st, [])
  | op :: ops =>
    match tokenize C st op.id op.v op.ty op.cands with
    | .ok (st', t) =>
      let (s, r) := runTokCollect st' ops
      (s, hexOf t :: r)
    | _ =>
      let (s, r) := runTokCollect st ops
      (s, "-err-" :: r)

/-- a list attribute of a certificate description: `_` = absent, otherwise comma-joined hex values -/
def parseAttrList (s : String) : Option (List Bytes) :=
  if s = "_" then some [] else (s.splitOn ",").mapM ofHex

/-- the extractor mode; a `+…` suffix names the certificate chain shape of a server world (the identity of a
connection is that of the client's own certificate whatever the shape – `connection_identity_is_leaf`) -/
def parseMode (s : String) : Option IdMode :=
  match (s.splitOn "+").head? with
  | some "dn" => some .distinguishedName
  | some "serial" => some .serialNumber
  | _ => none

/-- 11 tokens: serial keySeed C ST L STREET POSTALCODE O OU CN SERIALNUMBER (the key seed is not part of the model) -/
def parseCert : List String → Option (Cert × List String)
  | serial :: _ :: c :: st :: l :: street :: postal :: o :: ou :: cn :: sn :: rest => do
    let c ← parseAttrList c
    let st ← parseAttrList st
    let l ← parseAttrList l
    let street ← parseAttrList street
    let postal ← parseAttrList postal
    let o ← parseAttrList o
    let ou ← parseAttrList ou
    let cn ← ofHex cn
    let sn ← ofHex sn
    let name : Name := ⟨c, st, l, street, postal, o, ou, cn, sn⟩
    pure (⟨name, beVal (← ofHex serial)⟩, rest)
  | _ => none

/-- `n` certificates, each 11 tokens or the single token `nil` -/
def parseCerts : Nat → List String → Option (List (Option Cert) × List String)
  | 0, rest => some ([], rest)
  | n + 1, "nil" :: rest => do
    let (cs, rest') ← parseCerts n rest
    pure (none :: cs, rest')
  | n + 1, toks => do
    let (c, rest) ← parseCert toks
    let (cs, rest') ← parseCerts n rest
    pure (some c :: cs, rest')

/-- a certificate of a handshake: role (`L` client certificate, `C` CA certificate, `N` certificate without an
authentication key usage) followed by the 11 tokens of its description -/
def parseConnCert : List String → Option (ConnCert × List String)
  | role :: rest => do
    let (c, rest') ← parseCert rest
    match role with
    | "L" => pure (⟨c, false, true⟩, rest')
    | "C" => pure (⟨c, true, true⟩, rest')
    | "N" => pure (⟨c, false, false⟩, rest')
    | _ => none
  | [] => none

def parseConnCerts : Nat → List String → Option (List ConnCert × List String)
  | 0, rest => some ([], rest)
  | n + 1, toks => do
    let (c, rest) ← parseConnCert toks
    let (cs, rest') ← parseConnCerts n rest
    pure (c :: cs, rest')

def idOut : Out Bytes → String
  | .ok id => hexOf id
  | .err => "err"
  | .panic => "panic"

/-- `ncols (name cid ty consistent)×ncols`; `ty = 0`: the column is listed but has no encryption setting -/
def parseCols : Nat → List String → Option (List (String × Option ColSetting) × List String)
  | 0, rest => some ([], rest)
  | n + 1, name :: cid :: ty :: cons :: rest => do
    let ty ← ty.toNat?
    let cid ← ofHex cid
    let cs : Option ColSetting := if ty = 0 then none else some ⟨cid, true, cons == "1", ty⟩
    let (cols, rest') ← parseCols n rest
    pure ((name, cs) :: cols, rest')
  | _, _ => none

def takeN {α : Type} : Nat → List α → Option (List α × List α)
  | 0, l => some ([], l)
  | n + 1, x :: l => do let (a, b) ← takeN n l; pure (x :: a, b)
  | _, [] => none

/-- the ops of a `tokcol.run` line in order: `W session col value ncands cand…` (a value written through the
statement encryptor of the proxy) and `R session col data` (a column of a data row read back) -/
def runColOps (src : IdSource) (cols : List (String × Option ColSetting)) : Nat → TokStore → List String → Option (List String)
  | 0, _, [] => some []
  | n + 1, st, "W" :: session :: col :: value :: ncands :: rest => do
    let session ← ofHex session
    let v ← ofHex value
    let (cs, rest) ← takeN (← ncands.toNat?) rest
    let cands ← cs.mapM ofHex
    let setting := (cols.find? (·.1 == col)).bind (·.2)
    match setting with
    | none => do pure (hexOf v :: (← runColOps src cols n st rest))
    | some s =>
      match proxyWrite C src st session s v cands with
      | .ok (st', tok) => do pure (hexOf tok :: (← runColOps src cols n st' rest))
      | _ => do pure ("err" :: (← runColOps src cols n st rest))
  | n + 1, st, "R" :: session :: col :: data :: rest => do
    let setting := (cols.find? (·.1 == col)).bind (·.2)
    let out := match onColumnToken C st (← ofHex session) setting (← ofHex data) with
      | .ok b => hexOf b
      | .err => "err"
      | .panic => "panic"
    pure (out :: (← runColOps src cols n st rest))
  | _, _, _ => none

/-- replay the write history of a proxy world: `(session col value stored)×n`, each write drawing what it stored -/
def replayWrites (src : IdSource) (cols : List (String × Option ColSetting)) : Nat → TokStore → List String → Option TokStore
  | 0, st, [] => some st
  | n + 1, st, session :: col :: value :: stored :: rest => do
    let session ← ofHex session
    let v ← ofHex value
    let tok ← ofHex stored
    match (cols.find? (·.1 == col)).bind (·.2) with
    | none => replayWrites src cols n st rest
    | some s =>
      match proxyWrite C src st session s v [tok] with
      | .ok (st', _) => replayWrites src cols n st' rest
      | _ => replayWrites src cols n st rest
  | _, _, _ => none

/-- `(connection id, value, token it got)×n`: the Tokenize requests a server world has served so far -/
def parseSrvTokOps : Nat → List String → Option (List SrvTokOp)
  | 0, [] => some []
  | n + 1, conn :: v :: tok :: rest => do
    let op : SrvTokOp := ⟨← ofHex conn, [], ← ofHex v, 4, [← ofHex tok]⟩
    pure (op :: (← parseSrvTokOps n rest))
  | _, _ => none

def handle (op : String) (args : List String) : Option String :=
  match op, args with
  -- srv.detok handle mode cert forged tok n (conn v tok)×n : Detokenize on the server NewServer builds, over the TLS
  -- connection of the client holding `cert`, after the listed Tokenize requests (each over the connection `conn`)
  | "srv.detok", _ :: mode :: rest => do
      let (cert, rest) ← parseCert rest
      match rest with
      | forged :: tok :: n :: rest => do
        let ops ← parseSrvTokOps (← n.toNat?) rest
        let conn : ConnId := match extractClientID Sha512.sha512 (← parseMode mode) (some cert) with
          | .ok id => some id
          | _ => none
        let forged ← parseOpt forged
        pure (outHex (serverCall true "Detokenize" (svcDetokenize C (runSrvTok C "Tokenize" [] ops) 4) .err conn ⟨forged.getD [], ← ofHex tok⟩))
      | _ => none
  -- px.read handle dialect session col row data ncols cols… nhist (session col value stored)×nhist : a session of a
  -- real proxy selects column `col` of a row that holds `data`; the history says what every earlier write stored
  | "px.read", _ :: dialect :: session :: col :: _ :: data :: ncols :: rest => do
      let (cols, rest) ← parseCols (← ncols.toNat?) rest
      match rest with
      | nhist :: rest => do
        let site ← (match dialect with | "pg" => some pgWriteSite | "my" => some myWriteSite | _ => none)
        let st ← replayWrites (writeSourceOf site) cols (← nhist.toNat?) [] rest
        let setting := (cols.find? (·.1 == col)).bind (·.2)
        pure (match onColumnToken C st (← ofHex session) setting (← ofHex data) with
          | .ok b => hexOf b
          | .err => "err"
          | .panic => "panic")
      | _ => none
  -- tokcol.run dialect ncols (name cid ty consistent)×ncols nops ops… : values written through the statement
  -- encryptor of a proxy and columns read back, one token storage
  | "tokcol.run", dialect :: ncols :: rest => do
      let (cols, rest) ← parseCols (← ncols.toNat?) rest
      match rest with
      | nops :: rest => do
        let site ← (match dialect with | "pg" => some pgWriteSite | "my" => some myWriteSite | _ => none)
        let outs ← runColOps (writeSourceOf site) cols (← nops.toNat?) [] rest
        pure (if outs.isEmpty then "_" else ",".intercalate outs)
      | _ => none
  -- tlsconn.id entry mode nchain (role cert)×nchain nextra (role cert)×nextra sendroot (role cert) :
  -- a client whose certificate chain[0] was issued along chain[1…] by the root (the only certificate the server
  -- trusts) sends chain ++ extras (++ root); the identity the entry point derives for the connection
  | "tlsconn.id", entry :: mode :: nchain :: rest => do
      let (chain, rest) ← parseConnCerts (← nchain.toNat?) rest
      match rest with
      | nextra :: rest => do
        let (extras, rest) ← parseConnCerts (← nextra.toNat?) rest
        match rest with
        | sendroot :: rest => do
          let (root, tail) ← parseConnCert rest
          if !tail.isEmpty then none
          let st : TlsState := ⟨chain ++ extras ++ (if sendroot == "1" then [root] else []), [chain ++ [root]]⟩
          let site ← (match entry with
            | "grpc" => some grpcSite
            | "wrap" | "tlsconn" | "conn" => some connSite
            | _ => none)
          pure (idOut (siteIdentity site (sha512Extractor (← parseMode mode)) st))
        | _ => none
      | _ => none
  -- tlsid.seq mode n (cert | nil)×n : one long-lived extractor, the certificates in order
  | "tlsid.seq", mode :: n :: rest => do
      let (cs, tail) ← parseCerts (← n.toNat?) rest
      if !tail.isEmpty then none
      let outs := (sha512Extractor (← parseMode mode)).run cs
      pure (if outs.isEmpty then "_" else ",".intercalate (outs.map idOut))
  -- srv.grpc handle rpc mode cert forged data hash n idents… : a decrypt-type RPC on the server NewServer builds
  -- (UseConnectionClientID), over a TLS connection whose peer certificate is `cert`
  | "srv.grpc", _ :: rpc :: mode :: rest => do
      let (cert, rest) ← parseCert rest
      match rest with
      | forged :: data :: hash :: n :: rest => do
        let (is, tail) ← parseIdents (← n.toNat?) rest
        if !tail.isEmpty then none
        let data ← ofHex data
        let hash ← parseOpt hash
        let forged ← parseOpt forged
        let conn : ConnId := match extractClientID Sha512.sha512 (← parseMode mode) (some cert) with
          | .ok id => some id
          | _ => none
        if rpc == "GenerateQueryHash" then
          -- deterministic: the blind index of the data under the HMAC key of the identity the service is given
          let svc : Request → Option String := fun r =>
            match hmacOfIdents is r.clientId with
            | some key => some ("ok " ++ hexOf (generateHash C key r.payload))
            | none => some "err"
          serverCall true rpc svc (some "err") conn ⟨forged.getD [], data⟩
        else
          let (entry, k) ← rpcEntry rpc
          let svc : Request → Option String := fun r => runEntry entry is r.clientId k r.payload hash true
          serverCall true rpc svc (some "err") conn ⟨forged.getD [], data⟩
      | _ => none
  -- as entry idx kind data hash n idents…
  | "as", entry :: idx :: kind :: data :: hash :: n :: rest => do
      let (is, tail) ← parseIdents (← n.toNat?) rest
      if !tail.isEmpty then none
      let i ← is[(← idx.toNat?)]?
      runEntry entry is i.id (← parseKind kind) (← ofHex data) (← parseOpt hash) false
  -- asks handle entry idx kind data hash n idents… : the same; the implementation runs it on the real key store `handle`
  | "asks", _ :: entry :: idx :: kind :: data :: hash :: n :: rest => do
      let (is, tail) ← parseIdents (← n.toNat?) rest
      if !tail.isEmpty then none
      let i ← is[(← idx.toNat?)]?
      runEntry entry is i.id (← parseKind kind) (← ofHex data) (← parseOpt hash) false
  -- grpc.plain rpc forged data hash n idents… : the gRPC service without the TLS wrapper
  | "grpc.plain", rpc :: forged :: data :: hash :: n :: rest => do
      let (is, tail) ← parseIdents (← n.toNat?) rest
      if !tail.isEmpty then none
      let (entry, k) ← rpcEntry rpc
      -- `request.ClientId == nil` is rejected by the searchable sym RPC; a nil id finds no keys anywhere else
      match ← parseOpt forged with
      | none => pure "err"
      | some f => runEntry entry is f k (← ofHex data) (← parseOpt hash) true
  | "hash.gen", [key, data] => do pure (hexOf (generateHash C (← ofHex key) (← ofHex data)))
  -- grpc rpc conn forged data hash n idents…   (conn = `none` when the context carries no peer)
  | "grpc", rpc :: conn :: forged :: data :: hash :: n :: rest => do
      let (is, tail) ← parseIdents (← n.toNat?) rest
      if !tail.isEmpty then none
      let (entry, k) ← rpcEntry rpc
      let row ← rpcTable.find? (·.name == rpc)
      let data ← ofHex data
      let hash ← parseOpt hash
      let svc : Request → Option String := fun r => runEntry entry is r.clientId k r.payload hash true
      let forged ← parseOpt forged
      wrapperMethod row svc (some "err") (← parseOpt conn) ⟨forged.getD [], data⟩
  -- tok.run qid qtok ty n (id v ty rnd)×n
  | "tok.run", qid :: qtok :: qty :: n :: rest => do
      let ops ← parseTokOps (← n.toNat?) rest
      let (st, toks) := runTokCollect [] ops
      let d := detokenize C st (← ofHex qid) (← ofHex qtok) (← qty.toNat?)
      pure s!"{if toks.isEmpty then "_" else ",".intercalate toks} {outHex d}"
  -- keys.view handle what id n (owner key)×n : the keys of `id` in a generation history (newest first)
  | "keys.view", _ :: _ :: id :: n :: rest => do
      let n ← n.toNat?
      if rest.length ≠ 2 * n then none
      let rec go : List String → Option History
        | o :: k :: t => do pure (⟨← ofHex o, ← ofHex k⟩ :: (← go t))
        | [] => some []
        | _ => none
      let h ← go rest
      let ks := keysOf h (← ofHex id)
      pure (if ks.isEmpty then "_" else ",".intercalate (ks.map hexOf))
  | "ctx.v1.open", [master, purpose, id, blob] => do
      pure (optOut (keyDecrypt C (← ofHex master) (v1Context (← parsePurpose purpose) (← ofHex id)) (← ofHex blob)))
  | "ctx.v1.name", [purpose, id] => do
      pure (hexOf (v1FileName (← parsePurpose purpose) (← ofHex id)))
  | "ctx.v2.open", [master, path, kind, seq, blob] => do
      pure (optOut (v2KeyDecrypt C (← ofHex master) (← ofHex path) (← parseV2Kind kind) (← seq.toNat?) (← ofHex blob)))
  | "ctx.v2.path", [ring, id] => do
      pure (hexOf (v2RingPath (← parseRing ring) (← ofHex id)))
  -- ks1.loadas handle purpose from purpose' to master blob : copy the key file of (purpose, from) to the name of (purpose', to), load it
  | "ks1.loadas", [_, p, frm, p', to, master, blob, _, _] => do
      let p ← parsePurpose p
      let p' ← parsePurpose p'
      let frm ← ofHex frm
      let to ← ofHex to
      let fs : Files := [(v1FileName p frm, ← ofHex blob)]
      pure (optOut (v1Load C (← ofHex master) (fs.copy (v1FileName p frm) (v1FileName p' to)) p' to))
  -- ks2.loadas handle ring from ring' to sigkey payload sig : copy the ring file to the other path, open it there
  | "ks2.loadas", [_, r, frm, r', to, sigKey, payload, sig, _, _] => do
      let _ ← parseRing r
      let _ ← ofHex frm
      let path' := v2RingPath (← parseRing r') (← ofHex to)
      if v2Sign C (← ofHex sigKey) path' (← ofHex payload) == (← ofHex sig) then pure "signature-accepted" else pure "err"
  -- ks2.sig sigkey path payload : the ring signature the model expects
  | "ks2.sig", [sigKey, path, payload] => do
      pure (hexOf (v2Sign C (← ofHex sigKey) (← ofHex path) (← ofHex payload)))
  | _, _ => none

end Driver.C02
