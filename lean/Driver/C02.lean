import AcraModel.Basic.Bytes
/-! Driver ops for C02. -/
namespace Driver.C02
open AcraModel

def handle (op : String) (args : List String) : Option String :=
  match op, args with
  | _, _ => none

end Driver.C02
