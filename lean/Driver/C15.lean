import AcraModel.Envelope.Poison
import AcraModel.Crypto.Shim
import Driver.C01
import AcraModel.Keystore.V1CacheKeys
import AcraModel.Generated.KeyNames
/-! Driver ops for C15 (poison records). -/
namespace Driver.C15
open AcraModel AcraModel.Envelope Driver.C01

def C := shimOps

def scanT : ScanOut × Nat → String
  | (.ok b _, a) => s!"ok {hexOf b} {a}"
  | (.fatal, a) => s!"fatal {a}"
  | (.panic, _) => "panic"

/-! ### the v1 key store scenario: `v1store <cache> <spelling> <step>…`

Steps: `g:pp` / `g:ps` rotate a poison key through the handle under test; `n` a detection attempt on ordinary data (a
client AcraStruct and a client AcraBlock: the detector reads both poison key lists); `d:<struct|block>:<gen>:<emb>` a
poison record made under generation `gen` passes the detector (alarm iff the store offers that generation); `x` cache reset.
The store is `Keystore/V1Cache.lean` with the refreshes addressed by the regenerated cache-key spellings (`V1.stepK`),
for the directory spelling `0` canonical, `1` trailing `/`, `2` trailing `//`, `3` a `/./` component. -/

open AcraModel.Keystore in
def storeDir : String → Option String
  | "0" => some "/tmp/verif/ks"
  | "1" => some "/tmp/verif/ks/"
  | "2" => some "/tmp/verif/ks//"
  | "3" => some "/tmp/verif/./ks"
  | _ => none

open AcraModel.Keystore in
def storeSteps (hp hs : Bool) : V1 → List String → Option (List String)
  | _, [] => some []
  | st, t :: ts =>
    match t.splitOn ":" with
    | ["g", "pp"] => let (st', o) := st.stepK hp hs (.gen ppSlot); (storeSteps hp hs st' ts).map ((if o == .ok then "ok" else "err") :: ·)
    | ["g", "ps"] => let (st', o) := st.stepK hp hs (.gen psSlot); (storeSteps hp hs st' ts).map ((if o == .ok then "ok" else "err") :: ·)
    | ["x"] => let (st', _) := st.stepK hp hs .reset; (storeSteps hp hs st' ts).map ("ok" :: ·)
    | ["n"] =>
      let (st1, _) := st.stepK hp hs (.all ppSlot)
      let (st2, _) := st1.stepK hp hs (.all psSlot)
      (storeSteps hp hs st2 ts).map ("a0" :: ·)
    | ["d", k, gen, _emb] =>
      match (if k = "struct" then some ppSlot else if k = "block" then some psSlot else none), gen.toNat? with
      | some slot, some g =>
        let (st', o) := st.stepK hp hs (.all slot)
        let alarm := match o with | .keys l => l.contains g | _ => false
        (storeSteps hp hs st' ts).map ((if alarm then "a1" else "a0") :: ·)
      | _, _ => none
    | _ => none

open AcraModel.Keystore in
def handleStore (cache spelling : String) (steps : List String) : Option String := do
  let c ← cache.toInt?
  let dir ← storeDir spelling
  let pair := Generated.KeyNames.v1PoisonKeyName
  let hp := refreshHits "SaveKeyPairWithFilename" dir pair
  let hs := refreshHits "generateAndSaveSymmetricKey" dir (pair ++ "_sym")
  let out ← storeSteps hp hs (V1.init c) steps
  pure (" ".intercalate out)

def handle (op : String) (args : List String) : Option String :=
  match op, args with
  | "create", [k, pub, privs, sym, syms, dl, rnd] => do
      pure (outHex (createPoison C (← parseKV pub privs sym syms) (← parseKind k) (← dl.toNat?) (← ofHex rnd)))
  | "proxy", [has, cbErr, ppub, pprivs, psym, psyms, pub, privs, sym, syms, d] => do
      let cfg : PoisonCfg := { hasCallbacks := has == "true", callbackErr := cbErr == "true", pk := ← parseKV ppub pprivs psym psyms }
      pure (scanT (proxyOnColumn C cfg (← parseKV pub privs sym syms) (← ofHex d)))
  | "translator", [has, cbErr, ppub, pprivs, psym, psyms, pub, privs, sym, syms, k, d] => do
      let cfg : PoisonCfg := { hasCallbacks := has == "true", callbackErr := cbErr == "true", pk := ← parseKV ppub pprivs psym psyms }
      let (o, a) := translatorDecrypt C cfg (← parseKV pub privs sym syms) (← parseKind k) (← ofHex d)
      pure (match o with
        | .ok m => s!"ok {hexOf m} {a}"
        | .err => s!"err {a}"
        | .panic => "panic")
  | "v1store", cache :: spelling :: steps => handleStore cache spelling steps
  | "clean", [p] => do
      let b ← ofHex p
      let str := String.mk (b.map fun x => Char.ofNat x.toNat)
      pure (hexOf ((AcraModel.Keystore.cleanPath str).toList.map fun ch => UInt8.ofNat ch.toNat))
  | _, _ => none

end Driver.C15
