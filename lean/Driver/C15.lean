import AcraModel.Basic.Bytes
/-! Driver ops for C15. -/
namespace Driver.C15
open AcraModel

def handle (op : String) (args : List String) : Option String :=
  match op, args with
  | _, _ => none

end Driver.C15
