import AcraModel.Envelope.Poison
import AcraModel.Crypto.Shim
import Driver.C01
/-! Driver ops for C15 (poison records). -/
namespace Driver.C15
open AcraModel AcraModel.Envelope Driver.C01

def C := shimOps

def scanT : ScanOut × Nat → String
  | (.ok b _, a) => s!"ok {hexOf b} {a}"
  | (.fatal, a) => s!"fatal {a}"
  | (.panic, _) => "panic"

def handle (op : String) (args : List String) : Option String :=
  match op, args with
  | "create", [k, pub, privs, sym, syms, dl, rnd] => do
      pure (outHex (createPoison C (← parseKV pub privs sym syms) (← parseKind k) (← dl.toNat?) (← ofHex rnd)))
  | "proxy", [has, cbErr, ppub, pprivs, psym, psyms, pub, privs, sym, syms, d] => do
      let cfg : PoisonCfg := { hasCallbacks := has == "true", callbackErr := cbErr == "true", pk := ← parseKV ppub pprivs psym psyms }
      pure (scanT (proxyOnColumn C cfg (← parseKV pub privs sym syms) (← ofHex d)))
  | "translator", [has, cbErr, ppub, pprivs, psym, psyms, pub, privs, sym, syms, k, d] => do
      let cfg : PoisonCfg := { hasCallbacks := has == "true", callbackErr := cbErr == "true", pk := ← parseKV ppub pprivs psym psyms }
      let (o, a) := translatorDecrypt C cfg (← parseKV pub privs sym syms) (← parseKind k) (← ofHex d)
      pure (match o with
        | .ok m => s!"ok {hexOf m} {a}"
        | .err => s!"err {a}"
        | .panic => "panic")
  | _, _ => none

end Driver.C15
