import AcraModel.KeystoreSec.RingOpen
import AcraModel.Crypto.Shim
/-!
Driver ops of the C07 ring-open model (dispatched from `Driver.C07`). A store is given by what is stored
at ONE ring path: `<stored>` = hex of the bytes of `<path>.keyring` or `absent`.

* `C07.rwopen <mem|dir> <path> <stored> <leftover 0|1> <sigKey>` → `<ok|err> <unchanged|created|changed>`:
  `OpenKeyRingRW(path)`; `leftover` = a `<path>.keyring.new` exists
* `C07.roopen <mem|dir> <path> <stored> <sigKey>` → the same for `OpenKeyRing(path)`
* `C07.rwentry <mem|dir> <Receiver.method> <clientID> <index> <path> <stored> <sigKey>` → the same for a
  read-write method of the v2 `ServerKeyStore` (row of the regenerated table; after a successful open the
  continuation is the coarse one of `rest`: valid rings are given with three live keys)
* `C07.rwimport <mem|dir> <path> <stored> <sigKey> <overwrite 0|1>` → the same for `ImportKeyRings` of a bundle holding that ring
* `C07.rwwrite <mem|dir> <path> <valid> <stored> <sigKey>` → the same for `AddKey` on a handle opened on `<valid>` after the file became `<stored>`
* `C07.rwentries` → the method names of the regenerated table, comma separated
-/
namespace Driver.C07RingOpen
open AcraModel AcraModel.KeystoreSec AcraModel.KeystoreSec.RingOpen

def parseStored (s : String) : Option (Option Bytes) :=
  if s = "absent" then some none else (ofHex s).map some

def mkBackend (path : Bytes) (stored : Option Bytes) (leftover : Bool) : Backend :=
  ⟨fun q => if q = ringFile path then stored else if q = newFile path ∧ leftover then some [] else none,
    fun _ => true, fun _ => false, false, false⟩

/-- what happened to the two paths a cycle can touch -/
def change (path : Bytes) (b b' : Backend) : String :=
  let f := b.files (ringFile path); let f' := b'.files (ringFile path)
  let n := b.files (newFile path); let n' := b'.files (newFile path)
  if f = f' ∧ n = n' then "unchanged"
  else if f = none ∧ f'.isSome ∧ n = n' then "created"
  else "changed"

def showDone (path : Bytes) (b : Backend) (d : Done) : String :=
  (if d.failed then "err " else "ok ") ++ change path b d.backend

def showRes (path : Bytes) (b : Backend) (r : Res) : String :=
  (if r.out.isErr then "err " else "ok ") ++ change path b r.backend

/-- a back end in which the ring file was rewritten (content irrelevant for the comparison) -/
def marked (path : Bytes) (b : Backend) : Backend := { b with files := setFile b.files (ringFile path) (some [0]) }

inductive EntryKind | creator | destroyer | getter

def entryKind (method : String) : EntryKind :=
  let n := (method.splitOn ".").getLastD ""
  if n.startsWith "Destroy" then .destroyer
  else if n.startsWith "Get" then .getter
  else .creator

/-- what a method goes on to do after a successful open, as far as this comparison needs it (valid rings
are supplied with three live keys and a current key): generators, savers and importers add a key;
destroyers and the poison getters need a current key, which a freshly created ring does not have -/
def rest (kind : EntryKind) (path : Bytes) (b : Backend) (out : OpenOut) : Done :=
  match kind, out with
  | .creator, _ => ⟨marked path b, false⟩
  | .destroyer, .loaded _ => ⟨marked path b, false⟩
  | .getter, .loaded _ => ⟨b, false⟩
  | _, _ => ⟨b, true⟩

def handle (op : String) (args : List String) : Option String :=
  match op, args with
  | "rwopen", [_, path, stored, leftover, sigKey] => do
      let path ← ofHex path; let stored ← parseStored stored; let sigKey ← ofHex sigKey
      let b := mkBackend path stored (leftover = "1")
      pure (showRes path b (openKeyRing shimOps sigKey 0 b path))
  | "roopen", [_, path, stored, sigKey] => do
      let path ← ofHex path; let stored ← parseStored stored; let sigKey ← ofHex sigKey
      let b := mkBackend path stored false
      pure (showRes path b (readKeyRing shimOps sigKey b path))
  | "rwentry", [_, method, _, _, path, stored, sigKey] => do
      let row ← Generated.RingOpen.rwEntryPoints.find? (·.2.1 = method)
      let path ← ofHex path; let stored ← parseStored stored; let sigKey ← ofHex sigKey
      let b := mkBackend path stored false
      pure (showDone path b (runEntry row.2.2.2 shimOps sigKey 0 b path (rest (entryKind method) path) (fun b => ⟨marked path b, false⟩)))
  | "rwimport", [_, path, stored, sigKey, overwrite] => do
      let path ← ofHex path; let stored ← parseStored stored; let sigKey ← ofHex sigKey
      let b := mkBackend path stored false
      pure (showDone path b (importKeyRing shimOps sigKey 0 b path
        (fun b' _ => if overwrite = "1" then ⟨marked path b', false⟩ else ⟨b', true⟩) (fun b' => ⟨marked path b', false⟩)))
  | "rwwrite", [_, path, _, stored, sigKey] => do
      let path ← ofHex path; let stored ← parseStored stored; let sigKey ← ofHex sigKey
      let b := mkBackend path stored false
      pure (showRes path b (writeKeyRing shimOps sigKey 0 b path (fun _ => some (emptyRing path))))
  | "rwentries", [] => some (",".intercalate (Generated.RingOpen.rwEntryPoints.map (·.2.1)))
  | _, _ => none

end Driver.C07RingOpen
