import AcraModel.Keystore.V1Cache
import AcraModel.Keystore.V2Store
/-! Driver ops for C06: whole op sequences on the v1 / v2 keystore models.

`C06.v1 <cache> <op>…`, `C06.v2m <op>…`, `C06.v2d <op>…` → observations joined by `|`
(token and observation syntax: see harness/internal/c06/seq.go). -/
namespace Driver.C06
open AcraModel AcraModel.Keystore

def kindTok : Kind → String
  | .sp => "sp" | .ss => "ss" | .hm => "hm" | .pp => "pp" | .ps => "ps" | .al => "al"

def slotTok (s : Slot) : String :=
  if s.kind.hasClient then kindTok s.kind ++ toString s.client else kindTok s.kind

def fileTok (f : Slot × Bool) : String := slotTok f.1 ++ (if f.2 then ".pub" else "")

def parseSlot (t : String) : Option Slot :=
  let k := t.take 2
  let rest := (t.drop 2).toString
  let kind : Option Kind := match k.toString with
    | "sp" => some .sp | "ss" => some .ss | "hm" => some .hm
    | "pp" => some .pp | "ps" => some .ps | "al" => some .al | _ => none
  kind.bind fun kd =>
    if kd.hasClient then
      match rest.toNat? with
      | some c => if rest.length = 1 ∧ c < nClients then some ⟨kd, c⟩ else none
      | none => none
    else if rest = "" then some ⟨kd, 0⟩ else none

def parseOp (t : String) : Option Op :=
  match t.splitOn ":" with
  | ["l"] => some .list
  | ["r"] => some .listRot
  | ["x"] => some .reset
  | ["o"] => some .reopen
  | ["g", s] => (parseSlot s).map .gen
  | ["c", s] => (parseSlot s).map .cur
  | ["p", s] => (parseSlot s).map .pub
  | ["a", s] => (parseSlot s).map .all
  | ["dc", s] => (parseSlot s).map .dcur
  | ["dr", s, i] => do let s ← parseSlot s; let i ← i.toNat?; pure (.drot s i)
  | _ => none

def insertSorted (x : String) : List String → List String
  | [] => [x]
  | y :: ys => if x < y then x :: y :: ys else y :: insertSorted x ys

def sortStrings (l : List String) : List String := l.foldr insertSorted []

def idTok (g : Nat) : String := if g = 0 then "?" else toString g

def joinOr (sep : String) (l : List String) : String := if l.isEmpty then "-" else sep.intercalate l

def renderObs (first : Nat) : Obs → String
  | .ok => "ok" | .err => "err" | .panic => "panic"
  | .key g => "ok:" ++ idTok g
  | .pair g p => "ok:" ++ idTok g ++ "/" ++ idTok p
  | .keys gs => "ok:" ++ joinOr "." (gs.map idTok)
  | .files fs => "ok:" ++ joinOr "," (sortStrings (fs.map fileTok))
  | .rotated rs =>
      let count (t : String) : Nat := ((rs.filter fun r => fileTok r.1 = t).map (·.2)).foldl (· + ·) 0
      "ok:" ++ joinOr "," ((sortStrings (rs.map fun r => fileTok r.1)).map fun t =>
        t ++ "=" ++ ".".intercalate ((List.range (count t)).map fun j => toString (first + j)))

def parseInt (s : String) : Option Int :=
  if s.startsWith "-" then (s.drop 1).toString.toNat?.map fun n => - (n : Int) else s.toNat?.map fun n => (n : Int)

def handle (op : String) (args : List String) : Option String :=
  match op, args with
  | "v1", c :: toks => do
      let c ← parseInt c
      let ops ← toks.mapM parseOp
      let (_, obs) := (V1.init c).run ops
      pure ("|".intercalate (obs.map (renderObs Generated.KeyNames.v1FirstListedIndex)))
  | "v2m", toks | "v2d", toks => do
      let ops ← toks.mapM parseOp
      let (_, obs) := V2.init.run ops
      pure ("|".intercalate (obs.map (renderObs Generated.KeyNames.v2FirstListedIndex)))
  | _, _ => none

end Driver.C06
