import AcraModel.Basic.Bytes
/-! Driver ops for C06. -/
namespace Driver.C06
open AcraModel

def handle (op : String) (args : List String) : Option String :=
  match op, args with
  | _, _ => none

end Driver.C06
