import AcraModel.Censor.Chain
import AcraModel.Censor.Session
import AcraModel.Censor.Match
import AcraModel.Censor.Generalise
import AcraModel.Censor.MatchTyping
import AcraModel.Censor.MatchWalk
/-! Driver ops for C05 (acra-censor): the very definitions `Props/C05.lean` is about. -/
namespace Driver.C05
open AcraModel AcraModel.Censor Generated.CensorTable

/-! ## trees on the wire: `L<hex>` leaf, `N<Kind>:<k>` node followed by k subtrees, comma separated -/

partial def parseTree : List String → Option (Tree × List String)
  | [] => none
  | tok :: rest =>
    if tok.startsWith "L" then
      (ofHex (tok.drop 1).toString).map fun b => (Tree.leaf b, rest)
    else if tok.startsWith "N" then
      match (tok.drop 1).toString.splitOn ":" with
      | [k, n] => do
        let n ← n.toNat?
        let rec kids (n : Nat) (toks : List String) (acc : List Tree) : Option (List Tree × List String) :=
          match n with
          | 0 => some (acc.reverse, toks)
          | n + 1 => do
            let (t, toks') ← parseTree toks
            kids n toks' (t :: acc)
        let (ks, rest') ← kids n rest []
        pure (Tree.node k ks, rest')
      | _ => none
    else none

def treeOfToken (s : String) : Option Tree :=
  match parseTree (s.splitOn ",") with
  | some (t, []) => some t
  | _ => none

partial def tokenOf : Tree → String
  | .leaf b => "L" ++ hexOf b
  | .node k ks => ",".intercalate (s!"N{k}:{ks.length}" :: ks.map tokenOf)

def txt (hex : String) : Option String := (ofHex hex).map bytesStr

def sem : Sem Tree Tree := ⟨tablesMatch, Match.patMatch⟩

/-! ## configuration and statement tokens (same line format as the Go op, see harness/internal/c05/ops.go) -/

def takeList (toks : List String) : Option (List String × List String) :=
  match toks with
  | n :: rest => do
    let n ← n.toNat?
    if rest.length < n then none else pure (rest.take n, rest.drop n)
  | [] => none

/-- `<rawhex>/<normhex>` → normalised text; `<rawhex>/!` → none (does not parse) -/
def normOf (tok : String) : Option (Option String) :=
  match tok.splitOn "/" with
  | [_, "!"] => some none
  | [_, n] => (txt n).map some
  | _ => none

def rawOf (tok : String) : Option String := (tok.splitOn "/").head?.bind txt

def patOf (tok : String) : Option (Option Tree) :=
  match tok.splitOn "/" with
  | [_, "!"] => some none
  | [_, t] => (treeOfToken t).map some
  | _ => none

def stmtOf (tok : String) : Option (Stmt Tree) :=
  match tok.splitOn "/" with
  | [r, "!"] => do pure ⟨← txt r, none⟩
  | [r, n, t] => do pure ⟨← txt r, some ⟨← txt n, ← treeOfToken t⟩⟩
  | _ => none

/-- `none` inside = the configuration is rejected by `LoadConfiguration` (a query or pattern does not parse) -/
def parseHandlers : Nat → List String → Option (Option (List (Handler Tree)) × List String)
  | 0, toks => some (some [], toks)
  | n + 1, k :: toks =>
    let cont (h : Option (Handler Tree)) (rest : List String) := do
      let (hs, rest') ← parseHandlers n rest
      pure ((do let h ← h; let hs ← hs; pure (h :: hs)), rest')
    match k with
    | "AA" => cont (some .allowAll) toks
    | "DA" => cont (some .denyAll) toks
    | "C" => cont (some .capture) toks
    | "I" => do
      let (qs, rest) ← takeList toks
      let raws ← qs.mapM rawOf
      let norms ← qs.mapM normOf
      cont (some (.ignore (raws ++ norms.filterMap id))) rest
    | "A" | "D" => do
      let (qs, rest) ← takeList toks
      let (ts, rest) ← takeList rest
      let (ps, rest) ← takeList rest
      let norms ← qs.mapM normOf
      let tabs ← ts.mapM txt
      let pats ← ps.mapM patOf
      -- AddQueries / AddPatterns fail on the first text that does not parse
      let r : Option (Rules Tree) := do
        let qs ← norms.mapM id
        let ps ← pats.mapM id
        pure ⟨qs, tabs, ps⟩
      cont (r.map fun r => if k == "A" then .allow r else .deny r) rest
    | _ => none
  | _, [] => none

def parseCfg (toks : List String) : Option (Option (Cfg Tree) × List String) :=
  match toks with
  | ipe :: lg :: nh :: rest => do
    let nh ← nh.toNat?
    let (hs, rest') ← parseHandlers nh rest
    pure (hs.map fun hs => ⟨ipe == "1", lg == "1", hs⟩, rest')
  | _ => none

def verdictStr : Verdict → String
  | .allow => "allow"
  | .deny => "deny"

def hexList (xs : List String) : String := "[" ++ ",".intercalate xs ++ "]"

/-- the session op: events `q:<stmt token>` and `c`; output as the Go op prints it -/
def session (cfg : Cfg Tree) (evs : List String) : Option String := do
  let denied (s : Stmt Tree) : Bool := handleQuery sem cfg s == .deny
  let rec go (pending : List String) (evs : List String) (acc : List String) : Option (List String) :=
    match evs with
    | [] => some acc.reverse
    | ev :: rest =>
      if ev == "c" then
        match pending with
        | [] => go [] rest ("c-=[]" :: acc)
        | q :: ps => go ps rest (s!"c@{q}={hexList ps}" :: acc)
      else if ev.startsWith "q:" then do
        let tok := (ev.drop 2).toString
        let s ← stmtOf tok
        let rawHex ← (tok.splitOn "/").head?
        -- Session.stepQuery with addFirst = false (fact_pg_add_after_censor)
        let (st, obs) := Session.stepQuery (fun _ => denied s) false ⟨pending⟩ rawHex
        match obs with
        | [.forwardDb _] => go st.pending rest (s!"F={hexList st.pending}" :: acc)
        | _ => go st.pending rest (s!"E={hexList st.pending}" :: acc)
      else none
  let out ← go [] evs []
  pure ("ok " ++ " ".intercalate out)

/-! ## generalisation: σ on the wire is `-` or `i:a,i:a,…` with a ∈ v l c q w s t -/

def actCode : Act → String
  | .value => "v" | .lov => "l" | .column => "c" | .subquery => "q" | .whereP => "w" | .star => "s" | .stmt => "t"

def actOf : String → Option Act
  | "v" => some .value | "l" => some .lov | "c" => some .column | "q" => some .subquery
  | "w" => some .whereP | "s" => some .star | "t" => some .stmt | _ => none

def sigmaOf (tok : String) : Option Sigma :=
  if tok == "-" then some []
  else (tok.splitOn ",").mapM fun e =>
    match e.splitOn ":" with
    | [i, a] => do pure (← i.toNat?, ← actOf a)
    | _ => none

def sigmaTok (σ : Sigma) : String :=
  if σ.isEmpty then "-" else ",".intercalate (σ.map fun (i, a) => s!"{i}:{actCode a}")

def handle (op : String) (args : List String) : Option String :=
  match op, args with
  | "placeholders", [] =>
    some (" ".intercalate ([Match.selectPattern, Match.unionPattern, Match.insertPattern, Match.updatePattern, Match.deletePattern,
      Match.subqueryPattern, Match.wherePattern, Match.valuePattern, Match.listOfValuesPattern, Match.columnPattern].map tokenOf))
  | "match", [p, s] => do
    match ← patOf p, ← stmtOf s with
    | some p, ⟨_, some q⟩ => pure (toString (Match.patMatch q.ast p))
    | _, _ => pure "err"
  | "tableok", [] => some (toString Match.tableFactsOk)
  | "identsound", [p, s] => do
    match ← patOf p, ← stmtOf s with
    | some p, ⟨_, some q⟩ =>
      let cs := Match.compared q.ast p
      let leafTxt (fn : String) (x : Tree) : String :=
        if fn == "areEqualTableIdent" then hexOf (Match.fld x "v").leafBytes
        else if fn == "areEqualColIdent" then hexOf (Match.fld x "val").leafBytes
        else hexOf (Match.fld x "Val").leafBytes
      match cs.find? (fun e => !Match.leafHolds e) with
      | some e => pure s!"mismatch {e.2.1} {leafTxt e.2.1 e.2.2.1} {leafTxt e.2.1 e.2.2.2}"
      | none =>
        let cnt (fn : String) := (cs.filter fun e => e.2.1 == fn).length
        pure s!"ok {cnt "areEqualTableIdent"} {cnt "areEqualColIdent"} {cnt "areEqualSQLVal"}"
    | _, _ => pure "err"
  | "tablekinds", [] => some (",".intercalate tableKinds)
  | "typed", [s] => do
    match ← stmtOf s with
    | ⟨_, some q⟩ => pure s!"ok {wellTypedM q.ast} {dmlKinds.contains q.ast.kind}"
    | _ => pure "err"
  | "positions", [s] => do
    match ← stmtOf s with
    | ⟨_, some q⟩ => pure (sigmaTok (positions false 0 q.ast))
    | _ => pure "err"
  | "gen", [s, σ] => do
    match ← stmtOf s with
    | ⟨_, some q⟩ => pure (tokenOf (generalise q.ast (← sigmaOf σ)))
    | _ => pure "err"
  | "genmatch", [s, σ] => do
    match ← stmtOf s with
    | ⟨_, some q⟩ => pure (toString (Match.patMatch q.ast (generalise q.ast (← sigmaOf σ))))
    | _ => pure "err"
  | "matchtree", [pt, s] => do
    match treeOfToken pt, ← stmtOf s with
    | some p, ⟨_, some q⟩ => pure (toString (Match.patMatch q.ast p))
    | _, _ => pure "err"
  | "tables", n :: rest => do
    let n ← n.toNat?
    let ts ← (rest.take n).mapM txt
    match rest.drop n with
    | [s] =>
      match ← stmtOf s with
      | ⟨_, some q⟩ => let (a, b) := tablesMatch q.ast ts; pure s!"{a} {b}"
      | _ => pure "err"
    | _ => none
  | "handle", toks => do
    let (cfg, rest) ← parseCfg toks
    match rest with
    | [s] =>
      let s ← stmtOf s
      match cfg with
      | none => pure "cfgerr"
      | some cfg => pure (verdictStr (handleQuery sem cfg s))
    | _ => none
  | "pgsession", toks => do
    let (cfg, rest) ← parseCfg toks
    match rest with
    | n :: evs =>
      let n ← n.toNat?
      if evs.length != n then none
      else match cfg with
        | none => pure "cfgerr"
        | some cfg => session cfg evs
    | _ => none
  | "mysession", toks => do
    let (cfg, rest) ← parseCfg toks
    match rest with
    | n :: evs =>
      let n ← n.toNat?
      if evs.length != n then none
      else match cfg with
        | none => pure "cfgerr"
        | some cfg => do
          let ss ← evs.mapM fun ev => stmtOf (ev.drop 2).toString
          -- Session.myStep per statement
          let outs := ss.map fun s =>
            match Session.myStep (fun _ => handleQuery sem cfg s == .deny) "" with
            | [.forwardDb _] => "F"
            | _ => "E"
          pure (" ".intercalate ("ok" :: outs))
    | _ => none
  | _, _ => none

end Driver.C05
