import AcraModel.Basic.Bytes
/-! Driver ops for C05. -/
namespace Driver.C05
open AcraModel

def handle (op : String) (args : List String) : Option String :=
  match op, args with
  | _, _ => none

end Driver.C05
