import AcraModel.Searchable.Eval
import AcraModel.Searchable.Processor
import AcraModel.Crypto.Shim
import Driver.C01
/-! Driver ops for C09 (searchable encryption). -/
namespace Driver.C09
open AcraModel AcraModel.Envelope AcraModel.Searchable
open Driver.C01 (parseKV parseKind parseList parseOpt outHex)

def C := shimOps

def optB : Option Bytes → String
  | some b => "some " ++ hexOf b
  | none => "none"

/-! ### condition language: reverse Polish, tokens joined by `,`
`C.t.c` column, `L.hex` literal, `K.hex` cast literal, `P.i` placeholder, `Q.i` cast placeholder,
`O` other; `=`, `<>`, `<=>`, `<` comparison; `&`, `|` connectives. -/

def parseCol (t c : String) : Option ColRef := do pure ⟨← t.toNat?, ← c.toNat?⟩

def parseOperand (tok : String) : Option Operand :=
  match tok.splitOn "." with
  | ["C", t, c] => do pure (.col (← parseCol t c))
  | ["L", h] => do pure (.lit (← ofHex h))
  | ["K", h] => do pure (.cast (← ofHex h))
  | ["P", i] => do pure (.param (← i.toNat?))
  | ["Q", i] => do pure (.castParam (← i.toNat?))
  | ["O"] => some .other
  | _ => none

def parseOp (s : String) : Option Op :=
  if s = "=" then some .eq else if s = "<>" then some .ne else if s = "<=>" then some .nullSafeEq
  else if s = "<" then some .lt else none

inductive StackItem | opnd (o : Operand) | cnd (c : Cond)

def parseCondToks : List String → List StackItem → Option Cond
  | [], [.cnd c] => some c
  | [], _ => none
  | t :: ts, st =>
    match parseOp t, st with
    | some op, .opnd r :: .opnd l :: rest => parseCondToks ts (.cnd (.cmp l op r) :: rest)
    | some _, _ => none
    | none, _ =>
      if t = "&" ∨ t = "|" then
        match st with
        | .cnd b :: .cnd a :: rest => parseCondToks ts (.cnd (if t = "&" then .and a b else .or a b) :: rest)
        | _ => none
      else do
        let o ← parseOperand t
        parseCondToks ts (.opnd o :: st)

def parseCond (s : String) : Option Cond := parseCondToks (s.splitOn ",") []

def opStr : Op → String
  | .eq => "=" | .ne => "<>" | .nullSafeEq => "<=>" | .lt => "<"

def exprStr : DbExpr → String
  | .col c => s!"C.{c.tbl}.{c.col}"
  | .substr c f n b => s!"{if b then "B" else "S"}.{c.tbl}.{c.col}.{f}.{n}"
  | .const v => s!"V.{hexOf v}"
  | .param i => s!"P.{i}"
  | .castParam i => s!"Q.{i}"
  | .other => "O"

def dbStr : DbCond → String
  | .cmp l op r => s!"{exprStr l},{exprStr r},{opStr op}"
  | .and a b => s!"{dbStr a},{dbStr b},&"
  | .or a b => s!"{dbStr a},{dbStr b},|"

/-- configured columns: `_` or `t.c;t.c:t;t.c:e` – kind `s` (default) searchable, `t` consistently
tokenized, `e` encrypted only -/
def parseCols (s : String) : Option (List (ColRef × String)) :=
  if s = "_" then some [] else (s.splitOn ";").mapM fun p =>
    let (tc, kind) := match p.splitOn ":" with
      | [tc, k] => (tc, k)
      | _ => (p, "s")
    match tc.splitOn "." with
    | [t, c] => do pure ((← parseCol t c), kind)
    | _ => none

/-- rows: `_` or rows joined by `;`, each `t.c:hex|t.c:hex` -/
def parseRow (s : String) : Option Row :=
  (s.splitOn "|").mapM fun cell =>
    match cell.splitOn ":" with
    | [tc, h] =>
      match tc.splitOn "." with
      | [t, c] => do pure ((← parseCol t c), (← ofHex h))
      | _ => none
    | _ => none

def parseRows (s : String) : Option (List Row) :=
  if s = "_" then some [] else (s.splitOn ";").mapM parseRow

def parseDialect (s : String) : Option Dialect :=
  if s = "pg" then some .pg else if s = "mysql" then some .mysql else none

def listStr (l : List Bytes) : String :=
  if l.isEmpty then "_" else ",".intercalate (l.map hexOf)

def bits (l : List Bool) : String :=
  if l.isEmpty then "_" else String.ofList (l.map fun b => if b then '1' else '0')

def optListStr (l : List (Option Bytes)) : String :=
  if l.isEmpty then "_" else ",".intercalate (l.map fun o => match o with | some b => hexOf b | none => "fatal")

def stStr (s : PState) : String :=
  s!"{optB s.hashData |>.replace " " ":"}/{optB s.matchedHash |>.replace " " ":"}/{hexOf s.rawData}"

def parseSt (s : String) : Option PState :=
  let o (t : String) : Option (Option Bytes) :=
    if t = "none" then some none else
      match t.splitOn ":" with
      | ["some", h] => (ofHex h).map some
      | _ => none
  match s.splitOn "/" with
  | [a, b, c] => do pure ⟨← o a, ← o b, ← ofHex c⟩
  | _ => none

def handle (op : String) (args : List String) : Option String :=
  match op, args with
  | "hmac", [k, d] => do pure (hexOf (generateHMAC C (← ofHex k) (← ofHex d)))
  | "extract", [d] => do
      pure (match extractHashAndData (← ofHex d) with
        | some (h, rest) => s!"some {hexOf h} {hexOf rest}"
        | none => "none")
  | "isequal", [k, h, d] => do pure (toString (isEqual C (← parseOpt k) (← ofHex h) (← ofHex d)))
  -- encrypt kind hkey [kv ×4] data rnd
  | "encrypt", [k, hk, pub, privs, sym, syms, d, rnd] => do
      pure (outHex (searchableEncrypt C (← parseOpt hk) (← parseKV pub privs sym syms) (← parseKind k) (← ofHex d) (← ofHex rnd)))
  | "decrypt.struct", [hk, privs, ctx, d] => do
      pure (outHex (decryptSearchableStruct C (← ofHex hk) (← parseList privs) (← ofHex ctx) (← ofHex d)))
  | "decrypt.block", [hk, keys, ctx, d] => do
      pure (outHex (decryptSearchableBlock C (← ofHex hk) (← parseList keys) (← ofHex ctx) (← ofHex d)))
  -- hashproc hkey [kv ×4] data   (NewHashProcessor around the registry handler)
  | "hashproc", [hk, pub, privs, sym, syms, d] => do
      let kv ← parseKV pub privs sym syms
      pure (outHex (hashProcessor C (← parseOpt hk) (process C kv) (← ofHex d)))
  | "match", [d] => do pure ((matchEnvelope (← ofHex d)).render toString)
  -- oncolumn hkey second state data
  | "oncolumn", [hk, sec, st, d] => do
      pure ((pOnColumn C (← parseOpt hk) (sec == "true") (← parseSt st) (← ofHex d)).render fun o =>
        s!"{stStr o.st} {hexOf o.data} {o.notDecrypted}")
  -- columns hkey [kv ×4] cols   (one Processor object, the subscriber chain of proxy.go per column)
  | "columns", [hk, pub, privs, sym, syms, cols] => do
      let kv ← parseKV pub privs sym syms
      pure ((columns C (← parseOpt hk) (clientDetector C kv) PState.init (← parseList cols)).render fun (s, os) =>
        s!"{stStr s} {optListStr os}")
  -- the pinned tree's processor (before the repair): regression witnesses only, model side
  | "legacy.columns", [hk, pub, privs, sym, syms, cols] => do
      let kv ← parseKV pub privs sym syms
      pure ((legacyColumns C (← parseOpt hk) (clientDetector C kv) PState.init (← parseList cols)).render fun (s, os) =>
        s!"{stStr s} {optListStr os}")
  | "tr.encrypt", [k, hk, pub, privs, sym, syms, d, rnd] => do
      pure ((translatorEncrypt C (← parseOpt hk) (← parseKV pub privs sym syms) (← parseKind k) (← ofHex d) (← ofHex rnd)).render
        fun (e, h) => s!"{hexOf e} {hexOf h}")
  | "tr.decrypt", [k, hk, pub, privs, sym, syms, d] => do
      pure (outHex (translatorDecrypt C (← parseOpt hk) (← parseKV pub privs sym syms) (← parseKind k) (← ofHex d)))
  | "tr.queryhash", [hk, d] => do pure (outHex (generateQueryHash C (← parseOpt hk) (← ofHex d)))
  -- query dialect hkey [kv ×4] searchableCols cond params rows → rewritten condition, bound values, selected rows
  | "query", [d, hk, pub, privs, sym, syms, cols, cond, params, rows, _variant] => do
      let sc ← parseCols cols
      let x : QCtx := { c := C, d := ← parseDialect d, hkey := ← parseOpt hk, kv := ← parseKV pub privs sym syms,
                        searchable := fun c => sc.contains (c, "s"), tokenized := fun c => sc.contains (c, "t") }
      let cnd ← parseCond cond
      let ps ← parseList params
      let rs ← parseRows rows
      pure (match rewriteCond x cnd with
        | .err => "err-query"
        | .panic => "panic"
        | .ok dc =>
          match rewriteBind x cnd ps with
          | .err => s!"err-bind {dbStr dc}"
          | .panic => "panic"
          | .ok ps' => s!"ok {dbStr dc} {listStr ps'} {bits (rs.map fun r => evalDb ps' r dc)}")
  -- the pinned tree's OnBind (before the repair): regression witnesses only, model side → bound values
  | "legacy.bind", [d, hk, pub, privs, sym, syms, cols, cond, params] => do
      let sc ← parseCols cols
      let x : QCtx := { c := C, d := ← parseDialect d, hkey := ← parseOpt hk, kv := ← parseKV pub privs sym syms,
                        searchable := fun c => sc.contains (c, "s"), tokenized := fun c => sc.contains (c, "t") }
      pure ((legacyRewriteBind x (← parseCond cond) (← parseList params)).render listStr)
  -- plain cond params rows: the specification (rows hold plaintexts)
  | "spec", [cond, params, rows] => do
      let cnd ← parseCond cond
      let ps ← parseList params
      let rs ← parseRows rows
      pure (bits (rs.map fun r => holds r.get ps cnd))
  | _, _ => none

end Driver.C09
