import AcraModel.Basic.Bytes
/-! Driver ops for C09. -/
namespace Driver.C09
open AcraModel

def handle (op : String) (args : List String) : Option String :=
  match op, args with
  | _, _ => none

end Driver.C09
