import AcraModel.Basic.Bytes
/-! Driver ops for C01. -/
namespace Driver.C01
open AcraModel

def handle (op : String) (args : List String) : Option String :=
  match op, args with
  | _, _ => none

end Driver.C01
