import AcraModel.Envelope.Detector
import AcraModel.Envelope.Translator
import AcraModel.Crypto.Shim
/-! Driver ops for the envelope models (used by C01, C02, C03, C11, C14, C15). -/
namespace Driver.C01
open AcraModel AcraModel.Envelope

def C := shimOps

/-- list of byte strings: `_` = empty list, otherwise comma separated hex (`-` = empty string) -/
def parseList (s : String) : Option (List Bytes) :=
  if s = "_" then some [] else (s.splitOn ",").mapM ofHex

def parseOpt (s : String) : Option (Option Bytes) :=
  if s = "none" then some none else (ofHex s).map some

def parseOptList (s : String) : Option (Option (List Bytes)) :=
  if s = "none" then some none else (parseList s).map some

def parseKind (s : String) : Option Kind :=
  if s = "struct" then some .struct else if s = "block" then some .block else none

def parseKV (pub privs sym syms : String) : Option KeyView := do
  pure { pub := ← parseOpt pub, privs := ← parseOptList privs, sym := ← parseOpt sym, syms := ← parseOptList syms }

def outHex (o : Out Bytes) : String := o.render hexOf
def outUnit (o : Out Unit) : String := o.render (fun _ => "")
def trimr (s : String) : String := s.trimAscii.toString

def scanStr : ScanOut → String
  | .ok b _ => s!"ok {hexOf b}"
  | .fatal => "fatal"
  | .panic => "panic"

/-- `nil` = Go nil slice, otherwise hex (`-` = empty, non-nil) -/
def parseNil (s : String) : Option (Option Bytes) :=
  if s = "nil" then some none else (ofHex s).map some

/-- the store of the translator ops: `hasCb cbErr [poison kv ×4] storeId [kv ×4] hmacKey` – one client id
owns keys, every other id has none -/
def parseStore : List String → Option (Translator.Store × List String)
  | has :: cbErr :: ppub :: pprivs :: psym :: psyms :: sid :: pub :: privs :: sym :: syms :: hk :: rest => do
      let pk ← parseKV ppub pprivs psym psyms
      let kv ← parseKV pub privs sym syms
      let sid ← ofHex sid
      let hk ← parseOpt hk
      let st : Translator.Store :=
        { keys := fun id => if id = sid then kv else ⟨none, none, none, none⟩,
          hmac := fun id => if id = sid then hk else none,
          poison := { hasCallbacks := has == "true", callbackErr := cbErr == "true", pk := pk } }
      pure (st, rest)
  | _ => none

def outAlarms (r : Out Bytes × Nat) : String :=
  match r.1 with
  | .ok b => s!"ok {hexOf b} {r.2}"
  | .err => s!"err {r.2}"
  | .panic => "panic"

def outPair (o : Out (Bytes × Bytes)) : String := o.render fun (e, h) => s!"{hexOf e} {hexOf h}"

/-- the eight AcraTranslator operations: `tr.<Op> <store> reqId addCtx [hash] data [rnd]` -/
def handleTr (op : String) (args : List String) : Option String := do
  let (st, rest) ← parseStore args
  match op, rest with
  | "Encrypt", [id, ac, d, rnd] => pure (outHex (Translator.encrypt C st (← ofHex d) (← parseNil id) (← parseNil ac) (← ofHex rnd)))
  | "EncryptSym", [id, ac, d, rnd] => pure (outHex (Translator.encryptSym C st (← ofHex d) (← parseNil id) (← parseNil ac) (← ofHex rnd)))
  | "Decrypt", [id, ac, d] => pure (outAlarms (Translator.decrypt C st (← ofHex d) (← parseNil id) (← parseNil ac)))
  | "DecryptSym", [id, ac, d] => pure (outAlarms (Translator.decryptSym C st (← ofHex d) (← parseNil id) (← parseNil ac)))
  | "EncryptSearchable", [id, ac, d, rnd] =>
      pure (outPair (Translator.encryptSearchable C st (← ofHex d) (← parseNil id) (← parseNil ac) (← ofHex rnd)))
  | "EncryptSymSearchable", [id, ac, d, rnd] =>
      pure (outPair (Translator.encryptSymSearchable C st (← ofHex d) (← parseNil id) (← parseNil ac) (← ofHex rnd)))
  | "DecryptSearchable", [id, ac, h, d] =>
      pure (outAlarms (Translator.decryptSearchable C st (← ofHex d) (← parseNil h) (← parseNil id) (← parseNil ac)))
  | "DecryptSymSearchable", [id, ac, h, d] =>
      pure (outAlarms (Translator.decryptSymSearchable C st (← ofHex d) (← parseNil h) (← parseNil id) (← parseNil ac)))
  | _, _ => none

def handle (op : String) (args : List String) : Option String :=
  match op, args with
  | "lib.protect", [k, pub, privs, sym, syms, d, rnd] => do
      pure (outHex (Translator.libraryProtect C (← parseKV pub privs sym syms) (← parseKind k) (← ofHex d) (← ofHex rnd)))
  | "lib.reveal", [pub, privs, sym, syms, d] => do
      pure (outHex (Translator.libraryReveal C (← parseKV pub privs sym syms) (← ofHex d)))
  | "struct.create", [pub, ctx, m, rnd] => do
      pure (outHex (createStruct C (← ofHex pub) (← ofHex ctx) (← ofHex m) (← ofHex rnd)))
  | "struct.validate", [d] => do pure (trimr (outUnit (validateStruct (← ofHex d))))
  | "struct.extract", [d] => do
      pure ((extractStruct (← ofHex d)).render fun (n, b) => s!"{n} {hexOf b}")
  | "struct.decrypt", [privs, ctx, d] => do
      pure (outHex (decryptStructRotated C (← ofHex ctx) (← ofHex d) (← parseList privs)))
  | "block.create", [key, ctx, m, rnd] => do
      pure (outHex (createBlock C (← ofHex key) (← ofHex ctx) (← ofHex m) (← ofHex rnd)))
  | "block.extract", [d] => do
      pure ((extractBlock (← ofHex d)).render fun (n, b) => s!"{n} {hexOf b}")
  | "block.decrypt", [keys, ctx, d] => do
      pure (outHex (decryptBlock C (← parseList keys) (← ofHex ctx) (← ofHex d)))
  | "container.ser", [e, id] => do
      pure (outHex (serialize (← ofHex e) (UInt8.ofNat (← id.toNat?))))
  | "container.deser", [d] => do
      pure ((deserialize (← ofHex d)).render fun (b, id) => s!"{hexOf b} {id.toNat}")
  | "container.extract", [d] => do
      pure ((extractContainer (← ofHex d)).render fun (n, b) => s!"{n} {hexOf b}")
  | "handler.match", [d] => do pure (toString (registryMatch (← ofHex d)))
  | "handler.matchkind", [k, d] => do pure (toString (matchKind (← parseKind k) (← ofHex d)))
  | "handler.protect", [k, pub, privs, sym, syms, d, rnd] => do
      pure (outHex (protect C (← parseKV pub privs sym syms) (← parseKind k) (← ofHex d) (← ofHex rnd)))
  | "handler.protectcfg", [k, pub, privs, sym, syms, d, rnd] => do
      pure (outHex (protect C (← parseKV pub privs sym syms) (← parseKind k) (← ofHex d) (← ofHex rnd)))
  | "handler.reveal", [pub, privs, sym, syms, d] => do
      pure (outHex (reveal C (← parseKV pub privs sym syms) (← ofHex d)))
  | "detector.oncolumn", [pub, privs, sym, syms, d] => do
      let kv ← parseKV pub privs sym syms
      pure (scanStr (onColumn [decryptCallback C kv] (← ofHex d)))
  | "detector.compat", [pub, privs, sym, syms, d] => do
      let kv ← parseKV pub privs sym syms
      pure (scanStr (onColumnCompat [decryptCallback C kv] (← ofHex d)))
  | _, _ =>
    match op.splitOn "." with
    | ["tr", o] => handleTr o args
    | _ => none

end Driver.C01
