import AcraModel.KeystoreSec.MigrateV1
import AcraModel.KeystoreSec.V1WriteLog
import AcraModel.Crypto.Shim
/-!
Driver ops of the v1 key store models (dispatched from `Driver.C18` as `C18.v1.*` and from
`Driver.C07` as `C07.v1.*`).

Tokens: a file / record is `<name hex>:<content hex>`; lists are length-prefixed.

* `C18.v1.names <name>` → classification of a file name by `KeyBackuper`
* `C18.v1.export <master> <n> <file>… ids <k> <kind>:<ctx>… | mode <all|private|public|other>` → `ok <n> <rec>…` | `err`
* `C18.v1.exportd <spelling> …` = `C18.v1.export …` with the source key directory spelled with a trailing `/`, `./`, `x/../`, `//`
* `C18.v1.bundle <keys> <data>` → `ok <plaintext hex> resealed=<0|1>` | `err`
* `C18.v1.import <master> <nt> <file>… <nr> <rec>… <no> <observed file>…` → `ok|err <n> <file>…` (sorted)
* `C18.v1.classify <path>` → purpose, id and slot of `ClassifyExportedKey`
* `C18.v1.migrate2 <master> <n> <file>… <m> <file>…` → two key stores migrated into one v2 key store, results and rings
* `C18.v1.migrate <master> <n> <file>…` → overall result, per-key results, plaintext view of the v2 rings
* `C07.v1.write <master> <op> <id> <secret> <pub> <no> <path>:<data>:<0|1>…` → `ok <n> <write>…` | `err`
* `C07.v1.load <master> <c|x|n>:<ctx> <data>` → `ok <hex>` | `err`
-/
namespace Driver.V1Keys
open AcraModel AcraModel.KeystoreSec AcraModel.KeystoreSec.V1 AcraModel.KeystoreSec.ExportV1
open AcraModel.CrossClient (KeyContext keyContextBytes Files)

def env : Env := ⟨shimOps, fun pub => (Shim.pubElem Sha256.sha256 pub).isSome⟩

def b01 (b : Bool) : String := if b then "1" else "0"

def showCtx (kc : KeyContext) : String :=
  let p := if kc.purpose = "" then "-" else kc.purpose
  match kc.clientID, kc.context with
  | some id, _ => s!"{p}:c:{hexOf id}"
  | none, some x => s!"{p}:x:{hexOf x}"
  | none, none => s!"{p}:n:-"

def parsePair (s : String) : Option (Bytes × Bytes) :=
  match s.splitOn ":" with
  | [a, b] => do let a ← ofHex a; let b ← ofHex b; pure (a, b)
  | _ => none

def showPair (r : Bytes × Bytes) : String := hexOf r.1 ++ ":" ++ hexOf r.2

def takeN {α} (n : Nat) (xs : List α) : Option (List α × List α) :=
  if xs.length < n then none else some (xs.take n, xs.drop n)

/-- `<n> <item>…` -/
def takeList (xs : List String) : Option (List String × List String) :=
  match xs with
  | n :: rest => do let n ← n.toNat?; takeN n rest
  | [] => none

def insertStr (x : String) : List String → List String
  | [] => [x]
  | y :: r => if x < y then x :: y :: r else y :: insertStr x r
def sortStr (l : List String) : List String := l.foldr insertStr []

def showList (l : List String) : String := s!"{l.length}" ++ String.join (l.map (" " ++ ·))

def parseKind : String → Kind
  | "poison-public" => .poisonPublic
  | "poison-private" => .poisonPrivate
  | "storage-public" => .storagePublic
  | "storage-private" => .storagePrivate
  | "symmetric-key" => .symmetric
  | "hmac-key" => .search
  | _ => .other

def parseMode : String → Mode
  | "all" => .allKeys
  | "private" => .privateKeys
  | "public" => .publicOnly
  | _ => .otherMode

/-- nonce carried by a sealed value of the stand-in (bytes 16..28) -/
def nonceOf (ct : Bytes) : Bytes := (ct.drop 16).take 12

def filesOf (l : List (Bytes × Bytes)) : Files := l.foldl (fun fs r => fs.put r.1 r.2) []

def showRes : MigrateV1.Res → String
  | .ok => "ok" | .err => "err" | .panic => "panic"

def showV2Key (k : MigrateV1.V2Key) : String :=
  s!"{k.seq},{k.data.format}:{hexOf k.data.pub}:{hexOf k.data.priv}:{hexOf k.data.sym}"
def showV2Ring (r : MigrateV1.V2Ring) : String :=
  s!"{hexOf r.path};{r.current};" ++ (if r.keys.isEmpty then "-" else "|".intercalate (r.keys.map showV2Key))

partial def handleC18 (op : String) (args : List String) : Option String :=
  match op, args with
  -- the same export with the key directory spelled non-canonically (`<k>` = spelling, ignored by the model)
  | "v1.exportd", _ :: rest => handleC18 "v1.export" rest
  | "v1.names", [n] => do
      let n ← ofHex n
      pure s!"hist={b01 (isHistorical n)} priv={b01 (isPrivate n)} pub={b01 (isPublic n)} ctx={showCtx (ctxOfName n)} describe={b01 (describeOk (base n))} valid={b01 (validateID n)} base={hexOf (base n)} dir={hexOf (dirOf n)}"
  | "v1.names.pinned", [n] => do
      let n ← ofHex n
      pure s!"ctx={showCtx (ctxOfNamePinned n)}"
  | "v1.export", master :: rest => do
      let master ← ofHex master
      let (fs, rest) ← takeList rest
      let fs ← fs.mapM parsePair
      let S : Store := ⟨master, filesOf fs⟩
      let recs ← match rest with
        | "ids" :: rest => do
            let (ids, rest) ← takeList rest
            if rest ≠ [] then none
            let ids ← ids.mapM fun s => match s.splitOn ":" with
              | [k, x] => do let x ← ofHex x; pure (ExportID.mk (parseKind k) x)
              | _ => none
            pure (exportRecords env S ids .allKeys)
        | ["mode", m] => pure (exportRecords env S [] (parseMode m))
        | _ => none
      pure (match recs with
        | none => "err"
        | some rs => "ok " ++ showList (rs.map showPair))
  | "v1.bundle", [keys, data] => do
      let keys ← ofHex keys; let data ← ofHex data
      pure (match CrossClient.keyDecrypt shimOps keys emptyCtx data with
        | none => "err"
        | some pt =>
          let again := CrossClient.keyEncrypt shimOps keys emptyCtx pt (nonceOf data)
          s!"ok {hexOf pt} resealed={b01 (again = some data)}")
  | "v1.import", master :: rest => do
      let master ← ofHex master
      let (tgt, rest) ← takeList rest
      let tgt ← tgt.mapM parsePair
      let (recs, rest) ← takeList rest
      let recs ← recs.mapM parsePair
      let (obs, rest) ← takeList rest
      if rest ≠ [] then none
      let obs ← obs.mapM parsePair
      let ν : Nonces := fun name _ => match obs.find? (·.1 = targetPath name) with
        | some o => nonceOf o.2
        | none => []
      let (fs, ok) := importRecords env ν master (filesOf tgt) recs
      pure ((if ok then "ok " else "err ") ++ showList (sortStr (fs.map showPair)))
  | "v1.classify", [p] => do
      let p ← ofHex p
      let k := MigrateV1.classify p
      pure s!"{showCtx k.ctx} pub={b01 (k.pubPath ≠ [])} priv={b01 (k.privPath ≠ [])} sym={b01 (k.symPath ≠ [])}"
  | "v1.migrate2", master :: rest => do
      -- two v1 key stores migrated one after the other into the same v2 key store
      let master ← ofHex master
      let (fs1, rest) ← takeList rest
      let (fs2, rest) ← takeList rest
      if rest ≠ [] then none
      let fs1 ← fs1.mapM parsePair
      let fs2 ← fs2.mapM parsePair
      let S1 : Store := ⟨master, filesOf fs1⟩
      let S2 : Store := ⟨master, filesOf fs2⟩
      let (v1, r1) := MigrateV1.migrate env S1 []
      let (v2, r2) := MigrateV1.migrate env S2 v1
      if r1 = .panic ∨ r2 = .panic then pure "panic"
      else pure s!"{showRes r1} {showRes r2} rings {showList (sortStr (v2.map showV2Ring))}"
  | "v1.migrate", master :: rest => do
      let master ← ofHex master
      let (fs, rest) ← takeList rest
      if rest ≠ [] then none
      let fs ← fs.mapM parsePair
      let S : Store := ⟨master, filesOf fs⟩
      let ks := MigrateV1.enumerate S.files
      let (v2, res) := MigrateV1.migrateKeys env S [] ks
      if res = .panic then pure "panic"
      else
        -- per-key results: every key is attempted on the state left by the previous ones
        let per := (ks.foldl (fun (acc : MigrateV1.V2 × List String) k =>
          let (s', r) := MigrateV1.importKeyFileV1 env S acc.1 k
          (s', acc.2 ++ [hexOf (MigrateV1.fusedID k) ++ "=" ++ showRes r])) ([], [])).2
        pure s!"{showRes res} keys {showList (sortStr per)} rings {showList (sortStr (v2.map showV2Ring))}"
  | _, _ => none

open V1WriteLog in
def parseOp (name : String) (id secret pub : Bytes) : Option Op :=
  match name with
  | "gen-data-keys" => some (.genDataKeys id secret pub)
  | "save-data-keys" => some (.saveDataKeys id secret pub)
  | "gen-sym-key" => some (.genSymKey id secret)
  | "gen-hmac-key" => some (.genHmacKey id secret)
  | "gen-log-key" => some (.genLogKey secret)
  | "gen-poison-pair" => some (.genPoisonPair secret pub)
  | "gen-poison-sym" => some (.genPoisonSym secret)
  | _ => none

def parseWrite (s : String) : Option V1WriteLog.Write :=
  match s.splitOn ":" with
  | [p, d, m] => do let p ← ofHex p; let d ← ofHex d; pure ⟨p, d, m = "1"⟩
  | _ => none

def showWrite (w : V1WriteLog.Write) : String := s!"{hexOf w.path}:{hexOf w.data}:{b01 w.priv}"

def parseCtx (s : String) : Option KeyContext :=
  match s.splitOn ":" with
  | ["c", x] => do let x ← ofHex x; pure ⟨some x, none, ""⟩
  | ["x", x] => do let x ← ofHex x; pure ⟨none, some x, ""⟩
  | ["n", _] => pure ⟨none, none, ""⟩
  | _ => none

def handleC07 (op : String) (args : List String) : Option String :=
  match op, args with
  | "v1.write", master :: name :: id :: secret :: pub :: rest => do
      let master ← ofHex master; let id ← ofHex id; let secret ← ofHex secret; let pub ← ofHex pub
      let o ← parseOp name id secret pub
      let (obs, rest) ← takeList rest
      if rest ≠ [] then none
      let obs ← obs.mapM parseWrite
      let nonce := match obs.find? (·.priv) with
        | some w => nonceOf w.data
        | none => []
      pure (match V1WriteLog.writes shimOps master nonce o with
        | none => "err"
        | some ws => "ok " ++ showList (ws.map showWrite))
  | "v1.load", [master, kc, data] => do
      let master ← ofHex master; let kc ← parseCtx kc; let data ← ofHex data
      pure (match V1WriteLog.load shimOps master kc data with
        | some k => "ok " ++ hexOf k
        | none => "err")
  | _, _ => none

end Driver.V1Keys
