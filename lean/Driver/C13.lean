import AcraModel.Sql.Literal
import AcraModel.Sql.Ident
import Driver.C13Expr
/-! Driver ops for C13 (re-serialisation): literal codec. -/
namespace Driver.C13
open AcraModel AcraModel.Sql

def handle (op : String) (args : List String) : Option String :=
  match op, args with
  | "lit.enc", [h] => do
      let b ← ofHex h
      pure (hexOf (Literal.encodeBytesSQL b))
  | "lit.esc", [h] => do
      let b ← ofHex h
      pure (hexOf (Literal.encodeEscapeString b))
  | "lit.scan", [d, h] => do
      let b ← ofHex h
      let delim := if d == "dq" then Literal.dquote else Literal.quote
      match Literal.scanString delim true b with
      | some (v, rest) => pure s!"ok {hexOf v} {hexOf rest}"
      | none => pure "err"
  | "ident.quote", [d, h] => do
      let b ← ofHex h
      let q : UInt8 := if d == "pg" then 34 else 96
      pure (hexOf (Ident.quoteIdent q b))
  | "ident.scan", [d, h] => do
      let b ← ofHex h
      let q : UInt8 := if d == "pg" then 34 else 96
      match Ident.scanQuotedIdent q b with
      | some (v, rest) => pure s!"ok {hexOf v} {hexOf rest}"
      | none => pure "err"
  | _, _ => Driver.C13Expr.handle op args

end Driver.C13
