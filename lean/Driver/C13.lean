import AcraModel.Sql.Literal
import AcraModel.Sql.Ident
import Driver.C13Expr
import Driver.C13Sel
import AcraModel.Sql.Forms
import AcraModel.Sql.Grammar
/-! Driver ops for C13 (re-serialisation): literal codec. -/
namespace Driver.C13
open AcraModel AcraModel.Sql

/-- hex of a string's UTF-8 bytes (symbols like `','` contain the separators of the table format) -/
def hexS (s : String) : String := hexOf s.toUTF8.toList

/-- `forms.prods`: the regenerated grammar productions, one token per production:
`kind;rule;alt;top;sym:field:nullable,…;field:zeroness,…` (symbols in hex; `-` for an empty list) -/
def formsProds : String :=
  let row (r : String × String × Nat × Bool × List (String × String × Bool) × List (String × String × String)) : String :=
    let syms := r.2.2.2.2.1.map fun s => s!"{hexS s.1}:{s.2.1}:{if s.2.2 then "1" else "0"}"
    let fields := r.2.2.2.2.2.map fun f => s!"{f.1}:{f.2.1}"
    let j (l : List String) := if l.isEmpty then "-" else ",".intercalate l
    s!"{r.1};{r.2.1};{r.2.2.1};{if r.2.2.2.1 then "1" else "0"};{j syms};{j fields}"
  " ".intercalate (AcraModel.Generated.SqlForms.productions.map row)

/-- `forms.paths`: the regenerated print paths: `kind;idx;field:rel:values,…;printed,…` (condition fields in hex; values: the string values of the constants of an `eq`/`notin` condition, hex joined by `+`, or the dialect type) -/
def formsPaths : String :=
  let row (π : AcraModel.Sql.Forms.Path) : String :=
    let j (l : List String) := if l.isEmpty then "-" else ",".intercalate l
    let vals (c : AcraModel.Sql.Forms.Cond) : String :=
      if c.rel == "eq" || c.rel == "notin" then
        "+".intercalate ((c.arg.splitOn ",").filterMap fun n =>
          (AcraModel.Generated.SqlForms.condConsts.find? (·.1 == n)).map (hexS ·.2))
      else if c.rel == "dialect" then hexS c.arg else "-"
    s!"{π.kind};{π.idx};{j (π.conds.map fun c => s!"{hexS c.field}:{c.rel}:{vals c}")};{j π.printed}"
  " ".intercalate (AcraModel.Sql.Forms.paths.map row)

/-- `forms.omissions`: (kind, path, field) a compatible production may fill and the path does not represent -/
def formsOmissions : String :=
  let l := AcraModel.Sql.Forms.omissions AcraModel.Sql.Forms.prods AcraModel.Sql.Forms.paths
  if l.isEmpty then "-" else " ".intercalate (l.map fun o => s!"{o.1};{o.2.1};{o.2.2}")

/-- `grammar.alts`: the regenerated table of the alternatives reachable from the DML statements, one token per
alternative: `rule;alt;sym:cls,…;flow positions` (names in hex; `-` for an empty list) -/
def grammarAlts : String :=
  let cls : AcraModel.Sql.Grammar.Cls → String
    | .lex => "lex" | .kw => "kw" | .sem => "sem" | .void => "void"
  let j (l : List String) := if l.isEmpty then "-" else ",".intercalate l
  let row (A : AcraModel.Sql.Grammar.GAlt) : String :=
    s!"{hexS A.rule};{A.idx};{j (A.rhs.map fun x => s!"{hexS x.name}:{cls x.cls}")};{j (A.flow.map toString)}"
  " ".intercalate (AcraModel.Sql.Grammar.alts.map row)

def handle (op : String) (args : List String) : Option String :=
  match op, args with
  | "grammar.alts", [] => some grammarAlts
  | "grammar.roots", [] => some (" ".intercalate AcraModel.Generated.SqlGrammar.dmlRoots)
  | "grammar.tableok", [] => some (if AcraModel.Sql.Grammar.tableOK && AcraModel.Sql.Grammar.lexFreeClosed then "true" else "false")
  | "forms.prods", [] => some formsProds
  | "forms.paths", [] => some formsPaths
  | "forms.omissions", [] => some formsOmissions
  | "forms.unreachable", [] => some (
      let l := AcraModel.Sql.Forms.paths.filter fun π => !(AcraModel.Sql.Forms.prods.any fun p => AcraModel.Sql.Forms.compatible p π)
      if l.isEmpty then "-" else " ".intercalate (l.map fun π => s!"{π.kind}/{π.idx}"))
  | "forms.strictkinds", [] => some (" ".intercalate AcraModel.Sql.Forms.strictKinds)
  | "forms.tableok", [] => some (if AcraModel.Sql.Forms.tableOK then "true" else "false")
  | "forms.path", kind :: present => some (match AcraModel.Sql.Forms.formatPath ⟨kind, present, []⟩ with
      | some π => toString π.idx
      | none => "none")
  | "lit.enc", [h] => do
      let b ← ofHex h
      pure (hexOf (Literal.encodeBytesSQL b))
  | "lit.esc", [h] => do
      let b ← ofHex h
      pure (hexOf (Literal.encodeEscapeString b))
  | "lit.scan", [d, h] => do
      let b ← ofHex h
      let delim := if d == "dq" then Literal.dquote else Literal.quote
      match Literal.scanString delim true b with
      | some (v, rest) => pure s!"ok {hexOf v} {hexOf rest}"
      | none => pure "err"
  | "ident.quote", [d, h] => do
      let b ← ofHex h
      let q : UInt8 := if d == "pg" then 34 else 96
      pure (hexOf (Ident.quoteIdent q b))
  | "ident.scan", [d, h] => do
      let b ← ofHex h
      let q : UInt8 := if d == "pg" then 34 else 96
      match Ident.scanQuotedIdent q b with
      | some (v, rest) => pure s!"ok {hexOf v} {hexOf rest}"
      | none => pure "err"
  | _, _ =>
      match Driver.C13Sel.handle op args with
      | some r => some r
      | none => Driver.C13Expr.handle op args

end Driver.C13
