import AcraModel.Basic.Bytes
/-! Driver ops for C13. -/
namespace Driver.C13
open AcraModel

def handle (op : String) (args : List String) : Option String :=
  match op, args with
  | _, _ => none

end Driver.C13
