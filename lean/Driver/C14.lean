import AcraModel.Basic.Bytes
import AcraModel.Sql.MysqlComment
/-! Driver ops for C14. -/
namespace Driver.C14
open AcraModel

def handle (op : String) (args : List String) : Option String :=
  match op, args with
  -- extractcomment <complete comment, ASCII> → ok <version> <inner SQL> | panic
  | "extractcomment", [c] => do
      let c ← ofHex c
      pure ((Sql.MysqlComment.extract c).render fun (v, s) => s!"{hexOf v} {hexOf s}")
  | _, _ => none

end Driver.C14
