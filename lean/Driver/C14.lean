import AcraModel.Basic.Bytes
/-! Driver ops for C14. -/
namespace Driver.C14
open AcraModel

def handle (op : String) (args : List String) : Option String :=
  match op, args with
  | _, _ => none

end Driver.C14
