import AcraModel.Basic.Bytes
import AcraModel.Sql.MysqlComment
import AcraModel.Sql.TokenizerLoop
import AcraModel.Censor.NilGuard
/-! Driver ops for C14: ExtractMysqlComment, the SQL tokenizer, nil operands of the censor's pointer comparators. -/
namespace Driver.C14
open AcraModel AcraModel.Sql.Tokenizer

def dialectOf : String → Option Dialect
  | "mysql" => some .mysql
  | "ansi" => some .ansi
  | "postgresql" => some .postgresql
  | _ => none

/-- `outer[/inner][,multi]` -/
def parseSpec (s : String) : Option (Dialect × Dialect × Bool) := do
  let parts := s.splitOn ","
  let multi := parts.contains "multi"
  let ds := (parts.headD "").splitOn "/"
  let o ← dialectOf (ds.headD "")
  let i ← match ds with
    | [_] => some o
    | [_, x] => dialectOf x
    | _ => none
  pure (o, i, multi)

def renderTok (t : Token) (pos : Nat) : String :=
  match t.typ.id with
  | some n => s!"{n}:{hexOf t.val}:{pos}"
  | none => s!"?:{hexOf t.val}:{pos}"

def handle (op : String) (args : List String) : Option String :=
  match op, args with
  -- extractcomment <complete comment, ASCII> → ok <version> <inner SQL> | panic
  | "extractcomment", [c] => do
      let c ← ofHex c
      pure ((Sql.MysqlComment.extract c).render fun (v, s) => s!"{hexOf v} {hexOf s}")
  | "tokens", [spec, h] => do
      let (o, i, multi) ← parseSpec spec
      let b ← ofHex h
      match tokenizeFrom i (initial o b multi) with
      | .ok ts => pure (" ".intercalate (ts.map fun p => renderTok p.1 p.2))
      | .err => pure "err"
      | .panic => pure "panic"
  | "lex", [spec, ac, force, h] => do
      let (o, i, multi) ← parseSpec spec
      let b ← ofHex h
      let f : Option Nat := if force == "-" then none else force.toNat?
      match lexFrom i (ac == "1") f (initial o b multi) with
      | .ok ts => pure (" ".intercalate (ts.map fun p => renderTok p.1 p.2))
      | .err => pure "err"
      | .panic => pure "panic"
  -- censor.nilsites → the call sites of the matcher that can see a nil pointer field: callee:kind:field …
  | "censor.nilsites", [] =>
      pure (" ".intercalate (Censor.NilGuard.optionalCalls.map fun c => s!"{c.2.1}:{c.2.2.1}:{c.2.2.2}"))
  -- censor.nilcmp <callee> <kind> <field> <query operand nil 0|1> <pattern operand nil 0|1> → true | false | panic | other
  -- (everything else of the two statements is equal, so the body of the comparator says "equal")
  | "censor.nilcmp", [callee, _, _, qn, pn] =>
      let opnd (s : String) : Option Unit := if s == "1" then none else some ()
      match Censor.NilGuard.ptrCompare (Censor.NilGuard.guardsOf callee) (fun _ _ => true) (opnd qn) (opnd pn) with
      | .ok b => pure (if b then "true" else "false")
      | .err => pure "other"
      | .panic => pure "panic"
  | _, _ => none

end Driver.C14
