import AcraModel.Basic.Bytes
import AcraModel.Sql.Tokenizer
/-! Driver ops for C14: the SQL tokenizer. -/
namespace Driver.C14
open AcraModel AcraModel.Sql.Tokenizer

def dialectOf : String → Option Dialect
  | "mysql" => some .mysql
  | "ansi" => some .ansi
  | "postgresql" => some .postgresql
  | _ => none

/-- `outer[/inner][,multi]` -/
def parseSpec (s : String) : Option (Dialect × Dialect × Bool) := do
  let parts := s.splitOn ","
  let multi := parts.contains "multi"
  let ds := (parts.headD "").splitOn "/"
  let o ← dialectOf (ds.headD "")
  let i ← match ds with
    | [_] => some o
    | [_, x] => dialectOf x
    | _ => none
  pure (o, i, multi)

def renderTok (t : Token) (pos : Nat) : String :=
  match t.typ.id with
  | some n => s!"{n}:{hexOf t.val}:{pos}"
  | none => s!"?:{hexOf t.val}:{pos}"

partial def loopTmp (dd : Dialect) (l : List Frame) (acc : Array String) : String :=
  match l with
  | [] => "bad"
  | f :: sp =>
    -- nested first
    let inner : Option (Option (Token × List Frame)) :=
      match sp with
      | [] => some none
      | g :: _ =>
        match scanCore g with
        | .ok (.tok t g') => if t.typ = .eof then some none else some (some (t, [f, g']))
        | _ => none
    match inner with
    | none => "panic"
    | some (some (t, l')) => loopTmp dd l' (acc.push (renderTok t f.pos))
    | some none =>
      match scanCore f with
      | .ok (.tok t f') =>
        let acc := acc.push (renderTok t f'.pos)
        if t.typ = .eof then " ".intercalate acc.toList else loopTmp dd [f'] acc
      | .ok (.special sql f') => loopTmp dd [f', newFrame dd sql] acc
      | _ => "panic"

def handle (op : String) (args : List String) : Option String :=
  match op, args with
  | "tokens", [spec, h] => do
      let (o, i, multi) ← parseSpec spec
      let b ← ofHex h
      pure (loopTmp i [{ dialect := o, buf := b, multi := multi }] #[])
  | _, _ => none

end Driver.C14
