import AcraModel.Basic.Bytes
import AcraModel.Crypto.Shim
import AcraModel.AuditLog.Parse
import AcraModel.AuditLog.Json
/-! Driver ops for C20 (audit-log integrity chain). Crypto instance: `shimOps` (real SHA-256 / HMAC-SHA256),
so every tag is recomputed exactly. -/
namespace Driver.C20
open AcraModel AcraModel.AuditLog Generated.AuditLog

def C := shimOps

def modeOf : String → Option (SplitMode × Bool × Nat)
  | "plaintext" => some (SplitMode.ofString plaintextSplitMode, plaintextTrimsTag, plaintextHookCut)
  | "cef" => some (SplitMode.ofString cefSplitMode, cefTrimsTag, cefHookCut)
  | _ => none

def b01 : Bool → String | true => "1" | false => "0"

def lineStr : Line → String
  | .skip => "skip"
  | .bad => "bad"
  | .entry e => s!"entry {hexOf e.data} {hexOf e.tag} {b01 e.isNew} {b01 e.isEnd}"

def kindStr : FailKind → String
  | .parse => "parse" | .missingEnd => "missing-end" | .mismatch => "mismatch"

def verdictStr : Verdict → String
  | .ok => "ok"
  | .fail i k => s!"fail {i} {kindStr k}"

def parseSpec (s : String) : Option Line :=
  match s.splitOn ":" with
  | ["s"] => some .skip
  | ["b"] => some .bad
  | ["e", d, t, n, e] => do
    let d ← ofHex d; let t ← ofHex t
    pure (.entry ⟨d, t, n == "1", e == "1"⟩)
  | _ => none

def handle (op : String) (args : List String) : Option String :=
  match op, args with
  | "calc", key :: items => do
    -- items: <datahex>:<reset01>  →  <taghex>:<new01> …
    let key ← ofHex key
    let its ← items.mapM fun it => match it.splitOn ":" with
      | [d, r] => do let d ← ofHex d; pure (⟨d, false, r == "1"⟩ : PItem)
      | _ => none
    let es := produce C key (Calc.new C key) its
    pure (" ".intercalate (es.map fun e => s!"{hexOf e.tag}:{b01 e.isNew}"))
  | "produce", "json" :: key :: items => do
    -- JSON: items are the formatter outputs as the hook receives them (nothing is cut)
    let key ← ofHex key
    let its ← items.mapM fun it => match it.splitOn ":" with
      | [d, r] => do let d ← ofHex d; pure (⟨d, r == "1"⟩ : LItem)
      | _ => none
    match produceJsonBytes C key (Calc.new C key) its with
    | some ls => pure (hexOf (ls.flatMap fun l => l ++ [10]))
    | none => pure "err"
  | "parse", ["json", line] => do
    let line ← ofHex line
    pure (lineStr (jsonParse line))
  | "lines", [file] => do
    -- the lines `processLogFile` delivers (comma-joined hex; `-` = empty line; `none` = no line at all)
    let file ← ofHex file
    let ls := scanLines file
    pure (if ls.isEmpty then "none" else ",".intercalate (ls.map hexOf))
  | "verify", ["json", key, file] => do
    let key ← ofHex key; let file ← ofHex file
    pure (verdictStr (verifyFile C key jsonParse file))
  | "verifyfiles", "json" :: key :: files => do
    let key ← ofHex key; let files ← files.mapM ofHex
    pure (verdictStr (verifyFiles C key jsonParse files))
  | "verifyfiles", fmt :: key :: files => do
    let (mode, trim, _) ← modeOf fmt
    let key ← ofHex key; let files ← files.mapM ofHex
    pure (verdictStr (verifyFiles C key (parseLine mode trim) files))
  | "jenc", [s] => do
    let s ← ofHex s
    pure (hexOf (encStr s))
  | "produce", fmt :: key :: items => do
    -- items: <formatter output hex incl. trailing bytes>:<reset01>  →  hex of the log file
    let (_, _, cutN) ← modeOf fmt
    let key ← ofHex key
    let its ← items.mapM fun it => match it.splitOn ":" with
      | [d, r] => do
        let d ← ofHex d
        if d.length < cutN then none else pure (⟨d.take (d.length - cutN), r == "1"⟩ : LItem)
      | _ => none
    let ls := produceLines C key (Calc.new C key) its
    pure (hexOf (ls.flatMap fun l => l ++ [10]))
  | "parse", [fmt, line] => do
    let (mode, trim, _) ← modeOf fmt
    let line ← ofHex line
    pure (lineStr (parseLine mode trim line))
  | "verify", [fmt, key, file] => do
    let (mode, trim, _) ← modeOf fmt
    let key ← ofHex key; let file ← ofHex file
    pure (verdictStr (verifyFile C key (parseLine mode trim) file))
  | "verifyp", key :: _file :: specs => do
    let key ← ofHex key
    let ls ← specs.mapM parseSpec
    pure (verdictStr (verify C key ls))
  | _, _ => none

end Driver.C20
