import AcraModel.Basic.Bytes
/-! Driver ops for C20. -/
namespace Driver.C20
open AcraModel

def handle (op : String) (args : List String) : Option String :=
  match op, args with
  | _, _ => none

end Driver.C20
