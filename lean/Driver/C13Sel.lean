import AcraModel.Sql.SelectRoundTrip
import Driver.C13Expr
/-! Driver ops for the SELECT core of C13: `sel.parse`, `sel.tokens`, `sel.roundtrip`, `sel.ok`.

Trees travel in prefix form:
`sel <0|1 distinct> <n> item… <n> tref… <w0 | w1 EXPR> <n> EXPR… <h0 | h1 EXPR> <n> ord… <l0 | l1 E | l2 E E | l3 E E>`
item `star` | `it0 EXPR` | `it1 <alias-hex> EXPR`; tref `tr TBL <n> join…`; TBL `tb0 <hex>` | `tb1 <hex> <alias-hex>`;
join `j <inner|straight|left|right|natural> TBL <n0 | n1 EXPR>`; ord `o <0 asc|1 desc> EXPR`; EXPR as in `Driver/C13Expr`.
`l1` = `limit n`, `l2 n off` = `limit n offset off`, `l3 off n` = `limit off, n`.
Tokens: `k:<keyword>` for a clause keyword, otherwise the token forms of `Driver/C13Expr`. -/
namespace Driver.C13Sel
open AcraModel AcraModel.Sql.Expr AcraModel.Sql.Select Driver.C13Expr

def kindText : JoinKind → String
  | .inner => "inner" | .straight => "straight" | .left => "left" | .right => "right" | .natural => "natural"

def readKind : String → Option JoinKind
  | "inner" => some .inner | "straight" => some .straight | "left" => some .left | "right" => some .right
  | "natural" => some .natural | _ => none

def showTbl (t : Tbl) : String :=
  match t.as_ with
  | none => s!"tb0 {hexOf t.name}"
  | some a => s!"tb1 {hexOf t.name} {hexOf a}"

def showOpt (tag : String) : Option Expr → String
  | none => tag ++ "0"
  | some e => tag ++ "1 " ++ showTree e

def showJoin (j : Join) : String := s!"j {kindText j.k} {showTbl j.r} {showOpt "n" j.on}"

def showItem : Item → String
  | .star => "star"
  | .expr e none => "it0 " ++ showTree e
  | .expr e (some a) => s!"it1 {hexOf a} " ++ showTree e

def showList {α : Type} (f : α → String) (xs : List α) : String :=
  toString xs.length ++ String.join (xs.map fun x => " " ++ f x)

def showLim : Lim → String
  | .none => "l0"
  | .count n => "l1 " ++ showTree n
  | .countOffset n off => "l2 " ++ showTree n ++ " " ++ showTree off
  | .comma off n => "l3 " ++ showTree off ++ " " ++ showTree n

def showSel (s : Sel) : String :=
  s!"sel {if s.distinct then "1" else "0"} {showList showItem s.items} " ++
    showList (fun t => s!"tr {showTbl t.base} {showList showJoin t.joins}") s.from_ ++ " " ++ showOpt "w" s.where_ ++ " " ++
    showList showTree s.groupBy ++ " " ++ showOpt "h" s.having ++ " " ++
    showList (fun o => s!"o {if o.desc then "1" else "0"} {showTree o.e}") s.orderBy ++ " " ++ showLim s.limit

abbrev P (α : Type) := List String → Option (α × List String)

def readE : P Expr := fun ts => readTree (ts.length + 1) ts

def readN {α : Type} (p : P α) : Nat → List String → Option (List α × List String)
  | 0, ts => some ([], ts)
  | n + 1, ts => do
      let (x, r) ← p ts
      let (xs, r') ← readN p n r
      pure (x :: xs, r')

def readList {α : Type} (p : P α) : P (List α) := fun ts =>
  match ts with
  | n :: r => do let k ← n.toNat?; readN p k r
  | [] => none

def readTbl : P Tbl := fun ts =>
  match ts with
  | "tb0" :: h :: r => do let n ← ofHex h; pure (⟨n, none⟩, r)
  | "tb1" :: h :: a :: r => do let n ← ofHex h; let al ← ofHex a; pure (⟨n, some al⟩, r)
  | _ => none

def readOpt (tag : String) : P (Option Expr) := fun ts =>
  match ts with
  | t :: r =>
    if t == tag ++ "0" then some (none, r)
    else if t == tag ++ "1" then do let (e, r') ← readE r; pure (some e, r')
    else none
  | [] => none

def readJoin : P Join := fun ts =>
  match ts with
  | "j" :: k :: r => do
      let kind ← readKind k
      let (t, r1) ← readTbl r
      let (on, r2) ← readOpt "n" r1
      pure (⟨kind, t, on⟩, r2)
  | _ => none

def readItem : P Item := fun ts =>
  match ts with
  | "star" :: r => some (.star, r)
  | "it0" :: r => do let (e, r') ← readE r; pure (.expr e none, r')
  | "it1" :: a :: r => do let al ← ofHex a; let (e, r') ← readE r; pure (.expr e (some al), r')
  | _ => none

def readTRef : P TRef := fun ts =>
  match ts with
  | "tr" :: r => do
      let (b, r1) ← readTbl r
      let (js, r2) ← readList readJoin r1
      pure (⟨b, js⟩, r2)
  | _ => none

def readOrd : P Ord := fun ts =>
  match ts with
  | "o" :: d :: r => do let (e, r') ← readE r; pure (⟨e, d == "1"⟩, r')
  | _ => none

def readLim : P Lim := fun ts =>
  match ts with
  | "l0" :: r => some (.none, r)
  | "l1" :: r => do let (n, r') ← readE r; pure (.count n, r')
  | "l2" :: r => do let (n, r1) ← readE r; let (o, r2) ← readE r1; pure (.countOffset n o, r2)
  | "l3" :: r => do let (o, r1) ← readE r; let (n, r2) ← readE r1; pure (.comma o n, r2)
  | _ => none

def readSel (ts : List String) : Option Sel :=
  match ts with
  | "sel" :: d :: r => do
      let (items, r1) ← readList readItem r
      let (from_, r2) ← readList readTRef r1
      let (w, r3) ← readOpt "w" r2
      let (g, r4) ← readList readE r3
      let (h, r5) ← readOpt "h" r4
      let (o, r6) ← readList readOrd r5
      let (l, r7) ← readLim r6
      if r7.isEmpty then pure ⟨d == "1", items, from_, w, g, h, o, l⟩ else none
  | _ => none

def showSTok : STok → String
  | .kw k => "k:" ++ k.text
  | .t x => showTok x

def readSTok (s : String) : Option STok :=
  if s.startsWith "k:" then (Kw.all.find? fun k => "k:" ++ k.text == s).map .kw
  else (readTok s).map .t

def handle (op : String) (args : List String) : Option String :=
  match op, args with
  -- sel.parse <dialect> <text-hex> <n> tok… → ok <tree> | err
  | "sel.parse", _ :: _ :: _ :: toks =>
      match toks.mapM readSTok with
      | none => some "err"
      | some ts =>
          match parseSel ts with
          | some s => some ("ok " ++ showSel s)
          | none => some "err"
  | "sel.tokens", _ :: tree => do
      let s ← readSel tree
      pure ("ok " ++ " ".intercalate ((stoks s).map showSTok))
  | "sel.ok", tree => do
      let s ← readSel tree
      pure (if s.okB then "yes" else "no")
  | "sel.roundtrip", _ :: tree => do
      let s ← readSel tree
      match parseSel (stoks s) with
      | some s' => pure (if showSel s' == showSel s then "same" else "diff " ++ showSel s')
      | none => pure "err"
  | _, _ => none

end Driver.C13Sel
