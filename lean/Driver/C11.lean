import AcraModel.Envelope.Masking
import Driver.C01
/-! Driver ops for C11 (masking). -/
namespace Driver.C11
open AcraModel AcraModel.Envelope Driver.C01

/-- the configuration loader accepts exactly `left` and `right` (`ValidateMaskingParams`) -/
def validSide (side : String) : Bool := side == "left" || side == "right"

def parseCfg (k pattern len side : String) : Option MaskCfg := do
  pure { pattern := ← ofHex pattern, k := ← len.toNat?, left := side == "left", kind := ← parseKind k }

def handle (op : String) (args : List String) : Option String :=
  match op, args with
  | "write", [k, pattern, len, side, pub, privs, sym, syms, d, rnd] => do
      if !validSide side then pure "badcfg" else
      pure (outHex (maskWrite C (← parseKV pub privs sym syms) (← parseCfg k pattern len side) (← ofHex d) (← ofHex rnd)))
  | "read", [k, pattern, len, side, pub, privs, sym, syms, d] => do
      if !validSide side then pure "badcfg" else
      pure (scanStr (maskRead C (← parseKV pub privs sym syms) (← parseCfg k pattern len side) (← ofHex d)))
  | _, _ => none

end Driver.C11
