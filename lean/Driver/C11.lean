import AcraModel.Envelope.Masking
import AcraModel.Envelope.MaskSession
import AcraModel.Envelope.MaskWindowLemmas
import Driver.C01
/-! Driver ops for C11 (masking). -/
namespace Driver.C11
open AcraModel AcraModel.Envelope Driver.C01

/-- the configuration loader accepts exactly `left` and `right` (`ValidateMaskingParams`) -/
def validSide (side : String) : Bool := side == "left" || side == "right"

def parseCfg (k pattern len side : String) : Option MaskCfg := do
  pure { pattern := ← ofHex pattern, k := ← len.toNat?, left := side == "left", kind := ← parseKind k }

/-- one column of a session: `kind:pattern:k:side:stored` -/
def parseSessionCol (s : String) : Option (MaskCfg × Bytes) :=
  match s.splitOn ":" with
  | [k, pattern, len, side, stored] => do
      if !validSide side then none else
      pure (← parseCfg k pattern len side, ← ofHex stored)
  | _ => none

def scanTok : ScanOut → String
  | .ok b _ => hexOf b
  | .fatal => "fatal"
  | .panic => "panic"

def handle (op : String) (args : List String) : Option String :=
  match op, args with
  -- session [kv ×4] cols: ONE masking.Processor / DecryptHandler / detector / wrapper over several columns
  | "session", [pub, privs, sym, syms, cols] => do
      let kv ← parseKV pub privs sym syms
      let cs ← (cols.splitOn ",").mapM parseSessionCol
      pure ("ok " ++ ",".intercalate ((maskSessionColumns C kv MaskSession.init cs).2.map scanTok))
  | "write", [k, pattern, len, side, pub, privs, sym, syms, d, rnd] => do
      if !validSide side then pure "badcfg" else
      pure (outHex (maskWrite C (← parseKV pub privs sym syms) (← parseCfg k pattern len side) (← ofHex d) (← ofHex rnd)))
  | "read", [k, pattern, len, side, pub, privs, sym, syms, d] => do
      if !validSide side then pure "badcfg" else
      pure (scanStr (maskRead C (← parseKV pub privs sym syms) (← parseCfg k pattern len side) (← ofHex d)))
  -- windowok side window protectedPart (model only): the hypothesis `maskWindowOk` of the read theorems
  | "windowok", [side, w, p] => do
      if !validSide side then none else
      let cfg : MaskCfg := { pattern := [1], k := 0, left := side == "left", kind := .block }
      pure (toString (maskWindowOk cfg (← ofHex w) (← ofHex p)))
  | _, _ => none

end Driver.C11
