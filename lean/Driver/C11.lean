import AcraModel.Basic.Bytes
/-! Driver ops for C11. -/
namespace Driver.C11
open AcraModel

def handle (op : String) (args : List String) : Option String :=
  match op, args with
  | _, _ => none

end Driver.C11
