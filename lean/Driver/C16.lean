import AcraModel.Basic.Bytes
/-! Driver ops for C16. -/
namespace Driver.C16
open AcraModel

def handle (op : String) (args : List String) : Option String :=
  match op, args with
  | _, _ => none

end Driver.C16
