import AcraModel.Sql.Shape
import AcraModel.Sql.GoNum
/-! Driver ops for C16 (redaction). Trees travel as token lists (`Sql.render` / `Sql.parseTreeAll`). -/
namespace Driver.C16
open AcraModel AcraModel.Sql

def handle (op : String) (args : List String) : Option String :=
  match op, args with
  | "normalize", _dialect :: pfx :: _stmt :: toks => do
      let pfx ← ofHex pfx
      let t ← parseTreeAll toks
      pure ("ok " ++ renderStr (normalize GoNum.goValid pfx t))
  | "redacttree", _dialect :: _stmt :: toks => do
      let t ← parseTreeAll toks
      pure ("ok " ++ renderStr (redact GoNum.goValid t))
  | "lits", toks => do
      let t ← parseTreeAll toks
      pure ("ok " ++ toString (lits t).length ++ " " ++ ",".intercalate ((lits t).map hexOf))
  | "bindvars", toks => do
      let t ← parseTreeAll toks
      pure ("ok " ++ ",".intercalate ((bindvars t).map hexOf))
  | "shape", toks => do
      let t ← parseTreeAll toks
      pure ("ok " ++ renderStr (shape t))
  | _, _ => none

end Driver.C16
