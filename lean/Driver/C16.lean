import AcraModel.Sql.Shape
import AcraModel.Sql.GoNum
import AcraModel.Sql.LogModel
import AcraModel.Sql.LogSites
import AcraModel.Sql.ErrText
/-! Driver ops for C16 (redaction). Trees travel as token lists (`Sql.render` / `Sql.parseTreeAll`). -/
namespace Driver.C16
open AcraModel AcraModel.Sql

open AcraModel.Sql.LogModel in
def msgName : Msg → String
  | .proxyNewQuery => "proxyNewQuery" | .proxyParsingError => "proxyParsingError" | .failedToParse => "failedToParse"
  | .unparsedDenied => "unparsedDenied" | .allowedShown => "allowedShown" | .allowedHidden => "allowedHidden"
  | .deniedShown => "deniedShown" | .deniedHidden => "deniedHidden" | .deniedBy => "deniedBy"
  | .debugState => "debugState" | .handlerOwn => "handlerOwn" | .censorBlocked => "censorBlocked"

open AcraModel.Sql.LogModel in
def payloadName : Option Txt → String
  | none => "none" | some .raw => "raw" | some .normalized => "normalized" | some .redacted => "redacted"

open AcraModel.Sql.LogModel in
def parseHandler (tok : String) : Option Handler :=
  match tok.splitOn ":" with
  | ["cap"] => some .capture
  | ["ign", "0"] => some (.ignore false)
  | ["ign", "1"] => some (.ignore true)
  | ["sec", d, l] =>
    let logs := l == "true"
    match d with
    | "continue" => some (.security .continue logs)
    | "allow" => some (.security .allow logs)
    | "deny" => some (.security .deny logs)
    | _ => none
  | _ => none

open AcraModel.Sql.LogModel in
def logTrace (debug ign : String) (parse decisions : String) : Option String := do
  let p ← match parse with
    | "ok" => some (Parse.ok false) | "okempty" => some (Parse.ok true) | "fail" => some Parse.fail | _ => none
  let hs ← if decisions == "-" then some [] else (decisions.splitOn ",").mapM parseHandler
  let c : Config := { handlers := hs, ignoreParseError := ign == "1", hasUnparsedWriter := false, debug := debug == "1" }
  let r := proxyQuery c p
  let es := r.1.map fun e => msgName e.msg ++ ":" ++ payloadName e.payload
  pure ((if r.2 then "denied " else "allowed ") ++ (if es.isEmpty then "-" else ",".intercalate es))

def handle (op : String) (args : List String) : Option String :=
  match op, args with
  | "normalize", _dialect :: pfx :: _stmt :: toks => do
      let pfx ← ofHex pfx
      let t ← parseTreeAll toks
      pure ("ok " ++ renderStr (normalize GoNum.goValid pfx t))
  | "redacttree", _dialect :: _stmt :: toks => do
      let t ← parseTreeAll toks
      pure ("ok " ++ renderStr (redact GoNum.goValid t))
  | "logtrace", [_dialect, debug, ign, _handlers, _stmt, parse, decisions] => logTrace debug ign parse decisions
  | "lits", toks => do
      let t ← parseTreeAll toks
      pure ("ok " ++ toString (lits t).length ++ " " ++ ",".intercalate ((lits t).map hexOf))
  | "bindvars", toks => do
      let t ← parseTreeAll toks
      pure ("ok " ++ ",".intercalate ((bindvars t).map hexOf))
  | "numerr", [_fn, _bits, _value, "none"] => pure "noerr"
  | "numerr", [fn, _bits, _value, cause] => do
      let c ← match cause with
        | "syntax" => some ErrText.Cause.syntax | "range" => some ErrText.Cause.range | _ => none
      pure ("ok " ++ hexOf ((ErrText.withoutValue ⟨fn, "", c⟩).toUTF8.toList))
  | "pgerr", [_stmt, raw, pos] =>
      if raw == "-" then pure "parsed" else do
        let m ← ofHex raw
        let chars := m.map fun b => Char.ofNat b.toNat
        let out := ErrText.pgError chars pos.toNat!
        pure ("ok " ++ hexOf (out.map fun c => UInt8.ofNat c.toNat))
  | "pgsan", [raw, pos] => do
      -- the rewriting code of ParseQuery on a given parser message (empty message: `-`)
      let m ← ofHex raw
      let chars := m.map fun b => Char.ofNat b.toNat
      let out := ErrText.pgError chars pos.toNat!
      pure ("ok " ++ hexOf (out.map fun c => UInt8.ofNat c.toNat))
  | "logsite", [level, msg] => do
      let m ← ofHex msg
      let text := String.mk (m.map fun b => Char.ofNat b.toNat)
      match LogSites.sitesOf level text with
      | [] => pure "unknown"
      | ss => pure ("known " ++ toString ss.length ++ " " ++ ",".intercalate (ss.map fun s => s.1 ++ ":" ++ s.2))
  | "shape", toks => do
      let t ← parseTreeAll toks
      pure ("ok " ++ renderStr (shape t))
  | _, _ => none

end Driver.C16
