import AcraModel.KeystoreSec.Path
/-! Driver ops for C07. -/
namespace Driver.C07
open AcraModel AcraModel.KeystoreSec

def outHex : Out Bytes → String
  | .ok b => "ok " ++ hexOf b
  | .err => "err"
  | .panic => "panic"

def handle (op : String) (args : List String) : Option String :=
  match op, args with
  | "clean", [p] => do let p ← ofHex p; pure (hexOf (Path.clean p))
  | "join", [a, b] => do let a ← ofHex a; let b ← ofHex b; pure (hexOf (Path.join2 a b))
  | "rel", [a, b] => do
      let a ← ofHex a; let b ← ofHex b
      pure (match Path.rel a b with | some r => "ok " ++ hexOf r | none => "err")
  | "ospath", [root, p] => do let root ← ofHex root; let p ← ofHex p; pure (outHex (Path.osPath root p))
  | "ospath.pinned", [root, p] => do let root ← ofHex root; let p ← ofHex p; pure (outHex (Path.osPathPinned root p))
  | _, _ => none

end Driver.C07
