import AcraModel.Basic.Bytes
/-! Driver ops for C07. -/
namespace Driver.C07
open AcraModel

def handle (op : String) (args : List String) : Option String :=
  match op, args with
  | _, _ => none

end Driver.C07
