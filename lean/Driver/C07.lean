import AcraModel.KeystoreSec.Path
import AcraModel.KeystoreSec.Der
import Driver.C18
import Driver.C07Access
import Driver.C07RingOpen
import AcraModel.KeystoreSec.WriteLog
import AcraModel.Crypto.Shim
/-! Driver ops for C07. -/
namespace Driver.C07
open AcraModel AcraModel.KeystoreSec

def outHex : Out Bytes → String
  | .ok b => "ok " ++ hexOf b
  | .err => "err"
  | .panic => "panic"

def handle (op : String) (args : List String) : Option String :=
  match op, args with
  | "clean", [p] => do let p ← ofHex p; pure (hexOf (Path.clean p))
  | "join", [a, b] => do let a ← ofHex a; let b ← ofHex b; pure (hexOf (Path.join2 a b))
  | "rel", [a, b] => do
      let a ← ofHex a; let b ← ofHex b
      pure (match Path.rel a b with | some r => "ok " ++ hexOf r | none => "err")
  | "ospath", [root, p] => do let root ← ofHex root; let p ← ofHex p; pure (outHex (Path.osPath root p))
  | "importpath", [root, p] => do let root ← ofHex root; let p ← ofHex p; pure (outHex (Path.importPath root p))
  | "ospath.pinned", [root, p] => do let root ← ofHex root; let p ← ofHex p; pure (outHex (Path.osPathPinned root p))
  | "ringfile", master :: sigKey :: time :: ring :: nonces => do
      -- nonces: `<ctx hex>=<nonce hex>` pairs, one per encrypted field
      let master ← ofHex master; let sigKey ← ofHex sigKey
      let time ← Driver.C18.parseInt time
      let ring ← Driver.C18.parseRing ring
      let tbl ← nonces.mapM fun s => match s.splitOn "=" with
        | [a, b] => do let a ← ofHex a; let b ← ofHex b; pure (a, b)
        | _ => none
      let ν : Export.Nonces := fun x _ => ((tbl.find? (·.1 = x)).map (·.2)).getD []
      pure (match WriteLog.ringFile shimOps ν master sigKey time ring with
        | some b => "ok " ++ hexOf b
        | none => "err")
  | "der.int", [n] => do let n ← Driver.C18.parseInt n; pure (hexOf (Der.derInt n))
  | "der.time", [n] => do let n ← Driver.C18.parseInt n; pure (hexOf (Der.utcTime n))
  | "der.ring", [r] => do let r ← Driver.C18.parseRing r; pure (hexOf (Der.derRing r))
  | "der.keys", n :: rs => do
      let n ← n.toNat?
      if rs.length ≠ n then none
      let rs ← rs.mapM Driver.C18.parseRing
      pure (hexOf (Der.derEncryptedKeys rs))
  | op, args => ((Driver.C07RingOpen.handle op args).orElse fun _ => Driver.C07Access.handle op args).orElse fun _ => Driver.V1Keys.handleC07 op args

end Driver.C07
