import AcraModel.KeystoreSec.Concurrent
import AcraModel.KeystoreSec.FileLock
/-!
Driver ops for C17: replay an observed global order of back-end calls through the model.

`C17.replay <nrings> <ring>… <nthreads> <thread>… <sched>`
* ring   = `<keys>;<current>` with keys = comma-joined `seq.state.data` or `-`; `MISSING` = the ring
  file does not exist (as initial ring; a thread's snapshot of it is the empty ring `-;-1`)
* thread = `<path>|<snapshot ring>|<ops joined by +>` (ops: `A<data>` addKey, `C<seq>` setCurrent,
  `S<seq>.<state>` setState, `D<seq>` destroy, `R` re-read, `I<ring>` import, `O` OpenKeyRingRW;
  `-` = no ops)
* sched  = comma-joined thread ids, one per observed back-end call (`-` = empty)

Result: `T <calls joined by />  final <ring>…  res <per-thread outcomes>`; a scheduled thread that
cannot make a call prints `<tid>BLOCKED` and stops the replay.

`C17.locklife <history> <s>.<dataS> <u>.<dataU>` – the life cycle of the lock file (`KeystoreSec/FileLock.lean`,
run with the regenerated `closeUnlinks`), then the race of two writers decided by it:
* history = comma-joined `o` / `p` (a handle is opened: `CreateDirectoryBackend` / `OpenDirectoryBackend`; handle ids
  count from 0 in the order of opening), `c<k>` (handle k is closed), `r<k>` (handle k runs a read cycle:
  `RLock … RUnlock`), `w<k>.<data>` (handle k opens the ring for writing and adds a key: two `Lock … Unlock` cycles)
* then handles s and u (both open) each hold a fresh snapshot of the ring; s starts `AddKey(dataS)` and is held
  between its `Get` and its `Put`; u starts `AddKey(dataU)`. Data 0 makes the handle a *reader* instead (`OpenKeyRing`:
  `RLock, Get, RUnlock`; s is then held before its `Get`).
Result: `ino <inode class of every handle, in order of first appearance> ring <ring before the race> overlap=<0|1>
res <s's outcomes> <u's outcomes> final <ring>` – overlap=1: u's `flock` does not wait for s's (another inode, or
shared next to shared). `BLOCKED <token>` when a step of the sequential history could not take its lock.
`C17.locklifeP …` is the same op with every handle in its own operating-system process on the implementation side.
-/
namespace Driver.C17
open AcraModel AcraModel.KeystoreSec.Conc

def parseInt (s : String) : Option Int :=
  if s.startsWith "-" then (s.drop 1).toNat?.map fun n => -(n : Int) else s.toNat?.map fun n => (n : Int)

def parseKey (s : String) : Option Key :=
  match s.splitOn "." with
  | [a, b, c] => do
    let a ← parseInt a; let b ← b.toNat?; let c ← c.toNat?
    pure ⟨a, b, c⟩
  | _ => none

def parseRing (s : String) : Option Ring :=
  match s.splitOn ";" with
  | [ks, c] => do
    let c ← parseInt c
    let keys ← if ks = "-" then some [] else (ks.splitOn ",").mapM parseKey
    pure ⟨keys, c⟩
  | _ => none

def parseOp (s : String) : Option Op :=
  if s = "R" then some .refresh
  else if s = "O" then some .open
  else
    let body := (s.drop 1).toString
    match s.take 1 |>.toString with
    | "A" => body.toNat?.map .addKey
    | "C" => (parseInt body).map .setCurrent
    | "S" => match body.splitOn "." with
      | [a, b] => do let a ← parseInt a; let b ← b.toNat?; pure (.setState a b)
      | _ => none
    | "D" => (parseInt body).map .destroy
    | "I" => (parseRing body).map fun r => .importKeys r.keys r.current
    | _ => none

def parseThread (s : String) : Option Handle :=
  match s.splitOn "|" with
  | [p, snap, ops] => do
    let p ← p.toNat?
    let snap ← if snap = "MISSING" then some emptyRing else parseRing snap
    let ops ← if ops = "-" then some [] else (ops.splitOn "+").mapM parseOp
    pure ⟨p, snap, [], ops, [], .idle⟩
  | _ => none

def showKey (k : Key) : String := s!"{k.seq}.{k.state}.{k.data}"
def showRing (r : Ring) : String :=
  (if r.keys.isEmpty then "-" else ",".intercalate (r.keys.map showKey)) ++ ";" ++ toString r.current

def showCall (i : Nat) : Call → String
  | .lock => s!"{i}L"
  | .unlock => s!"{i}U"
  | .rlock => s!"{i}RL"
  | .runlock => s!"{i}RU"
  | .get p v => s!"{i}G{p}={showRing v}"
  | .getMissing p => s!"{i}G{p}=MISSING"
  | .put p v ok => s!"{i}P{p}={showRing v}=" ++ (if ok then "ok" else "fail")
  | .rename p => s!"{i}N{p}"
  | .none => s!"{i}BLOCKED"

/-- advance thread `i` until it makes a back-end call (internal steps: operations rejected before
locking); `none` when it cannot make one (blocked or finished) -/
def stepToCall (fuel : Nat) (s : St) (i : Nat) : St × Call :=
  match fuel with
  | 0 => (s, .none)
  | fuel + 1 =>
    let (s', c) := stepCall s i
    match c with
    | .none =>
      -- an internal step finished an operation (todo got shorter): keep going; otherwise blocked/finished
      if ((s'.h i).todo.length < (s.h i).todo.length) then stepToCall fuel s' i else (s, .none)
    | c => (s', c)

def replayLoop (s : St) : List Nat → List String → St × List String
  | [], acc => (s, acc.reverse)
  | i :: rest, acc =>
    let (s', c) := stepToCall 64 s i
    match c with
    | .none => (s', (showCall i .none :: acc).reverse)
    | c => replayLoop s' rest (showCall i c :: acc)

/-- internal steps only (operations rejected before locking), never a back-end call -/
def internalOnly : Nat → St → Nat → St
  | 0, s, _ => s
  | fuel + 1, s, i =>
    let (s', c) := stepCall s i
    if c == .none ∧ (s'.h i).todo.length < (s.h i).todo.length then internalOnly fuel s' i else s

/-- after the schedule: let every thread finish the operations it can finish without a call -/
def flushInternal (s : St) (n : Nat) : St := (List.range n).foldl (internalOnly 64) s

def showRes (hd : Handle) : String :=
  if hd.done.isEmpty then "-" else String.join (hd.done.map fun (_, r) => if r.isSome then "1" else "0")

def takeN {α} (n : Nat) (xs : List α) : Option (List α × List α) :=
  if xs.length < n then none else some (xs.take n, xs.drop n)


/-! ### lock-file life cycle -/
section locklife
open AcraModel.KeystoreSec.FileLock

/-- `Lock … Unlock` / `RLock … RUnlock` of handle `i` with nobody else running; `none` = it would block -/
def lockCycle (cu : Bool) (ls : LState) (i : Nat) (m : Mode) : Option LState :=
  let a := lstep cu ls (.enter i m)
  let b := lstep cu a (.acquire i)
  if (b.h i).held = some m then some (lstep cu b (.release i)) else none

def parsePair (s : String) : Option (Nat × Nat) :=
  match s.splitOn "." with
  | [a, b] => do let a ← a.toNat?; let b ← b.toNat?; pure (a, b)
  | _ => none

/-- run the sequential history; `Except` carries the token that blocked -/
def lifeHistory (cu : Bool) : List String → LState × Ring → Option (Except String (LState × Ring))
  | [], st => some (.ok st)
  | tok :: rest, (ls, ring) =>
    let body := (tok.drop 1).toString
    match (tok.take 1).toString with
    | "o" | "p" => if body = "" then lifeHistory cu rest (lstep cu ls .openH, ring) else none
    | "c" => do let k ← body.toNat?; lifeHistory cu rest (lstep cu ls (.closeH k), ring)
    | "r" => do
      let k ← body.toNat?
      match lockCycle cu ls k .sh with
      | some ls' => lifeHistory cu rest (ls', ring)
      | none => pure (.error tok)
    | "w" => do
      let (k, d) ← parsePair body
      -- OpenKeyRingRW (creates the ring when missing), then AddKey from the fresh snapshot
      match (lockCycle cu ls k .ex).bind fun l => lockCycle cu l k .ex with
      | some ls' =>
        let ring' := ((Tx.add ⟨ring.nextSeq, stPreActive, d⟩).apply ring).getD ring
        lifeHistory cu rest (ls', ring')
      | none => pure (.error tok)
    | _ => none

def lockLife (hist : String) (sa ua : String) : Option String := do
  let cu := closeUnlinks
  let (s, dS) ← parsePair sa
  let (u, dU) ← parsePair ua
  if s = u then none
  let toks := if hist = "-" then [] else hist.splitOn ","
  match ← lifeHistory cu toks (linit none, emptyRing) with
  | .error tok => pure s!"BLOCKED {tok}"
  | .ok (ls, ring) =>
    let inos := classes ((List.range ls.n).map fun i => (ls.h i).ino)
    let inoS := if inos.isEmpty then "-" else ",".intercalate (inos.map toString)
    -- both writers open the ring (sequentially): two more exclusive cycles
    match (lockCycle cu ls s .ex).bind fun l => lockCycle cu l u .ex with
    | none => pure s!"BLOCKED open"
    | some ls =>
      -- data 0 = a reader (shared lock, `Op.refresh`), otherwise `AddKey` of that key (exclusive lock)
      let mS : Mode := if dS = 0 then .sh else .ex
      let mU : Mode := if dU = 0 then .sh else .ex
      let opOf (d : Nat) : Op := if d = 0 then .refresh else .addKey d
      -- s takes its lock and is held; u asks for its own
      let l1 := lstep cu (lstep cu ls (.enter s mS)) (.acquire s)
      let l2 := lstep cu (lstep cu l1 (.enter u mU)) (.acquire u)
      if (l2.h s).held ≠ some mS then pure s!"BLOCKED race" else
      let overlap := (l2.h u).held = some mU
      -- the two operations themselves: the concurrency model, threads 0 (= s) and 1 (= u)
      let dummy : Handle := ⟨0, emptyRing, [], [], [], .idle⟩
      let c0 : St := { cur := fun _ => ring, new := fun _ => none, writer := none, readers := [],
                       h := fun i => if i = 0 then ⟨0, ring, [], [opOf dS], [], .idle⟩
                                     else if i = 1 then ⟨0, ring, [], [opOf dU], [], .idle⟩ else dummy,
                       commits := [] }
      -- s up to where it is held: a writer `Lock, Get` (before its Put), a reader `RLock` (before its Get)
      let c1 := if dS = 0 then step c0 0 else step (step c0 0) 0
      let c2 :=
        if overlap then
          -- the life-cycle model lets u's flock through (another inode, or shared next to shared): u runs to
          -- its end as if the lock were free, then s's hold is restored
          let c := (List.replicate 5 1).foldl step { c1 with writer := none, readers := [] }
          { c with writer := c1.writer, readers := c1.readers }
        else step c1 1                  -- u waits
      let c3 := (List.replicate 3 0).foldl step c2   -- s: (Put, Rename,) Unlock / Get, RUnlock
      let c4 := (List.replicate 5 1).foldl step c3   -- u: whatever it has left
      pure s!"ino {inoS} ring {showRing ring} overlap={if overlap then 1 else 0} res {showRes (c4.h 0)} {showRes (c4.h 1)} final {showRing (c4.cur 0)}"

end locklife

def handle (op : String) (args : List String) : Option String :=
  match op, args with
  | "locklife", [hist, sa, ua] => lockLife hist sa ua
  | "locklifeP", [hist, sa, ua] => lockLife hist sa ua   -- the same history, one OS process per handle
  | "replay", nr :: rest => do
    let nr ← nr.toNat?
    let (rs, rest) ← takeN nr rest
    let rings ← rs.mapM fun r => if r = "MISSING" then some none else (parseRing r).map some
    match rest with
    | nt :: rest => do
      let nt ← nt.toNat?
      let (ts, rest) ← takeN nt rest
      let threads ← ts.mapM parseThread
      match rest with
      | [sched] => do
        let sched ← if sched = "-" then some [] else (sched.splitOn ",").mapM String.toNat?
        let dummy : Handle := ⟨0, ⟨[], noKey⟩, [], [], [], .idle⟩
        let s0 : St := { cur := fun p => ((rings.getD p none).getD emptyRing), new := fun _ => none, writer := none, readers := [],
                         h := fun i => threads.getD i dummy, commits := [],
                         ex := fun p => (rings.getD p (some emptyRing)).isSome }
        let (s1, calls) := replayLoop s0 sched []
        let s2 := flushInternal s1 nt
        let callsS := if calls.isEmpty then "-" else "/".intercalate calls
        let finals := " ".intercalate ((List.range nr).map fun p => if s2.ex p then showRing (s2.cur p) else "MISSING")
        let res := " ".intercalate ((List.range nt).map fun i => showRes (s2.h i))
        pure s!"T {callsS} final {finals} res {res}"
      | _ => none
    | _ => none
  | _, _ => none

end Driver.C17
