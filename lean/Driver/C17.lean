import AcraModel.Basic.Bytes
/-! Driver ops for C17. -/
namespace Driver.C17
open AcraModel

def handle (op : String) (args : List String) : Option String :=
  match op, args with
  | _, _ => none

end Driver.C17
