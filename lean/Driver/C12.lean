import AcraModel.Wire.LenEnc
/-! Driver ops for C12 (wire formats). -/
namespace Driver.C12
open AcraModel AcraModel.Wire

def optBytes : Option Bytes → String
  | none => "null"
  | some b => hexOf b

def handle (op : String) (args : List String) : Option String :=
  match op, args with
  | "lenenc.int", [d] => do
      let d ← ofHex d
      pure ((LenEnc.lengthEncodedInt d).render fun r => s!"{r.num} {r.isNull} {r.n}")
  | "lenenc.put", [n] => do
      let n ← n.toNat?
      pure (hexOf (LenEnc.putLengthEncodedInt n))
  | "lenenc.str", [d] => do
      let d ← ofHex d
      pure ((LenEnc.lengthEncodedString d).render fun (v, n) => s!"{optBytes v} {n}")
  | "lenenc.skip", [d] => do
      let d ← ofHex d
      pure ((LenEnc.skipLengthEncodedString d).render fun n => s!"{n}")
  | "lenenc.putstr", [v] => do
      if v = "null" then pure (hexOf (LenEnc.putLengthEncodedString none))
      else do let b ← ofHex v; pure (hexOf (LenEnc.putLengthEncodedString (some b)))
  | _, _ => none

end Driver.C12
