import AcraModel.Wire.LenEnc
import AcraModel.Wire.PgRow
import AcraModel.Wire.MysqlRow
import AcraModel.Wire.Bytea
import AcraModel.Wire.PgBind
import AcraModel.Wire.MysqlColDef
import AcraModel.Wire.MysqlExecute
import AcraModel.Wire.PgDescribe
import AcraModel.Typed.Row
/-! Driver ops for C12 (wire formats). -/
namespace Driver.C12
open AcraModel AcraModel.Wire

def optBytes : Option Bytes → String
  | none => "null"
  | some b => hexOf b

/-! ### shared token syntax
* byte strings: hex, `-` = empty
* lists: items joined by `,`; the empty list is `_`
* rows: items are `n` (NULL) or a byte string
* per-column transformation: `k` keep, `e` empty, `p:<hex>` prepend, `a:<hex>` append, `t:<n>` truncate to n bytes,
  `r:<hex>` replace, `x` fail; columns beyond the list are kept -/

def splitList (s : String) : List String := if s = "_" then [] else s.splitOn ","

def parseNats (s : String) : Option (List Nat) := (splitList s).mapM (·.toNat?)

def parseRow (s : String) : Option (List (Option Bytes)) :=
  (splitList s).mapM fun t => if t = "n" then some none else (ofHex t).map some

def showRow (r : List (Option Bytes)) : String :=
  if r.isEmpty then "_" else ",".intercalate (r.map fun | none => "n" | some b => hexOf b)

inductive Tr where
  | keep | empty | fail
  | prepend (b : Bytes) | append (b : Bytes) | trunc (n : Nat) | replace (b : Bytes)

def parseTr (t : String) : Option Tr :=
  match t.splitOn ":" with
  | ["k"] => some .keep
  | ["e"] => some .empty
  | ["x"] => some .fail
  | ["p", h] => (ofHex h).map .prepend
  | ["a", h] => (ofHex h).map .append
  | ["r", h] => (ofHex h).map .replace
  | ["t", n] => n.toNat?.map .trunc
  | _ => none

def parseTrs (s : String) : Option (List Tr) := (splitList s).mapM parseTr

def Tr.apply : Tr → Bytes → Out Bytes
  | .keep, d => .ok d
  | .empty, _ => .ok []
  | .fail, _ => .err
  | .prepend b, d => .ok (b ++ d)
  | .append b, d => .ok (d ++ b)
  | .trunc n, d => .ok (d.take n)
  | .replace b, _ => .ok b

def applyTrs (ts : List Tr) (i : Nat) (d : Bytes) : Out Bytes :=
  match ts[i]? with
  | some t => t.apply d
  | none => .ok d

/-- cheap checksum so that multi-megabyte results need not be printed -/
def ck (b : Bytes) : Nat := b.foldl (fun a x => (a * 31 + x.toNat) % 4294967296) 7

def showBig (b : Bytes) : String := s!"{b.length} {ck b} {hexOf (b.take 16)}"

/-- MySQL: what the harness subscriber returns for column `i`: the transformed value in its wire form
(length-encoded for string-like types, as it is for fixed-width types) -/
def myG (trs : List Tr) (types : List Nat) (i : Nat) (v : Bytes) : Out Bytes := do
  let v' ← applyTrs trs i v
  match types[i]? with
  | some t => pure (My.encodeBinVal t v')
  | none => pure (LenEnc.putLengthEncodedString (some v'))

def showPacket (p : Pg.Packet) (rest : Bytes) : String :=
  s!"{p.typ.toNat} {hexOf p.lenBuf} {hexOf p.body} {rest.length} {hexOf (Pg.marshal p)}"

def pgRead (mode : String) (s : Bytes) : Option (Out (Pg.Packet × Bytes)) :=
  match mode with
  | "general" => some (Pg.readClient true s)
  | "startup" => some (Pg.readClient false s)
  | "db" => some (Pg.readDb s)
  | _ => none


/-! ### column definitions, COM_STMT_EXECUTE, RowDescription (deepening) -/

/-- data_type of a column setting → MySQL type code (`mapEncryptedTypeToField`; the table itself belongs to C19) -/
def myDeclaredType : String → Option Nat
  | "int32" => some 3 | "int64" => some 8 | "str" => some 254 | "bytes" => some 252 | _ => none

/-- data_type of a column setting → PostgreSQL type OID (`mapEncryptedTypeToOID`) -/
def pgDeclaredOid : String → Option Nat
  | "int32" => some 23 | "int64" => some 20 | "str" => some 25 | "bytes" => some 17 | _ => none

def myHeader (n seq : Nat) : Bytes := leBytes 3 n ++ [UInt8.ofNat (seq % 256)]

/-- the harness rewrites the column `c` of table `t` -/
def isTC (f : My.ColDef) : Bool := f.table == some [116] && f.name == some [99]

def isNaNBits (w : Nat) (b : Bytes) : Bool :=
  let v := leVal b
  if w = 4 then (v / 2^23) % 256 = 255 ∧ v % 2^23 ≠ 0
  else (v / 2^52) % 2048 = 2047 ∧ v % 2^52 ≠ 0

/-- executable stand-in for strconv's float formatting/parsing: finite values and infinities come back with the
same bits, every NaN as Go's canonical NaN; the text itself is never shown to the harness -/
def floatStandIn : My.FloatOps where
  fmt := fun w b => if isNaNBits w b then [78, 97, 78] else 70 :: b
  parse := fun w s =>
    match s with
    | [78, 97, 78] => some (if w = 4 then [0, 0, 0xc0, 0x7f] else [1, 0, 0, 0, 0, 0, 0xf8, 0x7f])
    | 70 :: b => if b.length = w then some b else none
    | _ => none

def showOpt (v : Option Bytes) : String := match v with | none => "n" | some b => hexOf b

def parseItems (f : String → Option Nat) (s : String) : Option (Option (List (Option Nat))) :=
  if s = "none" then some none else some (some ((splitList s).map f))

def showFields (fs : List Pg.FieldDesc) : String :=
  if fs.isEmpty then "_" else ";".intercalate (fs.map fun f => s!"{hexOf f.name}:{",".intercalate (f.members.map toString)}")

def handle2 (op : String) (args : List String) : Option String :=
  match op, args with
  | "my.coldef", dt :: seq :: payload :: rest => do
      let seq ← seq.toNat?
      let payload ← ofHex payload
      let maria := rest == ["1"]
      let r : Out Bytes := do
        let f ← My.parseResultField ⟨myHeader payload.length seq, payload⟩ maria
        let f' := if isTC f then My.retype f (myDeclaredType dt) else f
        pure f'.dump
      pure (r.render hexOf)
  | "my.coldef.fields", [maria, payload] => do
      let payload ← ofHex payload
      pure ((My.parseResultField ⟨[0, 0, 0, 0], payload⟩ (maria == "1")).render fun f =>
        s!"{showOpt f.schema} {showOpt f.table} {showOpt f.orgTable} {showOpt f.name} {showOpt f.orgName} {hexOf f.extInfo} {f.charset} {f.columnLength} {f.typ} {f.flag} {f.decimal} {f.defaultLen} {showOpt f.defaultValue}")
  | "my.execute", [n, trs, seq, payload] => do
      let n ← n.toNat?
      let trs ← parseTrs trs
      let seq ← seq.toNat?
      let payload ← ofHex payload
      pure (match My.rewriteExecute floatStandIn (applyTrs trs) ⟨myHeader payload.length seq, payload⟩ n with
        | .ok none => "nil-values"
        | .ok (some p) => "ok " ++ hexOf (My.dump p)
        | .err => "err"
        | .panic => "panic")
  | "my.execute.params", [n, payload] => do
      let n ← n.toNat?
      let payload ← ofHex payload
      pure (match My.getBindParameters floatStandIn payload n with
        | .ok none => "nil-values"
        | .ok (some vs) => "ok " ++ (if vs.isEmpty then "_" else ",".intercalate (vs.map fun v =>
            s!"{v.paramType}:{if v.paramType = 4 ∨ v.paramType = 5 then (if v.data.isSome then "f" else "n") else showOpt v.data}"))
        | .err => "err"
        | .panic => "panic")
  | "pg.rowdesc", [items, s] => do
      let items ← parseItems pgDeclaredOid items
      let s ← ofHex s
      let r : Out Bytes := do
        let (p, _) ← Pg.readDb s
        pure (Pg.marshal (Pg.handleRowDescription p items))
      pure (r.render hexOf)
  | "pg.paramdesc", [items, s] => do
      let items ← parseItems pgDeclaredOid items
      let s ← ofHex s
      let r : Out Bytes := do
        let (p, _) ← Pg.readDb s
        pure (Pg.marshal (Pg.handleParameterDescription p items))
      pure (r.render hexOf)
  | "pg.rowdesc.dec", [b] => do
      let b ← ofHex b
      pure (match Pg.decodeRowDesc b with | some fs => "some " ++ showFields fs | none => "none")
  | "pg.paramdesc.dec", [b] => do
      let b ← ofHex b
      pure (match Pg.decodeParamDesc b with
        | some os => "some " ++ (if os.isEmpty then "_" else ",".intercalate (os.map toString))
        | none => "none")
  | _, _ => none

/-- which parameters carry a type-aware setting: `_` none, `all`, `m<k>` every k-th, or a comma list of indices -/
def parseSel (s : String) : Option (Nat → Bool) :=
  if s = "_" then some fun _ => false
  else if s = "all" then some fun _ => true
  else if s.startsWith "m" then (String.ofList (s.toList.drop 1)).toNat?.map fun k => fun i => k > 0 && i % k == 0
  else ((s.splitOn ",").mapM String.toNat?).map fun (l : List Nat) => fun i => l.contains i

def handle (op : String) (args : List String) : Option String :=
  match handle2 op args with
  | some r => some r
  | none =>
  match op, args with
  | "lenenc.int", [d] => do
      let d ← ofHex d
      pure ((LenEnc.lengthEncodedInt d).render fun r => s!"{r.num} {r.isNull} {r.n}")
  | "lenenc.put", [n] => do
      let n ← n.toNat?
      pure (hexOf (LenEnc.putLengthEncodedInt n))
  | "lenenc.str", [d] => do
      let d ← ofHex d
      pure ((LenEnc.lengthEncodedString d).render fun (v, n) => s!"{optBytes v} {n}")
  | "lenenc.skip", [d] => do
      let d ← ofHex d
      pure ((LenEnc.skipLengthEncodedString d).render fun n => s!"{n}")
  | "lenenc.putstr", [v] => do
      if v = "null" then pure (hexOf (LenEnc.putLengthEncodedString none))
      else do let b ← ofHex v; pure (hexOf (LenEnc.putLengthEncodedString (some b)))
  -- PostgreSQL framing: read one packet from a stream, show its parts and its marshalled form
  | "pg.read", [mode, s] => do
      let s ← ofHex s
      let r ← pgRead mode s
      pure (r.render fun (p, rest) => showPacket p rest)
  -- PostgreSQL DataRow: read a database packet, run the column loop with a transformation, marshal
  | "pg.row", [fmts, trs, s] => do
      let fmts ← parseNats fmts
      let trs ← parseTrs trs
      let s ← ofHex s
      let r : Out Bytes := do
        let (p, _) ← Pg.readDb s
        let p' ← Pg.rewriteRow (applyTrs trs) fmts p
        pure (Pg.marshal p')
      pure (r.render hexOf)
  | "pg.row.enc", [row] => do
      let row ← parseRow row
      pure (hexOf (Pg.encodeRow row))
  | "pg.row.dec", [b] => do
      let b ← ofHex b
      pure (match Pg.decodeRow b with | some r => "some " ++ showRow r | none => "none")
  | "pg.msg.dec", [b] => do
      let b ← ofHex b
      pure (match Pg.decodeMsg b with
        | some (t, body, rest) => s!"some {t.toNat} {hexOf body} {rest.length}"
        | none => "none")
  | "pg.query.replace", [s, q] => do
      let s ← ofHex s
      let q ← ofHex q
      let r : Out Bytes := do
        let (p, _) ← Pg.readClient true s
        pure (Pg.marshal (Pg.replaceSimpleQuery p q))
      pure (r.render hexOf)
  -- MySQL framing
  | "my.read", [s] => do
      let s ← ofHex s
      pure ((My.read s).render fun (p, rest) => s!"{hexOf p.header} {showBig p.data} {rest.length} {showBig (My.dump p)}")
  | "my.setdata", [h, d] => do
      let h ← ofHex h
      let d ← ofHex d
      let p := My.setData ⟨h, []⟩ d
      pure s!"ok {hexOf p.header} {showBig (My.dump p)}"
  | "my.setdata.len", [h, n] => do
      let h ← ofHex h
      let n ← n.toNat?
      pure ("ok " ++ hexOf (My.updatePacketSize h n))
  | "my.replacequery", [h, d, q] => do
      let h ← ofHex h
      let d ← ofHex d
      let q ← ofHex q
      pure ((My.replaceQuery ⟨h, d⟩ q).render fun p => hexOf (My.dump p))
  | "my.payload.enc", [seq, n, seed] => do
      -- specification encoding of a payload given by length and a seed byte (payload[i] = (i*7+seed) % 256)
      let seq ← seq.toNat?
      let n ← n.toNat?
      let seed ← seed.toNat?
      let payload := (List.range n).map fun i => UInt8.ofNat ((i * 7 + seed) % 256)
      pure ("ok " ++ showBig (My.encodePayload seq payload))
  | "my.relaygen", [seq, n, seed] => do
      -- relay of a protocol-encoded payload given by rule: read it, dump it, compare with what was sent
      let seq ← seq.toNat?
      let n ← n.toNat?
      let seed ← seed.toNat?
      let payload := (List.range n).map fun i => UInt8.ofNat ((i * 7 + seed) % 256)
      let sent := My.encodePayload seq payload
      pure ((My.read sent).render fun (p, rest) =>
        s!"{hexOf p.header} {p.data.length} {rest.length} {(My.dump p).length} {My.dump p == sent}")
  | "my.textrow", [n, trs, row] => do
      let n ← n.toNat?
      let trs ← parseTrs trs
      let row ← ofHex row
      pure ((My.textRow (myG trs []) n row).render hexOf)
  | "my.binrow", [types, trs, row] => do
      let types ← parseNats types
      let trs ← parseTrs trs
      let row ← ofHex row
      pure ((My.binRow (myG trs types) types row).render hexOf)
  | "my.textrow.enc", [row] => do
      let row ← parseRow row
      pure (hexOf (My.encodeTextRow row))
  | "my.textrow.dec", [n, b] => do
      let n ← n.toNat?
      let b ← ofHex b
      pure (match My.decodeTextRow n b with | some r => "some " ++ showRow r | none => "none")
  | "my.binrow.enc", [types, row] => do
      let types ← parseNats types
      let row ← parseRow row
      pure (hexOf (My.encodeBinRow types row))
  | "my.binrow.dec", [types, b] => do
      let types ← parseNats types
      let b ← ofHex b
      pure (match My.decodeBinRow types b with | some r => "some " ++ showRow r | none => "none")
  -- rows through the real decoder → encoder subscribers without any column setting
  | "pg.chain", [fmts, s] => do
      let fmts ← parseNats fmts
      let s ← ofHex s
      let r : Out Bytes := do
        let (p, _) ← Pg.readDb s
        let p' ← Pg.rewriteRow (fun _ d => Typed.pgChainNoSetting false d) fmts p
        pure (Pg.marshal p')
      pure (r.render hexOf)
  | "my.chain", [proto, types, row] => do
      let types ← parseNats types
      let row ← ofHex row
      if proto = "text" then
        pure ((My.textRow (fun i v => Typed.myChainNoSetting false (types[i]?.getD 0) v) types.length row).render hexOf)
      else
        pure ((My.binRow (fun i v => Typed.myChainNoSetting true (types[i]?.getD 0) v) types row).render hexOf)
  -- PostgreSQL Parse
  | "pg.parse.fields", [b] => do
      let b ← ofHex b
      pure ((Pg.newParsePacket b).render fun p =>
        s!"{hexOf p.name} {hexOf p.query} {hexOf p.paramsNum} {if p.params.isEmpty then "_" else ",".intercalate (p.params.map hexOf)} {hexOf p.marshal} {p.length}")
  | "pg.parse.replace", [s, q] => do
      let s ← ofHex s
      let q ← ofHex q
      let r : Out Bytes := do
        let (p, _) ← Pg.readClient true s
        let p' ← Pg.replaceParseQuery p q
        pure (Pg.marshal p')
      pure (r.render hexOf)
  -- Parse through `handleClientPacket`: query replaced (or `none`), parameters selected by the rule re-typed to bytea
  | "pg.parse", [q, sel, s] => do
      let q ← (if q = "none" then some none else (ofHex q).map some)
      let sel ← parseSel sel
      let s ← ofHex s
      let r : Out Bytes := do
        let (p, _) ← Pg.readClient true s
        let p' ← Pg.handleParse p q sel 17
        pure (Pg.marshal p')
      pure (r.render hexOf)
  | "pg.parse.enc", [name, query, oids] => do
      let name ← ofHex name
      let query ← ofHex query
      let oids ← parseNats oids
      pure (hexOf (Pg.encodeParse name query oids))
  | "pg.parse.dec", [b] => do
      let b ← ofHex b
      pure (match Pg.decodeParse b with
        | some (n, q, oids) => s!"some {hexOf n} {hexOf q} {if oids.isEmpty then "_" else ",".intercalate (oids.map toString)}"
        | none => "none")
  -- PostgreSQL Bind
  | "pg.bind.fields", [b] => do
      let b ← ofHex b
      let showNats (xs : List Nat) : String := if xs.isEmpty then "_" else ",".intercalate (xs.map toString)
      pure ((Pg.newBindPacket b).render fun p =>
        s!"{hexOf p.portal} {hexOf p.statement} {showNats p.paramFormats} {showRow p.paramValues} {showNats p.resultFormats}")
  | "pg.bind", [trs, s] => do
      let trs ← parseTrs trs
      let s ← ofHex s
      let g : Nat → Bool → Option Bytes → Out (Option Bytes) := fun i _ v =>
        match v with
        | none => .ok none
        | some d => (applyTrs trs i d).bind fun d' => .ok (some d')
      let r : Out Bytes := do
        let (p, _) ← Pg.readClient true s
        let p' ← Pg.rewriteBind g p
        pure (Pg.marshal p')
      pure (r.render hexOf)
  | "pg.bind.enc", [portal, stmt, pf, pv, rf] => do
      let portal ← ofHex portal
      let stmt ← ofHex stmt
      let pf ← parseNats pf
      let pv ← parseRow pv
      let rf ← parseNats rf
      pure (hexOf (Pg.encodeBind portal stmt pf pv rf))
  -- bytea text codecs
  | "bytea.octal.enc", [b] => do let b ← ofHex b; pure ("ok " ++ hexOf (Bytea.encodeToOctal b))
  | "bytea.octal.dec", [b] => do
      let b ← ofHex b
      pure (match Bytea.decodeOctal b with | some r => "ok " ++ hexOf r | none => "err")
  | "bytea.hex.enc", [b] => do let b ← ofHex b; pure ("ok " ++ hexOf (Bytea.pgEncodeToHex b))
  | "bytea.escaped.dec", [b] => do
      let b ← ofHex b
      pure (match Bytea.decodeEscaped b with | .ok r => "ok " ++ hexOf r | .error .hex => "err-hex" | .error .octal => "err-octal")
  | _, _ => none

end Driver.C12
