import AcraModel.AuditLog.JsonRoundTrip
/-!
# `unmarshalLogEntry ∘ json.Marshal = id` for NESTED values (C20, deepening)

`JsonRoundTrip.lean` proves the round trip for maps whose values are scalars. Here the values may be arrays and objects
nested to any depth (slices, maps and structs logged as fields arrive that way after logrus' own encoding): `GoodV` –
scalars as before, arrays of good values, key-sorted objects with valid UTF-8 keys and good values. The decoder model
carries fuel (`decodeTop` starts it at the length of the line + 1); the proofs show that the length of the text a value
is written as always suffices.
-/
namespace AcraModel.AuditLog
open AcraModel

/-- what may follow a value inside a line the encoder wrote: `,` `}` `]` -/
def IsDelimV (d : UInt8) : Prop := d.toNat = 0x2C ∨ d.toNat = 0x7D ∨ d.toNat = 0x5D

theorem isDelimV_of_isDelim {d : UInt8} (h : IsDelim d) : IsDelimV d := by
  rcases h with h | h
  · exact Or.inl h
  · exact Or.inr (Or.inl h)

theorem delimV_not_ws {d : UInt8} (h : IsDelimV d) : isWs d = false := by
  unfold isWs
  rcases h with h | h | h <;> simp [h]

/-- a number literal the decoder reads back in front of every delimiter, `]` included (a number inside an array) -/
def NumLitV (lit : Bytes) : Prop := NumLit lit ∧ ∀ tail, scanNum (lit ++ 0x5D :: tail) = some (lit, 0x5D :: tail)

theorem NumLitV.scan {lit : Bytes} (h : NumLitV lit) (d : UInt8) (tail : Bytes) (hd : IsDelimV d) :
    scanNum (lit ++ d :: tail) = some (lit, d :: tail) := by
  rcases hd with hd | hd | hd
  · exact h.1.2 d tail (Or.inl hd)
  · exact h.1.2 d tail (Or.inr hd)
  · have : d = 0x5D := by
      apply UInt8.toNat_inj.mp
      rw [hd]; rfl
    subst this
    exact h.2 tail

/-- the scalar values of the nested class -/
inductive ScalarW : JVal → Prop where
  | null : ScalarW .null
  | bool (b : Bool) : ScalarW (.bool b)
  | num (lit : Bytes) (h : NumLitV lit) : ScalarW (.num lit)
  | str (s : Bytes) (h : ValidUtf8 s) : ScalarW (.str s)

theorem ScalarW.toV {v : JVal} (h : ScalarW v) : ScalarV v := by
  cases h with
  | null => exact .null
  | bool b => exact .bool b
  | num lit h => exact .num lit h.1
  | str s h => exact .str s h

/-- a scalar written by the encoder in front of any delimiter is read back; it starts with no white space, no opening
bracket or brace and no closing bracket -/
theorem parseScalar_marshalW (v : JVal) (hv : ScalarW v) (d : UInt8) (tail : Bytes) (hd : IsDelimV d) :
    parseScalar (marshal v ++ d :: tail) = some (v, d :: tail) ∧
    ∃ c r, marshal v ++ d :: tail = c :: r ∧ isWs c = false ∧ c.toNat ≠ 0x7B ∧ c.toNat ≠ 0x5B ∧ c.toNat ≠ 0x5D ∧ c.toNat ≠ 0x7D := by
  cases hv with
  | null =>
    simp only [marshal, strB_null]
    refine ⟨?_, _, _, rfl, by decide, by decide, by decide, by decide, by decide⟩
    simp [parseScalar, strB_true, strB_false, strB_null, List.isPrefixOf]
  | bool b =>
    cases b with
    | true =>
      simp only [marshal, strB_true]
      refine ⟨?_, _, _, rfl, by decide, by decide, by decide, by decide, by decide⟩
      simp [parseScalar, strB_true, strB_false, strB_null, List.isPrefixOf]
    | false =>
      simp only [marshal, strB_false]
      refine ⟨?_, _, _, rfl, by decide, by decide, by decide, by decide, by decide⟩
      simp [parseScalar, strB_true, strB_false, strB_null, List.isPrefixOf]
  | num lit h =>
    have hscan := h.scan d tail hd
    obtain ⟨⟨⟨c, r, rfl, hc⟩, _⟩, _⟩ := h
    have hm : marshal (.num (c :: r)) = c :: r := by simp [marshal]
    rw [hm]
    have hfacts : c.toNat ≠ 0x22 ∧ c.toNat ≠ 0x74 ∧ c.toNat ≠ 0x66 ∧ c.toNat ≠ 0x6E ∧ isWs c = false ∧
        c.toNat ≠ 0x7B ∧ c.toNat ≠ 0x5B ∧ c.toNat ≠ 0x5D ∧ c.toNat ≠ 0x7D := by
      unfold isDigit at hc
      unfold isWs
      rcases hc with hc | hc
      · simp [hc]
      · simp only [Bool.and_eq_true, decide_eq_true_eq] at hc
        refine ⟨by omega, by omega, by omega, by omega, ?_, by omega, by omega, by omega, by omega⟩
        simp
        omega
    obtain ⟨f1, f2, f3, f4, f5, f6, f7, f8, f9⟩ := hfacts
    refine ⟨?_, c, _, rfl, f5, f6, f7, f8, f9⟩
    simp only [List.cons_append] at hscan ⊢
    unfold parseScalar
    simp only [if_neg f1, strB_true, strB_false, strB_null]
    have ne1 : (c == 0x74) = false := by
      simp only [beq_eq_false_iff_ne, ne_eq]
      intro e; exact f2 (by rw [e]; decide)
    have ne2 : (c == 0x66) = false := by
      simp only [beq_eq_false_iff_ne, ne_eq]
      intro e; exact f3 (by rw [e]; decide)
    have ne3 : (c == 0x6E) = false := by
      simp only [beq_eq_false_iff_ne, ne_eq]
      intro e; exact f4 (by rw [e]; decide)
    have e1 : ¬ ((116 : UInt8) = c) := fun e => f2 (by rw [← e]; decide)
    have e2 : ¬ ((102 : UInt8) = c) := fun e => f3 (by rw [← e]; decide)
    have e3 : ¬ ((110 : UInt8) = c) := fun e => f4 (by rw [← e]; decide)
    simp [List.isPrefixOf, ne1, ne2, ne3, e1, e2, e3, hscan]
  | str s h =>
    obtain ⟨body, hb, hp⟩ := parseStr_encStr s h (d :: tail)
    simp only [marshal]
    rw [hb]
    refine ⟨?_, _, _, rfl, by decide, by decide, by decide, by decide, by decide⟩
    unfold parseScalar
    simp only []
    rw [if_pos (by decide), hp]

/-- the nested class: scalars, arrays of good values, key-sorted objects with valid UTF-8 keys and good values -/
inductive GoodV : JVal → Prop where
  | scalar (v : JVal) (h : ScalarW v) : GoodV v
  | arr (xs : List JVal) (h : ∀ x ∈ xs, GoodV x) : GoodV (.arr xs)
  | obj (kvs : List (Bytes × JVal)) (hc : Canonical kvs) (hk : ∀ kv ∈ kvs, ValidUtf8 kv.1)
      (h : ∀ kv ∈ kvs, GoodV kv.2) : GoodV (.obj kvs)

/-- keys are valid UTF-8, values are good -/
def GoodObj (o : Obj) : Prop := ∀ kv ∈ o, ValidUtf8 kv.1 ∧ GoodV kv.2

theorem marshalElems_cons2 (x y : JVal) (r : List JVal) :
    marshalElems (x :: y :: r) = marshal x ++ 0x2C :: marshalElems (y :: r) := by
  simp [marshalElems]

theorem marshalMembers_cons2 (k : Bytes) (v : JVal) (m : Bytes × JVal) (r : Obj) :
    marshalMembers ((k, v) :: m :: r) = encStr k ++ 0x3A :: (marshal v ++ 0x2C :: marshalMembers (m :: r)) := by
  simp [marshalMembers, List.append_assoc]

theorem marshalMembers_one (k : Bytes) (v : JVal) : marshalMembers [(k, v)] = encStr k ++ 0x3A :: marshal v := by
  simp [marshalMembers]

theorem marshal_length_pos (v : JVal) : 0 < (marshal v).length := by
  cases v with
  | null => simp [marshal, strB_null]
  | bool b => cases b <;> simp [marshal, strB_true, strB_false]
  | num l =>
    simp only [marshal]
    split
    · decide
    · next h => cases l with
      | nil => simp at h
      | cons a t => simp
  | str s => simp [marshal, encStr]
  | arr xs => simp [marshal]
  | obj kvs => simp [marshal]

/-- the text of a good value starts with a byte that is no white space and no closing bracket/brace -/
theorem marshal_head (v : JVal) (hv : GoodV v) (tail : Bytes) :
    ∃ c r, marshal v ++ tail = c :: r ∧ isWs c = false ∧ c.toNat ≠ 0x5D ∧ c.toNat ≠ 0x7D := by
  cases hv with
  | scalar v h =>
    cases tail with
    | nil =>
      obtain ⟨_, c, r, hcr, h1, _, _, h4, h5⟩ := parseScalar_marshalW v h 0x2C [] (Or.inl (by decide))
      cases hm : marshal v with
      | nil => have := marshal_length_pos v; rw [hm] at this; simp at this
      | cons c' r' =>
        rw [hm] at hcr
        simp only [List.cons_append, List.cons.injEq] at hcr
        obtain ⟨rfl, _⟩ := hcr
        exact ⟨c', r' ++ [], by simp, h1, h4, h5⟩
    | cons t ts =>
      obtain ⟨_, c, r, hcr, h1, _, _, h4, h5⟩ := parseScalar_marshalW v h 0x2C [] (Or.inl (by decide))
      cases hm : marshal v with
      | nil => have := marshal_length_pos v; rw [hm] at this; simp at this
      | cons c' r' =>
        rw [hm] at hcr
        simp only [List.cons_append, List.cons.injEq] at hcr
        obtain ⟨rfl, _⟩ := hcr
        exact ⟨c', r' ++ t :: ts, by simp, h1, h4, h5⟩
  | arr xs _ => exact ⟨0x5B, marshalElems xs ++ [0x5D] ++ tail, by simp [marshal], by decide, by decide, by decide⟩
  | obj kvs _ _ _ => exact ⟨0x7B, marshalMembers kvs ++ [0x7D] ++ tail, by simp [marshal], by decide, by decide, by decide⟩


/-! ### one step of each of the three mutually recursive parser functions, the recursive results as hypotheses -/

theorem parseVal_scalarW (f : Nat) (v : JVal) (hv : ScalarW v) (d : UInt8) (tail : Bytes) (hd : IsDelimV d) :
    parseVal (f + 1) (marshal v ++ d :: tail) = some (v, d :: tail) := by
  obtain ⟨hp, c, r, hcr, _, h7b, h5b, _, _⟩ := parseScalar_marshalW v hv d tail hd
  rw [hcr] at hp ⊢
  rw [parseVal]
  simp only [if_neg h7b, if_neg h5b]
  exact hp

theorem marshalElems_head (x : JVal) (r : List JVal) (hx : GoodV x) (tail : Bytes) :
    ∃ c rr, marshalElems (x :: r) ++ tail = c :: rr ∧ isWs c = false ∧ c.toNat ≠ 0x5D := by
  cases r with
  | nil =>
    obtain ⟨c, rr, h, h1, h2, _⟩ := marshal_head x hx tail
    exact ⟨c, rr, by simpa [marshalElems] using h, h1, h2⟩
  | cons y r' =>
    obtain ⟨c, rr, h, h1, h2, _⟩ := marshal_head x hx (0x2C :: marshalElems (y :: r') ++ tail)
    refine ⟨c, rr, ?_, h1, h2⟩
    rw [marshalElems_cons2, ← h]
    simp [List.append_assoc]

/-- `[` … `]`: the array is read once its elements are -/
theorem parseVal_arr_step (f : Nat) (x : JVal) (r : List JVal) (hx : GoodV x) (rest : Bytes)
    (h : parseElems f (marshalElems (x :: r) ++ 0x5D :: rest) = some (x :: r, rest)) :
    parseVal (f + 1) (marshal (.arr (x :: r)) ++ rest) = some (.arr (x :: r), rest) := by
  have hm : marshal (.arr (x :: r)) ++ rest = 0x5B :: (marshalElems (x :: r) ++ 0x5D :: rest) := by
    simp [marshal, List.append_assoc]
  obtain ⟨c, rr, hcr, hws, h5d⟩ := marshalElems_head x r hx (0x5D :: rest)
  rw [hm, parseVal]
  try simp only []
  rw [if_neg (by decide), if_pos (by decide)]
  rw [hcr] at h ⊢
  rw [skipWs_cons c rr hws]
  try simp only []
  rw [if_neg h5d, h]

theorem parseVal_arr_nil (f : Nat) (rest : Bytes) :
    parseVal (f + 1) (marshal (.arr []) ++ rest) = some (.arr [], rest) := by
  have hm : marshal (.arr []) ++ rest = 0x5B :: 0x5D :: rest := by simp [marshal, marshalElems]
  rw [hm, parseVal]
  try simp only []
  rw [if_neg (by decide), if_pos (by decide), skipWs_cons _ _ (by decide)]
  try simp only []
  rw [if_pos (by decide)]

theorem parseVal_obj_nil (f : Nat) (rest : Bytes) :
    parseVal (f + 1) (marshal (.obj []) ++ rest) = some (.obj [], rest) := by
  have hm : marshal (.obj []) ++ rest = 0x7B :: 0x7D :: rest := by simp [marshal, marshalMembers]
  rw [hm, parseVal]
  try simp only []
  rw [if_pos (by decide), skipWs_cons _ _ (by decide)]
  try simp only []
  rw [if_pos (by decide)]

/-- `{` … `}`: the object is read once its members are (key-sorted members: `normalize` changes nothing) -/
theorem parseVal_obj_step (f : Nat) (k : Bytes) (v : JVal) (r : Obj) (hc : Canonical ((k, v) :: r)) (rest : Bytes)
    (h : parseMembers f (marshalMembers ((k, v) :: r) ++ 0x7D :: rest) = some ((k, v) :: r, rest)) :
    parseVal (f + 1) (marshal (.obj ((k, v) :: r)) ++ rest) = some (.obj ((k, v) :: r), rest) := by
  have hm : marshal (.obj ((k, v) :: r)) ++ rest = 0x7B :: (marshalMembers ((k, v) :: r) ++ 0x7D :: rest) := by
    simp [marshal, List.append_assoc]
  obtain ⟨x, hx⟩ := marshalMembers_head k v r
  rw [hm, parseVal]
  try simp only []
  rw [if_pos (by decide)]
  rw [hx] at h ⊢
  simp only [List.cons_append] at h ⊢
  rw [skipWs_cons _ _ isWs_quote]
  try simp only []
  rw [if_neg (by decide), h]
  simp [normalize_canonical _ hc]

/-- one element and what follows it (`,` more elements, or `]`) -/
theorem parseElems_step (f : Nat) (x : JVal) (d : UInt8) (hd : d.toNat = 0x2C ∨ d.toNat = 0x5D) (tail : Bytes)
    (hv : parseVal f (marshal x ++ d :: tail) = some (x, d :: tail)) :
    parseElems (f + 1) (marshal x ++ d :: tail) =
      if d.toNat = 0x2C then (parseElems f (skipWs tail)).map fun p => (x :: p.1, p.2)
      else some ([x], tail) := by
  have hws : isWs d = false := delimV_not_ws (by rcases hd with h | h; exact Or.inl h; exact Or.inr (Or.inr h))
  rw [parseElems]
  try simp only []
  rw [hv]
  try simp only []
  rw [skipWs_cons _ _ hws]
  try simp only []
  rcases hd with h | h
  · rw [if_pos h, if_pos h]
    cases parseElems f (skipWs tail) with
    | none => rfl
    | some p => rfl
  · rw [if_neg (by omega), if_pos h, if_neg (by omega)]

/-- one member and what follows it (`,` more members, or `}`) -/
theorem parseMembers_stepV (f : Nat) (k : Bytes) (v : JVal) (hk : ValidUtf8 k) (hg : GoodV v) (d : UInt8)
    (hd : d.toNat = 0x2C ∨ d.toNat = 0x7D) (tail : Bytes)
    (hval : parseVal f (marshal v ++ d :: tail) = some (v, d :: tail)) :
    parseMembers (f + 1) (encStr k ++ 0x3A :: (marshal v ++ d :: tail)) =
      if d.toNat = 0x2C then (parseMembers f (skipWs tail)).map fun p => ((k, v) :: p.1, p.2)
      else some ([(k, v)], tail) := by
  obtain ⟨body, hb, hp⟩ := parseStr_encStr k hk (0x3A :: (marshal v ++ d :: tail))
  obtain ⟨c, r, hcr, hws, _, _⟩ := marshal_head v hg (d :: tail)
  have hdws : isWs d = false := delimV_not_ws (by rcases hd with h | h; exact Or.inl h; exact Or.inr (Or.inl h))
  rw [hb, parseMembers]
  try simp only []
  rw [if_pos (by decide), hp]
  try simp only []
  rw [skipWs_cons _ _ (by decide)]
  try simp only []
  rw [if_pos (by decide)]
  have hsk : skipWs (marshal v ++ d :: tail) = marshal v ++ d :: tail := by
    rw [hcr]; exact skipWs_cons c r hws
  rw [hsk, hval]
  try simp only []
  rw [skipWs_cons _ _ hdws]
  try simp only []
  rcases hd with h | h
  · rw [if_pos h, if_pos h]
    cases parseMembers f (skipWs tail) with
    | none => rfl
    | some p => rfl
  · rw [if_neg (by omega), if_pos h, if_neg (by omega)]


/-! ### the round trip, by recursion over the value -/

theorem scalarW_of_good {v : JVal} (hv : GoodV v) (ha : ∀ xs, v ≠ .arr xs) (ho : ∀ kvs, v ≠ .obj kvs) : ScalarW v := by
  cases hv with
  | scalar _ h => exact h
  | arr xs _ => exact absurd rfl (ha xs)
  | obj kvs _ _ _ => exact absurd rfl (ho kvs)

theorem marshalElems_length_cons2 (x y : JVal) (r : List JVal) :
    (marshalElems (x :: y :: r)).length = (marshal x).length + 1 + (marshalElems (y :: r)).length := by
  rw [marshalElems_cons2]; simp; omega

theorem marshalMembers_length_cons2 (k : Bytes) (v : JVal) (m : Bytes × JVal) (r : Obj) :
    (marshalMembers ((k, v) :: m :: r)).length = (encStr k).length + 1 + (marshal v).length + 1 + (marshalMembers (m :: r)).length := by
  rw [marshalMembers_cons2]; simp; omega

mutual
/-- **a good value written by the encoder in front of a delimiter is read back**, with fuel ≥ the length of its text -/
theorem parseVal_good : (v : JVal) → GoodV v → ∀ (f : Nat) (d : UInt8) (tail : Bytes), IsDelimV d → (marshal v).length ≤ f →
    parseVal (f + 1) (marshal v ++ d :: tail) = some (v, d :: tail)
  | .null, hv, f, d, tail, hd, _ => parseVal_scalarW f _ (scalarW_of_good hv (by intro _ h; cases h) (by intro _ h; cases h)) d tail hd
  | .bool _, hv, f, d, tail, hd, _ => parseVal_scalarW f _ (scalarW_of_good hv (by intro _ h; cases h) (by intro _ h; cases h)) d tail hd
  | .num _, hv, f, d, tail, hd, _ => parseVal_scalarW f _ (scalarW_of_good hv (by intro _ h; cases h) (by intro _ h; cases h)) d tail hd
  | .str _, hv, f, d, tail, hd, _ => parseVal_scalarW f _ (scalarW_of_good hv (by intro _ h; cases h) (by intro _ h; cases h)) d tail hd
  | .arr [], _, f, d, tail, _, _ => parseVal_arr_nil f (d :: tail)
  | .arr (x :: r), hv, f, d, tail, _, hf => by
    have hall : ∀ y ∈ x :: r, GoodV y := by
      cases hv with
      | scalar _ h => cases h
      | arr _ h => exact h
    have hlen : (marshal (.arr (x :: r))).length = (marshalElems (x :: r)).length + 2 := by simp [marshal]
    obtain ⟨f', rfl⟩ : ∃ f', f = f' + 1 := ⟨f - 1, by omega⟩
    exact parseVal_arr_step (f' + 1) x r (hall x List.mem_cons_self) (d :: tail)
      (parseElems_good (x :: r) hall (by simp) f' (d :: tail) (by omega))
  | .obj [], _, f, d, tail, _, _ => parseVal_obj_nil f (d :: tail)
  | .obj ((k, v) :: r), hv, f, d, tail, _, hf => by
    have hparts : Canonical ((k, v) :: r) ∧ (∀ kv ∈ (k, v) :: r, ValidUtf8 kv.1) ∧ (∀ kv ∈ (k, v) :: r, GoodV kv.2) := by
      cases hv with
      | scalar _ h => cases h
      | obj _ hc hk h => exact ⟨hc, hk, h⟩
    have hlen : (marshal (.obj ((k, v) :: r))).length = (marshalMembers ((k, v) :: r)).length + 2 := by simp [marshal]
    obtain ⟨f', rfl⟩ : ∃ f', f = f' + 1 := ⟨f - 1, by omega⟩
    exact parseVal_obj_step (f' + 1) k v r hparts.1 (d :: tail)
      (parseMembers_good ((k, v) :: r) hparts.2.1 hparts.2.2 (by simp) f' (d :: tail) (by omega))
/-- the elements of a non-empty array up to the closing bracket -/
theorem parseElems_good : (xs : List JVal) → (∀ x ∈ xs, GoodV x) → xs ≠ [] → ∀ (f : Nat) (tail : Bytes), (marshalElems xs).length < f →
    parseElems (f + 1) (marshalElems xs ++ 0x5D :: tail) = some (xs, tail)
  | [], _, hne, _, _, _ => absurd rfl hne
  | [x], hall, _, f, tail, hf => by
    have hm : marshalElems [x] = marshal x := by simp [marshalElems]
    rw [hm] at hf ⊢
    obtain ⟨f', rfl⟩ : ∃ f', f = f' + 1 := ⟨f - 1, by omega⟩
    rw [parseElems_step (f' + 1) x 0x5D (Or.inr (by decide)) tail
      (parseVal_good x (hall x List.mem_cons_self) f' 0x5D tail (Or.inr (Or.inr (by decide))) (by omega))]
    rw [if_neg (by decide)]
  | x :: y :: r, hall, _, f, tail, hf => by
    have hl := marshalElems_length_cons2 x y r
    have hpos := marshal_length_pos x
    have hm : marshalElems (x :: y :: r) ++ 0x5D :: tail = marshal x ++ 0x2C :: (marshalElems (y :: r) ++ 0x5D :: tail) := by
      rw [marshalElems_cons2]; simp [List.append_assoc]
    obtain ⟨f', rfl⟩ : ∃ f', f = f' + 1 := ⟨f - 1, by omega⟩
    rw [hm, parseElems_step (f' + 1) x 0x2C (Or.inl (by decide)) _
      (parseVal_good x (hall x List.mem_cons_self) f' 0x2C _ (Or.inl (by decide)) (by omega))]
    rw [if_pos (by decide)]
    obtain ⟨c, rr, hcr, hws, _⟩ := marshalElems_head y r (hall y (by simp)) (0x5D :: tail)
    have hsk : skipWs (marshalElems (y :: r) ++ 0x5D :: tail) = marshalElems (y :: r) ++ 0x5D :: tail := by
      rw [hcr]; exact skipWs_cons c rr hws
    rw [hsk, parseElems_good (y :: r) (fun z hz => hall z (List.mem_cons_of_mem _ hz)) (by simp) f' tail (by omega)]
    rfl
/-- the members of a non-empty object up to the closing brace -/
theorem parseMembers_good : (kvs : List (Bytes × JVal)) → (∀ kv ∈ kvs, ValidUtf8 kv.1) → (∀ kv ∈ kvs, GoodV kv.2) → kvs ≠ [] →
    ∀ (f : Nat) (tail : Bytes), (marshalMembers kvs).length < f →
    parseMembers (f + 1) (marshalMembers kvs ++ 0x7D :: tail) = some (kvs, tail)
  | [], _, _, hne, _, _, _ => absurd rfl hne
  | [(k, v)], hk, hg, _, f, tail, hf => by
    have hm : marshalMembers [(k, v)] ++ 0x7D :: tail = encStr k ++ 0x3A :: (marshal v ++ 0x7D :: tail) := by
      rw [marshalMembers_one]; simp [List.append_assoc]
    have hl : (marshalMembers [(k, v)]).length = (encStr k).length + 1 + (marshal v).length := by
      rw [marshalMembers_one]; simp; omega
    obtain ⟨f', rfl⟩ : ∃ f', f = f' + 1 := ⟨f - 1, by omega⟩
    rw [hm, parseMembers_stepV (f' + 1) k v (hk (k, v) List.mem_cons_self) (hg (k, v) List.mem_cons_self) 0x7D (Or.inr (by decide)) tail
      (parseVal_good v (hg (k, v) List.mem_cons_self) f' 0x7D tail (Or.inr (Or.inl (by decide))) (by omega))]
    rw [if_neg (by decide)]
  | (k, v) :: m :: r, hk, hg, _, f, tail, hf => by
    have hl := marshalMembers_length_cons2 k v m r
    have hm : marshalMembers ((k, v) :: m :: r) ++ 0x7D :: tail =
        encStr k ++ 0x3A :: (marshal v ++ 0x2C :: (marshalMembers (m :: r) ++ 0x7D :: tail)) := by
      rw [marshalMembers_cons2]; simp [List.append_assoc]
    have hes : 2 ≤ (encStr k).length := by simp [encStr]
    obtain ⟨f', rfl⟩ : ∃ f', f = f' + 1 := ⟨f - 1, by omega⟩
    rw [hm, parseMembers_stepV (f' + 1) k v (hk (k, v) List.mem_cons_self) (hg (k, v) List.mem_cons_self) 0x2C (Or.inl (by decide)) _
      (parseVal_good v (hg (k, v) List.mem_cons_self) f' 0x2C _ (Or.inl (by decide)) (by omega))]
    rw [if_pos (by decide)]
    obtain ⟨x, hx⟩ := marshalMembers_head m.1 m.2 r
    have hsk : skipWs (marshalMembers (m :: r) ++ 0x7D :: tail) = marshalMembers (m :: r) ++ 0x7D :: tail := by
      rw [hx]; exact skipWs_cons _ _ isWs_quote
    rw [hsk, parseMembers_good (m :: r) (fun z hz => hk z (List.mem_cons_of_mem _ hz)) (fun z hz => hg z (List.mem_cons_of_mem _ hz))
      (by simp) f' tail (by omega)]
    rfl
end

/-- **`unmarshalLogEntry ∘ json.Marshal` is the identity on every key-sorted map with valid UTF-8 keys and good values –
arrays and objects nested to any depth included.** -/
theorem decodeTop_marshal_nested (o : Obj) (hc : Canonical o) (hg : GoodObj o) :
    decodeTop (marshal (.obj o)) = some (some o) := by
  unfold decodeTop
  have hgood : GoodV (.obj o) := .obj o hc (fun kv h => (hg kv h).1) (fun kv h => (hg kv h).2)
  obtain ⟨c, r, hcr, hws, _, _⟩ := marshal_head (.obj o) hgood []
  have hsk : skipWs (marshal (.obj o)) = marshal (.obj o) := by
    have := skipWs_cons c r hws
    rw [← hcr] at this
    simpa using this
  rw [hsk]
  -- the decoder stops at the end of the text: run the delimiter lemma on the text with its last byte split off
  have hm : marshal (.obj o) = (0x7B :: marshalMembers o) ++ [0x7D] := by simp [marshal]
  cases o with
  | nil =>
    have : marshal (.obj []) = [0x7B, 0x7D] := by simp [marshal, marshalMembers]
    rw [this]
    simp [parseVal, skipWs, isWs]
  | cons kv r' =>
    obtain ⟨k, v⟩ := kv
    have hstep := parseVal_obj_step ((marshal (.obj ((k, v) :: r'))).length) k v r' hc []
      (by
        have hl : (marshal (.obj ((k, v) :: r'))).length = (marshalMembers ((k, v) :: r')).length + 2 := by simp [marshal]
        rw [hl]
        exact parseMembers_good ((k, v) :: r') (fun kv h => (hg kv h).1) (fun kv h => (hg kv h).2) (by simp) _ [] (by omega))
    simp only [List.append_nil] at hstep
    rw [hstep]
    simp [skipWs]


/-! ### number literals in front of `]` -/

theorem scanTail_rbr (tail : Bytes) :
    scanFrac (0x5D :: tail) = some ([], 0x5D :: tail) ∧ scanExp (0x5D :: tail) = some ([], 0x5D :: tail) := by
  constructor
  · simp [scanFrac]
  · simp [scanExp]

/-- every integer literal without superfluous leading zeros, with or without a sign – also as an array element -/
theorem numLitV_int (ds : Bytes) (hne : ds ≠ []) (hd : ∀ x ∈ ds, isDigit x = true)
    (hz : ds.head? = some 0x30 → ds.length = 1) : NumLitV ds ∧ NumLitV (0x2D :: ds) := by
  obtain ⟨n1, n2⟩ := numLit_int ds hne hd hz
  obtain ⟨c, r, rfl⟩ := List.exists_cons_of_ne_nil hne
  have hc := hd c List.mem_cons_self
  have hcm : c.toNat ≠ 0x2D := by
    intro e
    unfold isDigit at hc
    simp [e] at hc
  have hint : ∀ tail, scanInt ((c :: r) ++ 0x5D :: tail) = some (c :: r, 0x5D :: tail) :=
    fun tail => scanInt_digits' (c :: r) 0x5D tail hne hd hz (by decide)
  refine ⟨⟨n1, ?_⟩, ⟨n2, ?_⟩⟩
  · intro tail
    unfold scanNum
    have := hint tail
    simp only [List.cons_append, if_neg hcm] at this ⊢
    rw [this]
    simp only []
    rw [(scanTail_rbr tail).1]
    simp only []
    rw [(scanTail_rbr tail).2]
    simp
  · intro tail
    unfold scanNum
    have h2d : (0x2D : UInt8).toNat = 0x2D := by decide
    have := hint tail
    simp only [List.cons_append, h2d, if_true] at this ⊢
    rw [this]
    simp only []
    rw [(scanTail_rbr tail).1]
    simp only []
    rw [(scanTail_rbr tail).2]
    simp

/-- every decimal literal `digits.digits`, with or without a sign – also as an array element -/
theorem numLitV_frac (ip fr : Bytes) (hne : ip ≠ []) (hd : ∀ x ∈ ip, isDigit x = true)
    (hz : ip.head? = some 0x30 → ip.length = 1) (hfne : fr ≠ []) (hfd : ∀ x ∈ fr, isDigit x = true) :
    NumLitV (ip ++ 0x2E :: fr) ∧ NumLitV (0x2D :: (ip ++ 0x2E :: fr)) := by
  obtain ⟨n1, n2⟩ := numLit_frac ip fr hne hd hz hfne hfd
  obtain ⟨c, r, rfl⟩ := List.exists_cons_of_ne_nil hne
  have hc := hd c List.mem_cons_self
  have hcm : c.toNat ≠ 0x2D := by
    intro e
    unfold isDigit at hc
    simp [e] at hc
  have hdot : isDigit 0x2E = false := by decide
  have key : ∀ tail, scanInt ((c :: r) ++ 0x2E :: (fr ++ 0x5D :: tail)) = some (c :: r, 0x2E :: (fr ++ 0x5D :: tail)) :=
    fun tail => scanInt_digits' (c :: r) 0x2E _ hne hd hz hdot
  refine ⟨⟨n1, ?_⟩, ⟨n2, ?_⟩⟩
  · intro tail
    have k := key tail
    unfold scanNum
    simp only [List.cons_append, List.append_assoc, if_neg hcm] at k ⊢
    rw [k]
    simp only []
    rw [scanFrac_digits fr 0x5D tail hfne hfd (by decide)]
    simp only []
    rw [(scanTail_rbr tail).2]
    simp
  · intro tail
    have k := key tail
    unfold scanNum
    have h2d : (0x2D : UInt8).toNat = 0x2D := by decide
    simp only [List.cons_append, List.append_assoc, h2d, if_true] at k ⊢
    rw [k]
    simp only []
    rw [scanFrac_digits fr 0x5D tail hfne hfd (by decide)]
    simp only []
    rw [(scanTail_rbr tail).2]
    simp

/-! ### the nested class is closed under the hook's assignments -/

theorem goodObj_setKey (k : Bytes) (v : JVal) (o : Obj) (hk : ValidUtf8 k) (hv : GoodV v) (ho : GoodObj o) :
    GoodObj (setKey k v o) := by
  intro kv h
  rcases mem_setKey k v o kv h with e | e
  · rw [e]; exact ⟨hk, hv⟩
  · exact ho kv e

/-- the map the hook marshals stays in the nested class -/
theorem hookMap_classN (c : CryptoOps) (st : Calc) (o : Obj) (hc : Canonical o) (hg : GoodObj o) :
    Canonical (jsonHookMap c st o) ∧ GoodObj (jsonHookMap c st o) := by
  unfold jsonHookMap
  simp only []
  have h1 := canonical_setKey intKeyB (.str (hexEnc (st.step c (conv o)).2.1)) o hc
  have h2 := goodObj_setKey intKeyB (.str (hexEnc (st.step c (conv o)).2.1)) o validUtf8_intKey
    (.scalar _ (.str _ (validUtf8_ascii _ (hexEnc_ascii _)))) hg
  split
  · exact ⟨canonical_setKey _ _ _ h1, goodObj_setKey _ _ _ validUtf8_chainKey (.scalar _ (.str _ validUtf8_newVal)) h2⟩
  · exact ⟨h1, h2⟩

/-- a flat object with numbers readable in front of `]` too is a good object -/
theorem goodV_of_scalarW {v : JVal} (h : ScalarW v) : GoodV v := .scalar v h

end AcraModel.AuditLog
