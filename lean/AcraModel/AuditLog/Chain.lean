import AcraModel.Basic.Bytes
import AcraModel.Crypto.Ops
import AcraModel.Generated.AuditLog
/-!
# Audit-log integrity chain (C20) – `logging/audit_log.go`, `logging/integrity_verifier.go`

* `Calc` is `LogEntryIntegrityCalculator`: a ratcheting key and the previous entry's HMAC (`none` is Go's
  `nil`, i.e. "first check of a chain").
* `Calc.step` is `CalculateIntegrityCheck`: `ic = HMAC(key, input ‖ prev)`, tag written to the log is
  `SHA256(ic)`, then `prev := ic`, `key := SHA256(key)`.
* The verifier sees a log as a list of `Line`s (a parsed entry, a line without integrity that is
  skipped, or a line whose integrity part does not parse) and replays the ratchet.
-/
namespace AcraModel.AuditLog
open AcraModel

structure Calc where
  key : Bytes
  prev : Option Bytes
deriving DecidableEq, Repr

/-- `NewLogEntryIntegrityCalculator(key)` / `ResetCryptoKey(key)` -/
def Calc.new (c : CryptoOps) (key : Bytes) : Calc := ⟨c.sha256 key, none⟩

/-- `calculateHmac(input)`: the HMAC is fed `input`, then the previous integrity check -/
def Calc.ic (c : CryptoOps) (st : Calc) (input : Bytes) : Bytes :=
  c.hmac st.key (input ++ st.prev.getD [])

/-- `CalculateIntegrityCheck(input)` → (new state, aggregated integrity check, newChain) -/
def Calc.step (c : CryptoOps) (st : Calc) (input : Bytes) : Calc × Bytes × Bool :=
  let ic := st.ic c input
  (⟨c.sha256 st.key, some ic⟩, c.sha256 ic, st.prev.isNone)

/-- `ParsedLogEntry` -/
structure Entry where
  data : Bytes
  tag : Bytes
  isNew : Bool
  isEnd : Bool
deriving DecidableEq, Repr

inductive Line where
  /-- empty line, or the parser returned `Err…IntegrityExtract` (no integrity part): skipped -/
  | skip
  /-- the parser returned another error (integrity is not hex, JSON does not parse): verification stops -/
  | bad
  | entry (e : Entry)
deriving DecidableEq, Repr

inductive FailKind where
  | parse | missingEnd | mismatch
deriving DecidableEq, Repr

inductive Verdict where
  | ok
  | fail (line : Nat) (kind : FailKind)
deriving DecidableEq, Repr

/-- verifier state: the calculator and `lastVerifiedEntry.IsEndChain` (`none`: nothing verified yet) -/
structure VState where
  cal : Calc
  last : Option Bool
deriving DecidableEq, Repr

def VState.init (c : CryptoOps) (key : Bytes) : VState := ⟨Calc.new c key, none⟩

/-- one protected entry: `some st'` when it verifies -/
def VState.entry (c : CryptoOps) (key : Bytes) (st : VState) (e : Entry) : Except FailKind VState :=
  if e.isNew && st.last == some false then .error .missingEnd
  else
    let cal := if e.isNew then Calc.new c key else st.cal
    let (cal', tag, _) := cal.step c e.data
    if e.tag = tag then .ok ⟨cal', some e.isEnd⟩ else .error .mismatch

/-- `VerifyIntegrityCheck` over the lines from index `i` on -/
def verifyFrom (c : CryptoOps) (key : Bytes) (st : VState) (i : Nat) : List Line → Verdict
  | [] => .ok
  | .skip :: r => verifyFrom c key st (i + 1) r
  | .bad :: _ => .fail i .parse
  | .entry e :: r =>
    match st.entry c key e with
    | .ok st' => verifyFrom c key st' (i + 1) r
    | .error k => .fail i k

def verify (c : CryptoOps) (key : Bytes) (ls : List Line) : Verdict :=
  verifyFrom c key (VState.init c key) 0 ls

/-! ### the producer at entry level -/

/-- one log call: the authenticated bytes of the entry, whether the entry carries the end-of-chain
marker, and whether the handler restarts the chain right after writing it (`AuditLogHandler.Write`
during `ResetChain`). -/
structure PItem where
  data : Bytes
  isEnd : Bool
  resetAfter : Bool
deriving DecidableEq, Repr

/-- the entries the hooks emit for a sequence of log calls, starting from calculator state `st` -/
def produce (c : CryptoOps) (key : Bytes) (st : Calc) : List PItem → List Entry
  | [] => []
  | it :: r =>
    let (st', tag, new) := st.step c it.data
    ⟨it.data, tag, new, it.isEnd⟩ :: produce c key (if it.resetAfter then Calc.new c key else st') r

end AcraModel.AuditLog
