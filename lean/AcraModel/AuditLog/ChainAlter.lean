import AcraModel.AuditLog.ChainLemmas
/-!
Helper lemmas for the alteration theorems of C20 at *every* position of a log with chain restarts:
what exactly the verifier holds after an honest prefix (`vcal`, `vlast`), how it evaluates the next
entry, and the combinatorial lemma about the first displaced position of a permutation.
-/
namespace AcraModel.AuditLog
open AcraModel

/-- the honest entry for data `d` written in calculator state `st` -/
def entryAt (c : CryptoOps) (st : Calc) (d : Bytes) (isEnd : Bool) : Entry :=
  ⟨d, tagOf c st d, st.prev.isNone, isEnd⟩

/-- collision freedom on the two values at hand: the HMAC values of calculator states `a`, `b` on
data `x`, `y` do not collide under SHA-256, and the two HMAC inputs do not collide under HMAC -/
structure NoCollision (c : CryptoOps) (a : Calc) (x : Bytes) (b : Calc) (y : Bytes) : Prop where
  sha : c.sha256 (a.ic c x) = c.sha256 (b.ic c y) → a.ic c x = b.ic c y
  mac : c.hmac a.key (x ++ a.prev.getD []) = c.hmac b.key (y ++ b.prev.getD []) →
    a.key = b.key ∧ x ++ a.prev.getD [] = y ++ b.prev.getD []

/-- equal tags ⇒ equal key and equal HMAC input, on a pair without collision -/
theorem NoCollision.tag_inj {c : CryptoOps} {a b : Calc} {x y : Bytes} (h : NoCollision c a x b y)
    (e : tagOf c a x = tagOf c b y) : a.key = b.key ∧ x ++ a.prev.getD [] = y ++ b.prev.getD [] :=
  h.mac (h.sha e)

/-- the log lines of an honest history -/
def honestLines (c : CryptoOps) (key : Bytes) (items : List PItem) : List Line :=
  (produce c key (Calc.new c key) items).map Line.entry

/-- the verifier's state after an honest history -/
def vstate (c : CryptoOps) (key : Bytes) (items : List PItem) : VState :=
  vsRun c key (Calc.new c key) (VState.init c key) items

/-- the calculator the verifier holds after an honest history. Mid-chain it is the producer's
(`vcal_of_mid`); right after the last entry of a chain it is that chain's calculator *one step on*
(`vcal_snoc`) – the verifier does not reset before it sees a `chain=new` entry. -/
def vcal (c : CryptoOps) (key : Bytes) (items : List PItem) : Calc := (vstate c key items).cal

/-- the producer's calculator after an honest history -/
def pstate (c : CryptoOps) (key : Bytes) (items : List PItem) : Calc := stateAfter c key (Calc.new c key) items

theorem stateAfter_append (c : CryptoOps) (key : Bytes) : ∀ (x y : List PItem) (st : Calc),
    stateAfter c key st (x ++ y) = stateAfter c key (stateAfter c key st x) y
  | [], _, _ => rfl
  | it :: r, y, st => by simp only [List.cons_append, stateAfter]; exact stateAfter_append c key r y _

theorem produce_append (c : CryptoOps) (key : Bytes) : ∀ (x y : List PItem) (st : Calc),
    produce c key st (x ++ y) = produce c key st x ++ produce c key (stateAfter c key st x) y
  | [], _, _ => rfl
  | it :: r, y, st => by
    simp only [List.cons_append, produce, stateAfter]
    rw [produce_append c key r y]

theorem vsRun_append (c : CryptoOps) (key : Bytes) : ∀ (x y : List PItem) (st : Calc) (vs : VState),
    vsRun c key st vs (x ++ y) = vsRun c key (stateAfter c key st x) (vsRun c key st vs x) y
  | [], _, _, _ => rfl
  | it :: r, y, st, vs => by
    simp only [List.cons_append, vsRun, stateAfter]
    exact vsRun_append c key r y _ _

theorem pstate_append (c : CryptoOps) (key : Bytes) (x y : List PItem) :
    pstate c key (x ++ y) = stateAfter c key (pstate c key x) y := stateAfter_append c key x y _

theorem pstate_snoc (c : CryptoOps) (key : Bytes) (x : List PItem) (a : PItem) :
    pstate c key (x ++ [a]) = nextCalc c key (pstate c key x) a := by
  rw [pstate_append]; rfl

theorem vstate_nil (c : CryptoOps) (key : Bytes) : vstate c key [] = VState.init c key := rfl

theorem vstate_snoc (c : CryptoOps) (key : Bytes) (x : List PItem) (a : PItem) :
    vstate c key (x ++ [a]) = vsAfter c (pstate c key x) a := by
  unfold vstate
  rw [vsRun_append]
  rfl

theorem vcal_nil (c : CryptoOps) (key : Bytes) : vcal c key [] = Calc.new c key := rfl

/-- after an entry the verifier holds the calculator one step on – whether or not the producer
restarted its chain after that entry -/
theorem vcal_snoc (c : CryptoOps) (key : Bytes) (x : List PItem) (a : PItem) :
    vcal c key (x ++ [a]) = ((pstate c key x).step c a.data).1 := by
  unfold vcal; rw [vstate_snoc]; rfl

theorem vlast_snoc (c : CryptoOps) (key : Bytes) (x : List PItem) (a : PItem) :
    (vstate c key (x ++ [a])).last = some a.isEnd := by
  rw [vstate_snoc]; rfl

theorem vstate_inStep (c : CryptoOps) (key : Bytes) (items : List PItem)
    (hres : ∀ it ∈ items, it.resetAfter = true → it.isEnd = true) :
    InStep c key (pstate c key items) (vstate c key items) :=
  (verifyFrom_honest_prefix c key items (Calc.new c key) (VState.init c key) 0 [] (inStep_init c key) hres).1

/-- mid-chain the verifier holds the producer's calculator -/
theorem vcal_of_mid (c : CryptoOps) (key : Bytes) (items : List PItem)
    (hres : ∀ it ∈ items, it.resetAfter = true → it.isEnd = true) (hmid : (pstate c key items).prev.isSome) :
    vcal c key items = pstate c key items :=
  (vstate_inStep c key items hres).cal_eq hmid

/-- the producer's state is either mid-chain or a fresh calculator -/
theorem pstate_cases (c : CryptoOps) (key : Bytes) (items : List PItem) :
    (pstate c key items).prev.isSome ∨ pstate c key items = Calc.new c key := by
  rcases List.eq_nil_or_concat items with rfl | ⟨x, a, rfl⟩
  · right; rfl
  · rw [List.concat_eq_append, pstate_snoc]
    unfold nextCalc
    by_cases h : a.resetAfter = true
    · right; simp [h]
    · left; simp [h, Calc.step]

/-- **verification of an honest prefix followed by one more entry** -/
theorem verify_prefix_entry (c : CryptoOps) (key : Bytes) (pre : List PItem) (e : Entry) (rest : List Line)
    (hres : ∀ it ∈ pre, it.resetAfter = true → it.isEnd = true) :
    verify c key (honestLines c key pre ++ Line.entry e :: rest) =
      match (vstate c key pre).entry c key e with
      | .ok st' => verifyFrom c key st' (pre.length + 1) rest
      | .error k => .fail pre.length k := by
  obtain ⟨_, hv⟩ := verifyFrom_honest_prefix c key pre (Calc.new c key) (VState.init c key) 0 (Line.entry e :: rest)
    (inStep_init c key) hres
  unfold verify honestLines
  rw [hv]
  simp only [verifyFrom, Nat.zero_add]
  rfl

/-- how the verifier evaluates an entry that is not marked as a chain start -/
theorem entry_old (c : CryptoOps) (key : Bytes) (vs : VState) (e : Entry) (hnew : e.isNew = false) :
    vs.entry c key e =
      if e.tag = tagOf c vs.cal e.data then .ok ⟨(vs.cal.step c e.data).1, some e.isEnd⟩ else .error .mismatch := by
  by_cases ht : e.tag = c.sha256 (vs.cal.ic c e.data) <;> simp [VState.entry, hnew, Calc.step, tagOf, ht]

/-- how the verifier evaluates an entry marked as a chain start -/
theorem entry_new (c : CryptoOps) (key : Bytes) (vs : VState) (e : Entry) (hnew : e.isNew = true) :
    vs.entry c key e =
      if vs.last = some false then .error .missingEnd
      else if e.tag = tagOf c (Calc.new c key) e.data then .ok ⟨((Calc.new c key).step c e.data).1, some e.isEnd⟩
      else .error .mismatch := by
  by_cases hl : vs.last = some false
  · simp [VState.entry, hnew, hl]
  · have : (vs.last == some false) = false := by simpa using hl
    by_cases ht : e.tag = c.sha256 ((Calc.new c key).ic c e.data) <;> simp [VState.entry, hnew, hl, this, Calc.step, tagOf, ht]

/-- an in-step verifier evaluates an entry carrying the marker the producer would have written
(`isNew` iff the producer is at a chain start) with the producer's calculator -/
theorem entry_inStep_eval (c : CryptoOps) (key : Bytes) (st : Calc) (vs : VState) (e : Entry)
    (h : InStep c key st vs) (hm : e.isNew = st.prev.isNone) :
    vs.entry c key e =
      if e.tag = tagOf c st e.data then .ok ⟨(st.step c e.data).1, some e.isEnd⟩ else .error .mismatch := by
  rcases h with ⟨hp, hv⟩ | ⟨hs, hl⟩
  · have hn : e.isNew = false := by
      rw [hm]; cases hpp : st.prev with
      | none => rw [hpp] at hp; cases hp
      | some _ => rfl
    rw [entry_old c key vs e hn, hv]
  · have hn : e.isNew = true := by rw [hm, hs]; rfl
    have hl' : vs.last ≠ some false := by rcases hl with h | h <;> simp [h]
    rw [entry_new c key vs e hn, if_neg hl', hs]

/-- a foreign entry (not marked new) whose tag was made elsewhere is rejected by a verifier holding `cal` -/
theorem entry_old_foreign (c : CryptoOps) (key : Bytes) (vs : VState) (st' : Calc) (d' : Bytes) (e : Entry)
    (hnew : e.isNew = false) (htag : e.tag = tagOf c st' d') (hnc : NoCollision c vs.cal e.data st' d')
    (hdiff : vs.cal.key ≠ st'.key ∨ e.data ++ vs.cal.prev.getD [] ≠ d' ++ st'.prev.getD []) :
    vs.entry c key e = .error .mismatch :=
  entry_foreign_fails c key vs st' e hnew htag hnc.sha hnc.mac hdiff

/-! ### permutations: the first displaced position -/

/-- two different lists that are permutations of each other split at their first difference; the
element standing there in the permuted list comes from *later* in the original list -/
theorem perm_first_diff {α : Type} [DecidableEq α] : ∀ (l l' : List α), l'.Perm l → l' ≠ l →
    ∃ (common : List α) (x x' : α) (r r' : List α),
      l = common ++ x :: r ∧ l' = common ++ x' :: r' ∧ x' ≠ x ∧ x' ∈ r
  | [], l', hp, hne => by
    have := hp.eq_nil
    exact absurd this hne
  | x :: r, [], hp, _ => by
    have := hp.symm.eq_nil
    cases this
  | x :: r, x' :: r', hp, hne => by
    by_cases hx : x' = x
    · subst hx
      have hp' : r'.Perm r := List.Perm.cons_inv hp
      have hne' : r' ≠ r := by intro h; exact hne (by rw [h])
      obtain ⟨cm, y, y', s, s', h1, h2, h3, h4⟩ := perm_first_diff r r' hp' hne'
      exact ⟨x' :: cm, y, y', s, s', by rw [h1]; rfl, by rw [h2]; rfl, h3, h4⟩
    · refine ⟨[], x, x', r, r', rfl, rfl, hx, ?_⟩
      have : x' ∈ x :: r := hp.subset (List.mem_cons_self)
      rcases List.mem_cons.mp this with h | h
      · exact absurd h hx
      · exact h

/-- the entries the producer emits, by position -/
theorem mem_produce (c : CryptoOps) (key : Bytes) : ∀ (items : List PItem) (st : Calc) (e : Entry),
    e ∈ produce c key st items →
    ∃ (x : List PItem) (a : PItem) (y : List PItem), items = x ++ a :: y ∧
      e = entryAt c (stateAfter c key st x) a.data a.isEnd
  | [], _, _, h => by simp [produce] at h
  | it :: r, st, e, h => by
    simp only [produce, List.mem_cons] at h
    rcases h with rfl | h
    · exact ⟨[], it, r, rfl, rfl⟩
    · obtain ⟨x, a, y, h1, h2⟩ := mem_produce c key r _ e h
      exact ⟨it :: x, a, y, by rw [h1]; rfl, by rw [h2]; rfl⟩

theorem produce_cons (c : CryptoOps) (key : Bytes) (st : Calc) (m : PItem) (r : List PItem) :
    produce c key st (m :: r) = entryAt c st m.data m.isEnd :: produce c key (nextCalc c key st m) r := rfl

theorem honestLines_append (c : CryptoOps) (key : Bytes) (x y : List PItem) :
    honestLines c key (x ++ y) = honestLines c key x ++ (produce c key (pstate c key x) y).map Line.entry := by
  unfold honestLines pstate
  rw [produce_append, List.map_append]

/-- a split of the producer's output is a split of the history -/
theorem produce_split (c : CryptoOps) (key : Bytes) : ∀ (common : List Entry) (items : List PItem) (st : Calc) (e : Entry) (r : List Entry),
    produce c key st items = common ++ e :: r →
    ∃ (x : List PItem) (a : PItem) (y : List PItem), items = x ++ a :: y ∧ common = produce c key st x ∧
      e = entryAt c (stateAfter c key st x) a.data a.isEnd ∧
      r = produce c key (nextCalc c key (stateAfter c key st x) a) y
  | [], [], _, _, _, h => by simp [produce] at h
  | [], a :: y, st, e, r, h => by
    rw [produce_cons] at h
    simp only [List.nil_append, List.cons.injEq] at h
    exact ⟨[], a, y, rfl, rfl, h.1.symm, h.2.symm⟩
  | c0 :: cm, [], _, _, _, h => by simp [produce] at h
  | c0 :: cm, it :: its, st, e, r, h => by
    rw [produce_cons] at h
    simp only [List.cons_append, List.cons.injEq] at h
    obtain ⟨x, a, y, h1, h2, h3, h4⟩ := produce_split c key cm its _ e r h.2
    refine ⟨it :: x, a, y, by rw [h1]; rfl, ?_, h3, h4⟩
    rw [produce_cons, ← h2, h.1]

theorem stateAfter_prev_some (c : CryptoOps) (key : Bytes) : ∀ (z : List PItem) (st : Calc),
    st.prev.isSome → (∀ m ∈ z, m.resetAfter = false) → (stateAfter c key st z).prev.isSome
  | [], _, h, _ => h
  | m :: z, st, _, hz => by
    simp only [stateAfter]
    apply stateAfter_prev_some c key z _ _ (fun x hx => hz x (List.mem_cons_of_mem _ hx))
    simp [hz m List.mem_cons_self, Calc.step]

theorem nextCalc_prev_some (c : CryptoOps) (key : Bytes) (st : Calc) (a : PItem) (h : a.resetAfter = false) :
    (nextCalc c key st a).prev.isSome := by
  simp [nextCalc, h, Calc.step]

theorem nextCalc_noreset (c : CryptoOps) (key : Bytes) (st : Calc) (a : PItem) (h : a.resetAfter = false) :
    nextCalc c key st a = (st.step c a.data).1 := by
  simp [nextCalc, h]

/-- after `a` and further entries of the same chain the producer is mid-chain -/
theorem pstate_chain_prev_some (c : CryptoOps) (key : Bytes) (pre : List PItem) (a : PItem) (z : List PItem)
    (ha : a.resetAfter = false) (hz : ∀ m ∈ z, m.resetAfter = false) :
    (pstate c key (pre ++ a :: z)).prev.isSome := by
  rw [pstate_append]
  simp only [stateAfter]
  exact stateAfter_prev_some c key z _ (nextCalc_prev_some c key _ a ha) hz

theorem entryAt_isNew_false (c : CryptoOps) (st : Calc) (d : Bytes) (e : Bool) (h : st.prev.isSome) :
    (entryAt c st d e).isNew = false := by
  cases hp : st.prev with
  | none => rw [hp] at h; cases h
  | some _ => simp [entryAt, hp]

end AcraModel.AuditLog
