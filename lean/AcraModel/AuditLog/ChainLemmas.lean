import AcraModel.AuditLog.Chain
/-!
Helper lemmas about the chain model: the verifier stays in step with the producer (used for
`honest_verifies`), and the one-step detection lemma (used for every alteration theorem).
-/
namespace AcraModel.AuditLog
open AcraModel

/-- the protected entries of a log, in order -/
def entriesOf : List Line → List Entry
  | [] => []
  | .entry e :: r => e :: entriesOf r
  | _ :: r => entriesOf r

/-- producer state after a sequence of log calls -/
def stateAfter (c : CryptoOps) (key : Bytes) (st : Calc) : List PItem → Calc
  | [] => st
  | it :: r => stateAfter c key (if it.resetAfter then Calc.new c key else (st.step c it.data).1) r

/-- The verifier is *in step* with a producer in calculator state `st`:
mid-chain it holds the same calculator; at a chain start it has either verified nothing yet or
its last verified entry was an end-of-chain entry (so a `chain=new` entry is acceptable). -/
def InStep (c : CryptoOps) (key : Bytes) (st : Calc) (vs : VState) : Prop :=
  (st.prev.isSome ∧ vs.cal = st) ∨ (st = Calc.new c key ∧ (vs.last = none ∨ vs.last = some true))

theorem inStep_init (c : CryptoOps) (key : Bytes) : InStep c key (Calc.new c key) (VState.init c key) :=
  Or.inr ⟨rfl, Or.inl rfl⟩

/-- verifier state after accepting the entry produced for `it` -/
def vsAfter (c : CryptoOps) (st : Calc) (it : PItem) : VState := ⟨(st.step c it.data).1, some it.isEnd⟩

/-- one honest entry is accepted by a verifier that is in step, and it stays in step -/
theorem entry_inStep (c : CryptoOps) (key : Bytes) (st : Calc) (vs : VState) (it : PItem)
    (h : InStep c key st vs) (hr : it.resetAfter = true → it.isEnd = true) :
    vs.entry c key ⟨it.data, (st.step c it.data).2.1, (st.step c it.data).2.2, it.isEnd⟩ = .ok (vsAfter c st it) ∧
    InStep c key (if it.resetAfter then Calc.new c key else (st.step c it.data).1) (vsAfter c st it) := by
  have hnext : InStep c key (if it.resetAfter then Calc.new c key else (st.step c it.data).1) (vsAfter c st it) := by
    by_cases hra : it.resetAfter = true
    · right
      simp [hra, vsAfter, hr hra]
    · left
      simp [hra, vsAfter, Calc.step]
  refine ⟨?_, hnext⟩
  rcases h with ⟨hp, hv⟩ | ⟨hs, hl⟩
  · -- mid-chain: the entry is not marked new
    have hnew : (st.step c it.data).2.2 = false := by
      simp only [Calc.step]
      cases hpp : st.prev with
      | none => rw [hpp] at hp; cases hp
      | some _ => rfl
    simp [VState.entry, hnew, hv, vsAfter]
  · -- chain start: marked new; the verifier restarts its calculator
    subst hs
    have hnew : ((Calc.new c key).step c it.data).2.2 = true := by simp [Calc.step, Calc.new]
    have hl' : (vs.last == some false) = false := by
      rcases hl with h | h <;> simp [h]
    simp only [VState.entry, hnew, hl', vsAfter, Bool.and_false, Bool.false_eq_true, if_false, if_true]

/-- **sync lemma**: a log whose protected entries are exactly what the producer emits (any number of
unprotected lines in between, no unparsable line) verifies from any in-step state. -/
theorem verifyFrom_honest (c : CryptoOps) (key : Bytes) :
    ∀ (ls : List Line) (items : List PItem) (st : Calc) (vs : VState) (i : Nat),
      InStep c key st vs → (∀ it ∈ items, it.resetAfter = true → it.isEnd = true) →
      (∀ l ∈ ls, l ≠ Line.bad) → entriesOf ls = produce c key st items →
      verifyFrom c key vs i ls = .ok := by
  intro ls
  induction ls with
  | nil => intros; rfl
  | cons l r ih =>
    intro items st vs i hstep hres hbad hent
    cases l with
    | skip =>
      simp only [verifyFrom]
      exact ih items st vs (i + 1) hstep hres (fun l hl => hbad l (List.mem_cons_of_mem _ hl)) (by simpa [entriesOf] using hent)
    | bad => exact absurd rfl (hbad _ (List.mem_cons_self))
    | entry e =>
      cases items with
      | nil => simp [entriesOf, produce] at hent
      | cons it rest =>
        simp only [entriesOf, produce, List.cons.injEq] at hent
        obtain ⟨he, hrest⟩ := hent
        have := entry_inStep c key st vs it hstep (hres it (List.mem_cons_self))
        simp only [verifyFrom]
        rw [he, this.1]
        exact ih rest _ _ (i + 1) this.2 (fun x hx => hres x (List.mem_cons_of_mem _ hx))
          (fun l hl => hbad l (List.mem_cons_of_mem _ hl)) hrest

/-- producer's next calculator state -/
def nextCalc (c : CryptoOps) (key : Bytes) (st : Calc) (it : PItem) : Calc :=
  if it.resetAfter then Calc.new c key else (st.step c it.data).1

/-- verifier state after accepting the entries of an honest prefix -/
def vsRun (c : CryptoOps) (key : Bytes) (st : Calc) (vs : VState) : List PItem → VState
  | [] => vs
  | it :: r => vsRun c key (nextCalc c key st it) (vsAfter c st it) r

theorem stateAfter_eq (c : CryptoOps) (key : Bytes) (st : Calc) (it : PItem) (r : List PItem) :
    stateAfter c key st (it :: r) = stateAfter c key (nextCalc c key st it) r := rfl

/-- **prefix lemma**: verifying an honest prefix followed by anything continues, after the prefix,
from the explicit state `vsRun`, which is in step with the producer. -/
theorem verifyFrom_honest_prefix (c : CryptoOps) (key : Bytes) :
    ∀ (items : List PItem) (st : Calc) (vs : VState) (i : Nat) (rest : List Line),
      InStep c key st vs → (∀ it ∈ items, it.resetAfter = true → it.isEnd = true) →
      InStep c key (stateAfter c key st items) (vsRun c key st vs items) ∧
        verifyFrom c key vs i ((produce c key st items).map Line.entry ++ rest) =
          verifyFrom c key (vsRun c key st vs items) (i + items.length) rest := by
  intro items
  induction items with
  | nil => intro st vs i rest h _; exact ⟨h, by simp [produce, vsRun]⟩
  | cons it r ih =>
    intro st vs i rest hstep hres
    have h1 := entry_inStep c key st vs it hstep (hres it (List.mem_cons_self))
    have h2 := ih (nextCalc c key st it) (vsAfter c st it) (i + 1) rest h1.2
      (fun x hx => hres x (List.mem_cons_of_mem _ hx))
    refine ⟨h2.1, ?_⟩
    simp only [produce, List.map_cons, List.cons_append, verifyFrom, h1.1, List.length_cons, vsRun]
    rw [show (if it.resetAfter = true then Calc.new c key else (st.step c it.data).1) = nextCalc c key st it from rfl, h2.2]
    congr 1
    omega

/-- mid-chain the in-step verifier holds exactly the producer's calculator -/
theorem InStep.cal_eq {c : CryptoOps} {key : Bytes} {st : Calc} {vs : VState} (h : InStep c key st vs)
    (hp : st.prev.isSome) : vs.cal = st := by
  rcases h with ⟨_, hv⟩ | ⟨hs, _⟩
  · exact hv
  · rw [hs] at hp; simp [Calc.new] at hp

/-! ### one-step detection -/

/-- the tag the producer writes for `data` in calculator state `st` -/
def tagOf (c : CryptoOps) (st : Calc) (data : Bytes) : Bytes := c.sha256 (st.ic c data)

theorem step_tag (c : CryptoOps) (st : Calc) (d : Bytes) : (st.step c d).2.1 = tagOf c st d := rfl

/-- **One-step detection.** A verifier whose calculator is `cal` meets an entry (not marked as a chain
start) whose tag was made in another calculator state `st'` for data `d'`. If the two HMAC inputs
differ (other key, or other `data ‖ prev`), the entry is rejected – provided SHA-256 does not collide
on the two HMAC values and HMAC does not collide on the two inputs. -/
theorem entry_foreign_fails (c : CryptoOps) (key : Bytes) (vs : VState) (st' : Calc) (e : Entry)
    (hnew : e.isNew = false) (htag : e.tag = tagOf c st' d')
    (hsha : c.sha256 (vs.cal.ic c e.data) = c.sha256 (st'.ic c d') → vs.cal.ic c e.data = st'.ic c d')
    (hmac : c.hmac vs.cal.key (e.data ++ vs.cal.prev.getD []) = c.hmac st'.key (d' ++ st'.prev.getD []) →
      vs.cal.key = st'.key ∧ e.data ++ vs.cal.prev.getD [] = d' ++ st'.prev.getD [])
    (hdiff : vs.cal.key ≠ st'.key ∨ e.data ++ vs.cal.prev.getD [] ≠ d' ++ st'.prev.getD []) :
    vs.entry c key e = .error .mismatch := by
  have hne : e.tag ≠ (vs.cal.step c e.data).2.1 := by
    rw [htag, step_tag]
    intro h
    have h1 := hsha h.symm
    have h2 := hmac h1
    rcases hdiff with hd | hd
    · exact hd h2.1
    · exact hd h2.2
  simp [VState.entry, hnew, hne]

end AcraModel.AuditLog
