import AcraModel.AuditLog.Parse
/-!
Helper lemmas for the render/parse theorem of the plaintext audit-log line format.
-/
namespace AcraModel.AuditLog
open AcraModel Generated.AuditLog

/-! ### `lastIndexOf` -/

theorem lastIndexOf_append_tok (tok : Bytes) (a t : Bytes)
    (hlater : lastIndexOf tok (tok ++ t).tail = none) (hne : tok ≠ []) :
    lastIndexOf tok (a ++ tok ++ t) = some a.length := by
  induction a with
  | nil =>
    cases tok with
    | nil => exact absurd rfl hne
    | cons x tk =>
      simp only [List.nil_append, List.cons_append, List.tail_cons] at hlater ⊢
      simp [lastIndexOf, hlater]
  | cons y a ih =>
    simp only [List.cons_append, List.append_assoc] at ih ⊢
    simp [lastIndexOf, ih]

/-- a stretch of bytes that are not the token's first byte cannot host the start of an occurrence -/
theorem lastIndexOf_skip (sp : UInt8) (tk u v : Bytes) (hu : ∀ x ∈ u, x ≠ sp)
    (hv : lastIndexOf (sp :: tk) v = none) : lastIndexOf (sp :: tk) (u ++ v) = none := by
  induction u with
  | nil => simpa using hv
  | cons x u ih =>
    have hx : x ≠ sp := hu x (List.mem_cons_self)
    have := ih (fun y hy => hu y (List.mem_cons_of_mem _ hy))
    simp only [List.cons_append, lastIndexOf, this]
    have : (sp :: tk).isPrefixOf (x :: (u ++ v)) = false := by
      simp [List.isPrefixOf, Ne.symm hx]
    simp [this]

/-! ### hex -/

theorem hexNib_ne_space (n : Nat) (h : n < 16) : hexNib n ≠ 32 := by
  have : ∀ m : Fin 16, hexNib m.val ≠ 32 := by decide
  exact this ⟨n, h⟩

theorem nibVal_hexNib (n : Nat) (h : n < 16) : nibVal (hexNib n) = some n := by
  have : ∀ m : Fin 16, nibVal (hexNib m.val) = some m.val := by decide
  exact this ⟨n, h⟩

theorem hexEnc_ne_space (b : Bytes) : ∀ x ∈ hexEnc b, x ≠ 32 := by
  induction b with
  | nil => simp [hexEnc]
  | cons y r ih =>
    intro x hx
    simp only [hexEnc, List.flatMap_cons, List.mem_append, List.mem_cons, List.not_mem_nil, or_false] at hx
    have hy := y.toNat_lt
    rcases hx with (h | h) | h
    · rw [h]; exact hexNib_ne_space _ (by omega)
    · rw [h]; exact hexNib_ne_space _ (by omega)
    · exact ih x (by simpa [hexEnc] using h)

theorem hexDec_hexEnc (b : Bytes) : hexDec (hexEnc b) = some b := by
  induction b with
  | nil => rfl
  | cons y r ih =>
    have hy := y.toNat_lt
    have e : hexEnc (y :: r) = hexNib (y.toNat / 16) :: hexNib (y.toNat % 16) :: hexEnc r := by
      simp [hexEnc]
    rw [e]
    simp only [hexDec, nibVal_hexNib _ (show y.toNat / 16 < 16 by omega), nibVal_hexNib _ (show y.toNat % 16 < 16 by omega), ih]
    have : 16 * (y.toNat / 16) + y.toNat % 16 = y.toNat := by omega
    show some (UInt8.ofNat (16 * (y.toNat / 16) + y.toNat % 16) :: r) = some (y :: r)
    rw [this]
    simp

/-- a hex string does not end in the 10-byte marker ` chain=new` (whose last byte is `w`) -/
theorem hexEnc_not_new (b : Bytes) : hasSuffix newSuffix (hexEnc b) = false := by
  have hw : ∀ m : Fin 16, hexNib m.val ≠ 119 := by decide
  unfold hasSuffix
  have hrev : newSuffix.reverse = 119 :: (strB " chain=ne").reverse := by decide
  rw [hrev]
  cases h : (hexEnc b).reverse with
  | nil => simp [List.isPrefixOf]
  | cons x r =>
    have hx : x ∈ hexEnc b := by
      have : x ∈ (hexEnc b).reverse := by rw [h]; exact List.mem_cons_self
      simpa using this
    have hne : x ≠ 119 := by
      clear h
      induction b with
      | nil => simp [hexEnc] at hx
      | cons y t ih =>
        have hy := y.toNat_lt
        simp only [hexEnc, List.flatMap_cons, List.mem_append, List.mem_cons, List.not_mem_nil, or_false] at hx
        rcases hx with (h | h) | h
        · rw [h]; exact hw ⟨_, by omega⟩
        · rw [h]; exact hw ⟨_, by omega⟩
        · exact ih (by simpa [hexEnc] using h)
    simp [List.isPrefixOf, Ne.symm hne]

theorem hasSuffix_append (suf s : Bytes) : hasSuffix suf (s ++ suf) = true := by
  unfold hasSuffix
  simp [List.reverse_append, List.isPrefixOf_iff_prefix]

end AcraModel.AuditLog

namespace AcraModel.AuditLog
open AcraModel Generated.AuditLog

/-! ### `strings.TrimSpace` leaves a string alone whose first and last bytes are ordinary ASCII -/

/-- an ASCII byte that is not white space -/
def plainByte (x : UInt8) : Bool := !asciiSpace x && x.toNat < 128

def headHigh (u : Bytes) : Bool := match u with | h :: _ => decide (128 ≤ h.toNat) | [] => false

theorem headHigh_spec {u : Bytes} (h : headHigh u = true) : ∃ x t, u = x :: t ∧ 128 ≤ x.toNat := by
  cases u with
  | nil => simp [headHigh] at h
  | cons x t => exact ⟨x, t, rfl, by simpa [headHigh] using h⟩

theorem uni_heads : ∀ u ∈ uniSpaces, ∃ h t, u = h :: t ∧ 128 ≤ h.toNat := by
  have : ∀ u ∈ uniSpaces, headHigh u = true := by decide
  exact fun u hu => headHigh_spec (this u hu)

theorem uni_lasts : ∀ u ∈ uniSpaces, ∃ h t, u.reverse = h :: t ∧ 128 ≤ h.toNat := by
  have : ∀ u ∈ uniSpaces, headHigh u.reverse = true := by decide
  exact fun u hu => headHigh_spec (this u hu)

theorem find_uni_none (x : UInt8) (r : Bytes) (hx : x.toNat < 128) :
    (uniSpaces.find? fun u => u.isPrefixOf (x :: r)) = none := by
  rw [List.find?_eq_none]
  intro u hu
  obtain ⟨h, t, rfl, hh⟩ := uni_heads u hu
  have : h ≠ x := by intro e; subst e; omega
  simp [List.isPrefixOf, this]

theorem find_uni_rev_none (x : UInt8) (r : Bytes) (hx : x.toNat < 128) :
    (uniSpaces.find? fun u => u.reverse.isPrefixOf (x :: r)) = none := by
  rw [List.find?_eq_none]
  intro u hu
  obtain ⟨h, t, he, hh⟩ := uni_lasts u hu
  have : h ≠ x := by intro e; subst e; omega
  simp [he, List.isPrefixOf, this]

theorem trimLeft_plain (f : Nat) (x : UInt8) (r : Bytes) (hp : plainByte x = true) : trimLeft f (x :: r) = x :: r := by
  simp only [plainByte, Bool.and_eq_true, Bool.not_eq_true', decide_eq_true_eq] at hp
  cases f with
  | zero => rfl
  | succ f => simp [trimLeft, hp.1, find_uni_none x r hp.2]

theorem trimRight_plain (f : Nat) (s : Bytes) (x : UInt8) (r : Bytes) (hs : s.reverse = x :: r)
    (hp : plainByte x = true) : trimRight f s = s := by
  simp only [plainByte, Bool.and_eq_true, Bool.not_eq_true', decide_eq_true_eq] at hp
  unfold trimRight
  rw [hs]
  have hback : (x :: r).reverse = s := by rw [← hs, List.reverse_reverse]
  cases f with
  | zero => simpa [trimRight.go] using hback
  | succ f =>
    simp only [trimRight.go, hp.1, Bool.false_eq_true, if_false, find_uni_rev_none x r hp.2]
    exact hback

/-- a string that starts and ends with ordinary ASCII bytes is not changed by `TrimSpace` -/
theorem trimSpace_plain (s : Bytes) (x y : UInt8) (r r' : Bytes) (h1 : s = x :: r) (h2 : s.reverse = y :: r')
    (hx : plainByte x = true) (hy : plainByte y = true) : trimSpace s = s := by
  unfold trimSpace
  rw [h1, trimLeft_plain _ x r hx, ← h1]
  exact trimRight_plain _ s y r' h2 hy

theorem hexNib_plain (n : Nat) (h : n < 16) : plainByte (hexNib n) = true := by
  have : ∀ m : Fin 16, plainByte (hexNib m.val) = true := by decide
  exact this ⟨n, h⟩

end AcraModel.AuditLog

namespace AcraModel.AuditLog
open AcraModel Generated.AuditLog

/-- the part of a rendered line after the split token: hex tag, then ` chain=new` for a chain start -/
def tagPart (tag : Bytes) (new : Bool) : Bytes := hexEnc tag ++ (if new then newSuffix else [])

/-- the CEF parser's `TrimSpace` does not touch the tag part of a line the hook wrote (the tag is not empty) -/
theorem trimSpace_tagPart (tag : Bytes) (new : Bool) (hne : tag ≠ []) : trimSpace (tagPart tag new) = tagPart tag new := by
  cases tag with
  | nil => exact absurd rfl hne
  | cons y t =>
    have hy := y.toNat_lt
    have hhead : tagPart (y :: t) new = hexNib (y.toNat / 16) :: (hexNib (y.toNat % 16) :: hexEnc t ++ (if new then newSuffix else [])) := by
      simp [tagPart, hexEnc]
    -- the last byte
    have hlast : ∃ z r', (tagPart (y :: t) new).reverse = z :: r' ∧ plainByte z = true := by
      cases new with
      | true =>
        refine ⟨119, (strB " chain=ne").reverse ++ (hexEnc (y :: t)).reverse, ?_, by decide⟩
        have : newSuffix.reverse = 119 :: (strB " chain=ne").reverse := by decide
        simp [tagPart, List.reverse_append, this]
      | false =>
        rcases List.eq_nil_or_concat (y :: t) with h | ⟨init, l, h⟩
        · cases h
        · have hl := l.toNat_lt
          refine ⟨hexNib (l.toNat % 16), hexNib (l.toNat / 16) :: (hexEnc init).reverse, ?_, hexNib_plain _ (by omega)⟩
          rw [h]
          simp [tagPart, hexEnc, List.flatMap_append, List.reverse_append]
    obtain ⟨z, r', hz, hpz⟩ := hlast
    exact trimSpace_plain _ _ z _ r' hhead hz (hexNib_plain _ (by omega)) hpz

end AcraModel.AuditLog

namespace AcraModel.AuditLog
open AcraModel Generated.AuditLog

/-- cutting a rendered line at the LAST split token gives back the entry and the tag part, whatever
the entry contains -/
theorem cut_last_rendered (data tag : Bytes) (new : Bool) :
    cut .last (data ++ splitTok ++ tagPart tag new) = some (data, tagPart tag new) := by
  have htok : splitTok = 32 :: strB "integrity=" := by decide
  have hl : lastIndexOf splitTok (splitTok ++ tagPart tag new).tail = none := by
    unfold tagPart
    rw [htok, List.cons_append, List.tail_cons, ← List.append_assoc]
    apply lastIndexOf_skip
    · intro x hx
      rcases List.mem_append.mp hx with h | h
      · have hc : ∀ y ∈ strB "integrity=", y ≠ 32 := by decide
        exact hc x h
      · exact hexEnc_ne_space tag x h
    · cases new <;> decide
  have := lastIndexOf_append_tok splitTok data (tagPart tag new) hl (by rw [htok]; simp)
  simp only [cut]
  rw [this]
  have e1 : (data ++ splitTok ++ tagPart tag new).take data.length = data := by simp [List.append_assoc]
  have e2 : (data ++ splitTok ++ tagPart tag new).drop (data.length + splitTok.length) = tagPart tag new := by
    rw [← List.length_append]
    exact List.drop_left
  simp only [Option.map_some, e1, e2]

/-- what the parser does with the tag part: the marker and the tag come back -/
theorem tagPart_parse (tag : Bytes) (new : Bool) :
    hasSuffix newSuffix (tagPart tag new) = new ∧
      hexDec (if new then (tagPart tag new).take ((tagPart tag new).length - newSuffix.length) else tagPart tag new) = some tag := by
  have h10 : newSuffix.length = 10 := by decide
  cases new with
  | false => simp [tagPart, hexEnc_not_new, hexDec_hexEnc]
  | true => simp [tagPart, hasSuffix_append, hexDec_hexEnc, h10]

theorem rendered_nonempty (data t : Bytes) : (data ++ splitTok ++ t).isEmpty = false := by
  have htok : splitTok = 32 :: strB "integrity=" := by decide
  rw [htok]; simp

end AcraModel.AuditLog

namespace AcraModel.AuditLog
open AcraModel Generated.AuditLog

/-! ### the file reader gives back the lines that were written -/

theorem rawLines_line (l rest acc : Bytes) (hl : ∀ x ∈ l, x ≠ 10) :
    rawLines (l ++ 10 :: rest) acc = (acc.reverse ++ l) :: rawLines rest [] := by
  induction l generalizing acc with
  | nil => simp [rawLines]
  | cons x t ih =>
    have hx : x ≠ 10 := hl x List.mem_cons_self
    have := ih (x :: acc) (fun y hy => hl y (List.mem_cons_of_mem _ hy))
    simp only [List.cons_append]
    rw [rawLines]
    · rw [this]; simp
    · exact hx

/-- writing each line followed by `\n` and splitting again is the identity on lines without `\n` -/
theorem rawLines_join (ls : List Bytes) (h : ∀ l ∈ ls, ∀ x ∈ l, x ≠ 10) :
    rawLines (ls.flatMap fun l => l ++ [10]) [] = ls := by
  induction ls with
  | nil => rfl
  | cons l r ih =>
    simp only [List.flatMap_cons, List.append_assoc, List.singleton_append]
    rw [rawLines_line l _ [] (h l List.mem_cons_self), ih (fun m hm => h m (List.mem_cons_of_mem _ hm))]
    simp

theorem dropCR_id (l : Bytes) (h : l.getLast? ≠ some 13) : dropCR l = l := by
  unfold dropCR
  split
  · next r heq =>
    exfalso
    apply h
    rw [List.getLast?_eq_head?_reverse, heq]
    rfl
  · rfl

/-! ### the read loop of `processLogFile` in the statement order the code has -/

/-- the loop as it stands in the code: a (non-empty) line is delivered BEFORE `io.EOF` ends the function -/
def stdLoop : List String := ["read", "return-err", "deliver", "return-eof"]
def stdTrims : List String := ["\n", "\r"]

theorem loopBody_std (chunk : Bytes) (eof : Bool) :
    loopBody stdLoop chunk eof = (if chunk.isEmpty then [] else [chunk], eof) := by
  cases eof <;> cases h : chunk.isEmpty <;> simp [loopBody, stdLoop, h]

theorem readChunks_std_nil (acc : Bytes) :
    readChunks stdLoop [] acc = if acc.isEmpty then [] else [acc.reverse] := by
  simp [readChunks, loopBody_std]

theorem readChunks_std_lf (r acc : Bytes) :
    readChunks stdLoop (10 :: r) acc = (acc.reverse ++ [10]) :: readChunks stdLoop r [] := by
  simp [readChunks, loopBody_std]

theorem readChunks_std_other (x : UInt8) (r acc : Bytes) (hx : x ≠ 10) :
    readChunks stdLoop (x :: r) acc = readChunks stdLoop r (x :: acc) := by
  simp [readChunks, hx]

/-- **no byte is dropped**: the raw chunks handed to the delivering branch, put one after the other, are
the file (an unterminated last line included) -/
theorem readChunks_std_flatten : ∀ (file acc : Bytes), (readChunks stdLoop file acc).flatten = acc.reverse ++ file := by
  intro file
  induction file with
  | nil =>
    intro acc
    rw [readChunks_std_nil]
    cases acc <;> simp
  | cons x r ih =>
    intro acc
    by_cases hx : x = 10
    · subst hx
      rw [readChunks_std_lf, List.flatten_cons, ih []]
      simp
    · rw [readChunks_std_other x r acc hx, ih (x :: acc)]
      simp

/-- every chunk is a non-empty piece without `\n` before its last byte -/
theorem readChunks_std_shape : ∀ (file acc : Bytes), (∀ x ∈ acc, x ≠ 10) →
    ∀ ch ∈ readChunks stdLoop file acc, ch ≠ [] ∧ ∀ x ∈ ch.dropLast, x ≠ 10 := by
  intro file
  induction file with
  | nil =>
    intro acc hacc ch hch
    rw [readChunks_std_nil] at hch
    cases acc with
    | nil => simp at hch
    | cons a t =>
      simp only [List.isEmpty_cons, Bool.false_eq_true, if_false, List.mem_singleton] at hch
      subst hch
      refine ⟨by simp, fun x hx => ?_⟩
      have : x ∈ (a :: t).reverse := List.dropLast_subset _ hx
      exact hacc x (List.mem_reverse.mp this)
  | cons x r ih =>
    intro acc hacc ch hch
    by_cases hx : x = 10
    · subst hx
      rw [readChunks_std_lf, List.mem_cons] at hch
      rcases hch with rfl | hch
      · refine ⟨by simp, fun x hx => ?_⟩
        rw [List.dropLast_concat] at hx
        exact hacc x (List.mem_reverse.mp hx)
      · exact ih [] (by simp) ch hch
    · rw [readChunks_std_other x r acc hx] at hch
      exact ih (x :: acc) (by
        intro y hy
        rcases List.mem_cons.mp hy with rfl | hy
        · exact hx
        · exact hacc y hy) ch hch

/-- every chunk but the last ends in `\n` (so the chunks are the MAXIMAL newline-free pieces with their terminators) -/
theorem readChunks_std_terminated : ∀ (file acc : Bytes),
    ∀ ch ∈ (readChunks stdLoop file acc).dropLast, ch.getLast? = some 10 := by
  intro file
  induction file with
  | nil =>
    intro acc ch hch
    rw [readChunks_std_nil] at hch
    cases acc <;> simp at hch
  | cons x r ih =>
    intro acc ch hch
    by_cases hx : x = 10
    · subst hx
      rw [readChunks_std_lf] at hch
      by_cases hr : readChunks stdLoop r [] = []
      · rw [hr] at hch; simp at hch
      · rw [List.dropLast_cons_of_ne_nil hr, List.mem_cons] at hch
        rcases hch with rfl | hch
        · simp
        · exact ih [] ch hch
    · rw [readChunks_std_other x r acc hx] at hch
      exact ih (x :: acc) ch hch

/-! ### the trimmed lines are the specification's lines -/

theorem strB_lf : strB "\n" = [10] := by decide
theorem strB_cr : strB "\r" = [13] := by decide

theorem trimLine_std (ch : Bytes) : trimLine stdTrims ch = trimSuffix [13] (trimSuffix [10] ch) := by
  simp [trimLine, stdTrims, strB_lf, strB_cr]

theorem hasSuffix_one (b : UInt8) (l : Bytes) : hasSuffix [b] l = (l.getLast? == some b) := by
  unfold hasSuffix
  rw [List.getLast?_eq_head?_reverse]
  cases l.reverse with
  | nil => simp
  | cons y t =>
    have : [b].isPrefixOf (y :: t) = (b == y) := by
      simp [List.isPrefixOf]
    rw [List.reverse_singleton, this, Bool.eq_iff_iff]
    simp only [List.head?_cons, beq_iff_eq, Option.some.injEq]
    exact ⟨Eq.symm, Eq.symm⟩

theorem trimSuffix_concat (b : UInt8) (l : Bytes) : trimSuffix [b] (l ++ [b]) = l := by
  unfold trimSuffix
  rw [hasSuffix_one]
  simp

theorem trimSuffix_none (b : UInt8) (l : Bytes) (h : l.getLast? ≠ some b) : trimSuffix [b] l = l := by
  unfold trimSuffix
  rw [hasSuffix_one]
  simp [h]

theorem trimSuffix_cr (l : Bytes) : trimSuffix [13] l = dropCR l := by
  by_cases h : l.getLast? = some 13
  · obtain ⟨t, rfl⟩ : ∃ t, l = t ++ [13] := by
      rcases List.eq_nil_or_concat l with rfl | ⟨t, y, rfl⟩
      · simp at h
      · rw [List.concat_eq_append] at h ⊢
        simp at h; subst h; exact ⟨t, rfl⟩
    rw [trimSuffix_concat]
    simp [dropCR]
  · rw [trimSuffix_none 13 l h, dropCR_id l h]

theorem getLast?_ne_of_not_mem (b : UInt8) (l : Bytes) (h : ∀ x ∈ l, x ≠ b) : l.getLast? ≠ some b := by
  intro hl
  exact h b (List.mem_of_getLast? hl) rfl

/-- with the loop in the order of the code, the delivered lines are `rawLines` (split at every `\n`, an
unterminated last line counts) with one trailing `\r` removed -/
theorem readChunks_std_lines : ∀ (file acc : Bytes), (∀ x ∈ acc, x ≠ 10) →
    (readChunks stdLoop file acc).map (trimLine stdTrims) = (rawLines file acc).map dropCR := by
  intro file
  induction file with
  | nil =>
    intro acc hacc
    rw [readChunks_std_nil]
    cases acc with
    | nil => simp [rawLines]
    | cons a t =>
      simp only [List.isEmpty_cons, Bool.false_eq_true, if_false, rawLines, List.map_cons, List.map_nil]
      rw [trimLine_std, trimSuffix_none 10 _ (getLast?_ne_of_not_mem 10 _ (fun x hx => hacc x (List.mem_reverse.mp hx))),
        trimSuffix_cr]
  | cons x r ih =>
    intro acc hacc
    by_cases hx : x = 10
    · subst hx
      rw [readChunks_std_lf]
      simp only [rawLines, List.map_cons]
      rw [ih [] (by simp), trimLine_std, trimSuffix_concat, trimSuffix_cr]
    · rw [readChunks_std_other x r acc hx]
      have : rawLines (x :: r) acc = rawLines r (x :: acc) := by
        rw [rawLines]
        exact hx
      rw [this]
      exact ih (x :: acc) (by
        intro y hy
        rcases List.mem_cons.mp hy with rfl | hy
        · exact hx
        · exact hacc y hy)

theorem scanLinesWith_std (file : Bytes) :
    scanLinesWith "reader" stdLoop stdTrims file = (rawLines file []).map dropCR := by
  unfold scanLinesWith
  simp only [show ("reader" = "scanner") = False by decide, if_false]
  exact readChunks_std_lines file [] (by simp)

/-- **the reader (after the repair: no length limit) returns exactly the lines written**, provided no
line contains a line feed or ends in a carriage return -/
theorem scanLines_join (ls : List Bytes) (h : ∀ l ∈ ls, (∀ x ∈ l, x ≠ 10) ∧ l.getLast? ≠ some 13) :
    scanLinesWith "reader" stdLoop stdTrims (ls.flatMap fun l => l ++ [10]) = ls := by
  rw [scanLinesWith_std, rawLines_join ls (fun l hl => (h l hl).1)]
  rw [List.map_congr_left (fun l hl => dropCR_id l (h l hl).2)]
  simp

/-- an unterminated piece without `\n` is one line -/
theorem rawLines_tail (l acc : Bytes) (hl : ∀ x ∈ l, x ≠ 10) :
    rawLines l acc = if (acc.reverse ++ l).isEmpty then [] else [acc.reverse ++ l] := by
  induction l generalizing acc with
  | nil => cases acc <;> simp [rawLines]
  | cons x t ih =>
    have hx : x ≠ 10 := hl x List.mem_cons_self
    rw [rawLines]
    · rw [ih (x :: acc) (fun y hy => hl y (List.mem_cons_of_mem _ hy))]
      simp
    · exact hx

theorem rawLines_join_append (ls : List Bytes) (rest : Bytes) (h : ∀ l ∈ ls, ∀ x ∈ l, x ≠ 10) :
    rawLines ((ls.flatMap fun l => l ++ [10]) ++ rest) [] = ls ++ rawLines rest [] := by
  induction ls with
  | nil => rfl
  | cons l r ih =>
    simp only [List.flatMap_cons, List.append_assoc, List.cons_append]
    rw [rawLines_line l _ [] (h l List.mem_cons_self)]
    simp only [List.nil_append, List.reverse_nil]
    rw [ih (fun m hm => h m (List.mem_cons_of_mem _ hm))]

/-- **a file made of clean lines is read back as exactly these lines – with or without the final `\n`**
(without it the last line must not be empty: an empty unterminated line is no line at all) -/
theorem scanLines_fileOf (ls : List Bytes) (term : Bool)
    (h : ∀ l ∈ ls, (∀ x ∈ l, x ≠ 10) ∧ l.getLast? ≠ some 13)
    (hlast : term = false → ls.getLast? ≠ some []) :
    scanLinesWith "reader" stdLoop stdTrims (fileOf ls term) = ls := by
  cases term with
  | true => exact scanLines_join ls h
  | false =>
    rcases List.eq_nil_or_concat ls with rfl | ⟨init, last, rfl⟩
    · simp [fileOf, scanLinesWith_std, rawLines]
    · rw [List.concat_eq_append] at h hlast ⊢
      have hne : last ≠ [] := by
        intro hl; apply hlast rfl; simp [hl]
      have hfile : fileOf (init ++ [last]) false = (init.flatMap fun l => l ++ [10]) ++ last := by
        simp only [fileOf, Bool.false_eq_true, if_false, List.flatMap_append, List.flatMap_cons, List.flatMap_nil,
          List.append_nil]
        rw [← List.append_assoc, List.dropLast_concat]
      rw [hfile, scanLinesWith_std,
        rawLines_join_append init last (fun l hl => (h l (List.mem_append_left _ hl)).1),
        rawLines_tail last [] (h last (by simp)).1]
      have : last.isEmpty = false := by
        cases last with
        | nil => exact absurd rfl hne
        | cons a t => rfl
      simp only [List.reverse_nil, List.nil_append, this, Bool.false_eq_true, if_false]
      rw [List.map_congr_left (fun l hl => dropCR_id l (h l hl).2)]
      simp

end AcraModel.AuditLog

namespace AcraModel.AuditLog
open AcraModel Generated.AuditLog

theorem hexEnc_plain (b : Bytes) : ∀ x ∈ hexEnc b, plainByte x = true := by
  induction b with
  | nil => simp [hexEnc]
  | cons y r ih =>
    intro x hx
    have hy := y.toNat_lt
    simp only [hexEnc, List.flatMap_cons, List.mem_append, List.mem_cons, List.not_mem_nil, or_false] at hx
    rcases hx with (h | h) | h
    · rw [h]; exact hexNib_plain _ (by omega)
    · rw [h]; exact hexNib_plain _ (by omega)
    · exact ih x (by simpa [hexEnc] using h)

theorem plain_not_eol (x : UInt8) (h : plainByte x = true) : x ≠ 10 ∧ x ≠ 13 := by
  constructor <;> (intro e; subst e; revert h; decide)

/-- everything the hook appends to the formatter output is ordinary ASCII (no line feed, no carriage return) -/
theorem appended_plain (tag : Bytes) (new : Bool) : ∀ x ∈ splitTok ++ tagPart tag new, x ≠ 10 ∧ x ≠ 13 := by
  intro x hx
  rcases List.mem_append.mp hx with h | h
  · have : ∀ y ∈ splitTok, y ≠ 10 ∧ y ≠ 13 := by decide
    exact this x h
  · unfold tagPart at h
    rcases List.mem_append.mp h with h | h
    · exact plain_not_eol x (hexEnc_plain tag x h)
    · cases new with
      | true =>
        have : ∀ y ∈ newSuffix, y ≠ 10 ∧ y ≠ 13 := by decide
        exact this x h
      | false => simp at h

/-- a rendered line has no line feed if the formatter output has none, and never ends in a carriage return -/
theorem rendered_clean (formatted tag : Bytes) (new : Bool) (hf : ∀ x ∈ formatted, x ≠ 10) :
    (∀ x ∈ formatted ++ splitTok ++ tagPart tag new, x ≠ 10) ∧
      (formatted ++ splitTok ++ tagPart tag new).getLast? ≠ some 13 := by
  have hap := appended_plain tag new
  constructor
  · intro x hx
    rw [List.append_assoc] at hx
    rcases List.mem_append.mp hx with h | h
    · exact hf x h
    · exact (hap x h).1
  · rw [List.append_assoc]
    have hne : splitTok ++ tagPart tag new ≠ [] := by
      have htok : splitTok = 32 :: strB "integrity=" := by decide
      rw [htok]; simp
    rw [List.getLast?_append]
    intro h
    cases hl : (splitTok ++ tagPart tag new).getLast? with
    | none => exact hne (List.getLast?_eq_none_iff.mp hl)
    | some z =>
      rw [hl] at h
      have hz : z = 13 := by simpa [Option.or] using h
      subst hz
      exact (hap _ (List.mem_of_getLast? hl)).2 rfl

end AcraModel.AuditLog

namespace AcraModel.AuditLog
open AcraModel Generated.AuditLog

/-! ### a line cut inside its integrity value -/

/-- cutting at the last split token when what follows it contains no space (a piece of a hex string) -/
theorem cut_last_nospace (data t : Bytes) (ht : ∀ x ∈ t, x ≠ 32) :
    cut .last (data ++ splitTok ++ t) = some (data, t) := by
  have htok : splitTok = 32 :: strB "integrity=" := by decide
  have hl : lastIndexOf splitTok (splitTok ++ t).tail = none := by
    rw [htok, List.cons_append, List.tail_cons]
    have := lastIndexOf_skip 32 (strB "integrity=") (strB "integrity=" ++ t) [] (by
      intro x hx
      rcases List.mem_append.mp hx with h | h
      · have hc : ∀ y ∈ strB "integrity=", y ≠ 32 := by decide
        exact hc x h
      · exact ht x h) rfl
    simpa using this
  have := lastIndexOf_append_tok splitTok data t hl (by rw [htok]; simp)
  simp only [cut]
  rw [this]
  have e1 : (data ++ splitTok ++ t).take data.length = data := by simp [List.append_assoc]
  have e2 : (data ++ splitTok ++ t).drop (data.length + splitTok.length) = t := by
    rw [← List.length_append]
    exact List.drop_left
  simp only [Option.map_some, e1, e2]

theorem hasSuffix_new_nospace (t : Bytes) (ht : ∀ x ∈ t, x ≠ 32) : hasSuffix newSuffix t = false := by
  cases h : hasSuffix newSuffix t with
  | false => rfl
  | true =>
    exfalso
    unfold hasSuffix at h
    have hp := List.isPrefixOf_iff_prefix.mp h
    have h32 : (32 : UInt8) ∈ newSuffix.reverse := by decide
    have : (32 : UInt8) ∈ t.reverse := hp.subset h32
    exact ht 32 (List.mem_reverse.mp this) rfl

theorem hexDec_length : ∀ (n : Nat) (p t : Bytes), p.length ≤ n → hexDec p = some t → p.length = 2 * t.length := by
  intro n
  induction n with
  | zero =>
    intro p t hn h
    cases p with
    | nil => simp [hexDec] at h; subst h; rfl
    | cons _ _ => simp at hn
  | succ n ih =>
    intro p t hn h
    match p, h with
    | [], h => simp [hexDec] at h; subst h; rfl
    | [_], h => simp [hexDec] at h
    | a :: b :: r, h =>
      simp only [hexDec, bind, Option.bind] at h
      cases hx : nibVal a with
      | none => simp [hx] at h
      | some x =>
        cases hy : nibVal b with
        | none => simp [hx, hy] at h
        | some y =>
          cases hr : hexDec r with
          | none => simp [hx, hy, hr] at h
          | some t' =>
            simp [hx, hy, hr, pure] at h
            subst h
            have := ih r t' (by simp at hn; omega) hr
            simp [this]; omega

theorem hexEnc_length (b : Bytes) : (hexEnc b).length = 2 * b.length := by
  induction b with
  | nil => rfl
  | cons y r ih =>
    have e : hexEnc (y :: r) = hexNib (y.toNat / 16) :: hexNib (y.toNat % 16) :: hexEnc r := by
      simp [hexEnc]
    rw [e]; simp [ih]; omega

/-- what the plaintext parser makes of a line whose integrity part is a piece `p` of a hex string: a parse
error when `p` is not hex of even length, else an entry with the decoded (shorter) tag – never a skipped line -/
theorem parse_cut_tag (data p : Bytes) (hp : ∀ x ∈ p, x ≠ 32) :
    parseLine .last false (data ++ splitTok ++ p) =
      match hexDec p with
      | none => .bad
      | some t => .entry ⟨data, t, false, isEndData data⟩ := by
  unfold parseLine
  rw [rendered_nonempty, cut_last_nospace data p hp]
  simp only [Bool.false_eq_true, if_false, hasSuffix_new_nospace p hp]
  cases hexDec p <;> rfl

/-- such a line is clean (no line feed, no trailing carriage return) when the entry has no line feed -/
theorem cut_line_clean (data p : Bytes) (hd : ∀ x ∈ data, x ≠ 10) (hp : ∀ x ∈ p, plainByte x = true) :
    (∀ x ∈ data ++ splitTok ++ p, x ≠ 10) ∧ (data ++ splitTok ++ p).getLast? ≠ some 13 := by
  have htokp : ∀ y ∈ splitTok, y ≠ 10 ∧ y ≠ 13 := by decide
  have hap : ∀ x ∈ splitTok ++ p, x ≠ 10 ∧ x ≠ 13 := by
    intro x hx
    rcases List.mem_append.mp hx with h | h
    · exact htokp x h
    · exact plain_not_eol x (hp x h)
  constructor
  · intro x hx
    rw [List.append_assoc] at hx
    rcases List.mem_append.mp hx with h | h
    · exact hd x h
    · exact (hap x h).1
  · rw [List.append_assoc]
    have hne : splitTok ++ p ≠ [] := by
      have htok : splitTok = 32 :: strB "integrity=" := by decide
      rw [htok]; simp
    rw [List.getLast?_append]
    intro h
    cases hl : (splitTok ++ p).getLast? with
    | none => exact hne (List.getLast?_eq_none_iff.mp hl)
    | some z =>
      rw [hl] at h
      have hz : z = 13 := by simpa [Option.or] using h
      subst hz
      exact (hap _ (List.mem_of_getLast? hl)).2 rfl

end AcraModel.AuditLog
