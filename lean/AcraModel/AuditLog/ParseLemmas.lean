import AcraModel.AuditLog.Parse
/-!
Helper lemmas for the render/parse theorem of the plaintext audit-log line format.
-/
namespace AcraModel.AuditLog
open AcraModel Generated.AuditLog

/-! ### `lastIndexOf` -/

theorem lastIndexOf_append_tok (tok : Bytes) (a t : Bytes)
    (hlater : lastIndexOf tok (tok ++ t).tail = none) (hne : tok ≠ []) :
    lastIndexOf tok (a ++ tok ++ t) = some a.length := by
  induction a with
  | nil =>
    cases tok with
    | nil => exact absurd rfl hne
    | cons x tk =>
      simp only [List.nil_append, List.cons_append, List.tail_cons] at hlater ⊢
      simp [lastIndexOf, hlater]
  | cons y a ih =>
    simp only [List.cons_append, List.append_assoc] at ih ⊢
    simp [lastIndexOf, ih]

/-- a stretch of bytes that are not the token's first byte cannot host the start of an occurrence -/
theorem lastIndexOf_skip (sp : UInt8) (tk u v : Bytes) (hu : ∀ x ∈ u, x ≠ sp)
    (hv : lastIndexOf (sp :: tk) v = none) : lastIndexOf (sp :: tk) (u ++ v) = none := by
  induction u with
  | nil => simpa using hv
  | cons x u ih =>
    have hx : x ≠ sp := hu x (List.mem_cons_self)
    have := ih (fun y hy => hu y (List.mem_cons_of_mem _ hy))
    simp only [List.cons_append, lastIndexOf, this]
    have : (sp :: tk).isPrefixOf (x :: (u ++ v)) = false := by
      simp [List.isPrefixOf, Ne.symm hx]
    simp [this]

/-! ### hex -/

theorem hexNib_ne_space (n : Nat) (h : n < 16) : hexNib n ≠ 32 := by
  have : ∀ m : Fin 16, hexNib m.val ≠ 32 := by decide
  exact this ⟨n, h⟩

theorem nibVal_hexNib (n : Nat) (h : n < 16) : nibVal (hexNib n) = some n := by
  have : ∀ m : Fin 16, nibVal (hexNib m.val) = some m.val := by decide
  exact this ⟨n, h⟩

theorem hexEnc_ne_space (b : Bytes) : ∀ x ∈ hexEnc b, x ≠ 32 := by
  induction b with
  | nil => simp [hexEnc]
  | cons y r ih =>
    intro x hx
    simp only [hexEnc, List.flatMap_cons, List.mem_append, List.mem_cons, List.not_mem_nil, or_false] at hx
    have hy := y.toNat_lt
    rcases hx with (h | h) | h
    · rw [h]; exact hexNib_ne_space _ (by omega)
    · rw [h]; exact hexNib_ne_space _ (by omega)
    · exact ih x (by simpa [hexEnc] using h)

theorem hexDec_hexEnc (b : Bytes) : hexDec (hexEnc b) = some b := by
  induction b with
  | nil => rfl
  | cons y r ih =>
    have hy := y.toNat_lt
    have e : hexEnc (y :: r) = hexNib (y.toNat / 16) :: hexNib (y.toNat % 16) :: hexEnc r := by
      simp [hexEnc]
    rw [e]
    simp only [hexDec, nibVal_hexNib _ (show y.toNat / 16 < 16 by omega), nibVal_hexNib _ (show y.toNat % 16 < 16 by omega), ih]
    have : 16 * (y.toNat / 16) + y.toNat % 16 = y.toNat := by omega
    show some (UInt8.ofNat (16 * (y.toNat / 16) + y.toNat % 16) :: r) = some (y :: r)
    rw [this]
    simp

/-- a hex string does not end in the 10-byte marker ` chain=new` (whose last byte is `w`) -/
theorem hexEnc_not_new (b : Bytes) : hasSuffix newSuffix (hexEnc b) = false := by
  have hw : ∀ m : Fin 16, hexNib m.val ≠ 119 := by decide
  unfold hasSuffix
  have hrev : newSuffix.reverse = 119 :: (strB " chain=ne").reverse := by decide
  rw [hrev]
  cases h : (hexEnc b).reverse with
  | nil => simp [List.isPrefixOf]
  | cons x r =>
    have hx : x ∈ hexEnc b := by
      have : x ∈ (hexEnc b).reverse := by rw [h]; exact List.mem_cons_self
      simpa using this
    have hne : x ≠ 119 := by
      clear h
      induction b with
      | nil => simp [hexEnc] at hx
      | cons y t ih =>
        have hy := y.toNat_lt
        simp only [hexEnc, List.flatMap_cons, List.mem_append, List.mem_cons, List.not_mem_nil, or_false] at hx
        rcases hx with (h | h) | h
        · rw [h]; exact hw ⟨_, by omega⟩
        · rw [h]; exact hw ⟨_, by omega⟩
        · exact ih (by simpa [hexEnc] using h)
    simp [List.isPrefixOf, Ne.symm hne]

theorem hasSuffix_append (suf s : Bytes) : hasSuffix suf (s ++ suf) = true := by
  unfold hasSuffix
  simp [List.reverse_append, List.isPrefixOf_iff_prefix]

end AcraModel.AuditLog
