import AcraModel.AuditLog.Parse
/-!
Helper lemmas for the render/parse theorem of the plaintext audit-log line format.
-/
namespace AcraModel.AuditLog
open AcraModel Generated.AuditLog

/-! ### `lastIndexOf` -/

theorem lastIndexOf_append_tok (tok : Bytes) (a t : Bytes)
    (hlater : lastIndexOf tok (tok ++ t).tail = none) (hne : tok ≠ []) :
    lastIndexOf tok (a ++ tok ++ t) = some a.length := by
  induction a with
  | nil =>
    cases tok with
    | nil => exact absurd rfl hne
    | cons x tk =>
      simp only [List.nil_append, List.cons_append, List.tail_cons] at hlater ⊢
      simp [lastIndexOf, hlater]
  | cons y a ih =>
    simp only [List.cons_append, List.append_assoc] at ih ⊢
    simp [lastIndexOf, ih]

/-- a stretch of bytes that are not the token's first byte cannot host the start of an occurrence -/
theorem lastIndexOf_skip (sp : UInt8) (tk u v : Bytes) (hu : ∀ x ∈ u, x ≠ sp)
    (hv : lastIndexOf (sp :: tk) v = none) : lastIndexOf (sp :: tk) (u ++ v) = none := by
  induction u with
  | nil => simpa using hv
  | cons x u ih =>
    have hx : x ≠ sp := hu x (List.mem_cons_self)
    have := ih (fun y hy => hu y (List.mem_cons_of_mem _ hy))
    simp only [List.cons_append, lastIndexOf, this]
    have : (sp :: tk).isPrefixOf (x :: (u ++ v)) = false := by
      simp [List.isPrefixOf, Ne.symm hx]
    simp [this]

/-! ### hex -/

theorem hexNib_ne_space (n : Nat) (h : n < 16) : hexNib n ≠ 32 := by
  have : ∀ m : Fin 16, hexNib m.val ≠ 32 := by decide
  exact this ⟨n, h⟩

theorem nibVal_hexNib (n : Nat) (h : n < 16) : nibVal (hexNib n) = some n := by
  have : ∀ m : Fin 16, nibVal (hexNib m.val) = some m.val := by decide
  exact this ⟨n, h⟩

theorem hexEnc_ne_space (b : Bytes) : ∀ x ∈ hexEnc b, x ≠ 32 := by
  induction b with
  | nil => simp [hexEnc]
  | cons y r ih =>
    intro x hx
    simp only [hexEnc, List.flatMap_cons, List.mem_append, List.mem_cons, List.not_mem_nil, or_false] at hx
    have hy := y.toNat_lt
    rcases hx with (h | h) | h
    · rw [h]; exact hexNib_ne_space _ (by omega)
    · rw [h]; exact hexNib_ne_space _ (by omega)
    · exact ih x (by simpa [hexEnc] using h)

theorem hexDec_hexEnc (b : Bytes) : hexDec (hexEnc b) = some b := by
  induction b with
  | nil => rfl
  | cons y r ih =>
    have hy := y.toNat_lt
    have e : hexEnc (y :: r) = hexNib (y.toNat / 16) :: hexNib (y.toNat % 16) :: hexEnc r := by
      simp [hexEnc]
    rw [e]
    simp only [hexDec, nibVal_hexNib _ (show y.toNat / 16 < 16 by omega), nibVal_hexNib _ (show y.toNat % 16 < 16 by omega), ih]
    have : 16 * (y.toNat / 16) + y.toNat % 16 = y.toNat := by omega
    show some (UInt8.ofNat (16 * (y.toNat / 16) + y.toNat % 16) :: r) = some (y :: r)
    rw [this]
    simp

/-- a hex string does not end in the 10-byte marker ` chain=new` (whose last byte is `w`) -/
theorem hexEnc_not_new (b : Bytes) : hasSuffix newSuffix (hexEnc b) = false := by
  have hw : ∀ m : Fin 16, hexNib m.val ≠ 119 := by decide
  unfold hasSuffix
  have hrev : newSuffix.reverse = 119 :: (strB " chain=ne").reverse := by decide
  rw [hrev]
  cases h : (hexEnc b).reverse with
  | nil => simp [List.isPrefixOf]
  | cons x r =>
    have hx : x ∈ hexEnc b := by
      have : x ∈ (hexEnc b).reverse := by rw [h]; exact List.mem_cons_self
      simpa using this
    have hne : x ≠ 119 := by
      clear h
      induction b with
      | nil => simp [hexEnc] at hx
      | cons y t ih =>
        have hy := y.toNat_lt
        simp only [hexEnc, List.flatMap_cons, List.mem_append, List.mem_cons, List.not_mem_nil, or_false] at hx
        rcases hx with (h | h) | h
        · rw [h]; exact hw ⟨_, by omega⟩
        · rw [h]; exact hw ⟨_, by omega⟩
        · exact ih (by simpa [hexEnc] using h)
    simp [List.isPrefixOf, Ne.symm hne]

theorem hasSuffix_append (suf s : Bytes) : hasSuffix suf (s ++ suf) = true := by
  unfold hasSuffix
  simp [List.reverse_append, List.isPrefixOf_iff_prefix]

end AcraModel.AuditLog

namespace AcraModel.AuditLog
open AcraModel Generated.AuditLog

/-! ### `strings.TrimSpace` leaves a string alone whose first and last bytes are ordinary ASCII -/

/-- an ASCII byte that is not white space -/
def plainByte (x : UInt8) : Bool := !asciiSpace x && x.toNat < 128

def headHigh (u : Bytes) : Bool := match u with | h :: _ => decide (128 ≤ h.toNat) | [] => false

theorem headHigh_spec {u : Bytes} (h : headHigh u = true) : ∃ x t, u = x :: t ∧ 128 ≤ x.toNat := by
  cases u with
  | nil => simp [headHigh] at h
  | cons x t => exact ⟨x, t, rfl, by simpa [headHigh] using h⟩

theorem uni_heads : ∀ u ∈ uniSpaces, ∃ h t, u = h :: t ∧ 128 ≤ h.toNat := by
  have : ∀ u ∈ uniSpaces, headHigh u = true := by decide
  exact fun u hu => headHigh_spec (this u hu)

theorem uni_lasts : ∀ u ∈ uniSpaces, ∃ h t, u.reverse = h :: t ∧ 128 ≤ h.toNat := by
  have : ∀ u ∈ uniSpaces, headHigh u.reverse = true := by decide
  exact fun u hu => headHigh_spec (this u hu)

theorem find_uni_none (x : UInt8) (r : Bytes) (hx : x.toNat < 128) :
    (uniSpaces.find? fun u => u.isPrefixOf (x :: r)) = none := by
  rw [List.find?_eq_none]
  intro u hu
  obtain ⟨h, t, rfl, hh⟩ := uni_heads u hu
  have : h ≠ x := by intro e; subst e; omega
  simp [List.isPrefixOf, this]

theorem find_uni_rev_none (x : UInt8) (r : Bytes) (hx : x.toNat < 128) :
    (uniSpaces.find? fun u => u.reverse.isPrefixOf (x :: r)) = none := by
  rw [List.find?_eq_none]
  intro u hu
  obtain ⟨h, t, he, hh⟩ := uni_lasts u hu
  have : h ≠ x := by intro e; subst e; omega
  simp [he, List.isPrefixOf, this]

theorem trimLeft_plain (f : Nat) (x : UInt8) (r : Bytes) (hp : plainByte x = true) : trimLeft f (x :: r) = x :: r := by
  simp only [plainByte, Bool.and_eq_true, Bool.not_eq_true', decide_eq_true_eq] at hp
  cases f with
  | zero => rfl
  | succ f => simp [trimLeft, hp.1, find_uni_none x r hp.2]

theorem trimRight_plain (f : Nat) (s : Bytes) (x : UInt8) (r : Bytes) (hs : s.reverse = x :: r)
    (hp : plainByte x = true) : trimRight f s = s := by
  simp only [plainByte, Bool.and_eq_true, Bool.not_eq_true', decide_eq_true_eq] at hp
  unfold trimRight
  rw [hs]
  have hback : (x :: r).reverse = s := by rw [← hs, List.reverse_reverse]
  cases f with
  | zero => simpa [trimRight.go] using hback
  | succ f =>
    simp only [trimRight.go, hp.1, Bool.false_eq_true, if_false, find_uni_rev_none x r hp.2]
    exact hback

/-- a string that starts and ends with ordinary ASCII bytes is not changed by `TrimSpace` -/
theorem trimSpace_plain (s : Bytes) (x y : UInt8) (r r' : Bytes) (h1 : s = x :: r) (h2 : s.reverse = y :: r')
    (hx : plainByte x = true) (hy : plainByte y = true) : trimSpace s = s := by
  unfold trimSpace
  rw [h1, trimLeft_plain _ x r hx, ← h1]
  exact trimRight_plain _ s y r' h2 hy

theorem hexNib_plain (n : Nat) (h : n < 16) : plainByte (hexNib n) = true := by
  have : ∀ m : Fin 16, plainByte (hexNib m.val) = true := by decide
  exact this ⟨n, h⟩

end AcraModel.AuditLog

namespace AcraModel.AuditLog
open AcraModel Generated.AuditLog

/-- the part of a rendered line after the split token: hex tag, then ` chain=new` for a chain start -/
def tagPart (tag : Bytes) (new : Bool) : Bytes := hexEnc tag ++ (if new then newSuffix else [])

/-- the CEF parser's `TrimSpace` does not touch the tag part of a line the hook wrote (the tag is not empty) -/
theorem trimSpace_tagPart (tag : Bytes) (new : Bool) (hne : tag ≠ []) : trimSpace (tagPart tag new) = tagPart tag new := by
  cases tag with
  | nil => exact absurd rfl hne
  | cons y t =>
    have hy := y.toNat_lt
    have hhead : tagPart (y :: t) new = hexNib (y.toNat / 16) :: (hexNib (y.toNat % 16) :: hexEnc t ++ (if new then newSuffix else [])) := by
      simp [tagPart, hexEnc]
    -- the last byte
    have hlast : ∃ z r', (tagPart (y :: t) new).reverse = z :: r' ∧ plainByte z = true := by
      cases new with
      | true =>
        refine ⟨119, (strB " chain=ne").reverse ++ (hexEnc (y :: t)).reverse, ?_, by decide⟩
        have : newSuffix.reverse = 119 :: (strB " chain=ne").reverse := by decide
        simp [tagPart, List.reverse_append, this]
      | false =>
        rcases List.eq_nil_or_concat (y :: t) with h | ⟨init, l, h⟩
        · cases h
        · have hl := l.toNat_lt
          refine ⟨hexNib (l.toNat % 16), hexNib (l.toNat / 16) :: (hexEnc init).reverse, ?_, hexNib_plain _ (by omega)⟩
          rw [h]
          simp [tagPart, hexEnc, List.flatMap_append, List.reverse_append]
    obtain ⟨z, r', hz, hpz⟩ := hlast
    exact trimSpace_plain _ _ z _ r' hhead hz (hexNib_plain _ (by omega)) hpz

end AcraModel.AuditLog

namespace AcraModel.AuditLog
open AcraModel Generated.AuditLog

/-- cutting a rendered line at the LAST split token gives back the entry and the tag part, whatever
the entry contains -/
theorem cut_last_rendered (data tag : Bytes) (new : Bool) :
    cut .last (data ++ splitTok ++ tagPart tag new) = some (data, tagPart tag new) := by
  have htok : splitTok = 32 :: strB "integrity=" := by decide
  have hl : lastIndexOf splitTok (splitTok ++ tagPart tag new).tail = none := by
    unfold tagPart
    rw [htok, List.cons_append, List.tail_cons, ← List.append_assoc]
    apply lastIndexOf_skip
    · intro x hx
      rcases List.mem_append.mp hx with h | h
      · have hc : ∀ y ∈ strB "integrity=", y ≠ 32 := by decide
        exact hc x h
      · exact hexEnc_ne_space tag x h
    · cases new <;> decide
  have := lastIndexOf_append_tok splitTok data (tagPart tag new) hl (by rw [htok]; simp)
  simp only [cut]
  rw [this]
  have e1 : (data ++ splitTok ++ tagPart tag new).take data.length = data := by simp [List.append_assoc]
  have e2 : (data ++ splitTok ++ tagPart tag new).drop (data.length + splitTok.length) = tagPart tag new := by
    rw [← List.length_append]
    exact List.drop_left
  simp only [Option.map_some, e1, e2]

/-- what the parser does with the tag part: the marker and the tag come back -/
theorem tagPart_parse (tag : Bytes) (new : Bool) :
    hasSuffix newSuffix (tagPart tag new) = new ∧
      hexDec (if new then (tagPart tag new).take ((tagPart tag new).length - newSuffix.length) else tagPart tag new) = some tag := by
  have h10 : newSuffix.length = 10 := by decide
  cases new with
  | false => simp [tagPart, hexEnc_not_new, hexDec_hexEnc]
  | true => simp [tagPart, hasSuffix_append, hexDec_hexEnc, h10]

theorem rendered_nonempty (data t : Bytes) : (data ++ splitTok ++ t).isEmpty = false := by
  have htok : splitTok = 32 :: strB "integrity=" := by decide
  rw [htok]; simp

end AcraModel.AuditLog

namespace AcraModel.AuditLog
open AcraModel Generated.AuditLog

/-! ### the file reader gives back the lines that were written -/

theorem rawLines_line (l rest acc : Bytes) (hl : ∀ x ∈ l, x ≠ 10) :
    rawLines (l ++ 10 :: rest) acc = (acc.reverse ++ l) :: rawLines rest [] := by
  induction l generalizing acc with
  | nil => simp [rawLines]
  | cons x t ih =>
    have hx : x ≠ 10 := hl x List.mem_cons_self
    have := ih (x :: acc) (fun y hy => hl y (List.mem_cons_of_mem _ hy))
    simp only [List.cons_append]
    rw [rawLines]
    · rw [this]; simp
    · exact hx

/-- writing each line followed by `\n` and splitting again is the identity on lines without `\n` -/
theorem rawLines_join (ls : List Bytes) (h : ∀ l ∈ ls, ∀ x ∈ l, x ≠ 10) :
    rawLines (ls.flatMap fun l => l ++ [10]) [] = ls := by
  induction ls with
  | nil => rfl
  | cons l r ih =>
    simp only [List.flatMap_cons, List.append_assoc, List.singleton_append]
    rw [rawLines_line l _ [] (h l List.mem_cons_self), ih (fun m hm => h m (List.mem_cons_of_mem _ hm))]
    simp

theorem dropCR_id (l : Bytes) (h : l.getLast? ≠ some 13) : dropCR l = l := by
  unfold dropCR
  split
  · next r heq =>
    exfalso
    apply h
    rw [List.getLast?_eq_head?_reverse, heq]
    rfl
  · rfl

/-- **the reader (after the repair: no length limit) returns exactly the lines written**, provided no
line contains a line feed or ends in a carriage return -/
theorem scanLines_join (ls : List Bytes) (h : ∀ l ∈ ls, (∀ x ∈ l, x ≠ 10) ∧ l.getLast? ≠ some 13) :
    scanLinesWith "reader" (ls.flatMap fun l => l ++ [10]) = ls := by
  unfold scanLinesWith
  rw [rawLines_join ls (fun l hl => (h l hl).1)]
  simp only [show ("reader" = "scanner") = False by decide, if_false]
  rw [List.map_congr_left (fun l hl => dropCR_id l (h l hl).2)]
  simp

end AcraModel.AuditLog

namespace AcraModel.AuditLog
open AcraModel Generated.AuditLog

theorem hexEnc_plain (b : Bytes) : ∀ x ∈ hexEnc b, plainByte x = true := by
  induction b with
  | nil => simp [hexEnc]
  | cons y r ih =>
    intro x hx
    have hy := y.toNat_lt
    simp only [hexEnc, List.flatMap_cons, List.mem_append, List.mem_cons, List.not_mem_nil, or_false] at hx
    rcases hx with (h | h) | h
    · rw [h]; exact hexNib_plain _ (by omega)
    · rw [h]; exact hexNib_plain _ (by omega)
    · exact ih x (by simpa [hexEnc] using h)

theorem plain_not_eol (x : UInt8) (h : plainByte x = true) : x ≠ 10 ∧ x ≠ 13 := by
  constructor <;> (intro e; subst e; revert h; decide)

/-- everything the hook appends to the formatter output is ordinary ASCII (no line feed, no carriage return) -/
theorem appended_plain (tag : Bytes) (new : Bool) : ∀ x ∈ splitTok ++ tagPart tag new, x ≠ 10 ∧ x ≠ 13 := by
  intro x hx
  rcases List.mem_append.mp hx with h | h
  · have : ∀ y ∈ splitTok, y ≠ 10 ∧ y ≠ 13 := by decide
    exact this x h
  · unfold tagPart at h
    rcases List.mem_append.mp h with h | h
    · exact plain_not_eol x (hexEnc_plain tag x h)
    · cases new with
      | true =>
        have : ∀ y ∈ newSuffix, y ≠ 10 ∧ y ≠ 13 := by decide
        exact this x h
      | false => simp at h

/-- a rendered line has no line feed if the formatter output has none, and never ends in a carriage return -/
theorem rendered_clean (formatted tag : Bytes) (new : Bool) (hf : ∀ x ∈ formatted, x ≠ 10) :
    (∀ x ∈ formatted ++ splitTok ++ tagPart tag new, x ≠ 10) ∧
      (formatted ++ splitTok ++ tagPart tag new).getLast? ≠ some 13 := by
  have hap := appended_plain tag new
  constructor
  · intro x hx
    rw [List.append_assoc] at hx
    rcases List.mem_append.mp hx with h | h
    · exact hf x h
    · exact (hap x h).1
  · rw [List.append_assoc]
    have hne : splitTok ++ tagPart tag new ≠ [] := by
      have htok : splitTok = 32 :: strB "integrity=" := by decide
      rw [htok]; simp
    rw [List.getLast?_append]
    intro h
    cases hl : (splitTok ++ tagPart tag new).getLast? with
    | none => exact hne (List.getLast?_eq_none_iff.mp hl)
    | some z =>
      rw [hl] at h
      have hz : z = 13 := by simpa [Option.or] using h
      subst hz
      exact (hap _ (List.mem_of_getLast? hl)).2 rfl

end AcraModel.AuditLog
