import AcraModel.AuditLog.Chain
/-!
# Line level of the audit log (C20) – `logging/logging.go` (`appendIntegrity`, the PostFormat hooks,
`processLogFile`), `logging/log_entry_parser.go` (plaintext / CEF `ParseEntry`)

Byte-string functions model Go's `strings.Index/LastIndex/Split/Contains/HasSuffix/TrimSpace`,
`hex.EncodeToString/DecodeString` and `bufio.ScanLines` as far as these functions are used here.
How the parsers cut a line at the split token is a regenerated fact (`SplitMode`).
-/
namespace AcraModel.AuditLog
open AcraModel Generated.AuditLog

def strB (s : String) : Bytes := s.toList.map fun ch => UInt8.ofNat ch.toNat

def splitTok : Bytes := strB dataSplitToken
def newSuffix : Bytes := strB spaceDelimiter ++ strB newChainSuffix   -- " chain=new"
def endSuffix : Bytes := strB endChainSuffix                          -- "chain=end"
def endMsg : Bytes := strB endOfChainMessage

/-- `strings.Index` for a non-empty token -/
def indexOf (tok : Bytes) : Bytes → Option Nat
  | [] => none
  | x :: r => if tok.isPrefixOf (x :: r) then some 0 else (indexOf tok r).map (· + 1)

/-- `strings.LastIndex` for a non-empty token -/
def lastIndexOf (tok : Bytes) : Bytes → Option Nat
  | [] => none
  | x :: r =>
    match lastIndexOf tok r with
    | some i => some (i + 1)
    | none => if tok.isPrefixOf (x :: r) then some 0 else none

def containsB (tok s : Bytes) : Bool := (indexOf tok s).isSome

def hasSuffix (suf s : Bytes) : Bool := suf.reverse.isPrefixOf s.reverse

inductive SplitMode where
  /-- `parts := strings.Split(line, tok); if len(parts) != 2 { no integrity }` -/
  | split2
  /-- cut at `strings.LastIndex(line, tok)` -/
  | last
deriving DecidableEq, Repr

def SplitMode.ofString (s : String) : SplitMode := if s = "last" then .last else .split2

/-- the two parts around the split token, or `none` ("can't extract integrity part") -/
def cut (mode : SplitMode) (line : Bytes) : Option (Bytes × Bytes) :=
  match mode with
  | .last => (lastIndexOf splitTok line).map fun i => (line.take i, line.drop (i + splitTok.length))
  | .split2 =>
    match indexOf splitTok line with
    | none => none
    | some i =>
      let rest := line.drop (i + splitTok.length)
      -- `strings.Split` yields exactly two parts iff the token does not occur again in the rest
      if containsB splitTok rest then none else some (line.take i, rest)

/-! #### hex -/

def hexNib (n : Nat) : UInt8 := if n < 10 then UInt8.ofNat (48 + n) else UInt8.ofNat (87 + n)

/-- `hex.EncodeToString` -/
def hexEnc (b : Bytes) : Bytes := b.flatMap fun x => [hexNib (x.toNat / 16), hexNib (x.toNat % 16)]

def nibVal (c : UInt8) : Option Nat :=
  let n := c.toNat
  if 48 ≤ n ∧ n ≤ 57 then some (n - 48)
  else if 97 ≤ n ∧ n ≤ 102 then some (n - 87)
  else if 65 ≤ n ∧ n ≤ 70 then some (n - 55)
  else none

/-- `hex.DecodeString` (`none`: odd length or a non-hex character) -/
def hexDec : Bytes → Option Bytes
  | [] => some []
  | [_] => none
  | a :: b :: r => do
    let x ← nibVal a
    let y ← nibVal b
    let t ← hexDec r
    pure (UInt8.ofNat (16 * x + y) :: t)

/-! #### `strings.TrimSpace` (Unicode white space, as UTF-8 byte sequences) -/

def asciiSpace (b : UInt8) : Bool := b == 32 || (9 ≤ b.toNat && b.toNat ≤ 13)

/-- UTF-8 encodings of the non-ASCII runes with `unicode.IsSpace`: U+0085, U+00A0, U+1680,
U+2000–U+200A, U+2028, U+2029, U+202F, U+205F, U+3000 -/
def uniSpaces : List Bytes :=
  [[0xC2, 0x85], [0xC2, 0xA0], [0xE1, 0x9A, 0x80], [0xE2, 0x80, 0xA8], [0xE2, 0x80, 0xA9], [0xE2, 0x80, 0xAF],
   [0xE2, 0x81, 0x9F], [0xE3, 0x80, 0x80]] ++ (List.range 11).map fun i => [0xE2, 0x80, UInt8.ofNat (0x80 + i)]

/-- strip leading white space (fuel = length suffices: every round removes ≥ 1 byte) -/
def trimLeft : Nat → Bytes → Bytes
  | 0, s => s
  | f + 1, s =>
    match s with
    | [] => []
    | x :: r =>
      if asciiSpace x then trimLeft f r
      else match uniSpaces.find? fun u => u.isPrefixOf s with
        | some u => trimLeft f (s.drop u.length)
        | none => s

/-- trailing white space: Go decodes the LAST rune; a listed sequence counts only when it is not the
tail of a longer (4-byte) encoding, which cannot be since its lead byte is itself a rune start. -/
def trimRight (f : Nat) (s : Bytes) : Bytes :=
  let rec go : Nat → Bytes → Bytes
    | 0, r => r
    | f + 1, r =>
      match r with
      | [] => []
      | x :: t =>
        if asciiSpace x then go f t
        else match uniSpaces.find? fun u => u.reverse.isPrefixOf r with
          | some u => go f (r.drop u.length)
          | none => r
  (go f s.reverse).reverse

def trimSpace (s : Bytes) : Bytes := trimRight s.length (trimLeft s.length s)

/-! #### the parser -/

/-- is the end-of-chain marker recognised in the authenticated part (plaintext / CEF) -/
def isEndData (data : Bytes) : Bool := containsB endSuffix data && containsB endMsg data

/-- `PlaintextLogParser.ParseEntry` (`trim = false`) / `CefLogParser.ParseEntry` (`trim = true`) on one
line; an empty line is skipped by the verifier before parsing. -/
def parseLine (mode : SplitMode) (trim : Bool) (line : Bytes) : Line :=
  if line.isEmpty then .skip else
  match cut mode line with
  | none => .skip
  | some (data, rest) =>
    let rest := if trim then trimSpace rest else rest
    let isNew := hasSuffix newSuffix rest
    let rest := if isNew then rest.take (rest.length - newSuffix.length) else rest
    match hexDec rest with
    | none => .bad
    | some tag => .entry ⟨data, tag, isNew, isEndData data⟩

/-! #### the producer -/

/-- `appendIntegrity` on the formatter's output (already truncated by the hook) -/
def appendIntegrity (c : CryptoOps) (st : Calc) (formatted : Bytes) : Calc × Bytes :=
  let (st', tag, new) := st.step c formatted
  (st', formatted ++ splitTok ++ hexEnc tag ++ (if new then newSuffix else []))

/-- a log call at line level: the formatter output without its trailing `cut` bytes, and whether the
chain is restarted after the entry is written -/
structure LItem where
  formatted : Bytes
  resetAfter : Bool

/-- the lines (without the final `\n`) the plaintext / CEF hooks write -/
def produceLines (c : CryptoOps) (key : Bytes) (st : Calc) : List LItem → List Bytes
  | [] => []
  | it :: r =>
    let (st', line) := appendIntegrity c st it.formatted
    line :: produceLines c key (if it.resetAfter then Calc.new c key else st') r

/-! #### the file reader: line splitting as a specification (`bufio.ScanLines`) -/

def maxLine : Nat := 65536

def dropCR (l : Bytes) : Bytes :=
  match l.reverse with
  | 13 :: r => r.reverse
  | _ => l

/-- split at `\n` (a final unterminated line counts); `acc` is the current line reversed -/
def rawLines : Bytes → Bytes → List Bytes
  | [], acc => if acc.isEmpty then [] else [acc.reverse]
  | 10 :: r, acc => acc.reverse :: rawLines r []
  | x :: r, acc => rawLines r (x :: acc)

/-! #### `processLogFile` with a `bufio.Reader` (the code after the repair of the 64 KiB defect)

```go
for {
    line, readErr := reader.ReadString('\n')                     // "read"
    if readErr != nil && readErr != io.EOF { return readErr }     // "return-err"
    if len(line) > 0 { …TrimSuffix…; output <- entry }            // "deliver"
    if readErr == io.EOF { return nil }                           // "return-eof"
}
```
`ReadString` returns the bytes read so far TOGETHER with `io.EOF` when the file does not end in `\n`. The
ORDER of the statements of the loop is a regenerated fact (`readerLoop`) that the model interprets: a
`return-eof` (or `return-any-err`) standing before `deliver` drops the unterminated last line. -/

/-- the statements after `read` of one iteration, for the chunk `ReadString` returned and whether it came
with `io.EOF`: the chunks delivered, and whether the function returns. A file in memory has no read error
other than `io.EOF`, so `return-err` never fires. -/
def loopBody : List String → Bytes → Bool → List Bytes × Bool
  | [], _, _ => ([], false)
  | s :: r, chunk, eof =>
    if (s = "return-eof" ∨ s = "return-any-err") ∧ eof = true then ([], true)
    else
      let (d, stop) := loopBody r chunk eof
      if s = "deliver" ∧ chunk.isEmpty = false then (chunk :: d, stop) else (d, stop)

/-- the loop: `acc` holds (reversed) what `ReadString` has consumed of the current line. The result is the
list of RAW chunks (line terminator included) handed to the delivering branch. (`factgen` refuses a loop
without an `io.EOF` exit – Go would spin there; the model ends at the end of the file in any case.) -/
def readChunks (body : List String) : Bytes → Bytes → List Bytes
  | [], acc => (loopBody body acc.reverse true).1
  | x :: r, acc =>
    if x = 10 then
      let (d, stop) := loopBody body (10 :: acc).reverse false
      if stop then d else d ++ readChunks body r []
    else readChunks body r (x :: acc)

/-- `strings.TrimSuffix` -/
def trimSuffix (suf s : Bytes) : Bytes := if hasSuffix suf s then s.take (s.length - suf.length) else s

/-- the `TrimSuffix` calls of the delivering branch, in order -/
def trimLine (trims : List String) (chunk : Bytes) : Bytes := trims.foldl (fun l t => trimSuffix (strB t) l) chunk

/-- `processLogFile`: the lines handed to the verifier. With a `bufio.Scanner` the scan stops (its error is not
looked at) at the first line of `maxLine` bytes or more – that line and everything after it is never
delivered; with a `bufio.Reader` the loop above runs. Which one the code uses, the order of the loop's
statements and the trimmed suffixes are regenerated facts. -/
def scanLinesWith (reader : String) (body trims : List String) (file : Bytes) : List Bytes :=
  if reader = "scanner" then ((rawLines file []).takeWhile fun l => l.length < maxLine).map dropCR
  else (readChunks body file []).map (trimLine trims)

def scanLines (file : Bytes) : List Bytes := scanLinesWith lineReader readerLoop readerTrims file

/-- what `acra-log-verifier` computes from the BYTES of a log file: `ReadLogEntries` → `ParseEntry` on every
delivered line → `VerifyIntegrityCheck` -/
def verifyFile (c : CryptoOps) (key : Bytes) (parse : Bytes → Line) (file : Bytes) : Verdict :=
  verify c key ((scanLines file).map parse)

/-- several files in the order given on the command line: the entries of all files go through ONE channel
into ONE verifier run (line numbers restart per file; the model numbers the lines consecutively) -/
def verifyFiles (c : CryptoOps) (key : Bytes) (parse : Bytes → Line) (files : List Bytes) : Verdict :=
  verify c key ((files.flatMap scanLines).map parse)

/-- a log file made of the given lines: every line followed by `\n` (`term = true`, what the logger writes),
or the same without the final `\n` (an editor / a cut that leaves the last line unterminated) -/
def fileOf (ls : List Bytes) (term : Bool) : Bytes :=
  let f := ls.flatMap fun l => l ++ [10]
  if term then f else f.dropLast

end AcraModel.AuditLog
